(* props/C06x.v — C06 for create_job AS A WHOLE: one Coq function, one exception-family theorem.

   Model (theories/CreateJobFull.v):
     [pdef_of_mval]      a decoded Job{Int,Float,String,Path}ParameterDefinition instance -> the record
                         JobParams.pdef (the attribute reads of merging / preprocessing);
     [defs_of_template]  template.parameterDefinitions of a decoded JobTemplate / EnvironmentTemplate;
     [merge_definitions] merge_job_parameter_definitions (environment templates first, job template last,
                         grouped by name in order of first occurrence, Merge.merge per group, the
                         CompatibilityErrors of all groups collected);
     [preprocess_server] preprocess_job_parameters as create_job calls it (Path() for both directories,
                         walk-up allowed: Paths.server_value / Paths.server_default);
     [prep_full]         the try/except block of create_job: any ValueError -> DecodeValidationError;
     [create_job_full classify envs template vals]
                         prep_full, CreateJob.symtab_of, CreateJob.inst, CreateJob.coerce_job,
                         Export.nodes_ok:  Ok job | Raise DecodeValidationError | Raise e (e escapes);
     [create_job_docs]   the same from the RAW documents (Accept.decode_job / decode_env first).
   Vocabulary: DecodeValidationError is the one documented family of create_job (the ValueError of
   preprocess_job_parameters is translated into it by the code itself); RuntimeError is not a Python
   exception but the structural pydantic model's "outside the modelled domain" (Parse.unsupported).
   Proofs: theories/CreateJobFullProofs.v, theories/CreateJobNoRT.v.  Correspondence with the implementation: harness/c06full.py. *)
From Coq Require Import List NArith ZArith Bool String.
Import ListNotations.
Require Import OJD.Base OJD.Lexer OJD.Json OJD.Schema OJD.Generated OJD.Numerals OJD.FormatStr
               OJD.CreateJob OJD.CreateJobProofs OJD.Parse OJD.Validators OJD.Accept OJD.Export OJD.CreateExn
               OJD.JobParams OJD.Merge OJD.MergeSpec OJD.Paths OJD.NoMissingVar OJD.CreateJobNoRT
               OJD.CreateJobFull OJD.CreateJobFullProofs.
Local Open Scope string_scope.
Local Open Scope list_scope.

(* ------------------------------------------------------------------ reading the definitions is total *)

(* every job parameter definition of an ACCEPTED job template is read by [pdef_of_mval] (the composition
   adds no failure mode of its own); the default text of a numeric definition is the text of a number of
   its type; and the names are exactly those instantiate_model will look up as RawParam.<name> *)
Theorem C06_full_pdef_total : forall classify j t, decode_job classify j = Ok t ->
  exists ds, defs_of_template t = Ok ds /\ Forall wf_default ds /\
             adds_names Generated.schema t = map pname ds.
Proof. exact decode_job_defs. Qed.
Print Assumptions C06_full_pdef_total.

Theorem C06_full_pdef_total_env : forall classify j t, decode_env classify j = Ok t ->
  exists ds, defs_of_template t = Ok ds /\ Forall wf_default ds.
Proof. exact decode_env_defs. Qed.
Print Assumptions C06_full_pdef_total_env.

(* one definition object of either template kind (the discriminated union on "type") *)
Theorem C06_full_pdef_one : forall classify f item y,
  parse_kind Generated.schema classify pre_hook (post_hook classify) f params_kind item = Ok y ->
  exists d, pdef_of_mval y = Ok d /\ wf_default d /\ adds_names Generated.schema y = [pname d].
Proof. exact disc_param_pdef. Qed.
Print Assumptions C06_full_pdef_one.

(* ------------------------------------------------------------------ the stages *)

(* merging the definitions of all templates: CompatibilityError or nothing *)
Theorem C06_full_merge_exn : forall eds jd e,
  Forall (Forall wf_default) eds -> Forall wf_default jd ->
  merge_definitions eds jd = Raise e -> e = CompatibilityError.
Proof. exact merge_definitions_raise. Qed.
Print Assumptions C06_full_merge_exn.

(* ... and every definition's name has a merged definition *)
Theorem C06_full_merge_names : forall eds jd defs, merge_definitions eds jd = Ok defs ->
  forall d, In d (List.concat eds ++ jd) -> In (pname d) (map pname defs).
Proof. exact merge_definitions_names. Qed.
Print Assumptions C06_full_merge_names.

(* preprocessing in create_job's mode: ValueError or nothing, whatever the definitions and values *)
Theorem C06_full_preprocess_exn : forall defs vals e, preprocess_server defs vals = Raise e -> e = ValueError.
Proof. exact preprocess_server_raise. Qed.
Print Assumptions C06_full_preprocess_exn.

(* the whole try/except block: DecodeValidationError, or a value for every parameter of the job template
   (what instantiate_model needs in order not to raise KeyError) *)
Theorem C06_full_prep : forall classify j t envs vals,
  decode_job classify j = Ok t -> accepted_envs classify envs ->
  (forall e, prep_full envs t vals = Raise e -> e = DecodeValidationError) /\
  (forall pvals, prep_full envs t vals = Ok pvals ->
     forall n, In n (adds_names Generated.schema t) -> In n (map v_name pvals)).
Proof. exact prep_full_spec. Qed.
Print Assumptions C06_full_prep.

(* ------------------------------------------------------------------ create_job *)

(* [accepted_envs classify envs] : every element of envs is the result of decode_env on some document.

   THE THEOREM.  For every job template accepted by decode_job, all environment templates accepted by
   decode_env and EVERY list of caller values: whatever leaves create_job_full is DecodeValidationError.
   Never KeyError (missing RawParam.<n>), never FormatStringError (missing variable), never TypeError /
   AttributeError (reshape key), never CompatibilityError / ValueError (both translated by the code), and
   never the model's own RuntimeError marker ("outside the modelled pydantic domain" / fuel). *)
Theorem C06_full_exn : forall classify j t envs vals e,
  decode_job classify j = Ok t -> accepted_envs classify envs ->
  create_job_full classify envs t vals = Raise e -> e = DecodeValidationError.
Proof. exact create_job_full_exn_strict. Qed.
Print Assumptions C06_full_exn.

(* equivalently: a Job or DecodeValidationError *)
Theorem C06_full_total : forall classify j t envs vals,
  decode_job classify j = Ok t -> accepted_envs classify envs ->
  (exists job, create_job_full classify envs t vals = Ok job) \/
  create_job_full classify envs t vals = Raise DecodeValidationError.
Proof. exact create_job_full_total. Qed.
Print Assumptions C06_full_total.

(* the same from the raw documents: decode the job template, decode the environment templates, create *)
Theorem C06_full_docs_exn : forall classify env_docs doc vals e,
  create_job_docs classify env_docs doc vals = Ok (Raise e) -> e = DecodeValidationError.
Proof. exact create_job_docs_exn_strict. Qed.
Print Assumptions C06_full_docs_exn.

(* the step that was missing in props/C06.v ("NOT proved ... nodes_ok never returns RuntimeError"): the job-side
   re-validation of the instantiated tree of an accepted template stays inside the modelled domain, for ANY
   resolver and symbol table.  Proof (theories/CreateJobNoRT.v): decoded trees carry floats only below
   fields instantiate_model drops (userInterface), so the instantiated tree has none and its export has no
   non-integer number; the classes of its nodes form a set closed under "class of a field" without float
   and lax-bool fields ([safe_closed], checked on Generated.schema); the structural model answers
   "unsupported" nowhere else; and the tree is not deeper than the template, so the fuels suffice. *)
Theorem C06_full_revalidation_in_domain : forall classify j t resolve sigma job,
  decode_job classify j = Ok t ->
  inst Generated.schema resolve sigma (S (mval_depth t)) t = Ok job ->
  nodes_ok classify (S (S (S (mval_depth t)))) (coerce_job (S (mval_depth t)) job) <> Raise RuntimeError.
Proof. exact CreateJobNoRT.accepted_nodes_no_rt. Qed.
Print Assumptions C06_full_revalidation_in_domain.

(* ... which also settles the full statement left open in props/C06.v (C06_create_exn_full): with the
   IMPLEMENTATION's preprocessed values (harness/c06.py), nothing at all escapes from the verdict model *)
Theorem C06_create_exn_full : forall classify j t vals,
  decode_job classify j = Ok t -> NoMissingVar.covers (jget "parameterDefinitions" j) vals ->
  exists b, create_job_verdict classify vals t = Ok b.
Proof. exact accepted_verdict_total. Qed.
Print Assumptions C06_create_exn_full.

(* the weaker form with the provenance of the residue, kept because its proof does not use CreateJobNoRT *)
Theorem C06_full_exn_weak : forall classify j t envs vals e,
  decode_job classify j = Ok t -> accepted_envs classify envs ->
  create_job_full classify envs t vals = Raise e ->
  e = DecodeValidationError \/ (e = RuntimeError /\ revalidation_outside_domain classify envs t vals).
Proof. exact create_job_full_exn. Qed.
Print Assumptions C06_full_exn_weak.

(* create_job_full is the verdict model of props/C06.v (Export.create_job_verdict) applied to the values
   the MODEL preprocessed (harness/c06.py feeds it the implementation's) *)
Theorem C06_full_is_verdict : forall classify envs t vals,
  match prep_full envs t vals with
  | Ok pvals =>
    match create_job_verdict classify pvals t with
    | Ok true => exists job, create_job_full classify envs t vals = Ok job
    | Ok false => create_job_full classify envs t vals = Raise DecodeValidationError
    | Raise e => create_job_full classify envs t vals = Raise e
    end
  | Raise e => create_job_full classify envs t vals = Raise e
  end.
Proof. exact create_job_full_verdict. Qed.
Print Assumptions C06_full_is_verdict.

(* ------------------------------------------------------------------ non-vacuity *)
Definition js (x : string) : json := JStr (str_of_string x).
Definition jo (l : list (string * json)) : json := JObj (map (fun kv => (str_of_string (fst kv), snd kv)) l).
Definition vs (l : list (string * string)) : list (str * str) := map (fun kv => ($(fst kv), $(snd kv))) l.

(* INT, FLOAT, STRING and PATH parameters; the job name and a task parameter range refer to them *)
Definition xdoc : json :=
  jo [("specificationVersion", js "jobtemplate-2023-09");
      ("name", js "Job {{Param.Frames}} {{RawParam.Out}}");
      ("parameterDefinitions",
       JArr [jo [("name", js "Frames"); ("type", js "INT"); ("minValue", JInt 1); ("default", js "7")];
             jo [("name", js "Scale"); ("type", js "FLOAT"); ("maxValue", js "2.50"); ("allowedValues", JArr [JDec 15 (-1); JInt 2])];
             jo [("name", js "Tag"); ("type", js "STRING"); ("maxLength", JInt 5); ("default", js "ab")];
             jo [("name", js "Out"); ("type", js "PATH"); ("objectType", js "DIRECTORY"); ("dataFlow", js "OUT")]]);
      ("steps",
       JArr [jo [("name", js "A");
                 ("parameterSpace",
                  jo [("taskParameterDefinitions",
                       JArr [jo [("name", js "X"); ("type", js "INT"); ("range", js "1-{{Param.Frames}}")]])]);
                 ("script", jo [("actions", jo [("onRun", jo [("command", js "{{Param.Out}}")])])])]])].

(* an environment template that re-constrains Frames (maxValue 10) and adds a parameter of its own *)
Definition xenv (frames_max : Z) : json :=
  jo [("specificationVersion", js "environment-2023-09");
      ("parameterDefinitions",
       JArr [jo [("name", js "Frames"); ("type", js "INT"); ("maxValue", JInt frames_max)];
             jo [("name", js "Extra"); ("type", js "STRING"); ("default", js "e")]]);
      ("environment", jo [("name", js "E"); ("variables", jo [("A", js "b")])])].

(* the hypotheses are met, the four definitions are read, the merged + preprocessed values are as expected
   (the relative PATH value is normalised by Path() / v; Frames and Tag default; Extra comes from the
   environment template), and a Job is returned *)
Example C06_full_accepted_nonvacuous :
  exists t e,
    decode_job ascii_class xdoc = Ok t /\ decode_env ascii_class (xenv 10) = Ok e /\ accepted_envs ascii_class [e] /\
    (exists ds, defs_of_template t = Ok ds /\ map pname ds = [$"Frames"; $"Scale"; $"Tag"; $"Out"] /\
                map ptyp ds = [INT; FLOAT; STRING; PATH]) /\
    prep_full [e] t (vs [("Scale", "1.5"); ("Out", "a//b/./c")])
    = Ok [($"Frames", $"INT", $"7"); ($"Extra", $"STRING", $"e"); ($"Scale", $"FLOAT", $"1.5");
          ($"Tag", $"STRING", $"ab"); ($"Out", $"PATH", $"a/b/c")] /\
    is_ok (create_job_full ascii_class [e] t (vs [("Scale", "1.5"); ("Out", "a//b/./c")])) = true.
Proof.
  eexists. eexists. split; [vm_compute; reflexivity|]. split; [vm_compute; reflexivity|].
  split; [constructor; [exists (xenv 10); vm_compute; reflexivity|constructor]|].
  split; [eexists; split; [vm_compute; reflexivity|split; vm_compute; reflexivity]|].
  split; vm_compute; reflexivity.
Qed.

(* values refused, one case per way into DecodeValidationError:
     the merged definition refuses the value (11 > the environment template's maxValue 10);
     a value is missing (Scale has no default);  an unknown name is supplied;
     the definitions cannot be merged (environment maxValue 0 < job minValue 1);
     preprocessing succeeds but the instantiated Job is refused (the resolved range "1-0" is not a range) *)
Example C06_full_refused_nonvacuous :
  create_job_docs ascii_class [xenv 10] xdoc (vs [("Scale", "1.5"); ("Out", "a"); ("Frames", "11")]) = Ok (Raise DecodeValidationError) /\
  create_job_docs ascii_class [xenv 10] xdoc (vs [("Out", "a")]) = Ok (Raise DecodeValidationError) /\
  create_job_docs ascii_class [xenv 10] xdoc (vs [("Scale", "1.5"); ("Out", "a"); ("Nope", "1")]) = Ok (Raise DecodeValidationError) /\
  create_job_docs ascii_class [xenv 0] xdoc (vs [("Scale", "1.5"); ("Out", "a")]) = Ok (Raise DecodeValidationError) /\
  create_job_docs ascii_class [] (jo [("specificationVersion", js "jobtemplate-2023-09"); ("name", js "J");
      ("parameterDefinitions", JArr [jo [("name", js "N"); ("type", js "STRING")]]);
      ("steps", JArr [jo [("name", js "A");
                          ("parameterSpace", jo [("taskParameterDefinitions",
                             JArr [jo [("name", js "X"); ("type", js "INT"); ("range", js "1-{{Param.N}}")]])]);
                          ("script", jo [("actions", jo [("onRun", jo [("command", js "c")])])])]])])
    (vs [("N", "0")]) = Ok (Raise DecodeValidationError).
Proof. vm_compute. repeat split. Qed.

(* the merge stage on its own: two compatible groups and one conflicting group *)
Definition dI (mn mx : option Z) : pdef :=
  mkDef $"I" INT (option_map num_of_Z mn) (option_map num_of_Z mx) None None None None None None None.
Example C06_full_merge_nonvacuous :
  Forall (Forall wf_default) [[dI None (Some 10%Z)]] /\ Forall wf_default [dI (Some 1%Z) None] /\
  is_ok (merge_definitions [[dI None (Some 10%Z)]] [dI (Some 1%Z) None]) = true /\
  merge_definitions [[dI None (Some 0%Z)]] [dI (Some 1%Z) None] = Raise CompatibilityError.
Proof.
  assert (W : forall a b, wf_default (dI a b)) by (intros a b _ t E; discriminate E).
  split; [repeat constructor; apply W|]. split; [repeat constructor; apply W|].
  split; vm_compute; reflexivity.
Qed.
