(* props/C17xf.v — C17 "Serialisation is faithful and round-trips": the sentence

       model_to_object(M) ... reproduces the document M was decoded from up to numeric formatting — with every
       key under the name the schema gives it, '$schema' included

   as a theorem (until now a per-case verdict of the harness, function [equiv] of harness/c17.py).

   Definitions: ExportFaithful.v ([jequiv]: the relation "same document up to numeric formatting", written from
   the property text).  Lemmas: ExportFaithfulNum.v (numerals), ExportFaithfulProofs.v (the induction over the
   structural decoder), ExportFaithfulDec.v (the relation is decidable: [jequivb], the harness's function).
   Models: Parse.v / Validators.v / Export.v ([parse_any], [export]) as in C17.v, C17x.v.
   Everything for ALL documents / values / fuels / character tables.

     C17_int_coercion_lossless     a float accepted by a non-strict int field is the int stored for it
                                   (fix cb389b6: before it 1.5 was stored as 1)
     C17_int_text_is_decimal_text  a text int() reads as z, decimal.Decimal reads as z
     C17_int_print_decimal_text    Decimal(str(z)) = z
     C17_faithful_generic          any schema whose classes forbid unknown keys and have distinct names and
                                   aliases, any validators: decode v = Ok x -> jequiv v (export x)
     C17_live_schema_faithful_ok   ... which the live schema is
     C17_faithful                  THE STATEMENT: every class of the module as root (the two template roots, Job,
                                   and every class below them)
     C17_faithful_strong           the same without the distinct-member-names hypothesis
     C17_faithful_template_roots   the instance the property names
     C17_jequiv_sound / _complete / _refutes      jequiv is decided by jequivb
     C17_export_keys_distinct      the export of a document with distinct member names has distinct member names
     C17_faithful_decided          hence the function the harness runs returns true on (document, export) *)
From Coq Require Import List NArith ZArith Bool String.
Import ListNotations.
Require Import OJD.Base OJD.Lexer OJD.Json OJD.Schema OJD.Generated OJD.Numerals OJD.NumPrint OJD.CreateJob
               OJD.Parse OJD.Validators OJD.Accept OJD.Export OJD.DeepKeyOrder OJD.NumRoundtrip OJD.ExportProofs
               OJD.ExportFaithful OJD.ExportFaithfulNum OJD.ExportFaithfulProofs OJD.ExportFaithfulDec
               OJD.ExportFaithfulKeys.
Local Open Scope string_scope.
Local Open Scope list_scope.

(* ------------------------------------------------------------------ numerals *)

(* [dec_integral m e]: the number m * 10^e has no fractional part — the only floats a non-strict int field takes;
   [trunc_dec m e] is the int it stores (int(float)) *)
Theorem C17_int_coercion_lossless : forall m e,
  dec_integral m e = true -> num_eqb (mkNum m e) (num_of_Z (trunc_dec m e)) = true.
Proof. exact trunc_dec_same_value. Qed.
Print Assumptions C17_int_coercion_lossless.

(* white space around, a sign, single underscores between digits: all of int()'s syntax is Decimal() syntax *)
Theorem C17_int_text_is_decimal_text : forall s z, parse_int s = Some z -> parse_dec s = Some (Fin z 0).
Proof. exact parse_int_parse_dec. Qed.
Print Assumptions C17_int_text_is_decimal_text.

Theorem C17_int_print_decimal_text : forall z, parse_dec (print_Z z) = Some (Fin z 0).
Proof. exact parse_dec_print_Z. Qed.
Print Assumptions C17_int_print_decimal_text.

(* ------------------------------------------------------------------ the generic statement *)

(* [faithful_schema_ok SC] (computable): every class of SC forbids unknown keys (extra = forbid) and has pairwise
   distinct attribute names and pairwise distinct input names.  pre / post are ANY validators (they only ever
   reject); [exp SC x] is [to_object] with the canonical fuel (C17_exp_is_to_object in C17.v). *)
Theorem C17_faithful_generic : forall SC classify pre post,
  faithful_schema_ok SC = true ->
  forall f,
    (forall k v x, parse_kind SC classify pre post f k v = Ok x -> jequiv v (exp SC x))
    /\ (forall c v x, parse_cls SC classify pre post f c v = Ok x -> jequiv v (exp SC x)).
Proof. exact faithful_generic. Qed.
Print Assumptions C17_faithful_generic.

Theorem C17_live_schema_faithful_ok : faithful_schema_ok Generated.schema = true.
Proof. exact generated_faithful_ok. Qed.
Print Assumptions C17_live_schema_faithful_ok.

(* ------------------------------------------------------------------ THE STATEMENT *)

(* [keys_ok j]: member names distinct at every level — what a parsed JSON / YAML mapping is.  [root] is any class
   of the module: "JobTemplate", "EnvironmentTemplate", "Job" (parse_model (model=Job)), or any class below. *)
Theorem C17_faithful : forall classify root j v,
  keys_ok j = true ->
  parse_any classify root j = Ok v ->
  jequiv j (export v).
Proof. exact (fun classify root j v _ H => faithful_any classify root j v H). Qed.
Print Assumptions C17_faithful.

(* the hypothesis on member names is not needed: [jequiv] reads a mapping through the first member of a name,
   as the decoder does *)
Theorem C17_faithful_strong : forall classify root j v,
  parse_any classify root j = Ok v -> jequiv j (export v).
Proof. exact faithful_any. Qed.
Print Assumptions C17_faithful_strong.

Theorem C17_faithful_template_roots : forall classify root j v,
  In root ["JobTemplate"; "EnvironmentTemplate"] ->
  keys_ok j = true ->
  parse_any classify root j = Ok v ->
  jequiv j (export v).
Proof. exact (fun classify root j v _ _ H => faithful_any classify root j v H). Qed.
Print Assumptions C17_faithful_template_roots.

(* ------------------------------------------------------------------ the relation is decidable *)

Theorem C17_jequiv_sound : forall a b, jequivb a b = true -> jequiv a b.
Proof. exact jequivb_sound. Qed.
Print Assumptions C17_jequiv_sound.

Theorem C17_jequiv_complete : forall a b,
  keys_ok a = true -> keys_ok b = true -> jequiv a b -> jequivb a b = true.
Proof. exact jequivb_complete. Qed.
Print Assumptions C17_jequiv_complete.

Theorem C17_jequiv_refutes : forall a b,
  keys_ok a = true -> keys_ok b = true -> jequivb a b = false -> ~ jequiv a b.
Proof. exact jequivb_false. Qed.
Print Assumptions C17_jequiv_refutes.

(* ------------------------------------------------------------------ what the harness computes *)

Theorem C17_export_keys_distinct : forall classify root j v,
  keys_ok j = true -> parse_any classify root j = Ok v -> keys_ok (export v) = true.
Proof. exact export_keys_ok_live. Qed.
Print Assumptions C17_export_keys_distinct.

(* [jequivb] (ExportFaithful.v) is the harness's function [equiv]; extracted in extract/ExtractFaithful.v *)
Theorem C17_faithful_decided : forall classify root j v,
  keys_ok j = true -> parse_any classify root j = Ok v -> jequivb j (export v) = true.
Proof. exact faithful_decided. Qed.
Print Assumptions C17_faithful_decided.

(* ================================================================== non-vacuity *)

(* a job template that uses the coercions: a non-strict int given as 30.0 (timeout) and as text
   (notifyPeriodInSeconds, an INT default), as a bool (decimals); a float given as an int (singleStepDelta); a
   Decimal given as a float (maxValue); a string field given as an int, under an aliased key ($schema); an
   explicit null (description) *)
Definition exf_run : json :=
  JObj [($"command", JStr $"echo"); ($"args", JArr [JStr $"{{Param.N}}"]); ($"timeout", JDec 300 (-1));
        ($"cancelation", JObj [($"mode", JStr $"NOTIFY_THEN_TERMINATE"); ($"notifyPeriodInSeconds", JStr $" 4_5 ")])].
Definition exf_doc : json :=
  JObj [($"specificationVersion", JStr $"jobtemplate-2023-09");
        ($"$schema", JInt 12);
        ($"name", JStr $"job {{Param.N}}");
        ($"description", JNull);
        ($"parameterDefinitions",
         JArr [JObj [($"name", JStr $"N"); ($"type", JStr $"INT"); ($"default", JStr $"5"); ($"minValue", JInt 1)];
               JObj [($"name", JStr $"F"); ($"type", JStr $"FLOAT"); ($"maxValue", JDec 25 (-1));
                     ($"userInterface", JObj [($"control", JStr $"SPIN_BOX"); ($"decimals", JBool true);
                                              ($"singleStepDelta", JInt 2)])]]);
        ($"steps", JArr [JObj [($"name", JStr $"s1"); ($"script", JObj [($"actions", JObj [($"onRun", exf_run)])])]])].

(* what comes back: 30, 45, 5, 1, 2.0 (a float), "2.5", "12"; no description *)
Definition exf_run_out : json :=
  JObj [($"command", JStr $"echo"); ($"args", JArr [JStr $"{{Param.N}}"]); ($"timeout", JInt 30);
        ($"cancelation", JObj [($"mode", JStr $"NOTIFY_THEN_TERMINATE"); ($"notifyPeriodInSeconds", JInt 45)])].

Example C17_faithful_nonvacuous :
  keys_ok exf_doc = true
  /\ exists v,
      parse_any ascii_class "JobTemplate" exf_doc = Ok v
      /\ export v <> exf_doc
      /\ jget "$schema" (export v) = JStr $"12"
      /\ jget "description" (export v) = JNull
      /\ jget "steps" (export v)
         = JArr [JObj [($"name", JStr $"s1"); ($"script", JObj [($"actions", JObj [($"onRun", exf_run_out)])])]]
      /\ jequivb exf_doc (export v) = true
      /\ jequiv exf_doc (export v).
Proof.
  split; [vm_compute; reflexivity|].
  destruct (parse_any ascii_class "JobTemplate" exf_doc) as [v|] eqn:E; [|vm_compute in E; discriminate].
  exists v. split; [reflexivity|].
  assert (Hj : jequiv exf_doc (export v)) by (eapply C17_faithful; [vm_compute; reflexivity|exact E]).
  vm_compute in E. inversion E. subst v. clear E.
  split; [vm_compute; discriminate|].
  split; [vm_compute; reflexivity|]. split; [vm_compute; reflexivity|]. split; [vm_compute; reflexivity|].
  split; [vm_compute; reflexivity|exact Hj].
Qed.

(* a bool where a string is expected: stored, and exported, as Python's str(True) *)
Definition exf_doc_b : json :=
  JObj [($"specificationVersion", JStr $"jobtemplate-2023-09");
        ($"$schema", JBool true);
        ($"name", JStr $"job");
        ($"steps", JArr [JObj [($"name", JStr $"s1");
                               ($"script", JObj [($"actions", JObj [($"onRun", JObj [($"command", JStr $"echo")])])])]])].

Example C17_faithful_bool_as_text :
  keys_ok exf_doc_b = true
  /\ exists v,
      parse_any ascii_class "JobTemplate" exf_doc_b = Ok v
      /\ export v <> exf_doc_b
      /\ jget "$schema" (export v) = JStr $"True"
      /\ jequiv exf_doc_b (export v).
Proof.
  split; [vm_compute; reflexivity|].
  destruct (parse_any ascii_class "JobTemplate" exf_doc_b) as [v|] eqn:E; [|vm_compute in E; discriminate].
  exists v. split; [reflexivity|].
  assert (Hj : jequiv exf_doc_b (export v)) by (eapply C17_faithful; [vm_compute; reflexivity|exact E]).
  vm_compute in E. inversion E. subst v. clear E.
  split; [vm_compute; discriminate|]. split; [vm_compute; reflexivity|exact Hj].
Qed.

(* an environment template: a dictionary (variables), a null member, a lax int given as a float *)
Definition exf_env : json :=
  JObj [($"specificationVersion", JStr $"environment-2023-09");
        ($"parameterDefinitions", JArr [JObj [($"name", JStr $"Out"); ($"type", JStr $"PATH"); ($"description", JNull)]]);
        ($"environment",
         JObj [($"name", JStr $"E");
               ($"variables", JObj [($"A", JStr $"{{Param.Out}}"); ($"B", JStr $"2")]);
               ($"script",
                JObj [($"actions", JObj [($"onEnter", JObj [($"command", JStr $"x"); ($"timeout", JDec 300 (-1))])])])])].

Example C17_faithful_env_nonvacuous :
  keys_ok exf_env = true
  /\ exists v,
      parse_any ascii_class "EnvironmentTemplate" exf_env = Ok v
      /\ export v <> exf_env
      /\ jequivb exf_env (export v) = true
      /\ jequiv exf_env (export v).
Proof.
  split; [vm_compute; reflexivity|].
  destruct (parse_any ascii_class "EnvironmentTemplate" exf_env) as [v|] eqn:E; [|vm_compute in E; discriminate].
  exists v. split; [reflexivity|].
  assert (Hj : jequiv exf_env (export v))
    by (eapply C17_faithful_template_roots; [right; left; reflexivity|vm_compute; reflexivity|exact E]).
  vm_compute in E. inversion E. subst v. clear E.
  split; [vm_compute; discriminate|]. split; [vm_compute; reflexivity|exact Hj].
Qed.

(* a Job document (parse_model (model=Job)): an empty mapping stays a mapping, a Decimal given as an int is
   exported as text *)
Definition exf_job : json :=
  JObj [($"name", JStr $"job");
        ($"steps", JArr [JObj [($"name", JStr $"s1");
                               ($"script", JObj [($"actions", JObj [($"onRun", JObj [($"command", JStr $"echo"); ($"timeout", JStr $"30")])])]);
                               ($"hostRequirements",
                                JObj [($"amounts", JArr [JObj [($"name", JStr $"amount.worker.vcpu"); ($"min", JInt 2)]])])]]);
        ($"parameters", JObj [])].

Example C17_faithful_job_nonvacuous :
  keys_ok exf_job = true
  /\ exists v,
      parse_any ascii_class "Job" exf_job = Ok v
      /\ export v <> exf_job
      /\ jget "parameters" (export v) = JObj []
      /\ jequiv exf_job (export v).
Proof.
  split; [vm_compute; reflexivity|].
  destruct (parse_any ascii_class "Job" exf_job) as [v|] eqn:E; [|vm_compute in E; discriminate].
  exists v. split; [reflexivity|].
  assert (Hj : jequiv exf_job (export v)) by (eapply C17_faithful; [vm_compute; reflexivity|exact E]).
  vm_compute in E. inversion E. subst v. clear E.
  split; [vm_compute; discriminate|]. split; [vm_compute; reflexivity|exact Hj].
Qed.

Example C17_faithful_generic_nonvacuous : faithful_schema_ok Generated.schema = true /\ List.length Generated.schema = 41.
Proof. split; vm_compute; reflexivity. Qed.

(* ------------------------------------------------------------------ the relation tells things apart *)

(* what it identifies ... *)
Example C17_jequiv_identifies :
  jequiv (JInt 5) (JDec 50 (-1)) /\ jequiv (JStr $"5.0") (JInt 5) /\ jequiv (JStr $" 1_0 ") (JStr $"1E+1")
  /\ jequiv (JBool true) (JInt 1) /\ jequiv (JBool false) (JStr $"False")
  /\ jequiv (JObj [($"a", JNull); ($"b", JInt 1)]) (JObj [($"b", JDec 10 (-1))])
  /\ jequiv (JObj [($"a", JInt 1); ($"b", JInt 2)]) (JObj [($"b", JInt 2); ($"a", JInt 1)]).
Proof. repeat split; apply C17_jequiv_sound; vm_compute; reflexivity. Qed.

(* ... and what it does not: each line is a defect this theorem would have failed on.
   (1) fix cb389b6: 'timeout: 1.5' came back as 1;  (2) fix c014c55: '$schema' came back as 'schemaStr';
   (3) fix 876c663: 'variables: [["A","b"]]' came back as {"A": "b"};  also: True is not "1", null is not 0,
   a dropped member, an extra member, a reordered list *)
Example C17_jequiv_distinguishes :
  ~ jequiv (JObj [($"timeout", JDec 15 (-1))]) (JObj [($"timeout", JInt 1)])
  /\ ~ jequiv (JObj [($"$schema", JStr $"x")]) (JObj [($"schemaStr", JStr $"x")])
  /\ ~ jequiv (JObj [($"variables", JArr [JArr [JStr $"A"; JStr $"b"]])]) (JObj [($"variables", JObj [($"A", JStr $"b")])])
  /\ ~ jequiv (JBool true) (JStr $"1")
  /\ ~ jequiv JNull (JInt 0)
  /\ ~ jequiv (JObj [($"a", JInt 1); ($"b", JInt 2)]) (JObj [($"a", JInt 1)])
  /\ ~ jequiv (JObj [($"a", JInt 1)]) (JObj [($"a", JInt 1); ($"b", JInt 2)])
  /\ ~ jequiv (JArr [JInt 1; JInt 2]) (JArr [JInt 2; JInt 1])
  /\ ~ jequiv (JArr []) (JObj [])
  /\ ~ jequiv (JStr $"abc") (JStr $"abd").
Proof. repeat split; apply C17_jequiv_refutes; vm_compute; reflexivity. Qed.

(* the side condition of C17_jequiv_complete is needed, and is met by the examples above *)
Example C17_jequiv_complete_nonvacuous :
  keys_ok exf_doc = true
  /\ keys_ok (JObj [($"a", JInt 1); ($"a", JInt 2)]) = false
  /\ jequiv (JObj [($"a", JInt 1); ($"a", JInt 2)]) (JObj [($"a", JInt 1)])
  /\ jequivb (JObj [($"a", JInt 1); ($"a", JInt 2)]) (JObj [($"a", JInt 1)]) = false.
Proof.
  split; [vm_compute; reflexivity|]. split; [vm_compute; reflexivity|]. split; [|vm_compute; reflexivity].
  apply JE_obj.
  - intros k. unfold jlook. cbn [assoc]. destruct (str_eqb k $"a"); split; intros H; try discriminate H; reflexivity.
  - intros k v v' Hv Hv'. unfold jlook in Hv, Hv'. cbn [assoc] in Hv, Hv'. destruct (str_eqb k $"a"); [|discriminate Hv].
    inversion Hv. inversion Hv'. subst. apply C17_jequiv_sound. vm_compute. reflexivity.
Qed.

Example C17_int_coercion_lossless_nonvacuous :
  dec_integral 300 (-1) = true /\ trunc_dec 300 (-1) = 30%Z /\ dec_integral 15 (-1) = false
  /\ dec_integral 3 2 = true /\ trunc_dec 3 2 = 300%Z.
Proof. vm_compute. repeat split. Qed.

Example C17_int_text_is_decimal_text_nonvacuous :
  parse_int $" -1_000 " = Some (-1000)%Z /\ parse_dec $" -1_000 " = Some (Fin (-1000) 0)
  /\ parse_int $"1.0" = None /\ parse_dec $"1.0" = Some (Fin 10 (-1)).
Proof. vm_compute. repeat split. Qed.
