(* props/C17x.v — C17 "Serialisation is faithful and round-trips": the round trip for EVERY class of the module,
   the two template roots and Job included (to be merged into C17.v; it replaces C17_roundtrip_partial there).

   Lemmas: ExportView.v (what the reference specification of C03 reads of a document is kept by the re-export),
   ExportRoots.v (the hypothesis [prevalidate_stable] of C17_roundtrip_partial, discharged), ExportJob.v (Job and
   the classes below it: the ordered union of two model classes, the pre-validators that re-parse the raw object
   as the template class).  Everything for ALL documents / values / fuels / character tables.

     C17_prevalidate_stable        the reference walk reports nothing on the re-export of an accepted root
     C17_spec_job_stable,
     C17_spec_env_stable           ... because C03's specification is stable under  j |-> export (decode j)
     C17_decimal_text_no_refs      ... and the text of a Decimal never holds a reference
     C17_roundtrip_templates       decode (export M) = M for JobTemplate and EnvironmentTemplate: no hypothesis
     C17_union_same_alternative    the first alternative of RangeList | RangeExpression rejects the export of the second
     C17_requirement_same_export   job-side and template-side parse of one requirement object export alike
     C17_roundtrip_job             parse_model (Job, export J) = J for every decoded Job: no hypothesis
     C17_roundtrip                 the full statement: every root class of the module *)
From Coq Require Import List NArith ZArith Bool String.
Import ListNotations.
Require Import OJD.Base OJD.Lexer OJD.Json OJD.Schema OJD.Generated OJD.Numerals OJD.NumPrint OJD.CreateJob
               OJD.Parse OJD.Validators OJD.Accept OJD.Export OJD.FsRefs OJD.ScopeWalk OJD.ScopeSpec
               OJD.NumRoundtrip OJD.ExportProofs OJD.ExportView OJD.ExportRoots OJD.ExportJob.
Local Open Scope string_scope.
Local Open Scope list_scope.

(* ------------------------------------------------------------------ (A) the template roots *)

(* C03's document-level specification (= the reference walk, C03_exact_job) reports nothing on the re-export
   of a decoded job template when it reported nothing on the source.  [refs] is any format-string front end
   that reads no reference off the text of a Decimal; pre / post are any validators. *)
Theorem C17_spec_job_stable : forall classify pre post refs,
  (forall m e, quiet refs (print_dec m e)) ->
  forall f v x,
    parse_cls Generated.schema classify pre post f "JobTemplate" v = Ok x ->
    spec_job_template refs v = [] ->
    spec_job_template refs (exp Generated.schema x) = [].
Proof. exact spec_job_stable. Qed.
Print Assumptions C17_spec_job_stable.

(* for environment templates the specification's whole report is the same on both documents *)
Theorem C17_spec_env_stable : forall classify pre post refs f v x,
  parse_cls Generated.schema classify pre post f "EnvironmentTemplate" v = Ok x ->
  spec_env_template refs (exp Generated.schema x) = spec_env_template refs v.
Proof. exact spec_env_stable. Qed.
Print Assumptions C17_spec_env_stable.

(* str(Decimal) is made of digits and "-.E+": FormatString(str(d)).expressions is empty, for every lexer table *)
Theorem C17_decimal_text_no_refs : forall classify m e, fs_refs classify (print_dec m e) = Some [].
Proof. intros classify m e. apply okc_no_refs. apply print_dec_okc. Qed.
Print Assumptions C17_decimal_text_no_refs.

(* the hypothesis of C17_roundtrip_partial holds (its definition: C17_prevalidate_stable_def in C17.v) *)
Theorem C17_prevalidate_stable : forall classify, prevalidate_stable classify.
Proof. exact prevalidate_stable_holds. Qed.
Print Assumptions C17_prevalidate_stable.

Theorem C17_roundtrip_templates : forall classify root j v,
  In root ["JobTemplate"; "EnvironmentTemplate"] ->
  parse_any classify root j = Ok v ->
  snd (roundtrip classify root v) = true.
Proof. exact roundtrip_template_roots. Qed.
Print Assumptions C17_roundtrip_templates.

(* ------------------------------------------------------------------ (B) Job *)

(* (i) StepParameterSpace.taskParameterDefinitions : RangeList... | RangeExpression... (ordered).  The export of
   an instance of the SECOND class is rejected by the FIRST with a validation error (never "out of the model's
   domain"), whatever the pre-validators: the re-parse falls through to the alternative that produced it. *)
Theorem C17_union_same_alternative : forall classify pre1 pre2 post g v x,
  parse_cls Generated.schema classify pre1 post g "RangeExpressionTaskParameterDefinition" v = Ok x ->
  exists e, parse_cls Generated.schema classify pre2 post g "RangeListTaskParameterDefinition" (exp Generated.schema x)
            = Raise e /\ e <> RuntimeError.
Proof. exact rl_rejects_re. Qed.
Print Assumptions C17_union_same_alternative.

(* (ii) the object a job-side requirement class accepted, parsed as its template class (what its pre-validator
   does), exports to the same document *)
Theorem C17_requirement_same_export : forall classify pre post f g v x xt,
  (parse_cls Generated.schema classify pre post f "AmountRequirement" v = Ok x ->
   parse_cls Generated.schema classify pre_hook (post_hook classify) g "AmountRequirementTemplate" v = Ok xt ->
   exp Generated.schema x = exp Generated.schema xt)
  /\ (parse_cls Generated.schema classify pre post f "AttributeRequirement" v = Ok x ->
      parse_cls Generated.schema classify pre_hook (post_hook classify) g "AttributeRequirementTemplate" v = Ok xt ->
      exp Generated.schema x = exp Generated.schema xt).
Proof.
  intros classify pre post f g v x xt. split; [apply amount_same_export|apply attribute_same_export].
Qed.
Print Assumptions C17_requirement_same_export.

Theorem C17_roundtrip_job : forall classify j v,
  parse_any classify "Job" j = Ok v -> snd (roundtrip classify "Job" v) = true.
Proof. exact roundtrip_job. Qed.
Print Assumptions C17_roundtrip_job.

(* ------------------------------------------------------------------ the full statement *)

(* every class of the live schema is a template class or one of the classes a Job is made of *)
Lemma all_classes_covered :
  forallb (fun c => mem_s c template_classes || mem_s c job_classes) (map fst Generated.schema) = true.
Proof. vm_compute. reflexivity. Qed.

(* decode (export x) = x as the function [roundtrip] computes it, for parse_model with ANY model class *)
Theorem C17_roundtrip : forall classify root j v,
  parse_any classify root j = Ok v -> snd (roundtrip classify root v) = true.
Proof.
  intros classify root j v Hp.
  assert (Hin : In root (map fst Generated.schema)).
  { unfold parse_any in Hp.
    destruct (parse_cls_inv _ _ _ _ _ _ _ _ Hp) as [f' [k [ms [vals [_ [Hl _]]]]]].
    apply lookup_cls_in in Hl. apply (in_map fst) in Hl. exact Hl. }
  pose proof all_classes_covered as H. rewrite forallb_forall in H. specialize (H root Hin).
  apply Bool.orb_true_iff in H. destruct H as [H|H]; apply mem_s_In in H.
  - eapply roundtrip_all_templates; eassumption.
  - eapply roundtrip_job_classes; eassumption.
Qed.
Print Assumptions C17_roundtrip.

(* ================================================================== non-vacuity *)

(* a job template using the coercions the reference sites can meet: an INT range item given as text, FLOAT range
   items given as a float and an int (exported as Decimal text), a PATH parameter referenced inside a script, a
   null member, variables, embedded files, host requirements *)
Definition exx_run : json :=
  JObj [($"command", JStr $"{{Task.File.run}}");
        ($"args", JArr [JStr $"{{Param.N}}"; JStr $"{{Task.Param.i}}"; JStr $"{{Param.Out}}"]); ($"timeout", JStr $"30")].
Definition exx_tstep : json :=
  JObj [($"name", JStr $"s1");
        ($"description", JNull);
        ($"script", JObj [($"actions", JObj [($"onRun", exx_run)]);
                          ($"embeddedFiles", JArr [JObj [($"name", JStr $"run"); ($"type", JStr $"TEXT");
                                                         ($"data", JStr $"cd {{Session.WorkingDirectory}}; echo {{Task.RawParam.x}}")]])]);
        ($"stepEnvironments", JArr [JObj [($"name", JStr $"e"); ($"variables", JObj [($"OUT", JStr $"{{Param.Out}}")])]]);
        ($"parameterSpace",
         JObj [($"taskParameterDefinitions",
                JArr [JObj [($"name", JStr $"i"); ($"type", JStr $"INT"); ($"range", JArr [JInt 1; JStr $"2"; JStr $"{{Param.N}}"])];
                      JObj [($"name", JStr $"x"); ($"type", JStr $"FLOAT"); ($"range", JArr [JDec 15 (-1); JInt 2; JStr $"{{Param.F}}"])]])]);
        ($"hostRequirements",
         JObj [($"amounts", JArr [JObj [($"name", JStr $"amount.worker.vcpu"); ($"min", JInt 2)]]);
               ($"attributes", JArr [JObj [($"name", JStr $"attr.worker.os.family"); ($"anyOf", JArr [JStr $"linux"])]])])].
Definition exx_doc : json :=
  JObj [($"specificationVersion", JStr $"jobtemplate-2023-09");
        ($"$schema", JStr $"http://example");
        ($"name", JStr $"job {{Param.N}}");
        ($"parameterDefinitions",
         JArr [JObj [($"name", JStr $"N"); ($"type", JStr $"INT"); ($"default", JStr $"5")];
               JObj [($"name", JStr $"F"); ($"type", JStr $"FLOAT"); ($"maxValue", JDec 25 (-1))];
               JObj [($"name", JStr $"Out"); ($"type", JStr $"PATH")]]);
        ($"steps", JArr [exx_tstep])].

Example C17_roundtrip_templates_nonvacuous :
  exists v,
    parse_any ascii_class "JobTemplate" exx_doc = Ok v
    /\ export v <> exx_doc
    /\ spec_job_template (fs_refs ascii_class) exx_doc = []
    /\ prevalidate Generated.schema (fs_refs ascii_class) "JobTemplate" (export v) = []
    /\ snd (roundtrip ascii_class "JobTemplate" v) = true.
Proof.
  destruct (parse_any ascii_class "JobTemplate" exx_doc) as [v|] eqn:E; [|vm_compute in E; discriminate].
  exists v. split; [reflexivity|].
  split; [vm_compute in E; inversion E; subst v; vm_compute; discriminate|].
  split; [vm_compute; reflexivity|].
  split; [vm_compute in E; inversion E; subst v; vm_compute; reflexivity|].
  eapply C17_roundtrip_templates; [left; reflexivity|exact E].
Qed.

(* the hypothesis of C17_spec_job_stable holds of the real front end *)
Example C17_spec_job_stable_nonvacuous : forall m e, quiet (fs_refs ascii_class) (print_dec m e).
Proof. intros m e. right. apply C17_decimal_text_no_refs. Qed.

Definition exx_env : json :=
  JObj [($"specificationVersion", JStr $"environment-2023-09");
        ($"parameterDefinitions", JArr [JObj [($"name", JStr $"Out"); ($"type", JStr $"PATH"); ($"description", JNull)]]);
        ($"environment",
         JObj [($"name", JStr $"E");
               ($"variables", JObj [($"A", JStr $"{{Param.Out}}")]);
               ($"script",
                JObj [($"actions", JObj [($"onEnter", JObj [($"command", JStr $"{{Env.File.f}}"); ($"timeout", JDec 300 (-1))])]);
                      ($"embeddedFiles", JArr [JObj [($"name", JStr $"f"); ($"type", JStr $"TEXT"); ($"data", JStr $"x")]])])])].

Example C17_roundtrip_env_template_nonvacuous :
  exists v,
    parse_any ascii_class "EnvironmentTemplate" exx_env = Ok v
    /\ export v <> exx_env
    /\ snd (roundtrip ascii_class "EnvironmentTemplate" v) = true.
Proof.
  destruct (parse_any ascii_class "EnvironmentTemplate" exx_env) as [v|] eqn:E; [|vm_compute in E; discriminate].
  exists v. split; [reflexivity|].
  split; [vm_compute in E; inversion E; subst v; vm_compute; discriminate|].
  eapply C17_roundtrip_templates; [right; left; reflexivity|exact E].
Qed.

(* a Job as create_job returns it and model_to_object prints it: a range expression and a range list in one
   parameter space (both alternatives of the union), a discriminated cancelation, amounts and attributes (both
   pre-validators that re-parse as the template class), a lax integer given as text, a Decimal given as an int *)
Definition exx_action : json :=
  JObj [($"command", JStr $"echo"); ($"args", JArr [JStr $"1"]); ($"timeout", JStr $"30");
        ($"cancelation", JObj [($"mode", JStr $"TERMINATE")])].
Definition exx_step : json :=
  JObj [($"name", JStr $"s1");
        ($"script", JObj [($"actions", JObj [($"onRun", exx_action)])]);
        ($"stepEnvironments", JArr [JObj [($"name", JStr $"e"); ($"variables", JObj [($"A", JStr $"b")])]]);
        ($"parameterSpace",
         JObj [($"taskParameterDefinitions",
                JObj [($"i", JObj [($"type", JStr $"INT"); ($"range", JStr $"1-10")]);
                      ($"x", JObj [($"type", JStr $"FLOAT"); ($"range", JArr [JStr $"1.5"; JInt 2])])]);
               ($"combination", JStr $"i * x")]);
        ($"hostRequirements",
         JObj [($"amounts", JArr [JObj [($"name", JStr $"amount.worker.vcpu"); ($"min", JInt 2)]]);
               ($"attributes", JArr [JObj [($"name", JStr $"attr.worker.os.family"); ($"anyOf", JArr [JStr $"linux"])]])])].
Definition exx_job : json :=
  JObj [($"name", JStr $"job"); ($"steps", JArr [exx_step]);
        ($"parameters", JObj [($"N", JObj [($"type", JStr $"INT"); ($"value", JInt 5)])])].

Example C17_roundtrip_job_nonvacuous :
  exists v,
    parse_any ascii_class "Job" exx_job = Ok v
    /\ export v <> exx_job
    /\ snd (roundtrip ascii_class "Job" v) = true.
Proof.
  destruct (parse_any ascii_class "Job" exx_job) as [v|] eqn:E; [|vm_compute in E; discriminate].
  exists v. split; [reflexivity|].
  split; [vm_compute in E; inversion E; subst v; vm_compute; discriminate|].
  eapply C17_roundtrip_job. exact E.
Qed.

(* the job-side requirement pre-validators are really in force: a name that only the template class rejects *)
Example C17_requirement_prevalidator_in_force :
  is_ok (parse_any ascii_class "AmountRequirement" (JObj [($"name", JStr $"amount.worker.vcpu"); ($"min", JInt 2)])) = true
  /\ is_ok (parse_any ascii_class "AmountRequirement" (JObj [($"name", JStr $"vcpu"); ($"min", JInt 2)])) = false
  /\ is_ok (parse_cls Generated.schema ascii_class pre_hook (post_hook ascii_class) 30 "AmountRequirement"
                      (JObj [($"name", JStr $"vcpu"); ($"min", JInt 2)])) = true.
Proof. vm_compute. repeat split. Qed.

Example C17_union_same_alternative_nonvacuous :
  is_ok (parse_cls Generated.schema ascii_class pre_hook (post_hook ascii_class) 10 "RangeExpressionTaskParameterDefinition"
                   (JObj [($"type", JStr $"INT"); ($"range", JStr $"1-10")])) = true.
Proof. vm_compute. reflexivity. Qed.

Example C17_requirement_same_export_nonvacuous :
  is_ok (parse_cls Generated.schema ascii_class pre_hook (post_hook ascii_class) 10 "AttributeRequirement"
                   (JObj [($"name", JStr $"attr.worker.os.family"); ($"anyOf", JArr [JStr $"linux"])])) = true
  /\ is_ok (parse_cls Generated.schema ascii_class pre_hook (post_hook ascii_class) 10 "AttributeRequirementTemplate"
                      (JObj [($"name", JStr $"attr.worker.os.family"); ($"anyOf", JArr [JStr $"linux"])])) = true.
Proof. vm_compute. split; reflexivity. Qed.
