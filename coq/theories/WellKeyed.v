(* WellKeyed.v — for props/C06.v: instance trees produced by the acceptance model are "well keyed"
   (every item of a list that create_job reshapes into a dict has a string-valued key field, every
   job parameter definition has a plain-string name), and on well-keyed trees instantiate_model
   raises neither TypeError nor AttributeError.  The schema-level condition is a boolean check on
   Generated.schema. *)
From Coq Require Import List NArith ZArith Bool String Lia.
Import ListNotations.
Require Import OJD.Base OJD.Lexer OJD.Json OJD.Schema OJD.Generated OJD.Charsets OJD.Numerals OJD.NumPrint
               OJD.FormatStr OJD.CreateJob OJD.CreateJobProofs OJD.Parse OJD.Validators OJD.Accept OJD.AcceptMono
               OJD.Export OJD.ScopeSpec OJD.GlueLib OJD.ParseOutcomes OJD.NoMissingVar OJD.CreateExn OJD.DecodeInv.
Local Open Scope string_scope.
Local Open Scope list_scope.

(* the model nodes of an instance tree *)
Fixpoint nodes (v : mval) : list (string * list (string * mval)) :=
  match v with
  | MList l => flat_map nodes l
  | MDict l => flat_map (fun kv => nodes (snd kv)) l
  | MModel c fs => (c, fs) :: flat_map (fun kv => nodes (snd kv)) fs
  | _ => []
  end.

Lemma direct_nodes : forall x y n, In y (direct x) -> In n (nodes y) -> In n (nodes x).
Proof.
  intros x y n H Hn. destruct x; simpl in H;
    try (destruct H as [H|[]]; subst; exact Hn).
  - simpl. apply in_flat_map. exists y. split; assumption.
  - simpl. apply in_map_iff in H. destruct H as [kv [E H]]. subst y.
    apply in_flat_map. exists kv. split; assumption.
Qed.

Definition str_valued (fmt_ok : bool) (m : mval) : bool :=
  match m with MStr _ => true | MFmt _ => fmt_ok | _ => false end.

Definition keyed_item (kf : string) (item : mval) : bool :=
  match item with MModel _ fs => str_valued true (mfield kf fs) | _ => false end.

Lemma keyed_item_key : forall kf item, keyed_item kf item = true -> exists s, key_of item kf = Ok s.
Proof.
  intros kf item H. unfold keyed_item in H. destruct item as [ | | | | | | | | |c fields]; try discriminate H.
  unfold key_of. destruct (mfield kf fields); try discriminate H; eexists; reflexivity.
Qed.

Section WK.
  Variable SC : schema_t.

  Definition node_ok (c : string) (fields : list (string * mval)) : bool :=
    let j := jcm_of SC c in
    forallb (fun fv => match snd fv with
                       | MList items =>
                         match lookup_s (fst fv) (j_reshape j) with
                         | Some kf => forallb (keyed_item kf) items
                         | None => true
                         end
                       | _ => true
                       end) fields
    && (if j_adds_value j then str_valued false (mfield "name" fields) else true).

  Definition wk (v : mval) : Prop := forall c fs, In (c, fs) (nodes v) -> node_ok c fs = true.

  (* ---------------- instantiate_model on well-keyed trees ---------------- *)
  Theorem inst_wk_raises : forall resolve sigma,
    (forall s e, resolve sigma s = Raise e -> e = FormatStringError) ->
    forall fuel v, wk v -> forall e, inst SC resolve sigma fuel v = Raise e ->
    e = FormatStringError \/ e = KeyError \/ e = RuntimeError.
  Proof.
    intros resolve sigma Hres. induction fuel as [|f IH]; intros v Hwk e H.
    - rewrite inst_O in H. injection H as <-. tauto.
    - rewrite inst_S in H. destruct v as [ | | | | | | | | |c fields]; try discriminate H.
      assert (Hn : node_ok c fields = true) by (apply Hwk; cbn [nodes]; left; reflexivity).
      unfold node_ok in Hn. apply andb_true_iff in Hn. destruct Hn as [Hn1 Hn2].
      apply inst_model_raise_fine in H.
      destruct H as [[fv [y [Hfv [Hy Hr]]]]|[[s Hs]|[[fv [Hfv Hk]]|[[_ [Ha Hnm]]|[-> _]]]]].
      + apply (IH y); [|exact Hr]. intros c' fs' Hin. apply Hwk. cbn [nodes]. right.
        apply in_flat_map. exists fv. split; [exact Hfv|]. eapply direct_nodes; eassumption.
      + apply Hres in Hs. tauto.
      + exfalso. destruct Hk as [items [kf [item [Hx [Hl [Hit Hko]]]]]].
        rewrite forallb_forall in Hn1. specialize (Hn1 fv Hfv). cbv beta in Hn1. rewrite Hx, Hl in Hn1.
        rewrite forallb_forall in Hn1. specialize (Hn1 item Hit).
        destruct (keyed_item_key kf item Hn1) as [s Hs]. rewrite Hs in Hko. discriminate Hko.
      + exfalso. rewrite Ha in Hn2. destruct (mfield "name" fields) eqn:En; try discriminate Hn2.
        apply (Hnm s). reflexivity.
      + tauto.
  Qed.

  (* ---------------- the schema-level condition ---------------- *)
  Definition strkind (fmt_ok : bool) (k : kind) : bool :=
    match k with KStr _ _ _ _ => true | KFormat _ _ _ _ => fmt_ok | _ => false end.

  (* the class's first field is the required, single, string-kinded field [kf] *)
  Definition first_is (kf : string) (fmt_ok : bool) (c' : string) : bool :=
    match lookup_cls SC c' with
    | Some c0' =>
      match c_fields c0' with
      | fl1 :: _ => String.eqb (f_name fl1) kf && f_required fl1
                    && (match f_shape fl1 with Single => true | _ => false end) && strkind fmt_ok (f_kind fl1)
      | [] => false
      end
    | None => false
    end.

  Definition keyed_kind (kf : string) (k : kind) : bool :=
    match k with
    | KModel c' => first_is kf true c'
    | KDisc _ mp => forallb (fun kc => first_is kf true (snd kc)) mp
    | _ => false
    end.

  Definition cls_ok (c : string) (c0 : cls) : bool :=
    forallb (fun fl => match lookup_s (f_name fl) (j_reshape (c_jcm c0)) with
                       | Some kf => keyed_kind kf (f_kind fl)
                       | None => true
                       end) (c_fields c0)
    && (if j_adds_value (c_jcm c0) then first_is "name" false c else true).

  Definition schema_keyed : bool :=
    forallb (fun nc => match lookup_cls SC (fst nc) with Some c0 => cls_ok (fst nc) c0 | None => true end) SC.

  Variable classify : N -> cclass.
  Variable pre : string -> json -> bool.
  Variable post : string -> json -> list (string * mval) -> bool.
  Notation pk := (parse_kind SC classify pre post).
  Notation pc := (parse_cls SC classify pre post).

  Lemma strkind_value : forall fo f k raw x, strkind fo k = true -> pk f k raw = Ok x -> str_valued fo x = true.
  Proof.
    intros fo f k raw x Hk H. destruct f as [|f]; [discriminate H|]. rewrite parse_kind_S in H.
    destruct k as [lit|members|strict lo hi cs|c lo hi cs|strict|strict ge le gt|gt| |c|key mp|alts];
      try discriminate Hk; cbn [parse_scalar] in H.
    - destruct raw as [|b|z|a e|s|l|ms]; try discriminate H; try (destruct strict; try discriminate H);
        apply check_str_ok in H; destruct H as [-> _]; reflexivity.
    - destruct raw as [|b|z|a e|s|l|ms]; try discriminate H.
      destruct (len_ok lo hi s && cs_ok cs s && fs_ok classify s); [|discriminate H].
      injection H as <-. exact Hk.
  Qed.

  Lemma first_field_inv : forall kf fo c' f v m, first_is kf fo c' = true -> pc f c' v = Ok m ->
    exists fs, m = MModel c' fs /\ str_valued fo (mfield kf fs) = true.
  Proof.
    intros kf fo c' f v m Hf H. destruct f as [|f]; [discriminate H|]. rewrite parse_cls_S in H.
    unfold first_is in Hf.
    destruct (lookup_cls SC c') as [c0|]; [|discriminate Hf].
    destruct v as [| | | | | |ms]; try discriminate H.
    destruct (negb (pre c' (JObj ms))); [discriminate H|].
    destruct (extra_bad c0 ms); [discriminate H|].
    destruct (c_fields c0) as [|fl1 rest]; [discriminate Hf|].
    destruct (mapM (parse_field (pk f) ms) (fl1 :: rest)) as [fields|e] eqn:Em; cbn [bind] in H; [|discriminate H].
    destruct (post c' (JObj ms) fields); [|discriminate H]. injection H as <-.
    apply mapM_cons_ok in Em. destruct Em as [y1 [fs' [H1 [_ ->]]]].
    exists (y1 :: fs'). split; [reflexivity|].
    apply andb_true_iff in Hf. destruct Hf as [Hf Hk]. apply andb_true_iff in Hf. destruct Hf as [Hf Hs].
    apply andb_true_iff in Hf. destruct Hf as [Hn Hq].
    unfold parse_field, parse_value in H1. rewrite Hq in H1.
    destruct (f_shape fl1); try discriminate Hs.
    destruct (field_raw ms fl1) as [|b|z|a e|s|l|ms'] eqn:Er; cbn [bind] in H1; try discriminate H1;
      (match type of H1 with context [pk f ?k ?r] => destruct (pk f k r) as [x|err] eqn:Ex; cbn [bind] in H1; [|discriminate H1] end;
       injection H1 as <-; unfold mfield; cbn [lookup_s]; rewrite Hn;
       eapply strkind_value; eassumption).
  Qed.

  Lemma keyed_kind_item : forall kf k f v y, keyed_kind kf k = true -> pk f k v = Ok y -> keyed_item kf y = true.
  Proof.
    intros kf k f v y Hk H. destruct f as [|f]; [discriminate H|]. rewrite parse_kind_S in H.
    destruct k as [lit|members|strict lo hi cs|c lo hi cs|strict|strict ge le gt|gt| |c|key mp|alts];
      try discriminate Hk; cbn [keyed_kind] in Hk.
    - destruct (first_field_inv _ _ _ _ _ _ Hk H) as [fs [-> Hv]]. exact Hv.
    - unfold disc_res in H. destruct v as [| | | | | |members]; try discriminate H.
      destruct (assoc (str_of_string key) members) as [[| | | |s| |]|]; try discriminate H.
      destruct (List.find _ mp) as [[k' c']|] eqn:Ef; [|discriminate H].
      apply find_some in Ef. destruct Ef as [Hin _]. rewrite forallb_forall in Hk. specialize (Hk (k', c') Hin).
      cbn [snd] in Hk. destruct (first_field_inv _ _ _ _ _ _ Hk H) as [fs [-> Hv]]. exact Hv.
  Qed.

  Hypothesis keyed : schema_keyed = true.

  Lemma lookup_cls_ok : forall c c0, lookup_cls SC c = Some c0 -> cls_ok c c0 = true.
  Proof.
    intros c c0 H. pose proof keyed as K. unfold schema_keyed in K. rewrite forallb_forall in K.
    specialize (K (c, c0) (lookup_cls_In SC c c0 H)). cbn [fst] in K. rewrite H in K. exact K.
  Qed.

  Lemma wk_scalar : forall m, scalar_mval m -> wk m.
  Proof. intros m H c fs Hin. destruct m; try destruct H; destruct Hin. Qed.

  Lemma wk_list : forall l, (forall y, In y l -> wk y) -> wk (MList l).
  Proof.
    intros l H c fs Hin. cbn [nodes] in Hin. apply in_flat_map in Hin. destruct Hin as [y [Hy Hn]].
    exact (H y Hy c fs Hn).
  Qed.

  Lemma list_items_wk : forall f lo hi k v m,
    (forall k v m, pk f k v = Ok m -> wk m) -> list_items (pk f) lo hi k v = Ok m -> wk m.
  Proof.
    intros f lo hi k v m IH H. unfold list_items in H. destruct v as [|b|z|dm de|s|l|members]; try discriminate H.
    destruct (len_ok_n lo hi (List.length l)); [|discriminate H].
    destruct (mapM (pk f k) l) as [l'|e] eqn:Em; cbn [bind] in H; [|discriminate H].
    injection H as <-. apply wk_list. intros y Hy.
    destruct (mapM_ok_in _ _ _ _ _ Em y Hy) as [x [_ Hx]]. exact (IH _ _ _ Hx).
  Qed.

  Lemma parse_value_wk : forall f fl raw x,
    (forall k v m, pk f k v = Ok m -> wk m) -> parse_value (pk f) fl raw = Ok x -> wk x.
  Proof.
    intros f fl raw x IH H. unfold parse_value in H.
    assert (K : match f_shape fl with
                | Single => pk f (f_kind fl) raw
                | ListOf minl maxl => list_items (pk f) minl maxl (f_kind fl) raw
                | DictOf kk =>
                  match raw with
                  | JObj members => do l' <- mapM (dict_entry (pk f) kk (f_kind fl)) members; Ok (MDict l')
                  | _ => reject
                  end
                end = Ok x -> wk x).
    { clear H. intros H. destruct (f_shape fl) as [|lo hi|kk].
      - eapply IH; eassumption.
      - eapply list_items_wk; eassumption.
      - destruct raw as [|b|z|a e|s|l|ms]; try discriminate H.
        + destruct (mapM (dict_entry (pk f) kk (f_kind fl)) ms) as [l'|e] eqn:Em; cbn [bind] in H; [|discriminate H].
          injection H as <-. intros c fs Hin. cbn [nodes] in Hin. apply in_flat_map in Hin.
          destruct Hin as [kv' [Hy Hn]]. destruct (mapM_ok_in _ _ _ _ _ Em kv' Hy) as [kv [_ Hx]].
          unfold dict_entry in Hx.
          destruct (pk f kk (JStr (fst kv))) as [y1|e1]; cbn [bind] in Hx; [|discriminate Hx].
          destruct (pk f (f_kind fl) (snd kv)) as [y2|e2] eqn:E2; cbn [bind] in Hx; [|discriminate Hx].
          injection Hx as <-. cbn [snd] in Hn. exact (IH _ _ _ E2 c fs Hn). }
    destruct raw; try (apply K; exact H).
    destruct (f_required fl); [discriminate H|]. injection H as <-. intros c fs Hin. destruct Hin.
  Qed.

  (* a list-valued field that create_job reshapes: every item is keyed *)
  Lemma reshaped_field_keyed : forall f fl raw items kf,
    keyed_kind kf (f_kind fl) = true ->
    parse_value (pk f) fl raw = Ok (MList items) -> forallb (keyed_item kf) items = true.
  Proof.
    intros f fl raw items kf Hk H. unfold parse_value in H.
    assert (K : match f_shape fl with
                | Single => pk f (f_kind fl) raw
                | ListOf minl maxl => list_items (pk f) minl maxl (f_kind fl) raw
                | DictOf kk =>
                  match raw with
                  | JObj members => do l' <- mapM (dict_entry (pk f) kk (f_kind fl)) members; Ok (MDict l')
                  | _ => reject
                  end
                end = Ok (MList items) -> forallb (keyed_item kf) items = true).
    { clear H. intros H. destruct (f_shape fl) as [|lo hi|kk].
      - apply (keyed_kind_item kf _ _ _ _ Hk) in H. discriminate H.
      - unfold list_items in H. destruct raw as [|b|z|dm de|s|l|members]; try discriminate H.
        destruct (len_ok_n lo hi (List.length l)); [|discriminate H].
        destruct (mapM (pk f (f_kind fl)) l) as [l'|e] eqn:Em; cbn [bind] in H; [|discriminate H].
        injection H as <-. apply forallb_forall. intros y Hy.
        destruct (mapM_ok_in _ _ _ _ _ Em y Hy) as [x [_ Hx]]. exact (keyed_kind_item kf _ _ _ _ Hk Hx).
      - destruct raw as [|b|z|a e|s|l|ms]; try discriminate H.
        + destruct (mapM _ ms); cbn [bind] in H; discriminate H. }
    destruct raw; try (apply K; exact H).
    destruct (f_required fl); discriminate H.
  Qed.

  Theorem parse_wk : forall fuel,
    (forall k v m, pk fuel k v = Ok m -> wk m) /\ (forall c v m, pc fuel c v = Ok m -> wk m).
  Proof.
    induction fuel as [|f [IHk IHc]].
    - split; intros x v m H; [rewrite parse_kind_O in H|rewrite parse_cls_O in H]; discriminate H.
    - split.
      + intros k v m H. rewrite parse_kind_S in H.
        destruct k as [lit|members|strict lo hi cs|c lo hi cs|strict|strict ge le gt|gt| |c|key mp|alts];
          try (apply wk_scalar; eapply parse_scalar_ok_scalar; exact H).
        * exact (IHc c v m H).
        * unfold disc_res in H. destruct v as [|b|z|dm de|s|l|members]; try discriminate H.
          destruct (assoc (str_of_string key) members) as [[| | | |s| |]|]; try discriminate H.
          destruct (List.find _ mp) as [[k' c']|]; [|discriminate H]. exact (IHc c' _ m H).
        * apply try_alts_ok in H. destruct H as [a [_ Hr]].
          destruct a as [k'|lo hi k']; cbn [alt_res] in Hr.
          -- exact (IHk k' v m Hr).
          -- eapply list_items_wk; eassumption.
      + intros c v m H. pose proof H as H0. rewrite parse_cls_S in H.
        destruct (lookup_cls SC c) as [c0|] eqn:El; [|discriminate H].
        destruct v as [|b|z|a e|s|l|ms]; try discriminate H.
        destruct (negb (pre c (JObj ms))); [discriminate H|].
        destruct (extra_bad c0 ms); [discriminate H|].
        destruct (mapM (parse_field (pk f) ms) (c_fields c0)) as [fields|e'] eqn:Em; cbn [bind] in H; [|discriminate H].
        destruct (post c (JObj ms) fields); [|discriminate H]. injection H as <-.
        pose proof (lookup_cls_ok c c0 El) as Hok. unfold cls_ok in Hok.
        apply andb_true_iff in Hok. destruct Hok as [Hok1 Hok2].
        assert (Ej : jcm_of SC c = c_jcm c0) by (unfold jcm_of; rewrite El; reflexivity).
        intros c1 fs1 Hin. cbn [nodes] in Hin. destruct Hin as [E|Hin].
        * injection E as <- <-. unfold node_ok. rewrite Ej. apply andb_true_iff. split.
          -- apply forallb_forall. intros fv Hfv.
             destruct (mapM_ok_in _ _ _ _ _ Em fv Hfv) as [fl [Hfl Hp]]. unfold parse_field in Hp.
             destruct (parse_value (pk f) fl (field_raw ms fl)) as [x|e] eqn:Ev; cbn [bind] in Hp; [|discriminate Hp].
             injection Hp as <-. cbn [fst snd]. destruct x as [ | | | | | | |items|dl|cm fm]; try reflexivity.
             rewrite forallb_forall in Hok1. specialize (Hok1 fl Hfl). cbv beta in Hok1.
             destruct (lookup_s (f_name fl) (j_reshape (c_jcm c0))) as [kf|]; [|reflexivity].
             eapply reshaped_field_keyed; eassumption.
          -- destruct (j_adds_value (c_jcm c0)); [|reflexivity].
             destruct (first_field_inv _ _ _ _ _ _ Hok2 H0) as [fs' [E Hv]]. injection E as <-. exact Hv.
        * apply in_flat_map in Hin. destruct Hin as [kv [Hkv Hn]].
          destruct (mapM_ok_in _ _ _ _ _ Em kv Hkv) as [fl [_ Hp]]. unfold parse_field in Hp.
          destruct (parse_value (pk f) fl (field_raw ms fl)) as [x|e] eqn:Ev; cbn [bind] in Hp; [|discriminate Hp].
          injection Hp as <-. cbn [snd] in Hn. exact (parse_value_wk f fl _ x IHk Ev c1 fs1 Hn).
  Qed.
End WK.

(* ------------------------------------------------------------------ fuel of instantiate_model *)
Theorem inst_fuel_enough : forall SC resolve sigma,
  (forall s e, resolve sigma s = Raise e -> e = FormatStringError) ->
  forall fuel v, mval_depth v < fuel -> inst SC resolve sigma fuel v <> Raise RuntimeError.
Proof.
  intros SC resolve sigma Hres. induction fuel as [|f IH]; intros v Hd H; [lia|].
  rewrite inst_S in H. destruct v as [ | | | | | | | | |c fields]; try discriminate H.
  apply inst_model_raise_fine in H.
  destruct H as [[fv [y [Hfv [Hy Hr]]]]|[[s Hs]|[[fv [_ Hk]]|[[E _]|[E _]]]]].
  - apply (IH y); [|exact Hr]. apply direct_depth in Hy.
    pose proof (depth_le_max _ (fun kv : string * mval => mval_depth (snd kv)) fields fv Hfv) as Hm.
    cbn [mval_depth] in Hd. cbv beta in Hm. lia.
  - apply Hres in Hs. discriminate Hs.
  - apply key_fail_exn in Hk. destruct Hk as [E|E]; discriminate E.
  - discriminate E.
  - discriminate E.
Qed.

(* ------------------------------------------------------------------ the live schema, end to end *)
Lemma generated_keyed : schema_keyed Generated.schema = true.
Proof. vm_compute. reflexivity. Qed.

Theorem accepted_wk : forall classify j t, decode_job classify j = Ok t -> wk Generated.schema t.
Proof.
  intros classify j t H. unfold decode_job in H.
  destruct j as [| | | | | |ms]; try discriminate H.
  destruct (version_ok Generated.job_template_versions (JObj ms)); [|discriminate H].
  unfold parse_template, parse_root in H.
  exact (proj2 (parse_wk Generated.schema classify pre_hook (post_hook classify) generated_keyed _) _ _ _ H).
Qed.

(* accepted template, a value for every declared parameter: instantiate_model either succeeds or
   fails with FormatStringError (which create_job reports as DecodeValidationError) *)
Theorem accepted_inst_raises : forall classify j t vals e,
  decode_job classify j = Ok t -> covers (jget "parameterDefinitions" j) vals ->
  inst Generated.schema (Export.fs_resolve classify) (symtab_of vals) (S (mval_depth t)) t = Raise e ->
  e = FormatStringError.
Proof.
  intros classify j t vals e Hd Hc H.
  assert (Hres : forall s e', Export.fs_resolve classify (symtab_of vals) s = Raise e' -> e' = FormatStringError).
  { intros s e'. apply fs_resolve_only_fse. }
  destruct (inst_wk_raises Generated.schema _ _ Hres _ t (accepted_wk classify j t Hd) e H) as [E|[E|E]].
  - exact E.
  - exfalso. subst e. apply (accepted_no_keyerror classify j t vals Hd Hc).
    unfold create_job_verdict. rewrite H. reflexivity.
  - exfalso. subst e. apply (inst_fuel_enough Generated.schema _ _ Hres (S (mval_depth t)) t); [lia|exact H].
Qed.

(* ... hence the only thing that can leave the create_job model is "outside the modelled domain",
   signalled by the job-side re-validation of the instantiated nodes *)
Theorem accepted_create_exn : forall classify j t vals e,
  decode_job classify j = Ok t -> covers (jget "parameterDefinitions" j) vals ->
  create_job_verdict classify vals t = Raise e -> e = RuntimeError.
Proof.
  intros classify j t vals e Hd Hc H. unfold create_job_verdict in H.
  destruct (inst Generated.schema (Export.fs_resolve classify) (symtab_of vals) (S (mval_depth t)) t) as [job|e0] eqn:Ei.
  - eapply nodes_ok_raises. exact H.
  - apply (accepted_inst_raises classify j t vals e0 Hd Hc) in Ei. subst e0. discriminate H.
Qed.
