(* Extraction of the scope walker (C03) and its spec oracle.  ExtrOcamlBasic only. *)
From Coq Require Import Extraction ExtrOcamlBasic List NArith ZArith String.
Require Import OJD.Base OJD.Lexer OJD.Json OJD.Schema OJD.Generated OJD.FormatStr OJD.FsRefs OJD.ScopeWalk OJD.ScopeSpec.
Extraction Language OCaml.
Local Open Scope string_scope.
Definition model_job (classify : N -> cclass) (j : json) : list werr :=
  prevalidate Generated.schema (fs_refs classify) "JobTemplate" j.
Definition model_envt (classify : N -> cclass) (j : json) : list werr :=
  prevalidate Generated.schema (fs_refs classify) "EnvironmentTemplate" j.
Definition spec_job (classify : N -> cclass) (j : json) : list werr := spec_job_template (fs_refs classify) j.
Definition spec_envt (classify : N -> cclass) (j : json) : list werr := spec_env_template (fs_refs classify) j.
Extraction "Model.ml" exn_eqb ascii_ok ascii_class model_job model_envt spec_job spec_envt fs_refs.
