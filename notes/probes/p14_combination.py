# C14 probe: all token strings up to length N over {id,*,',',(,)} vs an independent recogniser;
# print/parse round trip; template-level verdict through decode on a one-step skeleton.
import itertools, sys
from openjd.model._internal import CombinationExpressionParser as P
from openjd.model import ExpressionError, decode_job_template, DecodeValidationError
N = int(sys.argv[1]) if len(sys.argv) > 1 else 7
TOK = ["ID", "*", ",", "(", ")"]
# independent recogniser: memoised CFG membership  expr := elem ('*' elem)* ; elem := id | '(' expr (',' expr)+ ')'
from functools import lru_cache
def recognise(ts):
    ts = tuple(ts); n = len(ts)
    @lru_cache(None)
    def expr(i, j):   # ts[i:j] is an expr
        if elem(i, j): return True
        return any(ts[k] == "*" and elem(i, k) and expr(k+1, j) for k in range(i+1, j-1))
    @lru_cache(None)
    def elem(i, j):
        if j - i == 1: return ts[i] == "ID"
        if j - i >= 5 and ts[i] == "(" and ts[j-1] == ")": return exprlist(i+1, j-1, 2)
        return False
    @lru_cache(None)
    def exprlist(i, j, need):  # ts[i:j] is expr (',' expr)* with at least `need` exprs
        if need <= 1 and expr(i, j): return True
        return any(ts[k] == "," and expr(i, k) and exprlist(k+1, j, max(need-1, 1)) for k in range(i+1, j-1))
    return n > 0 and expr(0, n)
names = ["A", "Bb", "C_1"]
n = bad = acc = 0
for L in range(0, N+1):
    for ts in itertools.product(TOK, repeat=L):
        k = 0; parts = []
        for t in ts:
            if t == "ID": parts.append(names[k % 3]); k += 1
            else: parts.append(t)
        s = " ".join(parts); n += 1
        try:
            tree = P().parse(s); ok = True
        except ExpressionError: ok = False
        except Exception as e: ok = None; print("OTHER EXC", repr(s), type(e))
        want = recognise(ts)
        if ok != want: bad += 1; print("GRAMMAR", repr(s), ok, want)
        if ok:
            acc += 1
            t2 = P().parse(str(tree))
            if repr(t2) != repr(tree): bad += 1; print("ROUNDTRIP", s, str(tree))
print("token strings", n, "accepted", acc, "bad", bad)
# template-level verdict: names each declared parameter exactly once
def verdict(params, comb):
    d = {"specificationVersion": "jobtemplate-2023-09", "name": "J", "steps": [{"name": "S", "script": {"actions": {"onRun": {"command": "e"}}},
         "parameterSpace": {"taskParameterDefinitions": [{"name": p, "type": "INT", "range": [1, 2]} for p in params], "combination": comb}}]}
    try: decode_job_template(template=d); return True
    except DecodeValidationError: return False
bad = 0
import random; rnd = random.Random(3)
pool = ["A", "B", "C", "D"]
for _ in range(3000):
    params = rnd.sample(pool, rnd.randint(1, 3))
    ids = [rnd.choice(pool) for _ in range(rnd.randint(1, 4))]
    comb = " * ".join(ids) if rnd.random() < .5 else ("(" + ", ".join(ids) + ")" if len(ids) > 1 else ids[0])
    want = sorted(ids) == sorted(params)
    if verdict(params, comb) != want: bad += 1; print("TEMPLATE", params, comb, "impl", not want, "want", want) if bad < 10 else None
print("template verdict mismatches", bad)
print("len 1280:", verdict(["A"], "A" + " " * 1279), "len 1281:", verdict(["A"], "A" + " " * 1280), "tab:", verdict(["A"], "A\t"))
