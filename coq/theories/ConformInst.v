(* ConformInst.v — what instantiate_model (CreateJob.inst) + the job-side coercion (CreateJob.coerce_job)
   make of a WELL-TYPED job template (ConformTyped.tc Generated.schema "JobTemplate"), top-down:

     Job { name, steps : [Step { name, ..., parameterSpace : None | StepParameterSpace {
              taskParameterDefinitions : { p : <task parameter definition> }, combination } } ],
           description, parameters : None | { n : JobParameter { type, description, value } }, jobEnvironments }

   - every task parameter definition of the Job is one of ([jdef]):
       IntRangeListTaskParameterDefinition   { type = "INT",   range = [str, ...] }
       RangeExpressionTaskParameterDefinition{ type = "INT",   range = str }
       FloatRangeListTaskParameterDefinition { type = "FLOAT", range = [str, ...] }
       RangeListTaskParameterDefinition      { type = "STRING" | "PATH", range = [str, ...] }
     (the class follows from the template class, the type is the template class's literal, every range item
      is a str after resolution + coercion);
   - every job parameter n is JobParameter { type = T, description, value = symtab[RawParam.n] } where T is
     the "type" field of a definition named n in the template's parameterDefinitions ([jpar]).

   Built on the shape theorems of CreateJobProofs.v (C05).  No nodes_ok here: this is about the tree that
   instantiate_model builds, whether or not the target models accept it. *)
From Coq Require Import List NArith ZArith Bool String Lia.
Import ListNotations.
Require Import OJD.Base OJD.Lexer OJD.Json OJD.Schema OJD.Generated OJD.Charsets OJD.Numerals OJD.NumPrint
               OJD.FormatStr OJD.CreateJob OJD.CreateJobProofs OJD.Parse OJD.Validators OJD.CreateJobExactLib
               OJD.ConformLib OJD.ConformTyped.
Local Open Scope string_scope.
Local Open Scope list_scope.

Notation G := Generated.schema.

(* ------------------------------------------------------------------ shapes of the Job tree *)
Definition int_item (x : mval) : Prop := (exists z, x = MInt z) \/ (exists s, x = MStr s).
Definition dec_item (x : mval) : Prop := (exists a e, x = MDec a e) \/ (exists s, x = MStr s).
Definition str_item (x : mval) : Prop := exists s, x = MStr s.

(* a task parameter definition as instantiate_model leaves it (literal numbers not yet printed) *)
Inductive jdef_raw : mval -> Prop :=
| jr_int : forall its, Forall int_item its ->
    jdef_raw (MModel "IntRangeListTaskParameterDefinition" [("type", MStr $"INT"); ("range", MList its)])
| jr_expr : forall r,
    jdef_raw (MModel "RangeExpressionTaskParameterDefinition" [("type", MStr $"INT"); ("range", MStr r)])
| jr_float : forall its, Forall dec_item its ->
    jdef_raw (MModel "FloatRangeListTaskParameterDefinition" [("type", MStr $"FLOAT"); ("range", MList its)])
| jr_str : forall ty its, ty = $"STRING" \/ ty = $"PATH" -> Forall str_item its ->
    jdef_raw (MModel "RangeListTaskParameterDefinition" [("type", MStr ty); ("range", MList its)]).

(* ... and in the Job (after coerce_job): every range item is a str *)
Inductive jdef : mval -> Prop :=
| jd_int : forall ss,
    jdef (MModel "IntRangeListTaskParameterDefinition" [("type", MStr $"INT"); ("range", MList (map MStr ss))])
| jd_expr : forall r,
    jdef (MModel "RangeExpressionTaskParameterDefinition" [("type", MStr $"INT"); ("range", MStr r)])
| jd_float : forall ss,
    jdef (MModel "FloatRangeListTaskParameterDefinition" [("type", MStr $"FLOAT"); ("range", MList (map MStr ss))])
| jd_str : forall ty ss, ty = $"STRING" \/ ty = $"PATH" ->
    jdef (MModel "RangeListTaskParameterDefinition" [("type", MStr ty); ("range", MList (map MStr ss))]).

Section Shapes.
  Variable Pdef : mval -> Prop.            (* a task parameter definition *)
  Variable Ppar : str * mval -> Prop.      (* an entry of Job.parameters *)

  Definition space_of (ps : mval) : Prop :=
    ps = MNone \/
    exists d cb, ps = MModel "StepParameterSpace" [("taskParameterDefinitions", MDict d); ("combination", cb)] /\
                 Forall (fun kv : str * mval => Pdef (snd kv)) d.

  Definition step_of (st : mval) : Prop :=
    exists n d sc se ps hr dp,
      st = MModel "Step" [("name", MStr n); ("description", d); ("script", sc); ("stepEnvironments", se);
                          ("parameterSpace", ps); ("hostRequirements", hr); ("dependencies", dp)] /\
      space_of ps.

  Definition job_of (job : mval) : Prop :=
    exists n steps d p e,
      job = MModel "Job" [("name", MStr n); ("steps", MList steps); ("description", d); ("parameters", p);
                          ("jobEnvironments", e)] /\
      Forall step_of steps /\
      (p = MNone \/ exists pd, p = MDict pd /\ Forall Ppar pd).
End Shapes.

(* an entry of Job.parameters, tied to the template [t] and the symbol table *)
Definition jpar (t : mval) (sigma : symtab) (kv : str * mval) : Prop :=
  exists T dsc v,
    snd kv = MModel "JobParameter" [("type", MStr T); ("description", dsc); ("value", MStr v)] /\
    leaf dsc = true /\
    st_lookup sigma ($"RawParam." ++ fst kv) = Some v /\
    exists c fs l ic ifs, t = MModel c fs /\ mfield "parameterDefinitions" fs = MList l /\
                          In (MModel ic ifs) l /\ mfield "name" ifs = MStr (fst kv) /\ mfield "type" ifs = MStr T.

(* ------------------------------------------------------------------ reading typed fields *)
Section Fields.
  Notation tk := (tk G). Notation tc := (tc G). Notation tv := (tv G). Notation tf := (tf G).

  Lemma tv_req_single : forall fl x, tv fl x -> f_shape fl = Single -> f_required fl = true -> tk (f_kind fl) x.
  Proof. intros fl x H Hs Hq. destruct (tv_single_inv G fl x Hs H) as [[_ E]|K]; [congruence|exact K]. Qed.

  Lemma tv_opt_single : forall fl x, tv fl x -> f_shape fl = Single -> x = MNone \/ tk (f_kind fl) x.
  Proof. intros fl x H Hs. destruct (tv_single_inv G fl x Hs H) as [[E _]|K]; [left; exact E|right; exact K]. Qed.

  Lemma tv_req_list : forall fl lo hi x, tv fl x -> f_shape fl = ListOf lo hi -> f_required fl = true ->
    exists l, x = MList l /\ Forall (tk (f_kind fl)) l.
  Proof. intros fl lo hi x H Hs Hq. destruct (tv_list_inv G fl lo hi x Hs H) as [[_ E]|K]; [congruence|exact K]. Qed.

  Lemma tv_opt_list : forall fl lo hi x, tv fl x -> f_shape fl = ListOf lo hi ->
    x = MNone \/ exists l, x = MList l /\ Forall (tk (f_kind fl)) l.
  Proof. intros fl lo hi x H Hs. destruct (tv_list_inv G fl lo hi x Hs H) as [[E _]|K]; [left; exact E|right; exact K]. Qed.

  Lemma opt_str_leaf : forall st lo hi cs x, x = MNone \/ tk (KStr st lo hi cs) x -> leaf x = true.
  Proof. intros st lo hi cs x [->|H]; [reflexivity|]. apply tk_str_inv in H. destruct H as [s [-> _]]. reflexivity. Qed.

  Lemma opt_list_ok : forall (P : mval -> Prop) x, x = MNone \/ (exists l, x = MList l /\ Forall P l) -> opt_list x = true.
  Proof. intros P x [->|[l [-> _]]]; reflexivity. Qed.

  Lemma tc_single : forall c x, tc c x -> single x = true.
  Proof. intros c x H. apply tc_inv in H. destruct H as [c0 [fs [_ [-> _]]]]. reflexivity. Qed.

  Lemma opt_model_single : forall c x, x = MNone \/ tk (KModel c) x -> single x = true.
  Proof. intros c x [->|H]; [reflexivity|]. apply tk_model_inv in H. eapply tc_single. exact H. Qed.
End Fields.

(* Forall2 tf (concrete field list) fs  ->  fs is a concrete list of (name, variable) pairs with a [tv] fact each *)
Ltac inv_fields H :=
  repeat match type of H with
         | Forall2 _ (_ :: _) _ =>
           let fv := fresh "fv" in let r := fresh "r" in let Hf := fresh "Hf" in let Hr := fresh "Hr" in
           inversion H as [|? fv ? r Hf Hr]; subst; clear H; rename Hr into H;
           apply tf_inv in Hf; destruct fv as [? ?]; destruct Hf as [? Hf]; cbn [fst snd f_name] in *; subst
         | Forall2 _ [] _ => inversion H; subst; clear H
         end.

(* open a [tc G "<Class>" x] hypothesis on a concrete class *)
Ltac open_tc H :=
  apply tc_inv in H;
  let c0 := fresh "c0" in let fs := fresh "fs" in let El := fresh "El" in let HF := fresh "HF" in
  destruct H as [c0 [fs [El [-> HF]]]];
  vm_compute in El; injection El as <-; cbn [c_fields] in HF; inv_fields HF.

(* ------------------------------------------------------------------ instantiate_model, top-down *)
Section Inst.
  Variable resolve : symtab -> str -> outcome str.
  Variable sigma : symtab.
  Notation tk := (tk G). Notation tc := (tc G). Notation tv := (tv G).
  Notation INST := (inst G resolve sigma).

  Definition task_classes : list string :=
    ["IntTaskParameterDefinition"; "FloatTaskParameterDefinition"; "StringTaskParameterDefinition"; "PathTaskParameterDefinition"].

  (* resolving the items of a range list *)
  Lemma res_items : forall (P : mval -> Prop) (Q : mval -> Prop) rec l l',
    (forall x y, P x -> res_elem resolve sigma rec x = Ok y -> Q y) ->
    Forall P l -> mapM (res_elem resolve sigma rec) l = Ok l' -> Forall Q l'.
  Proof.
    intros P Q rec l l' HPQ Hl Hm. apply Forall_forall. intros y Hy.
    destruct (cf_mapM_in_bwd _ _ _ _ _ Hm y Hy) as [x [Hx Hr]].
    rewrite Forall_forall in Hl. exact (HPQ x y (Hl x Hx) Hr).
  Qed.

  Lemma res_fmt : forall rec s y, res_elem resolve sigma rec (MFmt s) = Ok y -> exists r, y = MStr r.
  Proof.
    intros rec s y H. cbn [res_elem] in H. destruct (resolve sigma s) as [r|e]; cbn [bind] in H; [|discriminate H].
    injection H as <-. eexists. reflexivity.
  Qed.

  Theorem inst_task_def : forall f c item y, In c task_classes -> tc c item -> INST f item = Ok y -> jdef_raw y.
  Proof.
    intros f c item y Hc Ht H. destruct f as [|f]; [rewrite inst_O in H; discriminate H|].
    unfold task_classes in Hc. destruct Hc as [<-|[<-|[<-|[<-|[]]]]]; open_tc Ht.
    - (* INT *)
      match goal with Hx : tv (mkField "type" _ _ _ _) ?x |- _ =>
        apply tv_req_single in Hx; [|reflexivity|reflexivity]; cbn [f_kind] in Hx; apply tk_lit_inv in Hx; subst x end.
      match goal with Hx : tv (mkField "range" _ _ _ _) ?x |- _ =>
        apply tv_req_single in Hx; [|reflexivity|reflexivity]; cbn [f_kind] in Hx; apply tk_union_inv in Hx;
        destruct Hx as [a [Ha Hu]] end.
      destruct Ha as [<-|[<-|[]]].
      + apply ta_list_inv in Hu. destruct Hu as [l [-> Hl]].
        rewrite shape_IntTaskParam_list in H by reflexivity.
        destruct (mapM _ l) as [l'|e] eqn:Em; cbn [bind] in H; [|discriminate H]. injection H as <-.
        apply jr_int. eapply res_items; [|exact Hl|exact Em].
        intros x y Hx Hr. cbv beta in Hx. apply tk_union_inv in Hx. destruct Hx as [a [Ha Hx]].
        destruct Ha as [<-|[<-|[]]]; apply ta_scalar_inv in Hx.
        * apply tk_int_inv in Hx. destruct Hx as [z ->]. cbn [res_elem] in Hr. injection Hr as <-. left. eexists. reflexivity.
        * apply tk_fmt_inv in Hx. destruct Hx as [s ->]. right. eapply res_fmt. exact Hr.
      + apply ta_scalar_inv in Hu. apply tk_fmt_inv in Hu. destruct Hu as [s ->].
        rewrite shape_IntTaskParam_expr in H by reflexivity.
        destruct (resolve sigma s) as [r|e]; cbn [bind] in H; [|discriminate H]. injection H as <-. apply jr_expr.
    - (* FLOAT *)
      match goal with Hx : tv (mkField "type" _ _ _ _) ?x |- _ =>
        apply tv_req_single in Hx; [|reflexivity|reflexivity]; cbn [f_kind] in Hx; apply tk_lit_inv in Hx; subst x end.
      match goal with Hx : tv (mkField "range" _ _ _ _) ?x |- _ =>
        eapply tv_req_list in Hx; [|reflexivity|reflexivity]; cbn [f_kind] in Hx; destruct Hx as [l [-> Hl]] end.
      rewrite (shape_TaskParam _ _ _ "FloatTaskParameterDefinition") in H; [|cbn; tauto|reflexivity].
      destruct (mapM _ l) as [l'|e] eqn:Em; cbn [bind] in H; [|discriminate H]. injection H as <-.
      apply jr_float. eapply res_items; [|exact Hl|exact Em].
      intros x y Hx Hr. cbv beta in Hx. apply tk_union_inv in Hx. destruct Hx as [a [Ha Hx]].
      destruct Ha as [<-|[<-|[]]]; apply ta_scalar_inv in Hx.
      + apply tk_dec_inv in Hx. destruct Hx as [a [e ->]]. cbn [res_elem] in Hr. injection Hr as <-. left. eexists. eexists. reflexivity.
      + apply tk_fmt_inv in Hx. destruct Hx as [s ->]. right. eapply res_fmt. exact Hr.
    - (* STRING *)
      match goal with Hx : tv (mkField "type" _ _ _ _) ?x |- _ =>
        apply tv_req_single in Hx; [|reflexivity|reflexivity]; cbn [f_kind] in Hx; apply tk_lit_inv in Hx; subst x end.
      match goal with Hx : tv (mkField "range" _ _ _ _) ?x |- _ =>
        eapply tv_req_list in Hx; [|reflexivity|reflexivity]; cbn [f_kind] in Hx; destruct Hx as [l [-> Hl]] end.
      rewrite (shape_TaskParam _ _ _ "StringTaskParameterDefinition") in H; [|cbn; tauto|reflexivity].
      destruct (mapM _ l) as [l'|e] eqn:Em; cbn [bind] in H; [|discriminate H]. injection H as <-.
      apply jr_str; [left; reflexivity|]. eapply res_items; [|exact Hl|exact Em].
      intros x y Hx Hr. cbv beta in Hx. apply tk_fmt_inv in Hx. destruct Hx as [s ->]. eapply res_fmt. exact Hr.
    - (* PATH *)
      match goal with Hx : tv (mkField "type" _ _ _ _) ?x |- _ =>
        apply tv_req_single in Hx; [|reflexivity|reflexivity]; cbn [f_kind] in Hx; apply tk_lit_inv in Hx; subst x end.
      match goal with Hx : tv (mkField "range" _ _ _ _) ?x |- _ =>
        eapply tv_req_list in Hx; [|reflexivity|reflexivity]; cbn [f_kind] in Hx; destruct Hx as [l [-> Hl]] end.
      rewrite (shape_TaskParam _ _ _ "PathTaskParameterDefinition") in H; [|cbn; tauto|reflexivity].
      destruct (mapM _ l) as [l'|e] eqn:Em; cbn [bind] in H; [|discriminate H]. injection H as <-.
      apply jr_str; [right; reflexivity|]. eapply res_items; [|exact Hl|exact Em].
      intros x y Hx Hr. cbv beta in Hx. apply tk_fmt_inv in Hx. destruct Hx as [s ->]. eapply res_fmt. exact Hr.
  Qed.

  (* the dictionary built from a list by reshape: every entry is an instantiated item under its key *)
  Lemma keyed_fold_in : forall rec kf items acc d,
    fold_left (keyed_step rec kf) items acc = Ok d ->
    forall kv, In kv d ->
      (exists a, acc = Ok a /\ In kv a) \/
      (exists item, In item items /\ key_of item kf = Ok (fst kv) /\ inst_elem rec item = Ok (snd kv)).
  Proof.
    intros rec kf. induction items as [|x r IH]; intros acc d H kv Hkv.
    - cbn [fold_left] in H. left. exists d. split; [exact H|exact Hkv].
    - cbn [fold_left] in H. destruct (IH _ _ H kv Hkv) as [[a' [Ea Hin]]|[item [Hi [Hk Hy]]]].
      + unfold keyed_step in Ea. destruct acc as [a|e]; cbn [bind] in Ea; [|discriminate Ea].
        destruct (key_of x kf) as [k|e] eqn:Ek; cbn [bind] in Ea; [|discriminate Ea].
        destruct (inst_elem rec x) as [y|e] eqn:Ey; cbn [bind] in Ea; [|discriminate Ea].
        injection Ea as <-. apply dict_set_in in Hin. destruct Hin as [->|Hin].
        * right. exists x. split; [left; reflexivity|]. split; assumption.
        * left. exists a. split; [reflexivity|exact Hin].
      + right. exists item. split; [right; exact Hi|]. split; assumption.
  Qed.

  Lemma keyed_in : forall rec kf items d, keyed rec kf (MList items) = Ok (MDict d) ->
    forall kv, In kv d -> exists item, In item items /\ key_of item kf = Ok (fst kv) /\ inst_elem rec item = Ok (snd kv).
  Proof.
    intros rec kf items d H kv Hkv. unfold keyed in H.
    destruct (fold_left (keyed_step rec kf) items (Ok [])) as [d'|e] eqn:Ef; cbn [bind] in H; [|discriminate H].
    injection H as <-. destruct (keyed_fold_in _ _ _ _ _ Ef kv Hkv) as [[a [Ea Hin]]|K]; [|exact K].
    injection Ea as <-. destruct Hin.
  Qed.

  Definition kdisc_task : kind :=
    KDisc "type" [("INT", "IntTaskParameterDefinition"); ("FLOAT", "FloatTaskParameterDefinition");
                  ("STRING", "StringTaskParameterDefinition"); ("PATH", "PathTaskParameterDefinition")].

  Lemma disc_task_class : forall item, tk kdisc_task item -> exists c, In c task_classes /\ tc c item.
  Proof.
    intros item H. apply tk_disc_inv in H. destruct H as [k [c [Hin Hc]]]. exists c. split; [|exact Hc].
    destruct Hin as [E|[E|[E|[E|[]]]]]; injection E as _ <-; cbn; tauto.
  Qed.

  Theorem inst_space : forall f ps y, tc "StepParameterSpaceDefinition" ps -> INST f ps = Ok y -> space_of jdef_raw y.
  Proof.
    intros f ps y Ht H. destruct f as [|f]; [rewrite inst_O in H; discriminate H|]. open_tc Ht.
    match goal with Hx : tv (mkField "taskParameterDefinitions" _ _ _ _) ?x |- _ =>
      eapply tv_req_list in Hx; [|reflexivity|reflexivity]; cbn [f_kind] in Hx; destruct Hx as [items [-> Hitems]] end.
    match goal with Hx : tv (mkField "combination" _ _ _ _) ?x |- _ =>
      apply tv_opt_single in Hx; [|reflexivity]; cbn [f_kind] in Hx; apply opt_str_leaf in Hx end.
    rewrite shape_ParamSpace in H; [|reflexivity|assumption].
    destruct (keyed (INST f) "name" (MList items)) as [t'|e] eqn:Ek; cbn [bind] in H; [|discriminate H]. injection H as <-.
    assert (Ed : exists d, t' = MDict d).
    { unfold keyed in Ek. destruct (fold_left _ items (Ok [])) as [d|e]; cbn [bind] in Ek; [|discriminate Ek].
      injection Ek as <-. eexists. reflexivity. }
    destruct Ed as [d ->]. right. exists d. eexists. split; [reflexivity|].
    apply Forall_forall. intros kv Hkv.
    destruct (keyed_in _ _ _ _ Ek kv Hkv) as [item [Hi [_ Hy]]].
    rewrite Forall_forall in Hitems. specialize (Hitems item Hi).
    destruct (disc_task_class item Hitems) as [c [Hc Htc]].
    pose proof Htc as Htc'. apply tc_inv in Htc'. destruct Htc' as [c0 [ifs [_ [-> _]]]]. cbn [inst_elem] in Hy.
    eapply inst_task_def; eassumption.
  Qed.

  Theorem inst_step : forall f st y, tc "StepTemplate" st -> INST f st = Ok y -> step_of jdef_raw y.
  Proof.
    intros f st y Ht H. destruct f as [|f]; [rewrite inst_O in H; discriminate H|]. open_tc Ht.
    match goal with Hx : tv (mkField "name" _ _ _ _) ?x |- _ =>
      apply tv_req_single in Hx; [|reflexivity|reflexivity]; cbn [f_kind] in Hx; apply tk_str_inv in Hx;
      destruct Hx as [n [-> _]] end.
    match goal with Hx : tv (mkField "description" _ _ _ _) ?x |- _ =>
      apply tv_opt_single in Hx; [|reflexivity]; cbn [f_kind] in Hx; apply opt_str_leaf in Hx end.
    match goal with Hx : tv (mkField "script" _ _ _ _) ?x |- _ =>
      apply tv_req_single in Hx; [|reflexivity|reflexivity]; cbn [f_kind] in Hx; apply tk_model_inv in Hx; apply tc_single in Hx end.
    match goal with Hx : tv (mkField "stepEnvironments" _ _ _ _) ?x |- _ =>
      eapply tv_opt_list in Hx; [|reflexivity]; apply opt_list_ok in Hx end.
    match goal with Hx : tv (mkField "hostRequirements" _ _ _ _) ?x |- _ =>
      apply tv_opt_single in Hx; [|reflexivity]; cbn [f_kind] in Hx; apply opt_model_single in Hx end.
    match goal with Hx : tv (mkField "dependencies" _ _ _ _) ?x |- _ =>
      eapply tv_opt_list in Hx; [|reflexivity]; apply opt_list_ok in Hx end.
    match goal with Hx : tv (mkField "parameterSpace" _ _ _ _) ?x |- _ =>
      apply tv_opt_single in Hx; [|reflexivity]; cbn [f_kind] in Hx; rename Hx into Hps end.
    rewrite shape_StepTemplate in H; try assumption; try reflexivity; [|eapply opt_model_single; exact Hps].
    repeat match type of H with
           | bind ?x _ = Ok _ => let E := fresh "E" in destruct x eqn:E; cbn [bind] in H; [|discriminate H]
           end.
    injection H as <-. do 7 eexists. split; [reflexivity|].
    destruct Hps as [->|Hps].
    - match goal with E : inst_elem _ MNone = Ok ?p |- _ => cbn [inst_elem] in E; injection E as <- end. left. reflexivity.
    - apply tk_model_inv in Hps. pose proof Hps as Hps'. apply tc_inv in Hps'. destruct Hps' as [c0 [pfs [_ [-> _]]]].
      match goal with E : inst_elem _ (MModel "StepParameterSpaceDefinition" _) = Ok ?p |- _ => cbn [inst_elem] in E; eapply inst_space; eassumption end.
  Qed.

  (* ---- job parameters ---- *)
  Definition kdisc_param : kind :=
    KDisc "type" [("INT", "JobIntParameterDefinition"); ("FLOAT", "JobFloatParameterDefinition");
                  ("STRING", "JobStringParameterDefinition"); ("PATH", "JobPathParameterDefinition")].

  Definition jpar_item (item : mval) (kv : str * mval) : Prop :=
    exists T dsc v ic ifs,
      snd kv = MModel "JobParameter" [("type", MStr T); ("description", dsc); ("value", MStr v)] /\
      leaf dsc = true /\
      st_lookup sigma ($"RawParam." ++ fst kv) = Some v /\
      item = MModel ic ifs /\ mfield "name" ifs = MStr (fst kv) /\ mfield "type" ifs = MStr T.

  Ltac param_fields :=
    match goal with Hx : tv (mkField "name" _ _ _ _) ?x |- _ =>
      apply tv_req_single in Hx; [|reflexivity|reflexivity]; cbn [f_kind] in Hx; apply tk_str_inv in Hx;
      let n := fresh "n" in destruct Hx as [n [-> _]] end;
    match goal with Hx : tv (mkField "type" _ _ _ _) ?x |- _ =>
      apply tv_req_single in Hx; [|reflexivity|reflexivity]; cbn [f_kind] in Hx; apply tk_lit_inv in Hx; subst x end;
    match goal with Hx : tv (mkField "description" _ _ _ _) ?x |- _ =>
      apply tv_opt_single in Hx; [|reflexivity]; cbn [f_kind] in Hx; apply opt_str_leaf in Hx end.

  Ltac param_finish Hk H :=
    cbn [key_of mfield lookup_s String.eqb Ascii.eqb Bool.eqb] in Hk; injection Hk as <-;
    unfold job_parameter in H;
    let v := fresh "v" in let Ev := fresh "Ev" in
    match type of H with context [st_lookup ?a ?b] => destruct (st_lookup a b) as [v|] eqn:Ev; [|discriminate H] end;
    injection H as <-;
    eexists; eexists; exists v; eexists; eexists;
    split; [reflexivity|]; split; [assumption|]; split; [first [exact Ev|reflexivity]|]; split; [reflexivity|]; split; reflexivity.

  Theorem inst_param : forall f item k y, tk kdisc_param item -> key_of item "name" = Ok k ->
    INST f item = Ok y -> jpar_item item (k, y).
  Proof.
    intros f item k y Ht Hk H. destruct f as [|f]; [rewrite inst_O in H; discriminate H|].
    apply tk_disc_inv in Ht. destruct Ht as [kk [c [Hin Ht]]]. unfold jpar_item. cbn [fst snd].
    destruct Hin as [E|[E|[E|[E|[]]]]]; injection E as _ <-; open_tc Ht; param_fields.
    - rewrite shape_JobIntParam in H by (reflexivity || assumption). param_finish Hk H.
    - rewrite shape_JobFloatParam in H by (reflexivity || assumption). param_finish Hk H.
    - rewrite shape_JobStringParam in H by (reflexivity || assumption). param_finish Hk H.
    - rewrite shape_JobPathParam in H by (reflexivity || assumption). param_finish Hk H.
  Qed.

  (* ---- the root ---- *)
  Theorem inst_job : forall f t job, tc "JobTemplate" t -> INST f t = Ok job -> job_of jdef_raw (jpar t sigma) job.
  Proof.
    intros f t job Ht H. destruct f as [|f]; [rewrite inst_O in H; discriminate H|]. open_tc Ht.
    match goal with Hx : tv (mkField "name" _ _ _ _) ?x |- _ =>
      apply tv_req_single in Hx; [|reflexivity|reflexivity]; cbn [f_kind] in Hx; apply tk_fmt_inv in Hx;
      destruct Hx as [s ->] end.
    match goal with Hx : tv (mkField "steps" _ _ _ _) ?x |- _ =>
      eapply tv_req_list in Hx; [|reflexivity|reflexivity]; cbn [f_kind] in Hx; destruct Hx as [stl [-> Hsteps]] end.
    match goal with Hx : tv (mkField "description" _ _ _ _) ?x |- _ =>
      apply tv_opt_single in Hx; [|reflexivity]; cbn [f_kind] in Hx; apply opt_str_leaf in Hx end.
    match goal with Hx : tv (mkField "jobEnvironments" _ _ _ _) ?x |- _ =>
      eapply tv_opt_list in Hx; [|reflexivity]; apply opt_list_ok in Hx end.
    match goal with Hx : tv (mkField "parameterDefinitions" _ _ _ _) ?x |- _ =>
      eapply tv_opt_list in Hx; [|reflexivity]; cbn [f_kind] in Hx; rename Hx into Hpd end.
    rewrite shape_JobTemplate in H; try assumption; try reflexivity; [|eapply opt_list_ok; exact Hpd].
    destruct (resolve sigma s) as [n|e]; cbn [bind] in H; [|discriminate H].
    destruct (elems (INST f) (MList stl)) as [st'|e] eqn:Est; cbn [bind] in H; [|discriminate H].
    match type of H with context [keyed ?r ?k ?x] => destruct (keyed r k x) as [p|e] eqn:Ep; cbn [bind] in H; [|discriminate H] end.
    match type of H with context [elems ?r ?x] => destruct (elems r x) as [e'|e]; cbn [bind] in H; [|discriminate H] end.
    injection H as <-.
    cbn [elems] in Est. destruct (mapM (inst_elem (INST f)) stl) as [steps|e] eqn:Em; cbn [bind] in Est; [|discriminate Est].
    injection Est as <-.
    exists n, steps. do 3 eexists. split; [reflexivity|]. split.
    - apply Forall_forall. intros y Hy. destruct (cf_mapM_in_bwd _ _ _ _ _ Em y Hy) as [x [Hx Hi]].
      rewrite Forall_forall in Hsteps. specialize (Hsteps x Hx). apply tk_model_inv in Hsteps.
      pose proof Hsteps as Hs'. apply tc_inv in Hs'. destruct Hs' as [c0 [sfs [_ [-> _]]]]. cbn [inst_elem] in Hi.
      eapply inst_step; eassumption.
    - destruct Hpd as [->|[l [-> Hl]]].
      + cbn [keyed] in Ep. injection Ep as <-. left. reflexivity.
      + assert (Ed : exists d, p = MDict d).
        { unfold keyed in Ep. destruct (fold_left _ l (Ok [])) as [d|e]; cbn [bind] in Ep; [|discriminate Ep].
          injection Ep as <-. eexists. reflexivity. }
        destruct Ed as [d ->]. right. exists d. split; [reflexivity|].
        apply Forall_forall. intros [k y] Hkv.
        destruct (keyed_in _ _ _ _ Ep (k, y) Hkv) as [item [Hi [Hk Hy]]]. cbn [fst snd] in Hk, Hy.
        rewrite Forall_forall in Hl. specialize (Hl item Hi).
        assert (Hm : exists ic ifs, item = MModel ic ifs).
        { pose proof Hl as Hl'. apply tk_disc_inv in Hl'. destruct Hl' as [kk [c [_ Hc]]]. apply tc_inv in Hc.
          destruct Hc as [c0 [ifs [_ [-> _]]]]. eexists. eexists. reflexivity. }
        destruct Hm as [ic [ifs ->]]. cbn [inst_elem] in Hy.
        destruct (inst_param f _ k y Hl Hk Hy) as [T [dsc [v [ic' [ifs' [E1 [E2 [E3 [E4 [E5 E6]]]]]]]]]].
        cbn [fst snd] in *. injection E4 as <- <-.
        exists T, dsc, v. split; [exact E1|]. split; [exact E2|]. split; [exact E3|].
        eexists. eexists. exists l, ic, ifs. split; [reflexivity|]. split; [reflexivity|].
        split; [exact Hi|]. split; assumption.
  Qed.
End Inst.

(* ------------------------------------------------------------------ the job-side coercion, fuel-free *)
Fixpoint coerce (v : mval) : mval :=
  match v with
  | MModel c fs =>
    MModel c (map (fun fv =>
                     if String.eqb (fst fv) "range"
                     then match snd fv with
                          | MList items => (fst fv, MList (map coerce_range_item items))
                          | x => (fst fv, x)
                          end
                     else (fst fv, coerce (snd fv))) fs)
  | MList l => MList (map coerce l)
  | MDict l => MDict (map (fun kv => (fst kv, coerce (snd kv))) l)
  | _ => v
  end.

Lemma coerce_job_coerce : forall v F, mval_depth v <= F -> coerce_job F v = coerce v.
Proof.
  induction v as [ | | | | | | |l IH|l IH|c fs IH] using mval_ind3; intros F HF;
    (destruct F as [|F]; [cbn [mval_depth] in HF; lia|]); try reflexivity.
  - cbn [coerce_job coerce]. f_equal. apply map_ext_in. intros y Hy.
    rewrite Forall_forall in IH. apply (IH y Hy). pose proof (item_depth l y Hy). lia.
  - cbn [coerce_job coerce]. f_equal. apply map_ext_in. intros kv Hkv.
    rewrite Forall_forall in IH. f_equal. apply (IH kv Hkv). pose proof (member_depth l kv Hkv). lia.
  - cbn [coerce_job coerce]. f_equal. apply map_ext_in. intros kv Hkv.
    rewrite Forall_forall in IH. destruct (String.eqb (fst kv) "range"); [reflexivity|].
    f_equal. apply (IH kv Hkv). pose proof (field_depth c fs kv Hkv). lia.
Qed.

Lemma leaf_coerce : forall x, leaf x = true -> coerce x = x.
Proof. intros x H. destruct x; try reflexivity; discriminate H. Qed.

Lemma coerce_items_str : forall (P : mval -> Prop) its,
  (forall x, P x -> exists s, coerce_range_item x = MStr s) -> Forall P its ->
  exists ss, map coerce_range_item its = map MStr ss.
Proof.
  intros P its HP H. apply cf_Forall_map_ex. apply Forall_forall. intros y Hy.
  apply in_map_iff in Hy. destruct Hy as [x [<- Hx]]. rewrite Forall_forall in H. exact (HP x (H x Hx)).
Qed.

Lemma coerce_def : forall y, jdef_raw y -> jdef (coerce y).
Proof.
  intros y H. destruct H as [its Hits|r|its Hits|ty its Hty Hits];
    cbn [coerce map fst snd String.eqb Ascii.eqb Bool.eqb].
  - destruct (coerce_items_str int_item its) as [ss ->]; [|exact Hits|apply jd_int].
    intros x [[z ->]|[s ->]]; eexists; reflexivity.
  - apply jd_expr.
  - destruct (coerce_items_str dec_item its) as [ss ->]; [|exact Hits|apply jd_float].
    intros x [[a [e ->]]|[s ->]]; eexists; reflexivity.
  - destruct (coerce_items_str str_item its) as [ss ->]; [|exact Hits|apply jd_str; exact Hty].
    intros x [s ->]. eexists. reflexivity.
Qed.

Lemma coerce_space : forall ps, space_of jdef_raw ps -> space_of jdef (coerce ps).
Proof.
  intros ps [->|[d [cb [-> Hd]]]]; [left; reflexivity|].
  right. cbn [coerce map fst snd String.eqb Ascii.eqb Bool.eqb]. eexists. eexists. split; [reflexivity|].
  apply Forall_forall. intros kv Hkv. apply in_map_iff in Hkv. destruct Hkv as [kv0 [<- Hkv0]]. cbn [snd].
  apply coerce_def. rewrite Forall_forall in Hd. exact (Hd kv0 Hkv0).
Qed.

Lemma coerce_step : forall st, step_of jdef_raw st -> step_of jdef (coerce st).
Proof.
  intros st [n [d [sc [se [ps [hr [dp [-> Hps]]]]]]]].
  cbn [coerce map fst snd String.eqb Ascii.eqb Bool.eqb]. do 7 eexists. split; [reflexivity|].
  apply coerce_space. exact Hps.
Qed.

Lemma coerce_par : forall t sigma kv, jpar t sigma kv -> jpar t sigma (fst kv, coerce (snd kv)).
Proof.
  intros t sigma [k y] [T [dsc [v [E [Hd [Hv Hr]]]]]]. cbn [fst snd] in *. subst y.
  cbn [coerce map fst snd String.eqb Ascii.eqb Bool.eqb]. rewrite (leaf_coerce dsc Hd).
  exists T, dsc, v. split; [reflexivity|]. split; [exact Hd|]. split; [exact Hv|exact Hr].
Qed.

Theorem coerce_job_shape : forall t sigma job, job_of jdef_raw (jpar t sigma) job -> job_of jdef (jpar t sigma) (coerce job).
Proof.
  intros t sigma job [n [steps [d [p [e [-> [Hs Hp]]]]]]].
  cbn [coerce map fst snd String.eqb Ascii.eqb Bool.eqb].
  exists n, (map coerce steps). do 3 eexists. split; [reflexivity|]. split.
  - apply Forall_forall. intros y Hy. apply in_map_iff in Hy. destruct Hy as [x [<- Hx]].
    apply coerce_step. rewrite Forall_forall in Hs. exact (Hs x Hx).
  - destruct Hp as [->|[pd [-> Hpd]]]; [left; reflexivity|].
    right. cbn [coerce]. eexists. split; [reflexivity|].
    apply Forall_forall. intros kv Hkv. apply in_map_iff in Hkv. destruct Hkv as [kv0 [<- Hkv0]].
    apply coerce_par. rewrite Forall_forall in Hpd. exact (Hpd kv0 Hkv0).
Qed.
