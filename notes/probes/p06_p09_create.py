# C06 / C09 probe: accepted templates x arbitrary string values x env templates; exception families; typed values; usable Jobs.
import copy, random, sys
from decimal import Decimal, InvalidOperation
from pathlib import Path
from openjd.model import (decode_job_template, decode_environment_template, preprocess_job_parameters, create_job, DecodeValidationError,
                          StepParameterSpaceIterator, StepDependencyGraph)
src = open("/verif/notes/probes/p05_p17_p19_job.py").read().split("FS = re.compile")[0]
ns = {}; exec(src, ns)
rnd = random.Random(int(sys.argv[1]) if len(sys.argv) > 1 else 1)
POOL = ["", " ", "0", "-0", "1", "2", "3", "7", "-3", "8", "1.5", "2.5", "2.50", "0.5", "1e1", "NaN", "sNaN", "Infinity", "-inf", "abc", "ab", "x3", "1_0", " 3 ", "٣",
        "{{Param.Ps}}", "{{Nope}}", "1-3", "5-3", "1-3:0", "9"*400, "a"*1100, "/abs/p", "rel/p", "../up", "a b", "é", "a\nb", "\x07", "!!", "amount.x", "linux", "windows"]
def variant(doc):
    d = copy.deepcopy(doc)
    # loosen constraints randomly so more values get through to instantiation
    for p in d["parameterDefinitions"]:
        for k in ("minLength", "maxLength", "allowedValues", "minValue", "maxValue", "userInterface"):
            if k in p and rnd.random() < .6: p.pop(k)
        if rnd.random() < .3: p.pop("default", None)
        if "default" in p and "allowedValues" in p and p["default"] not in [str(a) if p["type"]=="STRING" else a for a in p["allowedValues"]]: p.pop("default")
    if rnd.random() < .5: d["name"] = "{{Param.Ps}}{{RawParam.Pp}}"
    return d
def conforms(ty, v):
    if ty == "INT":
        try: int(v); return True
        except ValueError: return False
    if ty == "FLOAT":
        try: return Decimal(v).is_finite()
        except InvalidOperation: return False
    return True
fam = {}; bad = {}
for it in range(int(sys.argv[2]) if len(sys.argv) > 2 else 1500):
    d = variant(ns["template"]())
    try: jt = decode_job_template(template=d)
    except DecodeValidationError: fam["template-rejected"] = fam.get("template-rejected", 0) + 1; continue
    vals = {p: rnd.choice(POOL) for p in ("Ps", "Pi", "Pf", "Pp") if rnd.random() < .8}
    if rnd.random() < .1: vals["Extra"] = "1"
    envs = None
    if rnd.random() < .4:
        ep = copy.deepcopy(rnd.choice(d["parameterDefinitions"])); ep.pop("userInterface", None)
        if rnd.random() < .5: ep["type"] = rnd.choice(["INT", "STRING", "FLOAT", "PATH"]); [ep.pop(k, None) for k in ("minLength", "maxLength", "minValue", "maxValue", "allowedValues", "default", "objectType", "dataFlow")]
        try: envs = [decode_environment_template(template={"specificationVersion": "environment-2023-09", "parameterDefinitions": [ep], "environment": {"name": "E", "variables": {"A": "b"}}})]
        except DecodeValidationError: envs = None
    try: pv = preprocess_job_parameters(job_template=jt, job_parameter_values=vals, job_template_dir=Path("/t"), current_working_dir=Path("/c"), environment_templates=envs); r = "ok"
    except ValueError: r = "ValueError"
    except Exception as e: r = "EXC:" + type(e).__name__
    fam["pre:" + r] = fam.get("pre:" + r, 0) + 1
    if r.startswith("EXC"): bad.setdefault("pre " + r, []).append(vals)
    if r != "ok": continue
    try: job = create_job(job_template=jt, job_parameter_values=pv, environment_templates=envs); r = "ok"
    except DecodeValidationError: r = "DVE"
    except Exception as e: r = "EXC:" + type(e).__name__
    fam["create:" + r] = fam.get("create:" + r, 0) + 1
    if r.startswith("EXC"): bad.setdefault("create " + r, []).append(vals)
    if r != "ok": continue
    for n, p in (job.parameters or {}).items():
        if not conforms(p.type.value, p.value): bad.setdefault("C09 job param", []).append((n, p.type.value, p.value))
    try:
        for s in job.steps:
            for ts in StepParameterSpaceIterator(space=s.parameterSpace):
                for n, v in ts.items():
                    if not conforms(v.type.value, v.value) or (v.type.value in ("STRING", "PATH") and len(v.value) > 1024):
                        bad.setdefault("C09 task value", []).append((n, v.type.value, v.value[:30]))
        g = StepDependencyGraph(job=job); g.topo_sorted()
    except Exception as e: bad.setdefault("C06 unusable job " + type(e).__name__, []).append(vals)
print(fam)
for k, v in bad.items(): print(k, len(v), v[:3])
