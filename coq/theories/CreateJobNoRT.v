(* CreateJobNoRT.v — the job-side re-validation [Export.nodes_ok] of an instantiated ACCEPTED job template
   never answers RuntimeError ("outside the modelled pydantic domain"), for props/C06x.v.

   The structural model (Parse.v) says "unsupported" in three places only: a non-strict str field given a
   float, a non-strict bool field given a non-bool, a float field given a string; besides that RuntimeError
   means an unknown class or exhausted fuel.  Plan:
     A. decoded trees are [live]: outside the fields instantiate_model drops (j_exclude) there is no
        float value, every class is in RT, and members of lists / dicts are not collections themselves
        (schema check [live_closed], by computation on Generated.schema);
     B. instantiate_model maps live trees to [good] trees: no float anywhere, every class in RJ
        (schema check [targets_ok]); coerce_job keeps them good;
     C. the export of a good tree contains no JDec;
     D. parsing a JDec-free document against a class of RJ never answers RuntimeError once the fuel
        covers the document (schema check [safe_closed]: no float field, no lax bool field, classes closed);
     E. depth: the instantiated tree is not deeper than the template, so the fuel of nodes_ok suffices. *)
From Coq Require Import List NArith ZArith Bool String Lia.
Import ListNotations.
Require Import OJD.Base OJD.Lexer OJD.Json OJD.Schema OJD.Generated OJD.Charsets OJD.Numerals OJD.NumPrint
               OJD.FormatStr OJD.CreateJob OJD.CreateJobProofs OJD.Parse OJD.Validators OJD.Accept OJD.AcceptMono
               OJD.Export OJD.GlueLib OJD.ParseOutcomes OJD.CreateExn OJD.DecodeInv OJD.WellKeyed.
Require OJD.ExportProofs.   (* kh, json_depth lemmas, the union-nesting bound of the live schema; not imported: its parse_*_S clash *)
Local Open Scope string_scope.
Local Open Scope list_scope.

(* ------------------------------------------------------------------ predicates on instance trees *)

Definition member_ok (x : mval) : bool := match x with MList _ | MDict _ => false | _ => true end.

Section Preds.
  Variable SC : schema_t.
  Variable R : list string.

  (* the part of a template tree instantiate_model looks at *)
  Fixpoint live (v : mval) : bool :=
    match v with
    | MFloat _ _ => false
    | MList l => forallb (fun x => member_ok x && live x) l
    | MDict l => forallb (fun kv => member_ok (snd kv) && live (snd kv)) l
    | MModel c fs =>
      mem_s c R && forallb (fun fv => mem_s (fst fv) (j_exclude (jcm_of SC c)) || live (snd fv)) fs
    | _ => true
    end.

  (* a tree without floats whose classes are all in R *)
  Fixpoint good (v : mval) : bool :=
    match v with
    | MFloat _ _ => false
    | MList l => forallb good l
    | MDict l => forallb (fun kv => good (snd kv)) l
    | MModel c fs => mem_s c R && forallb (fun fv => good (snd fv)) fs
    | _ => true
    end.
End Preds.

(* ------------------------------------------------------------------ predicates on kinds *)

Definition alt_single (ks : kind -> bool) (a : ualt) : bool :=
  match a with UScalar k' => ks k' | UList _ _ _ => false end.

Fixpoint kind_single (k : kind) : bool :=
  match k with
  | KUnion alts =>
    (fix go (l : list ualt) : bool :=
       match l with
       | [] => true
       | a :: r => (match a with UScalar k' => kind_single k' | UList _ _ _ => false end) && go r
       end) alts
  | _ => true
  end.

Lemma kind_single_union : forall alts, kind_single (KUnion alts) = forallb (alt_single kind_single) alts.
Proof. induction alts as [|a r IH]; [reflexivity|]. cbn [forallb]. rewrite <- IH. destruct a; reflexivity. Qed.

Definition alt_live (kl : kind -> bool) (a : ualt) : bool :=
  match a with UScalar k' => kl k' | UList _ _ k' => kl k' && kind_single k' end.

Fixpoint kind_live (R : list string) (k : kind) : bool :=
  match k with
  | KFloat _ => false
  | KModel c => mem_s c R
  | KDisc _ mp => forallb (fun kc => mem_s (snd kc) R) mp
  | KUnion alts =>
    (fix go (l : list ualt) : bool :=
       match l with
       | [] => true
       | a :: r => (match a with UScalar k' => kind_live R k' | UList _ _ k' => kind_live R k' && kind_single k' end) && go r
       end) alts
  | _ => true
  end.

Lemma kind_live_union : forall R alts, kind_live R (KUnion alts) = forallb (alt_live (kind_live R)) alts.
Proof. intros R. induction alts as [|a r IH]; [reflexivity|]. cbn [forallb]. rewrite <- IH. destruct a; reflexivity. Qed.

Definition field_live (R : list string) (fl : field) : bool :=
  kind_live R (f_kind fl) && match f_shape fl with Single => true | _ => kind_single (f_kind fl) end.

Definition live_closed (SC : schema_t) (R : list string) : bool :=
  forallb (fun c => match lookup_cls SC c with
                    | Some c0 => forallb (fun fl => mem_s (f_name fl) (j_exclude (c_jcm c0)) || field_live R fl) (c_fields c0)
                    | None => false
                    end) R.

(* ------------------------------------------------------------------ A. decoded trees are live *)

Lemma parse_scalar_live : forall SC R classify k v m, parse_scalar classify k v = Ok m ->
  match k with KFloat _ => False | _ => True end -> live SC R m = true /\ member_ok m = true.
Proof.
  intros SC R classify k v m H Hk.
  destruct k as [lit|enum|strict lo hi cs|c lo hi cs|strict|strict ge le gt|gt| |c|key mp|alts];
    cbn [parse_scalar] in H; try discriminate H; try (destruct Hk).
  - destruct v as [|b|z|dm de|s|l|members]; try discriminate H. destruct (str_eqb s (str_of_string lit)); [|discriminate H].
    injection H as <-. split; reflexivity.
  - destruct v as [|b|z|dm de|s|l|members]; try discriminate H. destruct (existsb _ enum); [|discriminate H]. injection H as <-. split; reflexivity.
  - destruct v as [|b|z|dm de|s|l|members]; try discriminate H; try (destruct strict; try discriminate H);
      apply check_str_ok in H; destruct H as [-> _]; split; reflexivity.
  - destruct v as [|b|z|dm de|s|l|members]; try discriminate H. destruct (len_ok lo hi s && cs_ok cs s && fs_ok classify s); [|discriminate H].
    injection H as <-. split; reflexivity.
  - destruct v; try (destruct strict; discriminate H). injection H as <-. split; reflexivity.
  - assert (F : forall z, (if zopt_ok ge le gt z then Ok (MInt z) else reject) = Ok m -> live SC R m = true /\ member_ok m = true).
    { intros z Hz. destruct (zopt_ok ge le gt z); [|discriminate Hz]. injection Hz as <-. split; reflexivity. }
    destruct v as [|b|z|dm de|s|l|members]; try discriminate H; try (destruct strict; try discriminate H); try (eapply F; exact H).
    + destruct (dec_integral dm de); [eapply F; exact H|discriminate H].
    + destruct (parse_int s); [eapply F; exact H|discriminate H].
  - destruct v as [|b|z|dm de|s|l|members]; try discriminate H; try (injection H as <-; split; reflexivity).
    destruct (parse_dec s) as [[a x|b|]|]; try discriminate H. injection H as <-. split; reflexivity.
Qed.

Section Live.
  Variable SC : schema_t.
  Variable classify : N -> cclass.
  Variable pre : string -> json -> bool.
  Variable post : string -> json -> list (string * mval) -> bool.
  Notation pk := (parse_kind SC classify pre post).
  Notation pc := (parse_cls SC classify pre post).
  Variable R : list string.
  Hypothesis closed : live_closed SC R = true.

  Lemma pc_model : forall f c v m, pc f c v = Ok m -> exists fs, m = MModel c fs.
  Proof.
    intros f c v m H. destruct f as [|f]; [rewrite parse_cls_O in H; discriminate H|]. rewrite parse_cls_S in H.
    destruct (lookup_cls SC c) as [c0|]; [|discriminate H].
    destruct v as [|b|z|a e|s|l|ms]; try discriminate H.
    destruct (negb (pre c (JObj ms))); [discriminate H|].
    destruct (extra_bad c0 ms); [discriminate H|].
    destruct (mapM _ (c_fields c0)) as [fields|e']; cbn [bind] in H; [|discriminate H].
    destruct (post c (JObj ms) fields); [|discriminate H]. injection H as <-. eexists. reflexivity.
  Qed.

  Lemma pk_member : forall f k v m, pk f k v = Ok m -> kind_single k = true -> member_ok m = true.
  Proof.
    induction f as [|f IH]; intros k v m H Hs; [rewrite parse_kind_O in H; discriminate H|].
    rewrite parse_kind_S in H.
    destruct k as [lit|enum|strict lo hi cs|c lo hi cs|strict|strict ge le gt|gt| |c|key mp|alts];
      try (apply parse_scalar_ok_scalar in H; destruct m; try reflexivity; destruct H).
    - apply pc_model in H. destruct H as [fs ->]. reflexivity.
    - unfold disc_res in H. destruct v as [|b|z|dm de|s|l|members]; try discriminate H.
      destruct (assoc (str_of_string key) members) as [[| | | |s| |]|]; try discriminate H.
      destruct (List.find _ mp) as [[k' c']|]; [|discriminate H].
      apply pc_model in H. destruct H as [fs ->]. reflexivity.
    - apply try_alts_ok in H. destruct H as [a [Ha Hr]].
      rewrite kind_single_union in Hs. rewrite forallb_forall in Hs. specialize (Hs a Ha).
      destruct a as [k'|lo hi k']; cbn [alt_single alt_res] in *; [|discriminate Hs].
      exact (IH k' v m Hr Hs).
  Qed.

  Lemma list_items_live : forall f lo hi k v m,
    (forall k v m, pk f k v = Ok m -> kind_live R k = true -> live SC R m = true) ->
    list_items (pk f) lo hi k v = Ok m -> kind_live R k = true -> kind_single k = true -> live SC R m = true.
  Proof.
    intros f lo hi k v m IH H Hk Hs. unfold list_items in H. destruct v as [|b|z|dm de|s|l|members]; try discriminate H.
    destruct (len_ok_n lo hi (List.length l)); [|discriminate H].
    destruct (mapM (pk f k) l) as [l'|e] eqn:Em; cbn [bind] in H; [|discriminate H].
    injection H as <-. cbn [live]. apply forallb_forall. intros y Hy.
    destruct (mapM_ok_in _ _ _ _ _ Em y Hy) as [x [_ Hx]].
    rewrite (pk_member f k x y Hx Hs), (IH k x y Hx Hk). reflexivity.
  Qed.

  Lemma parse_value_live : forall f fl raw x,
    (forall k v m, pk f k v = Ok m -> kind_live R k = true -> live SC R m = true) ->
    parse_value (pk f) fl raw = Ok x -> field_live R fl = true -> live SC R x = true.
  Proof.
    intros f fl raw x IH H Hfl. unfold field_live in Hfl. apply andb_true_iff in Hfl. destruct Hfl as [Hk Hs].
    unfold parse_value in H.
    assert (K : match f_shape fl with
                | Single => pk f (f_kind fl) raw
                | ListOf minl maxl => list_items (pk f) minl maxl (f_kind fl) raw
                | DictOf kk =>
                  match raw with
                  | JObj members => do l' <- mapM (dict_entry (pk f) kk (f_kind fl)) members; Ok (MDict l')
                  | _ => reject
                  end
                end = Ok x -> live SC R x = true).
    { clear H. intros H. destruct (f_shape fl) as [|lo hi|kk].
      - eapply IH; eassumption.
      - eapply list_items_live; eassumption.
      - destruct raw as [|b|z|a e|s|l|ms]; try discriminate H.
        + destruct (mapM (dict_entry (pk f) kk (f_kind fl)) ms) as [l'|e] eqn:Em; cbn [bind] in H; [|discriminate H].
          injection H as <-. cbn [live]. apply forallb_forall. intros kv' Hy.
          destruct (mapM_ok_in _ _ _ _ _ Em kv' Hy) as [kv [_ Hx]]. unfold dict_entry in Hx.
          destruct (pk f kk (JStr (fst kv))) as [y1|e1]; cbn [bind] in Hx; [|discriminate Hx].
          destruct (pk f (f_kind fl) (snd kv)) as [y2|e2] eqn:E2; cbn [bind] in Hx; [|discriminate Hx].
          injection Hx as <-. cbn [snd].
          rewrite (pk_member f _ _ _ E2 Hs), (IH _ _ _ E2 Hk). reflexivity. }
    destruct raw; try (apply K; exact H).
    destruct (f_required fl); [discriminate H|]. injection H as <-. reflexivity.
  Qed.

  Theorem parse_live : forall fuel,
    (forall k v m, pk fuel k v = Ok m -> kind_live R k = true -> live SC R m = true) /\
    (forall c v m, pc fuel c v = Ok m -> In c R -> live SC R m = true).
  Proof.
    induction fuel as [|f [IHk IHc]].
    - split; intros x v m H; [rewrite parse_kind_O in H|rewrite parse_cls_O in H]; discriminate H.
    - split.
      + intros k v m H Hk. rewrite parse_kind_S in H.
        destruct k as [lit|members|strict lo hi cs|c lo hi cs|strict|strict ge le gt|gt| |c|key mp|alts];
          try (exact (proj1 (parse_scalar_live SC R classify _ v m H I))).
        * discriminate Hk.
        * apply (IHc c v m H). apply mem_s_In. exact Hk.
        * unfold disc_res in H. destruct v as [|b|z|dm de|s|l|members]; try discriminate H.
          destruct (assoc (str_of_string key) members) as [[| | | |s| |]|]; try discriminate H.
          destruct (List.find _ mp) as [[k' c']|] eqn:Ef; [|discriminate H].
          apply (IHc c' _ m H). apply find_some in Ef. destruct Ef as [Ef _].
          cbn [kind_live] in Hk. rewrite forallb_forall in Hk. apply mem_s_In. exact (Hk (k', c') Ef).
        * apply try_alts_ok in H. destruct H as [a [Ha Hr]].
          rewrite kind_live_union in Hk. rewrite forallb_forall in Hk. specialize (Hk a Ha).
          destruct a as [k'|lo hi k']; cbn [alt_res alt_live] in *.
          -- exact (IHk k' v m Hr Hk).
          -- apply andb_true_iff in Hk. destruct Hk as [Hk1 Hk2]. eapply list_items_live; eassumption.
      + intros c v m H Hc. rewrite parse_cls_S in H.
        destruct (lookup_cls SC c) as [c0|] eqn:El; [|discriminate H].
        destruct v as [|b|z|a e|s|l|ms]; try discriminate H.
        destruct (negb (pre c (JObj ms))); [discriminate H|].
        destruct (extra_bad c0 ms); [discriminate H|].
        destruct (mapM (parse_field (pk f) ms) (c_fields c0)) as [fields|e'] eqn:Em; cbn [bind] in H; [|discriminate H].
        destruct (post c (JObj ms) fields); [|discriminate H]. injection H as <-.
        assert (Ej : jcm_of SC c = c_jcm c0) by (unfold jcm_of; rewrite El; reflexivity).
        cbn [live]. rewrite Ej. apply andb_true_iff. split; [apply mem_s_In; exact Hc|].
        apply forallb_forall. intros kv Hkv.
        destruct (mapM_ok_in _ _ _ _ _ Em kv Hkv) as [fl [Hfl Hp]]. unfold parse_field in Hp.
        destruct (parse_value (pk f) fl (field_raw ms fl)) as [x|e] eqn:Ev; cbn [bind] in Hp; [|discriminate Hp].
        injection Hp as <-. cbn [fst snd].
        unfold live_closed in closed. rewrite forallb_forall in closed. specialize (closed c Hc). rewrite El in closed.
        rewrite forallb_forall in closed. specialize (closed fl Hfl).
        destruct (mem_s (f_name fl) (j_exclude (c_jcm c0))); [reflexivity|]. cbn [orb] in *.
        eapply parse_value_live; eassumption.
  Qed.
End Live.

(* ------------------------------------------------------------------ B. instantiate_model: live -> good *)

Definition targets (j : jcm) (c : string) : list string :=
  match j_create_as j with CreateSelf => [c] | CreateModel t => [t] | CreateIntRange a b => [a; b] end.

Definition targets_ok (SC : schema_t) (R R' : list string) : bool :=
  forallb (fun c => forallb (fun t => mem_s t R') (targets (jcm_of SC c) c)) R.

Lemma target_class_in : forall j c fields, In (target_class j c fields) (targets j c).
Proof.
  intros j c fields. unfold target_class, targets. destruct (j_create_as j) as [|t|a b]; [left; reflexivity|left; reflexivity|].
  destruct (mfield "range" fields); cbn; tauto.
Qed.

Lemma leaf_live_good : forall SC R R' x, member_ok x = true -> (forall c fs, x <> MModel c fs) ->
  live SC R x = true -> good R' x = true.
Proof.
  intros SC R R' x Hm Hn H. destruct x as [ | | | | | | |l|l|c fs]; try reflexivity; try discriminate Hm; try discriminate H.
  exfalso. exact (Hn c fs eq_refl).
Qed.

Section InstGood.
  Variable SC : schema_t.
  Variable resolve : symtab -> str -> outcome str.
  Variable sigma : symtab.
  Variable RT RJ : list string.
  Hypothesis Htargets : targets_ok SC RT RJ = true.

  Section Node.
    Variable rec : mval -> outcome mval.
    Variable j : jcm.
    Hypothesis Hrec : forall c fs y, live SC RT (MModel c fs) = true -> rec (MModel c fs) = Ok y -> good RJ y = true.

    Lemma inst_item_good : forall fn x y, member_ok x = true -> live SC RT x = true ->
      inst_item resolve sigma rec j fn x = Ok y -> good RJ y = true.
    Proof.
      intros fn x y Hm Hl H. unfold inst_item in H.
      destruct x as [ | | | | | |s|l|l|c fs]; try discriminate Hm; try discriminate Hl;
        try (injection H as <-; reflexivity).
      - destruct (mem_s fn (j_resolve j)).
        + destruct (resolve sigma s) as [r|e]; cbn [bind] in H; [|discriminate H]. injection H as <-. reflexivity.
        + injection H as <-. reflexivity.
      - eapply Hrec; eassumption.
    Qed.

    Lemma inst_member_good : forall kv kv', member_ok (snd kv) = true -> live SC RT (snd kv) = true ->
      inst_member resolve sigma rec j kv = Ok kv' -> good RJ (snd kv') = true.
    Proof.
      intros [k x] kv' Hm Hl H. unfold inst_member in H. cbn [fst snd] in *.
      destruct x as [ | | | | | |s|l|l|c fs]; try discriminate Hm; try discriminate Hl; cbn [bind] in H;
        try (injection H as <-; reflexivity).
      - destruct (existsb _ (j_resolve j)); cbn [bind] in H.
        + destruct (resolve sigma s) as [r|e]; cbn [bind] in H; [|discriminate H]. injection H as <-. reflexivity.
        + injection H as <-. reflexivity.
      - destruct (rec (MModel c fs)) as [y|e] eqn:Er; cbn [bind] in H; [|discriminate H]. injection H as <-.
        cbn [snd]. eapply Hrec; eassumption.
    Qed.

    Lemma dict_set_good : forall d k y, forallb (fun kv => good RJ (snd kv)) d = true -> good RJ y = true ->
      forallb (fun kv => good RJ (snd kv)) (dict_set d k y) = true.
    Proof.
      induction d as [|[k' v'] r IH]; intros k y Hd Hy; cbn [dict_set forallb snd].
      - rewrite Hy. reflexivity.
      - cbn [forallb snd] in Hd. apply andb_true_iff in Hd. destruct Hd as [H1 H2].
        destruct (str_eqb k k'); cbn [forallb snd].
        + rewrite Hy, H2. reflexivity.
        + rewrite H1. cbn [andb]. apply IH; assumption.
    Qed.

    Lemma reshape_fold_good : forall fn kf items acc d,
      forallb (fun x => member_ok x && live SC RT x) items = true ->
      (forall a, acc = Ok a -> forallb (fun kv => good RJ (snd kv)) a = true) ->
      fold_left (reshape_step resolve sigma rec j fn kf) items acc = Ok d ->
      forallb (fun kv => good RJ (snd kv)) d = true.
    Proof.
      intros fn kf. induction items as [|it r IH]; intros acc d Hi Ha H.
      - cbn [fold_left] in H. apply Ha. exact H.
      - cbn [fold_left] in H. cbn [forallb] in Hi. apply andb_true_iff in Hi. destruct Hi as [Hit Hr].
        apply andb_true_iff in Hit. destruct Hit as [Hm Hl].
        eapply IH; [exact Hr| |exact H].
        intros a' Ea. unfold reshape_step in Ea. destruct acc as [a|e]; cbn [bind] in Ea; [|discriminate Ea].
        destruct (key_of it kf) as [k|e]; cbn [bind] in Ea; [|discriminate Ea].
        destruct (inst_item resolve sigma rec j fn it) as [y|e] eqn:Ei; cbn [bind] in Ea; [|discriminate Ea].
        injection Ea as <-. apply dict_set_good; [apply Ha; reflexivity|]. eapply inst_item_good; eassumption.
    Qed.

    Lemma inst_val_good : forall fn x y, live SC RT x = true ->
      inst_val resolve sigma rec j fn x = Ok y -> good RJ y = true.
    Proof.
      intros fn x y Hl H. unfold inst_val in H.
      destruct x as [ | | | | | |s|l|l|c fs];
        try (match type of Hl with live _ _ ?x = true => exact (inst_item_good fn x y eq_refl Hl H) end).
      - cbn [live] in Hl. destruct (lookup_s fn (j_reshape j)) as [kf|].
        + destruct (fold_left _ l (Ok [])) as [d|e] eqn:Ef; cbn [bind] in H; [|discriminate H]. injection H as <-.
          cbn [good]. eapply reshape_fold_good; [exact Hl| |exact Ef]. intros a Ea. injection Ea as <-. reflexivity.
        + destruct (mapM _ l) as [l'|e] eqn:Em; cbn [bind] in H; [|discriminate H]. injection H as <-.
          cbn [good]. apply forallb_forall. intros y Hy.
          destruct (mapM_ok_in _ _ _ _ _ Em y Hy) as [x [Hx Hi]].
          rewrite forallb_forall in Hl. specialize (Hl x Hx). apply andb_true_iff in Hl. destruct Hl as [Hm Hl].
          eapply inst_item_good; eassumption.
      - cbn [live] in Hl. destruct (mapM _ l) as [l'|e] eqn:Em; cbn [bind] in H; [|discriminate H]. injection H as <-.
        cbn [good]. apply forallb_forall. intros kv' Hy.
        destruct (mapM_ok_in _ _ _ _ _ Em kv' Hy) as [kv [Hx Hi]].
        rewrite forallb_forall in Hl. specialize (Hl kv Hx). apply andb_true_iff in Hl. destruct Hl as [Hm Hl].
        eapply inst_member_good; eassumption.
    Qed.

    Lemma inst_field_good : forall fv l,
      mem_s (fst fv) (j_exclude j) || live SC RT (snd fv) = true ->
      inst_field resolve sigma rec j fv = Ok l -> forallb (fun kv => good RJ (snd kv)) l = true.
    Proof.
      intros [fn x] l Hl H. unfold inst_field in H. cbn [fst snd] in Hl.
      destruct (mem_s fn (j_exclude j)); [injection H as <-; reflexivity|]. cbn [orb] in Hl.
      destruct (inst_val resolve sigma rec j fn x) as [y|e] eqn:Ev; cbn [bind] in H; [|discriminate H].
      injection H as <-. cbn [forallb snd]. rewrite (inst_val_good fn x y Hl Ev). reflexivity.
    Qed.

    Lemma forallb_concat : forall (A : Type) (p : A -> bool) (ls : list (list A)),
      (forall l, In l ls -> forallb p l = true) -> forallb p (List.concat ls) = true.
    Proof.
      intros A p. induction ls as [|l r IH]; intros H; [reflexivity|].
      cbn [List.concat]. rewrite forallb_app. rewrite (H l (or_introl eq_refl)). cbn [andb].
      apply IH. intros l' Hl'. apply H. right. exact Hl'.
    Qed.

    Lemma inst_model_good : forall c fields y, jcm_of SC c = j -> live SC RT (MModel c fields) = true ->
      inst_model resolve sigma rec j c fields = Ok y -> good RJ y = true.
    Proof.
      intros c fields y Ej Hl H. unfold inst_model in H. cbn [live] in Hl. rewrite Ej in Hl.
      apply andb_true_iff in Hl. destruct Hl as [Hc Hf].
      destruct (mapM (inst_field resolve sigma rec j) fields) as [fs|e] eqn:Em; cbn [bind] in H; [|discriminate H].
      destruct (add_value sigma j fields (List.concat fs)) as [fs'|e] eqn:Ea; cbn [bind] in H; [|discriminate H].
      injection H as <-. cbn [good]. apply andb_true_iff. split.
      - unfold targets_ok in Htargets. rewrite forallb_forall in Htargets. apply mem_s_In in Hc.
        specialize (Htargets c Hc). rewrite forallb_forall in Htargets. rewrite Ej in Htargets.
        apply Htargets. apply target_class_in.
      - assert (G : forallb (fun kv => good RJ (snd kv)) (List.concat fs) = true).
        { apply forallb_concat. intros l Hin. destruct (mapM_ok_in _ _ _ _ _ Em l Hin) as [fv [Hfv Hi]].
          rewrite forallb_forall in Hf. eapply inst_field_good; [apply Hf; exact Hfv|exact Hi]. }
        unfold add_value in Ea. destruct (j_adds_value j); [|injection Ea as <-; exact G].
        destruct (mfield "name" fields); try discriminate Ea.
        destruct (st_lookup sigma _); [|discriminate Ea]. injection Ea as <-.
        rewrite forallb_app, G. reflexivity.
    Qed.
  End Node.

  Theorem inst_good : forall fuel c fs y, live SC RT (MModel c fs) = true ->
    inst SC resolve sigma fuel (MModel c fs) = Ok y -> good RJ y = true.
  Proof.
    induction fuel as [|f IH]; intros c fs y Hl H; [rewrite inst_O in H; discriminate H|].
    rewrite inst_S in H. eapply inst_model_good; [|reflexivity|exact Hl|exact H].
    intros c' fs' y' Hl' H'. eapply IH; eassumption.
  Qed.
End InstGood.

(* ------------------------------------------------------------------ C. coerce_job, export *)

Lemma coerce_item_good : forall R x, good R x = true -> good R (coerce_range_item x) = true.
Proof. intros R x H. destruct x; try exact H; reflexivity. Qed.

Lemma coerce_good : forall R f v, good R v = true -> good R (coerce_job f v) = true.
Proof.
  intros R. induction f as [|f IH]; intros v H; [exact H|].
  destruct v as [ | | | | | | |l|l|c fs]; cbn [coerce_job]; try exact H.
  - cbn [good] in *. rewrite forallb_forall in *. intros y Hy. apply in_map_iff in Hy. destruct Hy as [x [<- Hx]].
    apply IH. apply H. exact Hx.
  - cbn [good] in *. rewrite forallb_forall in *. intros y Hy. apply in_map_iff in Hy. destruct Hy as [x [<- Hx]].
    cbn [snd]. apply IH. apply H. exact Hx.
  - cbn [good] in *. apply andb_true_iff in H. destruct H as [Hc Hf]. rewrite Hc. cbn [andb].
    rewrite forallb_forall in *. intros y Hy. apply in_map_iff in Hy. destruct Hy as [[fn x] [<- Hx]].
    specialize (Hf (fn, x) Hx). cbn [fst snd] in *.
    destruct (String.eqb fn "range").
    + destruct x as [ | | | | | | |items| | ]; cbn [snd]; try exact Hf.
      cbn [good] in *. rewrite forallb_forall in *. intros y Hy. apply in_map_iff in Hy. destruct Hy as [x' [<- Hx']].
      apply coerce_item_good. apply Hf. exact Hx'.
    + cbn [snd]. apply IH. exact Hf.
Qed.

Fixpoint nodec (j : json) : bool :=
  match j with
  | JDec _ _ => false
  | JArr l => forallb nodec l
  | JObj ms => forallb (fun kv => nodec (snd kv)) ms
  | _ => true
  end.

Lemma forallb_flat_map' : forall (A B : Type) (p : B -> bool) (g : A -> list B) l,
  (forall x, In x l -> forallb p (g x) = true) -> forallb p (flat_map g l) = true.
Proof.
  intros A B p g. induction l as [|a r IH]; intros H; [reflexivity|].
  cbn [flat_map]. rewrite forallb_app, (H a (or_introl eq_refl)). cbn [andb]. apply IH. intros x Hx. apply H. right. exact Hx.
Qed.

Lemma to_object_nodec : forall SC R F v, good R v = true -> nodec (to_object SC F v) = true.
Proof.
  intros SC R. induction F as [|F IH]; intros v H; [reflexivity|].
  destruct v as [ | | | | | | |l|l|c fs]; cbn [to_object nodec]; try reflexivity; try discriminate H.
  - cbn [good] in H. rewrite forallb_forall in *. intros y Hy. apply in_map_iff in Hy. destruct Hy as [x [<- Hx]].
    apply IH. apply H. exact Hx.
  - cbn [good] in H. apply forallb_flat_map'. intros kv Hkv. rewrite forallb_forall in H. specialize (H kv Hkv).
    destruct (snd kv) eqn:Es; try reflexivity; cbn [forallb snd]; rewrite (IH _ H); reflexivity.
  - cbn [good] in H. apply andb_true_iff in H. destruct H as [_ H].
    apply forallb_flat_map'. intros kv Hkv. rewrite forallb_forall in H. specialize (H kv Hkv).
    destruct (snd kv) eqn:Es; try reflexivity; cbn [forallb snd]; rewrite (IH _ H); reflexivity.
Qed.

(* ------------------------------------------------------------------ D. parsing a JDec-free document *)

Fixpoint kind_safe (R : list string) (k : kind) : bool :=
  match k with
  | KFloat _ => false
  | KBool strict => strict
  | KModel c => mem_s c R
  | KDisc _ mp => forallb (fun kc => mem_s (snd kc) R) mp
  | KUnion alts =>
    (fix go (l : list ualt) : bool :=
       match l with
       | [] => true
       | a :: r => (match a with UScalar k' => kind_safe R k' | UList _ _ k' => kind_safe R k' end) && go r
       end) alts
  | _ => true
  end.

Definition alt_safe (ks : kind -> bool) (a : ualt) : bool :=
  match a with UScalar k' => ks k' | UList _ _ k' => ks k' end.

Lemma kind_safe_union : forall R alts, kind_safe R (KUnion alts) = forallb (alt_safe (kind_safe R)) alts.
Proof. intros R. induction alts as [|a r IH]; [reflexivity|]. cbn [forallb]. rewrite <- IH. destruct a; reflexivity. Qed.

(* every class of R is in the table; its field kinds are safe; dictionary keys are safe scalars *)
Definition safe_closed (SC : schema_t) (R : list string) : bool :=
  forallb (fun c => match lookup_cls SC c with
                    | Some c0 =>
                      forallb (fun fl => kind_safe R (f_kind fl)
                                         && match f_shape fl with DictOf kk => is_scalar kk && kind_safe R kk | _ => true end)
                              (c_fields c0)
                    | None => false
                    end) R.

Lemma check_str_rej : forall lo hi cs s e, check_str lo hi cs s = Raise e -> e = ValueError.
Proof. intros lo hi cs s e H. unfold check_str in H. destruct (_ && _); [discriminate H|]. injection H as <-. reflexivity. Qed.

Lemma parse_scalar_safe : forall classify R k v e, nodec v = true -> kind_safe R k = true -> is_scalar k = true ->
  parse_scalar classify k v = Raise e -> e = ValueError.
Proof.
  intros classify R k v e Hn Hs Hsc H. unfold reject, unsupported in *.
  destruct k as [lit|enum|strict lo hi cs|c lo hi cs|strict|strict ge le gt|gt| |c|key mp|alts];
    cbn [parse_scalar] in H; unfold reject, unsupported in H; try discriminate Hsc; try discriminate Hs.
  - destruct v as [|b|z|dm de|s|l|members]; try (injection H as <-; reflexivity).
    destruct (str_eqb s (str_of_string lit)); [discriminate H|injection H as <-; reflexivity].
  - destruct v as [|b|z|dm de|s|l|members]; try (injection H as <-; reflexivity).
    destruct (existsb _ enum); [discriminate H|injection H as <-; reflexivity].
  - destruct v as [|b|z|dm de|s|l|members]; try discriminate Hn; try (injection H as <-; reflexivity);
      try (destruct strict; [injection H as <-; reflexivity|]); eapply check_str_rej; exact H.
  - destruct v as [|b|z|dm de|s|l|members]; try (injection H as <-; reflexivity).
    destruct (_ && _); [discriminate H|injection H as <-; reflexivity].
  - cbn [kind_safe] in Hs. subst strict. destruct v; try discriminate H; injection H as <-; reflexivity.
  - assert (F : forall z, (if zopt_ok ge le gt z then Ok (MInt z) else Raise ValueError) = Raise e -> e = ValueError).
    { intros z Hz. destruct (zopt_ok ge le gt z); [discriminate Hz|injection Hz as <-; reflexivity]. }
    destruct v as [|b|z|dm de|s|l|members]; try discriminate Hn; try (injection H as <-; reflexivity);
      try (destruct strict; [injection H as <-; reflexivity|]); try (eapply F; exact H).
    destruct (parse_int s); [eapply F; exact H|injection H as <-; reflexivity].
  - destruct v as [|b|z|dm de|s|l|members]; try discriminate H; try (injection H as <-; reflexivity).
    destruct (parse_dec s) as [[a x|b|]|]; try discriminate H; injection H as <-; reflexivity.
Qed.

Section NoRT.
  Variable SC : schema_t.
  Variable classify : N -> cclass.
  Variable pre : string -> json -> bool.
  Variable post : string -> json -> list (string * mval) -> bool.
  Notation pk := (parse_kind SC classify pre post).
  Notation pc := (parse_cls SC classify pre post).
  Variable R : list string.
  Hypothesis closed : safe_closed SC R = true.
  Hypothesis Hkh : forall c k fl, lookup_cls SC c = Some k -> In fl (c_fields k) -> ExportProofs.kh (f_kind fl) <= 3.

  Definition bk (k : kind) (v : json) : nat := ExportProofs.kh k + 4 * json_depth v.
  Definition bc (v : json) : nat := 4 * json_depth v.

  Lemma try_alts_rt : forall p v alts, try_alts p v alts = Raise RuntimeError ->
    exists a, In a alts /\ alt_res p a v = Raise RuntimeError.
  Proof.
    intros p v. induction alts as [|a r IH]; intros H; [rewrite try_alts_nil in H; discriminate H|].
    rewrite try_alts_cons in H. destruct (alt_res p a v) as [x|e] eqn:Ea; [discriminate H|].
    destruct e; try (destruct (IH H) as [a' [Hin Ha']]; exists a'; split; [right; exact Hin|exact Ha']).
    exists a. split; [left; reflexivity|exact Ea].
  Qed.

  Lemma list_items_rt : forall p lo hi k v, list_items p lo hi k v = Raise RuntimeError ->
    exists items x, v = JArr items /\ In x items /\ p k x = Raise RuntimeError.
  Proof.
    intros p lo hi k v H. unfold list_items, reject in H. destruct v as [|b|z|dm de|s|l|members]; try discriminate H.
    destruct (len_ok_n lo hi (List.length l)); [|discriminate H].
    destruct (mapM (p k) l) as [l'|e] eqn:Em; cbn [bind] in H; [discriminate H|]. injection H as ->.
    apply mapM_raise in Em. destruct Em as [x [Hx Hf]]. exists l, x. repeat split; assumption.
  Qed.

  Lemma nodec_item : forall l x, nodec (JArr l) = true -> In x l -> nodec x = true.
  Proof. intros l x H Hx. cbn [nodec] in H. rewrite forallb_forall in H. apply H. exact Hx. Qed.
  Lemma nodec_member : forall (ms : list (str * json)) kv, nodec (JObj ms) = true -> In kv ms -> nodec (snd kv) = true.
  Proof. intros ms kv H Hx. cbn [nodec] in H. rewrite forallb_forall in H. apply (H kv). exact Hx. Qed.

  Theorem parse_no_rt : forall f,
    (forall k v, nodec v = true -> kind_safe R k = true -> bk k v <= f -> pk f k v <> Raise RuntimeError) /\
    (forall c v, nodec v = true -> In c R -> bc v <= f -> pc f c v <> Raise RuntimeError).
  Proof.
    induction f as [|f [IHk IHc]].
    - split.
      + intros k v _ _ Hb. unfold bk in Hb. pose proof (ExportProofs.kh_pos k). lia.
      + intros c v _ _ Hb. unfold bc in Hb. pose proof (ExportProofs.json_depth_pos v). lia.
    - assert (LI : forall lo hi k v, nodec v = true -> kind_safe R k = true -> bk k v <= S f ->
                                     list_items (pk f) lo hi k v <> Raise RuntimeError).
      { intros lo hi k v Hn Hs Hb H. apply list_items_rt in H. destruct H as [items [x [-> [Hx Hp]]]].
        apply (IHk k x); [eapply nodec_item; eassumption|exact Hs| |exact Hp].
        apply ExportProofs.json_depth_item in Hx. unfold bk in *. lia. }
      split.
      + intros k v Hn Hs Hb H. rewrite parse_kind_S in H.
        destruct k as [lit|enum|strict lo hi cs|c lo hi cs|strict|strict ge le gt|gt| |c|key mp|alts];
          try (apply (parse_scalar_safe classify R _ v RuntimeError Hn Hs eq_refl) in H; discriminate H).
        * apply (IHc c v Hn); [apply mem_s_In; exact Hs| |exact H]. unfold bk, bc in *. cbn [ExportProofs.kh] in Hb. lia.
        * unfold disc_res, reject in H. destruct v as [|b|z|dm de|s|l|members]; try discriminate H.
          destruct (assoc (str_of_string key) members) as [[| | | |s| |]|]; try discriminate H.
          destruct (List.find _ mp) as [[k' c']|] eqn:Ef; [|discriminate H].
          apply find_some in Ef. destruct Ef as [Ef _]. cbn [kind_safe] in Hs. rewrite forallb_forall in Hs.
          apply (IHc c' _ Hn); [apply mem_s_In; exact (Hs (k', c') Ef)| |exact H].
          unfold bk, bc in *. cbn [ExportProofs.kh] in Hb. lia.
        * apply try_alts_rt in H. destruct H as [a [Ha Hr]].
          rewrite kind_safe_union in Hs. rewrite forallb_forall in Hs. specialize (Hs a Ha).
          pose proof (ExportProofs.kh_union_in alts a Ha) as Hlt.
          destruct a as [k'|lo hi k']; cbn [alt_res alt_safe ExportProofs.kh_alt] in *.
          -- apply (IHk k' v Hn Hs); [|exact Hr]. unfold bk in *. lia.
          -- apply (LI lo hi k' v Hn Hs); [|exact Hr]. unfold bk in *. lia.
      + intros c v Hn Hc Hb H. rewrite parse_cls_S in H.
        unfold safe_closed in closed. rewrite forallb_forall in closed. specialize (closed c Hc).
        destruct (lookup_cls SC c) as [c0|] eqn:El; [|discriminate closed].
        unfold reject in H. destruct v as [|b|z|a e|s|l|ms]; try discriminate H.
        destruct (negb (pre c (JObj ms))); [discriminate H|].
        destruct (extra_bad c0 ms); [discriminate H|].
        destruct (mapM (parse_field (pk f) ms) (c_fields c0)) as [fields|e'] eqn:Em; cbn [bind] in H.
        { destruct (post c (JObj ms) fields); discriminate H. }
        injection H as ->. apply mapM_raise in Em. destruct Em as [fl [Hfl Hp]].
        rewrite forallb_forall in closed. specialize (closed fl Hfl). apply andb_true_iff in closed. destruct closed as [Hs Hd].
        pose proof (Hkh c c0 fl El Hfl) as Hh.
        unfold parse_field in Hp.
        destruct (parse_value (pk f) fl (field_raw ms fl)) as [x|e] eqn:Ev; cbn [bind] in Hp; [discriminate Hp|].
        injection Hp as ->. unfold field_raw in Ev.
        destruct (assoc (str_of_string (f_alias fl)) ms) as [raw|] eqn:Ea.
        2:{ unfold parse_value, reject in Ev. destruct (f_required fl); discriminate Ev. }
        destruct (ExportProofs.assoc_in _ _ _ _ Ea) as [key Hin].
        pose proof (nodec_member ms (key, raw) Hn Hin) as Hnr. cbn [snd] in Hnr.
        apply ExportProofs.json_depth_member in Hin. cbn [snd] in Hin.
        pose proof (ExportProofs.json_depth_pos raw) as Hpos.
        assert (Hraw : bk (f_kind fl) raw <= f) by (unfold bk, bc in *; lia).
        unfold parse_value, reject in Ev.
        assert (K : match f_shape fl with
                    | Single => pk f (f_kind fl) raw
                    | ListOf minl maxl => list_items (pk f) minl maxl (f_kind fl) raw
                    | DictOf kk =>
                      match raw with
                      | JObj members => do l' <- mapM (dict_entry (pk f) kk (f_kind fl)) members; Ok (MDict l')
                      | _ => Raise ValueError
                      end
                    end <> Raise RuntimeError).
        { destruct (f_shape fl) as [|lo hi|kk].
          - apply IHk; assumption.
          - apply LI; [exact Hnr|exact Hs|lia].
          - apply andb_true_iff in Hd. destruct Hd as [Hsk Hkk].
            destruct raw as [|b|z|a e|s|l|members]; try discriminate.
            + intros E. destruct (mapM _ members) as [l'|e] eqn:Emm; cbn [bind] in E; [discriminate E|]. injection E as ->.
              apply mapM_raise in Emm. destruct Emm as [kv [Hkv He]]. unfold dict_entry in He.
              pose proof (nodec_member members kv Hnr Hkv) as Hnv.
              pose proof (ExportProofs.json_depth_member members kv Hkv) as Hdv.
              pose proof (ExportProofs.json_depth_pos (snd kv)) as Hpv.
              destruct f as [|f']; [unfold bk in Hraw; lia|].
              destruct (pk (S f') kk (JStr (fst kv))) as [y1|e1] eqn:E1; cbn [bind] in He.
              * destruct (pk (S f') (f_kind fl) (snd kv)) as [y2|e2] eqn:E2; cbn [bind] in He; [discriminate He|].
                injection He as ->. revert E2. apply IHk; [exact Hnv|exact Hs|]. unfold bk in *. lia.
              * injection He as ->. rewrite parse_kind_S in E1.
                assert (E1' : parse_scalar classify kk (JStr (fst kv)) = Raise RuntimeError).
                { destruct kk; try discriminate Hsk; exact E1. }
                apply (parse_scalar_safe classify R kk (JStr (fst kv)) RuntimeError eq_refl Hkk Hsk) in E1'. discriminate E1'. }
        destruct raw; try (apply K; exact Ev).
        destruct (f_required fl); discriminate Ev.
  Qed.
End NoRT.

(* ------------------------------------------------------------------ E. depth: the fuel of nodes_ok suffices *)

Lemma depth_pos : forall v, 1 <= mval_depth v.
Proof. intros v. destruct v; cbn [mval_depth]; lia. Qed.

Lemma max_le_all : forall (A : Type) (g : A -> nat) l n,
  (forall x, In x l -> g x <= n) -> fold_right (fun y acc => Nat.max (g y) acc) O l <= n.
Proof.
  intros A g. induction l as [|a r IH]; intros n H; [cbn; lia|].
  cbn [fold_right]. pose proof (H a (or_introl eq_refl)). specialize (IH n (fun x Hx => H x (or_intror Hx))). lia.
Qed.

Lemma mfield_str_in : forall name fs n, mfield name fs = MStr n -> exists fv, In fv fs /\ mval_depth (snd fv) = 1.
Proof.
  intros name fs n H. unfold mfield in H. induction fs as [|[k v] r IH]; cbn [lookup_s] in H; [discriminate H|].
  destruct (String.eqb k name).
  - exists (k, v). split; [left; reflexivity|]. cbn [snd]. rewrite H. reflexivity.
  - destruct (IH H) as [fv [Hin Hd]]. exists fv. split; [right; exact Hin|exact Hd].
Qed.

Section InstDepth.
  Variable SC : schema_t.
  Variable resolve : symtab -> str -> outcome str.
  Variable sigma : symtab.

  Section Node.
    Variable rec : mval -> outcome mval.
    Variable j : jcm.
    Hypothesis Hrec : forall x y, rec x = Ok y -> mval_depth y <= mval_depth x.

    Lemma inst_item_depth : forall fn x y, inst_item resolve sigma rec j fn x = Ok y -> mval_depth y <= mval_depth x.
    Proof.
      intros fn x y H. unfold inst_item in H.
      destruct x as [ | | | | | |s|l|l|c fs]; try (injection H as <-; lia).
      - destruct (mem_s fn (j_resolve j)).
        + destruct (resolve sigma s) as [r|e]; cbn [bind] in H; [|discriminate H]. injection H as <-. cbn [mval_depth]. lia.
        + injection H as <-. lia.
      - apply Hrec. exact H.
    Qed.

    Lemma inst_member_depth : forall kv kv', inst_member resolve sigma rec j kv = Ok kv' ->
      mval_depth (snd kv') <= mval_depth (snd kv).
    Proof.
      intros [k x] kv' H. unfold inst_member in H. cbn [fst snd] in *.
      destruct x as [ | | | | | |s|l|l|c fs]; cbn [bind] in H; try (injection H as <-; cbn [snd]; lia).
      - destruct (existsb _ (j_resolve j)); cbn [bind] in H.
        + destruct (resolve sigma s) as [r|e]; cbn [bind] in H; [|discriminate H]. injection H as <-. cbn [snd mval_depth]. lia.
        + injection H as <-. cbn [snd]. lia.
      - destruct (rec (MModel c fs)) as [y|e] eqn:Er; cbn [bind] in H; [|discriminate H]. injection H as <-.
        cbn [snd]. apply Hrec. exact Er.
    Qed.

    Lemma dict_set_depth : forall n d k y, (forall kv, In kv d -> mval_depth (snd kv) <= n) -> mval_depth y <= n ->
      forall kv, In kv (dict_set d k y) -> mval_depth (snd kv) <= n.
    Proof.
      intros n. induction d as [|[k' v'] r IH]; intros k y Hd Hy kv Hin; cbn [dict_set] in Hin.
      - destruct Hin as [<-|[]]. exact Hy.
      - destruct (str_eqb k k').
        + destruct Hin as [<-|Hin]; [exact Hy|]. apply Hd. right. exact Hin.
        + destruct Hin as [<-|Hin]; [apply Hd; left; reflexivity|].
          apply (IH k y (fun kv' H' => Hd kv' (or_intror H')) Hy kv Hin).
    Qed.

    Lemma reshape_fold_depth : forall n fn kf items acc d,
      (forall x, In x items -> mval_depth x <= n) ->
      (forall a, acc = Ok a -> forall kv, In kv a -> mval_depth (snd kv) <= n) ->
      fold_left (reshape_step resolve sigma rec j fn kf) items acc = Ok d ->
      forall kv, In kv d -> mval_depth (snd kv) <= n.
    Proof.
      intros n fn kf. induction items as [|it r IH]; intros acc d Hi Ha H.
      - cbn [fold_left] in H. apply Ha. exact H.
      - cbn [fold_left] in H. eapply IH; [intros x Hx; apply Hi; right; exact Hx| |exact H].
        intros a' Ea. unfold reshape_step in Ea. destruct acc as [a|e]; cbn [bind] in Ea; [|discriminate Ea].
        destruct (key_of it kf) as [k|e]; cbn [bind] in Ea; [|discriminate Ea].
        destruct (inst_item resolve sigma rec j fn it) as [y|e] eqn:Ei; cbn [bind] in Ea; [|discriminate Ea].
        injection Ea as <-. apply dict_set_depth; [apply Ha; reflexivity|].
        apply inst_item_depth in Ei. pose proof (Hi it (or_introl eq_refl)). lia.
    Qed.

    Lemma inst_val_depth : forall fn x y, inst_val resolve sigma rec j fn x = Ok y -> mval_depth y <= mval_depth x.
    Proof.
      intros fn x y H. unfold inst_val in H.
      destruct x as [ | | | | | |s|l|l|c fs]; try (eapply inst_item_depth; exact H).
      - destruct (lookup_s fn (j_reshape j)) as [kf|].
        + destruct (fold_left _ l (Ok [])) as [d|e] eqn:Ef; cbn [bind] in H; [|discriminate H]. injection H as <-.
          cbn [mval_depth]. apply le_n_S. apply max_le_all. intros kv Hkv.
          eapply (reshape_fold_depth _ fn kf l (Ok []) d); [| |exact Ef|exact Hkv].
          * intros x Hx. apply (depth_le_max _ mval_depth l x Hx).
          * intros a Ea kv' Hkv'. injection Ea as <-. destruct Hkv'.
        + destruct (mapM _ l) as [l'|e] eqn:Em; cbn [bind] in H; [|discriminate H]. injection H as <-.
          cbn [mval_depth]. apply le_n_S. apply max_le_all. intros y Hy.
          destruct (mapM_ok_in _ _ _ _ _ Em y Hy) as [x [Hx Hi]]. apply inst_item_depth in Hi.
          pose proof (depth_le_max _ mval_depth l x Hx). lia.
      - destruct (mapM _ l) as [l'|e] eqn:Em; cbn [bind] in H; [|discriminate H]. injection H as <-.
        cbn [mval_depth]. apply le_n_S. apply max_le_all. intros kv' Hy.
        destruct (mapM_ok_in _ _ _ _ _ Em kv' Hy) as [kv [Hx Hi]]. apply inst_member_depth in Hi.
        pose proof (depth_le_max _ (fun kv : str * mval => mval_depth (snd kv)) l kv Hx). cbv beta in *. lia.
    Qed.

    Lemma inst_model_depth : forall c fields y, inst_model resolve sigma rec j c fields = Ok y ->
      mval_depth y <= mval_depth (MModel c fields).
    Proof.
      intros c fields y H. unfold inst_model in H.
      destruct (mapM (inst_field resolve sigma rec j) fields) as [fs|e] eqn:Em; cbn [bind] in H; [|discriminate H].
      destruct (add_value sigma j fields (List.concat fs)) as [fs'|e] eqn:Ea; cbn [bind] in H; [|discriminate H].
      injection H as <-. cbn [mval_depth]. apply le_n_S.
      set (N := fold_right (fun x acc => Nat.max (mval_depth (snd x)) acc) 0 fields).
      assert (G : forall kv, In kv (List.concat fs) -> mval_depth (snd kv) <= N).
      { intros kv Hkv. apply in_concat in Hkv. destruct Hkv as [l [Hl Hkv]].
        destruct (mapM_ok_in _ _ _ _ _ Em l Hl) as [[fn x] [Hfv Hi]]. unfold inst_field in Hi.
        destruct (mem_s fn (j_exclude j)); [injection Hi as <-; destruct Hkv|].
        destruct (inst_val resolve sigma rec j fn x) as [y|e] eqn:Ev; cbn [bind] in Hi; [|discriminate Hi].
        injection Hi as <-. destruct Hkv as [<-|[]]. cbn [snd]. apply inst_val_depth in Ev.
        pose proof (depth_le_max _ (fun kv : string * mval => mval_depth (snd kv)) fields (fn, x) Hfv) as Hm.
        cbv beta in Hm. cbn [snd] in Hm. unfold N. lia. }
      apply max_le_all. intros kv Hkv.
      unfold add_value in Ea. destruct (j_adds_value j); [|injection Ea as <-; apply G; exact Hkv].
      destruct (mfield "name" fields) eqn:En; try discriminate Ea.
      destruct (st_lookup sigma _); [|discriminate Ea]. injection Ea as <-.
      apply in_app_or in Hkv. destruct Hkv as [Hkv|[<-|[]]]; [apply G; exact Hkv|].
      cbn [snd mval_depth]. destruct (mfield_str_in _ _ _ En) as [fv [Hfv Hd]].
      pose proof (depth_le_max _ (fun kv : string * mval => mval_depth (snd kv)) fields fv Hfv) as Hm.
      cbv beta in Hm. unfold N. lia.
    Qed.
  End Node.

  Theorem inst_depth : forall fuel v y, inst SC resolve sigma fuel v = Ok y -> mval_depth y <= mval_depth v.
  Proof.
    induction fuel as [|f IH]; intros v y H; [rewrite inst_O in H; discriminate H|].
    rewrite inst_S in H. destruct v as [ | | | | | | | | |c fs]; try (injection H as <-; lia).
    eapply inst_model_depth; [|exact H]. exact IH.
  Qed.
End InstDepth.

Lemma coerce_depth : forall f v, mval_depth (coerce_job f v) <= mval_depth v.
Proof.
  induction f as [|f IH]; intros v; [cbn [coerce_job]; lia|].
  destruct v as [ | | | | | | |l|l|c fs]; cbn [coerce_job]; try lia.
  - cbn [mval_depth]. apply le_n_S. apply max_le_all. intros y Hy. apply in_map_iff in Hy. destruct Hy as [x [<- Hx]].
    pose proof (IH x). pose proof (depth_le_max _ mval_depth l x Hx). lia.
  - cbn [mval_depth]. apply le_n_S. apply max_le_all. intros y Hy. apply in_map_iff in Hy. destruct Hy as [x [<- Hx]].
    cbn [snd]. pose proof (IH (snd x)).
    pose proof (depth_le_max _ (fun kv : str * mval => mval_depth (snd kv)) l x Hx). cbv beta in *. lia.
  - cbn [mval_depth]. apply le_n_S. apply max_le_all. intros y Hy. apply in_map_iff in Hy. destruct Hy as [[fn x] [<- Hx]].
    pose proof (depth_le_max _ (fun kv : string * mval => mval_depth (snd kv)) fs (fn, x) Hx) as Hm. cbv beta in Hm. cbn [fst snd] in *.
    destruct (String.eqb fn "range").
    + destruct x as [ | | | | | | |items| | ]; cbn [snd]; try lia.
      cbn [mval_depth] in *. assert (fold_right (fun x acc => Nat.max (mval_depth x) acc) 0 (map coerce_range_item items)
                                     <= fold_right (fun x acc => Nat.max (mval_depth x) acc) 0 items); [|lia].
      apply max_le_all. intros y Hy. apply in_map_iff in Hy. destruct Hy as [x' [<- Hx']].
      pose proof (depth_le_max _ mval_depth items x' Hx'). destruct x'; cbn [coerce_range_item mval_depth] in *; lia.
    + cbn [snd]. pose proof (IH x). lia.
Qed.

(* ------------------------------------------------------------------ F. the live schema; nodes_ok *)

Definition RT : list string :=
  filter (fun c => negb (mem_s c ["JobFloatParameterDefinitionUserInterface"; "EnvironmentTemplate"])) (map fst Generated.schema).
Definition RJ : list string :=
  filter (fun c => negb (mem_s c ["JobFloatParameterDefinitionUserInterface"; "JobFloatParameterDefinition"; "JobTemplate"; "EnvironmentTemplate"]))
         (map fst Generated.schema).

Lemma RT_live_closed : live_closed Generated.schema RT = true.
Proof. vm_compute. reflexivity. Qed.
Lemma RJ_safe_closed : safe_closed Generated.schema RJ = true.
Proof. vm_compute. reflexivity. Qed.
Lemma RT_RJ_targets : targets_ok Generated.schema RT RJ = true.
Proof. vm_compute. reflexivity. Qed.
Lemma JobTemplate_in_RT : In "JobTemplate" RT.
Proof. apply mem_s_In. vm_compute. reflexivity. Qed.

Theorem accepted_live : forall classify j t, decode_job classify j = Ok t -> live Generated.schema RT t = true.
Proof.
  intros classify j t H. unfold decode_job in H.
  destruct j as [| | | | | |ms]; try discriminate H.
  destruct (version_ok Generated.job_template_versions (JObj ms)); [|discriminate H].
  unfold parse_template, parse_root in H.
  exact (proj2 (parse_live Generated.schema classify pre_hook (post_hook classify) RT RT_live_closed _) _ _ _ H JobTemplate_in_RT).
Qed.

Section NodesGeneric.
Variable RJ : list string.
Hypothesis RJ_safe_closed : safe_closed Generated.schema RJ = true.

Lemma parse_any_no_rt : forall classify c j, nodec j = true -> In c RJ -> parse_any classify c j <> Raise RuntimeError.
Proof.
  intros classify c j Hn Hc. unfold parse_any.
  destruct (ExportProofs.kh_bound_sound _ _ ExportProofs.generated_kh_bound) as [Hkh _].
  apply (proj2 (parse_no_rt Generated.schema classify _ _ RJ RJ_safe_closed Hkh (parse_fuel j))); [exact Hn|exact Hc|].
  unfold bc, parse_fuel. lia.
Qed.

Theorem nodes_no_rt : forall classify F v, good RJ v = true -> mval_depth v <= F ->
  nodes_ok classify F v <> Raise RuntimeError.
Proof.
  intros classify. induction F as [|f IH]; intros v Hg Hd H; [pose proof (depth_pos v); lia|].
  cbn [nodes_ok] in H.
  assert (A : forall l, (forall x, In x l -> good RJ x = true /\ mval_depth x <= f) ->
                        fold_left (fun (acc : outcome bool) x => do a <- acc; if a then nodes_ok classify f x else Ok false)
                                  l (Ok true) <> Raise RuntimeError).
  { intros l Hl Hf. apply all_fold_raise in Hf. destruct Hf as [Hf|[x [Hx Hf]]]; [discriminate Hf|].
    destruct (Hl x Hx) as [G D]. exact (IH x G D Hf). }
  destruct v as [ | | | | | | |l|l|cls fields]; try discriminate H.
  - apply (A l); [|exact H]. intros x Hx. cbn [good mval_depth] in *. rewrite forallb_forall in Hg. split; [apply Hg; exact Hx|].
    pose proof (depth_le_max _ mval_depth l x Hx). lia.
  - apply (A (map snd l)); [|exact H]. intros x Hx. apply in_map_iff in Hx. destruct Hx as [kv [<- Hkv]].
    cbn [good mval_depth] in *. rewrite forallb_forall in Hg. split; [apply (Hg kv); exact Hkv|].
    pose proof (depth_le_max _ (fun kv : str * mval => mval_depth (snd kv)) l kv Hkv). cbv beta in *. lia.
  - assert (B : fold_left (fun (acc : outcome bool) x => do a <- acc; if a then nodes_ok classify f x else Ok false)
                          (map snd fields) (Ok true) <> Raise RuntimeError).
    { apply A. intros x Hx. apply in_map_iff in Hx. destruct Hx as [kv [<- Hkv]].
      pose proof Hg as Hg'. cbn [good] in Hg'. apply andb_true_iff in Hg'. destruct Hg' as [_ Hg'].
      rewrite forallb_forall in Hg'. split; [apply (Hg' kv); exact Hkv|]. cbn [mval_depth] in Hd.
      pose proof (depth_le_max _ (fun kv : string * mval => mval_depth (snd kv)) fields kv Hkv). cbv beta in *. lia. }
    destruct (fold_left _ (map snd fields) (Ok true)) as [below|e'] eqn:Eb; cbn [bind] in H.
    + destruct below; [|discriminate H].
      destruct (parse_any classify cls (export (MModel cls fields))) as [m|e1] eqn:Ep; [discriminate H|].
      assert (e1 = RuntimeError) by (destruct e1; try discriminate H; reflexivity). subst e1.
      revert Ep. apply parse_any_no_rt.
      * unfold export. eapply to_object_nodec. exact Hg.
      * cbn [good] in Hg. apply andb_true_iff in Hg. destruct Hg as [Hc _]. apply mem_s_In. exact Hc.
    + apply B. rewrite H. reflexivity.
Qed.
End NodesGeneric.

(* the job-side re-validation of an instantiated accepted template never leaves the modelled domain *)
Theorem accepted_nodes_no_rt : forall classify j t resolve sigma job,
  decode_job classify j = Ok t ->
  inst Generated.schema resolve sigma (S (mval_depth t)) t = Ok job ->
  nodes_ok classify (S (S (S (mval_depth t)))) (coerce_job (S (mval_depth t)) job) <> Raise RuntimeError.
Proof.
  intros classify j t resolve sigma job Hd Hi.
  pose proof (accepted_live classify j t Hd) as Hl.
  assert (Hm : exists c fs, t = MModel c fs).
  { destruct (decode_job_inv classify j t Hd) as [ms [fields [s [_ [Ht _]]]]]. eexists. eexists. exact Ht. }
  destruct Hm as [c [fs ->]].
  apply (nodes_no_rt RJ RJ_safe_closed).
  - apply coerce_good. eapply inst_good; [exact RT_RJ_targets|exact Hl|exact Hi].
  - pose proof (coerce_depth (S (mval_depth (MModel c fs))) job). apply inst_depth in Hi. lia.
Qed.
