(* Numerals.v — models of Python's  int(str)  and  decimal.Decimal(str)  on code-point lists,
   and exact comparison of finite decimals.  Definitions only.

   WHAT IS MODELLED (CPython 3.12, C _decimal / libmpdec 2.5.1), and on which strings:

   Domain: EVERY string of code points.  Digits are all the Unicode decimal digits (str.isdecimal(),
   category Nd) of the running interpreter: the table [Generated.unicode_zero_digits] is emitted by
   tools/regen.py from the interpreter's own tables on every run (it checks, fail-closed, that the decimal
   characters come in blocks of ten consecutive code points z..z+9 whose values int() and Decimal() read
   as 0..9, that the ASCII block is the first one and that no other block is below 128).
   The harness checks this model against Python's own int()/Decimal() on a large sample each run (a
   numeral-model disagreement is a harness error, never a VIOLATION).  Limits of the domain, none of
   them visible to [parse_int]/[parse_dec] but needed for Python to agree: at most 4300 digits for int()
   (sys.int_max_str_digits), decimal exponents of at most 9 digits (libmpdec MAX_EMAX).

   int(s): PyLong_FromUnicodeObject -> _PyUnicode_TransformDecimalAndSpaceToASCII (non-ASCII
   white space becomes ' ', every non-ASCII decimal digit becomes the ASCII digit of the same value,
   ASCII is left alone, anything else becomes '?' and ends the string) -> PyLong_FromString(base 10):
   skip leading Py_ISSPACE characters (\t \n \v \f \r and space; NOT \x1c..\x1f), optional sign,
   decimal digits with single underscores strictly between digits, skip trailing white space, end.

   Decimal(s): PyDec_FromUnicode -> numeric_as_ascii(strip_ws, ignore_underscores): leading and
   trailing Py_UNICODE_ISSPACE characters (here \x1c..\x1f DO count) are stripped, then EVERY
   underscore is deleted wherever it stands, every non-ASCII decimal digit becomes the ASCII digit of the
   same value (Py_UNICODE_TODECIMAL), then mpd_qset_string: optional sign, then one of
   "inf" / "infinity", "nan"digits*, "snan"digits* (letters in either case), or
   digits* [. digits*] with at least one digit, optionally followed by  e|E [sign] digits+ .

   FACTS ABOUT NON-ASCII DIGITS, each with the probe that showed it (CPython 3.12.1, Unicode 15.0.0;
   ti = int, td = decimal.Decimal, "error" = ValueError resp. InvalidOperation):
     F1  every decimal digit of every script is read, scripts may be mixed within one numeral:
           ti("１２") = 12   ti("٣") = 3   ti("1٢") = 12   ti("𝟎𝟗") = 9   td("١.٥") = 1.5   td("0０.０0") = 0.00
         and ONLY decimal digits (Nd): ti("①"), ti("²"), ti("一"), td("②") are errors; a sweep of all
         0x110000 code points found no character outside Nd that int() reads as a one-character numeral.
     F2  underscores behave exactly as between ASCII digits, whatever the scripts on either side:
           ti("１_２") = 12   ti("1_٢") = 12   ti("１__２"), ti("_１"), ti("１_") are errors
           td("１__２") = 12  td("_１") = 1   td("１_") = 1   td("1_._5") = 1.5   td("nan_１") = NaN1
     F3  the sign is ASCII '+' / '-' only:  ti("-٣") = -3, ti("+１") = 1;  ti("＋1"), ti("－1"), ti("−1"),
         td("＋1"), td("－1"), td("1E＋1") are errors.
     F4  white space is what it was for ASCII numerals: ti(" １２ ") = 12 (U+2003 either side),
         ti("　1　") = 1; ti("\x1c１２"), ti("１２\x1f") are errors while td("\x1c１\x1f") = 1;
         white space inside is an error for both: ti("１　２"), td("１　２"), td("１ １").
         No decimal digit is white space (checked by regen.py), so stripping never eats a digit.
     F5  Decimal reads them in every digit position: coefficient, fraction  td(".٥") = 0.5  td("٥.") = 5,
         exponent  td("1e１") = 1E+1  td("1e-１") = 0.1  td("１E-٣") = 0.001  td("١e١_٠") = 1E+10,
         NaN payload  td("nan１") = NaN1  td("sNaN٠٠٧") = sNaN7;  "inf１" is an error as "inf1" is.
     F6  everything that is not a digit stays ASCII-only: td("１．５") (fullwidth stop), td("1٫5") (Arabic
         decimal separator), td("1ｅ1"), td("ｉｎｆ"), td("ＮaN") are errors; ti("０x１"), ti("0b１") are errors.
     F7  the limit on the number of digits counts characters, not bytes: ti("٣"*4300) is read,
         ti("٣"*4301) is an error (outside the domain above, as for ASCII).
   So the ONLY change with respect to the ASCII model ([parse_int_ascii] / [parse_dec_ascii] below, kept
   verbatim) is the character class [is_digit] and the value [digit_val]; NumeralsProofs.v proves
   parse_int s = parse_int_ascii (map ascii_digit s) (what CPython literally does) and that nothing
   changes on ASCII strings. *)
From Coq Require Import List NArith ZArith Bool.
Import ListNotations.
Require Import OJD.Base.
Require OJD.Generated.   (* the digit table only; nothing else of Generated.v is used here *)
Local Open Scope N_scope.

(* ---------- character classes ---------- *)

(* the ASCII digits, and their values *)
Definition is_digit_ascii (c : N) : bool := (48 <=? c) && (c <=? 57).
Definition digit_val_ascii (c : N) : Z := Z.of_N (c - 48).

(* [c] lies in the block of ten digits whose ZERO is [z] *)
Definition in_block (c z : N) : bool := (z <=? c) && (c <=? z + 9).

(* the ZERO of the block of [c], looked up in a table of ZEROs *)
Fixpoint block_zero (tbl : list N) (c : N) : option N :=
  match tbl with
  | [] => None
  | z :: r => if in_block c z then Some z else block_zero r c
  end.

(* F1: a digit is a member of one of the blocks of [Generated.unicode_zero_digits].  The table lookup
     existsb (in_block c) unicode_zero_digits
   is unrolled here, once, at definition time, so that unfolding [is_digit] shows the explicit disjunction
   of ranges  (48 <=? c) && (c <=? 57) || ((1632 <=? c) && (c <=? 1641) || ...)  that [lia] can read
   (NumeralsProofs.is_digit_table states the equality with the lookup). *)
Definition is_digit (c : N) : bool :=
  Eval cbv beta iota delta [existsb in_block OJD.Generated.unicode_zero_digits
                            N.add Pos.add Pos.add_carry Pos.succ] in
  existsb (in_block c) OJD.Generated.unicode_zero_digits.

(* F1: the value of a digit is its offset in its block (0 for a character that is no digit: never used) *)
Definition digit_val (c : N) : Z :=
  match block_zero OJD.Generated.unicode_zero_digits c with
  | Some z => Z.of_N (c - z)
  | None => 0%Z
  end.

(* what _PyUnicode_TransformDecimalAndSpaceToASCII / numeric_as_ascii do to a digit *)
Definition ascii_digit (c : N) : N := if is_digit c then 48 + Z.to_N (digit_val c) else c.

(* the non-ASCII characters with Py_UNICODE_ISSPACE *)
Definition uni_space (c : N) : bool :=
  (c =? 133) || (c =? 160) || (c =? 5760) || ((8192 <=? c) && (c <=? 8202))
  || (c =? 8232) || (c =? 8233) || (c =? 8239) || (c =? 8287) || (c =? 12288).

(* white space skipped by int(): Py_ISSPACE on the transformed string *)
Definition int_space (c : N) : bool := ((9 <=? c) && (c <=? 13)) || (c =? 32) || uni_space c.

(* white space stripped by Decimal(): Py_UNICODE_ISSPACE *)
Definition dec_space (c : N) : bool := int_space c || ((28 <=? c) && (c <=? 31)).

Fixpoint drop_while (p : N -> bool) (s : str) : str :=
  match s with
  | [] => []
  | c :: r => if p c then drop_while p r else s
  end.

Definition strip (p : N -> bool) (s : str) : str :=
  rev (drop_while p (rev (drop_while p s))).

(* ---------- int(str) ---------- *)

(* digits with single underscores strictly between digits; [prev] = the previous character
   was a digit (F2: the scripts of the digits do not matter) *)
Fixpoint int_digits (acc : Z) (prev : bool) (s : str) : option Z :=
  match s with
  | [] => if prev then Some acc else None
  | c :: r =>
    if is_digit c then int_digits (acc * 10 + digit_val c)%Z true r
    else if (c =? 95) && prev then int_digits acc false r
    else None
  end.

(* optional sign: (negative?, rest) — F3: ASCII '+' / '-' only *)
Definition split_sign (t : str) : bool * str :=
  match t with
  | c :: r => if c =? 43 then (false, r) else if c =? 45 then (true, r) else (false, t)
  | [] => (false, t)
  end.

Definition parse_int (s : str) : option Z :=
  let '(neg, r) := split_sign (strip int_space s) in
  match int_digits 0%Z false r with
  | Some z => Some (if neg then Z.opp z else z)
  | None => None
  end.

(* ---------- Decimal(str) ---------- *)

Inductive dec : Type :=
| Fin (m e : Z)          (* the finite value m * 10^e (the sign of a zero is not kept) *)
| Inf (neg : bool)
| NaN.                   (* quiet or signalling, any payload *)

Definition lower (c : N) : N := if (65 <=? c) && (c <=? 90) then c + 32 else c.

(* maximal run of digits (F5: of any scripts): (accumulated value, number of digits, rest) *)
Fixpoint take_digits (acc : Z) (n : Z) (s : str) : Z * Z * str :=
  match s with
  | [] => (acc, n, [])
  | c :: r => if is_digit c then take_digits (acc * 10 + digit_val c)%Z (n + 1)%Z r else (acc, n, s)
  end.

Fixpoint is_prefix (p s : str) : bool :=
  match p, s with
  | [], _ => true
  | x :: p', y :: s' => (x =? y) && is_prefix p' s'
  | _ :: _, [] => false
  end.

Definition s_inf : str := [105; 110; 102].
Definition s_infinity : str := [105; 110; 102; 105; 110; 105; 116; 121].
Definition s_nan : str := [110; 97; 110].
Definition s_snan : str := [115; 110; 97; 110].

Definition is_nil {A} (l : list A) : bool := match l with [] => true | _ => false end.

(* optional fraction after the integer digits [ip]: (mantissa, number of fraction digits, rest) *)
Definition take_fraction (ip : Z) (r1 : str) : Z * Z * str :=
  match r1 with
  | c :: r => if c =? 46 then take_digits ip 0%Z r else (ip, 0%Z, r1)
  | [] => (ip, 0%Z, r1)
  end.

(* optional exponent part: None = syntax error, Some x = the exponent (0 when absent); F5, F3, F6 *)
Definition take_exponent (r2 : str) : option Z :=
  match r2 with
  | [] => Some 0%Z
  | c :: r3 =>
    if (c =? 101) || (c =? 69) then
      let '(neg, r4) := split_sign r3 in
      let '(x, nx, r5) := take_digits 0%Z 0%Z r4 in
      if (nx =? 0)%Z || negb (is_nil r5) then None
      else Some (if neg then Z.opp x else x)
    else None
  end.

(* after the sign; [neg] is the sign read (F5: NaN payload digits; F6: letters are ASCII only) *)
Definition parse_unsigned (neg : bool) (t : str) : option dec :=
  let l := map lower t in
  if str_eqb l s_inf || str_eqb l s_infinity then Some (Inf neg)
  else if is_prefix s_nan l then (if forallb is_digit (skipn 3 t) then Some NaN else None)
  else if is_prefix s_snan l then (if forallb is_digit (skipn 4 t) then Some NaN else None)
  else
    let '(ip, ni, r1) := take_digits 0%Z 0%Z t in
    let '(m, nf, r2) := take_fraction ip r1 in
    if (ni + nf =? 0)%Z then None
    else match take_exponent r2 with
         | None => None
         | Some x => Some (Fin (if neg then Z.opp m else m) (x - nf)%Z)
         end.

Definition parse_dec (s : str) : option dec :=
  let '(neg, r) := split_sign (filter (fun c => negb (c =? 95)) (strip dec_space s)) in
  parse_unsigned neg r.

(* ---------- the ASCII-only readers (the model before non-ASCII digits were added), verbatim ----------
   Same definitions with [is_digit_ascii] / [digit_val_ascii]; used only to STATE what changed
   (NumeralsProofs.parse_int_normalise, parse_int_ascii_unchanged), never extracted. *)

Fixpoint int_digits_ascii (acc : Z) (prev : bool) (s : str) : option Z :=
  match s with
  | [] => if prev then Some acc else None
  | c :: r =>
    if is_digit_ascii c then int_digits_ascii (acc * 10 + digit_val_ascii c)%Z true r
    else if (c =? 95) && prev then int_digits_ascii acc false r
    else None
  end.

Definition parse_int_ascii (s : str) : option Z :=
  let '(neg, r) := split_sign (strip int_space s) in
  match int_digits_ascii 0%Z false r with
  | Some z => Some (if neg then Z.opp z else z)
  | None => None
  end.

Fixpoint take_digits_ascii (acc : Z) (n : Z) (s : str) : Z * Z * str :=
  match s with
  | [] => (acc, n, [])
  | c :: r => if is_digit_ascii c then take_digits_ascii (acc * 10 + digit_val_ascii c)%Z (n + 1)%Z r else (acc, n, s)
  end.

Definition take_fraction_ascii (ip : Z) (r1 : str) : Z * Z * str :=
  match r1 with
  | c :: r => if c =? 46 then take_digits_ascii ip 0%Z r else (ip, 0%Z, r1)
  | [] => (ip, 0%Z, r1)
  end.

Definition take_exponent_ascii (r2 : str) : option Z :=
  match r2 with
  | [] => Some 0%Z
  | c :: r3 =>
    if (c =? 101) || (c =? 69) then
      let '(neg, r4) := split_sign r3 in
      let '(x, nx, r5) := take_digits_ascii 0%Z 0%Z r4 in
      if (nx =? 0)%Z || negb (is_nil r5) then None
      else Some (if neg then Z.opp x else x)
    else None
  end.

Definition parse_unsigned_ascii (neg : bool) (t : str) : option dec :=
  let l := map lower t in
  if str_eqb l s_inf || str_eqb l s_infinity then Some (Inf neg)
  else if is_prefix s_nan l then (if forallb is_digit_ascii (skipn 3 t) then Some NaN else None)
  else if is_prefix s_snan l then (if forallb is_digit_ascii (skipn 4 t) then Some NaN else None)
  else
    let '(ip, ni, r1) := take_digits_ascii 0%Z 0%Z t in
    let '(m, nf, r2) := take_fraction_ascii ip r1 in
    if (ni + nf =? 0)%Z then None
    else match take_exponent_ascii r2 with
         | None => None
         | Some x => Some (Fin (if neg then Z.opp m else m) (x - nf)%Z)
         end.

Definition parse_dec_ascii (s : str) : option dec :=
  let '(neg, r) := split_sign (filter (fun c => negb (c =? 95)) (strip dec_space s)) in
  parse_unsigned_ascii neg r.

(* ---------- finite decimal numbers and their exact order ---------- *)

(* mant * 10^expo ; integers are the numbers with expo = 0 *)
Record num : Type := mkNum { mant : Z; expo : Z }.

Definition num_of_Z (z : Z) : num := mkNum z 0.

(* exact comparison: both mantissas are scaled to the smaller exponent *)
Definition num_cmp (a b : num) : comparison :=
  let k := Z.min (expo a) (expo b) in
  Z.compare (mant a * 10 ^ (expo a - k))%Z (mant b * 10 ^ (expo b - k))%Z.

Definition num_ltb (a b : num) : bool := match num_cmp a b with Lt => true | _ => false end.
Definition num_leb (a b : num) : bool := match num_cmp a b with Gt => false | _ => true end.
Definition num_eqb (a b : num) : bool := match num_cmp a b with Eq => true | _ => false end.

Fixpoint mem_num (x : num) (l : list num) : bool :=
  match l with [] => false | y :: ys => num_eqb x y || mem_num x ys end.

(* Python truthiness of an int / Decimal *)
Definition num_truthy (a : num) : bool := negb (mant a =? 0)%Z.

(* max(a, b) and min(a, b) as Python computes them: the first argument wins ties *)
Definition num_max (a b : num) : num := if num_ltb a b then b else a.
Definition num_min (a b : num) : num := if num_ltb b a then b else a.
