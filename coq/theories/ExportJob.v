(* ExportJob.v — C17, root = "Job" (and every class a Job is made of): decode (export x) = x.

   Two things put these classes outside ExportProofs.roundtrip_generic:
   (i)  StepParameterSpace.taskParameterDefinitions is an ORDERED UNION OF TWO MODEL CLASSES
        (RangeListTaskParameterDefinition | RangeExpressionTaskParameterDefinition).  The export of a
        range-expression definition has a STRING under "range"; the first alternative wants a list there and
        rejects it with a validation error, so the re-parse falls through to the same (second) alternative
        ([tpd_union_rt]).
   (ii) the pre-validator of the job-side AmountRequirement / AttributeRequirement re-parses the raw object as
        the TEMPLATE class with the caller's fuel ([pre_full]).  The job-side and the template-side parse of one
        object have the same export ([amount_same_export], [attribute_same_export]), the template classes round
        trip (ExportProofs.roundtrip_inner), and the fuel computed from the exported root is enough for every
        sub-document ([tmpl_fuel_change]).
   The induction is the one of ExportProofs (section 8), with different pre-validators on the source and the
   re-export side and a depth bound on the exported document carried along.  Lemmas only. *)
From Coq Require Import List NArith ZArith Bool String Lia Arith.
Import ListNotations.
Require Import OJD.Base OJD.Lexer OJD.Json OJD.Schema OJD.Generated OJD.Charsets OJD.Numerals OJD.NumPrint
               OJD.CreateJob OJD.Parse OJD.ScopeWalk OJD.ScopeSpec OJD.Validators OJD.Accept OJD.Export OJD.NumRoundtrip
               OJD.ExportProofs OJD.ExportView.
Local Open Scope string_scope.
Local Open Scope list_scope.

Notation G := Generated.schema.
Notation EXP := (exp Generated.schema).

Definition RL : string := "RangeListTaskParameterDefinition".
Definition RE : string := "RangeExpressionTaskParameterDefinition".
Definition tpd_union : kind := KUnion [UScalar (KModel RL); UScalar (KModel RE)].

Definition is_tpd_union (k : kind) : bool :=
  match k with
  | KUnion [UScalar (KModel a); UScalar (KModel b)] => String.eqb a RL && String.eqb b RE
  | _ => false
  end.

Lemma is_tpd_union_eq : forall k, is_tpd_union k = true -> k = tpd_union.
Proof.
  intros k H. destruct k as [| | | | | | | | | |alts]; try discriminate.
  destruct alts as [|[k1|] [|[k2|] [|]]]; try discriminate; try (destruct k1; discriminate);
    try (destruct k1; try discriminate; destruct k2; discriminate).
  destruct k1; try discriminate. destruct k2; try discriminate.
  cbn [is_tpd_union] in H. apply andb_true_iff in H. destruct H as [H1 H2].
  apply String.eqb_eq in H1. apply String.eqb_eq in H2. subst. reflexivity.
Qed.

(* the classes a Job is made of *)
Definition job_classes : list string :=
  ["Job"; "Step"; "StepScript"; "StepActions"; "Action"; "CancelationMethodNotifyThenTerminate";
   "CancelationMethodTerminate"; "EmbeddedFileText"; "Environment"; "EnvironmentScript"; "EnvironmentActions";
   "StepParameterSpace"; "RangeListTaskParameterDefinition"; "RangeExpressionTaskParameterDefinition";
   "HostRequirements"; "AmountRequirement"; "AttributeRequirement"; "StepDependency"; "JobParameter"].

(* kinds of their fields: scalars, their own classes, discriminated unions over them with a re-readable key,
   and the one ordered union of (i) *)
Definition jk_ok (k : kind) : bool :=
  match k with
  | KModel c => mem_s c job_classes
  | KDisc key mapping => forallb (fun tc => mem_s (snd tc) job_classes && disc_field_ok G key (snd tc)) mapping
  | KUnion _ => is_tpd_union k
  | _ => true
  end.

Definition jcls_ok (c : string) : bool :=
  match lookup_cls G c with
  | Some k => nodup_sb (map f_name (c_fields k)) && nodup_sb (map f_alias (c_fields k))
              && forallb (fun fl => jk_ok (f_kind fl)
                                    && match f_shape fl with DictOf kk => scalar_kind kk | _ => true end)
                         (c_fields k)
  | None => false
  end.

Lemma job_classes_ok : forallb jcls_ok job_classes = true.
Proof. vm_compute. reflexivity. Qed.

Lemma jcls_ok_of : forall c k, In c job_classes -> lookup_cls G c = Some k ->
  NoDup (map f_name (c_fields k)) /\ NoDup (map f_alias (c_fields k))
  /\ forall fl, In fl (c_fields k) ->
       jk_ok (f_kind fl) = true /\ forall kk, f_shape fl = DictOf kk -> scalar_kind kk = true.
Proof.
  intros c k Hc Hl. pose proof job_classes_ok as H. rewrite forallb_forall in H. specialize (H c Hc).
  unfold jcls_ok in H. rewrite Hl in H. apply andb_true_iff in H. destruct H as [H12 H3].
  apply andb_true_iff in H12. destruct H12 as [H1 H2].
  split; [apply nodup_sb_NoDup; exact H1|]. split; [apply nodup_sb_NoDup; exact H2|].
  rewrite forallb_forall in H3. intros fl Hfl. specialize (H3 fl Hfl). apply andb_true_iff in H3.
  destruct H3 as [Ha Hb]. split; [exact Ha|]. intros kk Hs. rewrite Hs in Hb. exact Hb.
Qed.

Lemma job_not_root : forall c, In c job_classes -> c <> "JobTemplate" /\ c <> "EnvironmentTemplate".
Proof.
  intros c Hc.
  assert (H : forallb (fun c => negb (String.eqb c "JobTemplate") && negb (String.eqb c "EnvironmentTemplate"))
                      job_classes = true) by (vm_compute; reflexivity).
  rewrite forallb_forall in H. specialize (H c Hc). apply andb_true_iff in H. destruct H as [H1 H2].
  apply negb_true_iff in H1. apply negb_true_iff in H2.
  apply String.eqb_neq in H1. apply String.eqb_neq in H2. split; assumption.
Qed.

(* ------------------------------------------------------------------------------------------ *)
(* 1. one step of the induction: source side (pk1, pre1), re-export side (pk2, pre2)           *)

Section Step2.
  Variable classify : N -> cclass.
  Variable pre1 pre2 : string -> json -> bool.
  Variable post : string -> json -> list (string * mval) -> bool.
  Variable D : nat.
  Variable pk1 pk2 : kind -> json -> outcome mval.
  Hypothesis NNk : forall k v x, pk1 k v = Ok x -> no_none_items x = true.
  Hypothesis IHk : forall k v x, jk_ok k = true -> pk1 k v = Ok x -> json_depth (EXP x) <= D -> pk2 k (EXP x) = Ok x.
  Hypothesis Hkey : forall kk s w, scalar_kind kk = true -> pk1 kk (JStr s) = Ok w -> pk2 kk (JStr s) = Ok w.
  Hypothesis Hhooks : forall c ms flds,
    In c job_classes -> cls_body G pre1 post pk1 c (JObj ms) = Ok (MModel c flds) ->
    json_depth (EXP (MModel c flds)) <= D ->
    pre2 c (EXP (MModel c flds)) = true /\ post c (EXP (MModel c flds)) flds = true.

  Lemma list_value_rt2 : forall minl maxl k v x,
    jk_ok k = true -> list_value pk1 minl maxl k v = Ok x -> json_depth (EXP x) <= D ->
    list_value pk2 minl maxl k (EXP x) = Ok x.
  Proof.
    intros minl maxl k v x Hk H Hd. unfold list_value in H. destruct v as [| | | | |items|]; try discriminate.
    destruct (len_ok_n minl maxl (List.length items)) eqn:El; [|discriminate].
    destruct (mapM (pk1 k) items) as [l'|] eqn:E; [|discriminate]. cbn [bind] in H. inversion H. subst x.
    apply mapM_Forall2 in E. rewrite exp_list in *. unfold list_value. rewrite map_length.
    rewrite <- (Forall2_length' _ _ _ _ _ E). rewrite El.
    rewrite mapM_map_id; [reflexivity|].
    intros b Hb. destruct (Forall2_in_r _ _ _ _ _ _ E Hb) as [a [_ Hab]]. eapply IHk; try eassumption.
    pose proof (json_depth_item (map EXP l') (EXP b) (in_map EXP _ _ Hb)). lia.
  Qed.

  Lemma dict_value_rt2 : forall kk k v x,
    jk_ok k = true -> scalar_kind kk = true -> dict_value pk1 kk k v = Ok x -> json_depth (EXP x) <= D ->
    dict_value pk2 kk k (EXP x) = Ok x.
  Proof.
    intros kk k v x Hk Hkk H Hd. unfold dict_value in H.
    destruct v as [| | | |s|l|members]; try discriminate.
    - destruct (mapM (dict_member pk1 kk k) members) as [l'|] eqn:E; [|discriminate]. cbn [bind] in H.
      inversion H. subst x. apply mapM_Forall2 in E.
      assert (Hm : forall b, In b l' -> exists w, pk1 kk (JStr (fst b)) = Ok w
                                                   /\ (exists a, pk1 k a = Ok (snd b)) /\ mnone (snd b) = false).
      { intros b Hb. destruct (Forall2_in_r _ _ _ _ _ _ E Hb) as [a [_ Hab]]. unfold dict_member in Hab.
        destruct (pk1 kk (JStr (fst a))) as [w|] eqn:Ew; [|discriminate]. cbn [bind] in Hab.
        destruct (pk1 k (snd a)) as [y|] eqn:Ey; [|discriminate]. cbn [bind] in Hab. inversion Hab. subst b.
        cbn [fst snd]. exists w. split; [exact Ew|]. split; [exists (snd a); exact Ey|].
        apply nn_not_none. eapply NNk. exact Ey. }
      rewrite exp_dict in * by (intros kv Hkv; destruct (Hm kv Hkv) as [_ [_ [_ Hn]]]; exact Hn).
      unfold dict_value.
      rewrite (mapM_map_id _ _ (dict_member pk2 kk k) (fun kv : str * mval => (fst kv, EXP (snd kv))) l'); [reflexivity|].
      intros [key y] Hb. destruct (Hm _ Hb) as [w [Hw [[a Hy] _]]]. cbn [fst snd] in *.
      unfold dict_member. cbn [fst snd]. rewrite (Hkey _ _ _ Hkk Hw). cbn [bind].
      rewrite (IHk k a y Hk Hy); [reflexivity|].
      pose proof (json_depth_member (map (fun kv : str * mval => (fst kv, EXP (snd kv))) l') (key, EXP y)
                                    (in_map (fun kv : str * mval => (fst kv, EXP (snd kv))) _ _ Hb)) as Hlt.
      cbn [snd] in Hlt. lia.
  Qed.

  Lemma shape_value_rt2 : forall fl raw x,
    jk_ok (f_kind fl) = true -> (forall kk, f_shape fl = DictOf kk -> scalar_kind kk = true) ->
    shape_value pk1 fl raw = Ok x -> json_depth (EXP x) <= D -> shape_value pk2 fl (EXP x) = Ok x.
  Proof.
    intros fl raw x Hk Hkk H Hd. unfold shape_value in *.
    destruct (f_shape fl) as [| |kk]; [eapply IHk|eapply list_value_rt2|eapply dict_value_rt2]; try eassumption.
    apply Hkk. reflexivity.
  Qed.

  Lemma cls_body_rt2 : forall c v x,
    In c job_classes -> cls_body G pre1 post pk1 c v = Ok x -> json_depth (EXP x) <= D ->
    cls_body G pre2 post pk2 c (EXP x) = Ok x.
  Proof.
    intros c v x Hc H Hd.
    destruct (cls_body_inv G pre1 post pk1 c v x H) as [k [ms [vals [Hl [Ev [Hpre [Hex [Hf [Ex Hpost]]]]]]]]].
    destruct (jcls_ok_of c k Hc Hl) as [Hn1 [Hn2 Hko]].
    assert (Hlen : List.length vals = List.length (c_fields k)) by (symmetry; eapply Forall2_length'; exact Hf).
    subst v. subst x. set (flds := combine (map f_name (c_fields k)) vals) in *.
    destruct (Hhooks c ms flds Hc H Hd) as [Hpre' Hpost'].
    unfold flds in Hpre', Hpost', Hd |- *. rewrite (exp_model G c k vals Hl Hn1 Hlen) in *.
    set (ms' := emit EXP (combine (c_fields k) vals)) in *.
    unfold cls_body. rewrite Hl. rewrite Hpre'. cbn [negb].
    assert (Hex' : extra_ok k ms' = true).
    { unfold extra_ok. apply negb_true_iff. apply andb_false_iff. right. apply negb_false_iff.
      rewrite forallb_forall. intros kv Hkv. destruct (emit_keys _ _ _ Hkv) as [[fl y] [Hp Hk]].
      apply existsb_exists. exists fl. split; [apply in_combine_l in Hp; exact Hp|].
      cbn [fst] in Hk. rewrite Hk. apply str_eqb_refl2. }
    rewrite Hex'. cbn [negb].
    assert (Hm : mapM (parse_field pk2 ms') (c_fields k) = Ok (combine (map f_name (c_fields k)) vals)).
    { assert (Hal : NoDup (map (fun p : field * mval => f_alias (fst p)) (combine (c_fields k) vals))).
      { rewrite <- (map_map fst f_alias). rewrite map_fst_combine by exact Hlen. exact Hn2. }
      assert (Hraw : forall fl y, In (fl, y) (combine (c_fields k) vals) ->
                                  parse_field pk2 ms' fl = Ok (f_name fl, y)).
      { intros fl y Hin. unfold parse_field, raw_of.
        pose proof (assoc_emit EXP _ fl y Hal Hin) as Has. fold ms' in Has. rewrite Has.
        pose proof (Forall2_combine_in _ _ _ _ _ _ _ Hf Hin) as Hfv. cbn beta in Hfv.
        destruct (mnone y) eqn:Eny.
        - destruct y; try discriminate. cbn [present option_map]. unfold field_value.
          rewrite (field_value_none pk1 NNk _ _ Hfv). reflexivity.
        - assert (Hp : present y = Some y) by (destruct y; try reflexivity; discriminate).
          rewrite Hp in *. cbn [option_map] in *. rewrite field_value_nonnull by (apply exp_not_null; exact Eny).
          assert (Hfl : In fl (c_fields k)) by (apply in_combine_l in Hin; exact Hin).
          destruct (Hko fl Hfl) as [Hk1 Hk2].
          rewrite (shape_value_rt2 fl (raw_of fl ms) y Hk1 Hk2); [reflexivity| |].
          + apply field_value_some; assumption.
          + destruct (assoc_in _ _ _ _ Has) as [key Hkey']. apply json_depth_member in Hkey'. cbn [snd] in Hkey'. lia. }
      clearbody ms'. clear - Hraw Hlen. revert vals Hlen Hraw. generalize (c_fields k) as fields.
      induction fields as [|fl r IH]; intros vals Hlen Hraw.
      - destruct vals; [reflexivity|discriminate].
      - destruct vals as [|y vals]; [discriminate|]. cbn [mapM map combine].
        rewrite (Hraw fl y (or_introl eq_refl)). cbn [bind].
        rewrite (IH vals); [reflexivity|cbn in Hlen; lia|].
        intros fl' y' Hin. apply Hraw. right. exact Hin. }
    rewrite Hm. cbn [bind]. rewrite Hpost'. reflexivity.
  Qed.
End Step2.

(* ------------------------------------------------------------------------------------------ *)
(* 2. kinds                                                                                    *)

Lemma F2_2 : forall (A B : Type) (R : A -> B -> Prop) a b l,
  Forall2 R [a; b] l -> exists x y, l = [x; y] /\ R a x /\ R b y.
Proof.
  intros A B R a b l H. inversion H as [|? x ? l1 Ha H1]; subst. inversion H1 as [|? y ? l2 Hb H2]; subst.
  inversion H2; subst. exists x, y. auto.
Qed.

Lemma F2_3 : forall (A B : Type) (R : A -> B -> Prop) a b c l,
  Forall2 R [a; b; c] l -> exists x y z, l = [x; y; z] /\ R a x /\ R b y /\ R c z.
Proof.
  intros A B R a b c l H. inversion H as [|? x ? l1 Ha H1]; subst.
  destruct (F2_2 _ _ _ _ _ _ H1) as [y [z [E [Hb Hc]]]]. subst. exists x, y, z. auto.
Qed.

Section Kinds.
  Variable classify : N -> cclass.

  (* a scalar parse depends on nothing but the kind and the value *)
  Lemma scalar_det : forall pre post pre' post' a b k w, scalar_kind k = true ->
    parse_kind G classify pre post (S a) k w = parse_kind G classify pre' post' (S b) k w.
  Proof. intros. rewrite !parse_kind_S. destruct k; try discriminate; reflexivity. Qed.

  Lemma scalar_step : forall pre1 pre2 post f k v x, scalar_kind k = true ->
    parse_kind G classify pre1 post f k v = Ok x -> parse_kind G classify pre2 post f k (EXP x) = Ok x.
  Proof.
    intros pre1 pre2 post f k v x Hs H. destruct f as [|f]; [discriminate|].
    pose proof (roundtrip_scalar G classify pre1 post f 1 k v x Hs H) as R.
    assert (Ex : to_object G 2 x = EXP x).
    { apply to_object_exp. rewrite parse_kind_S, (kind_body_scalar _ _ _ _ _ Hs) in H.
      apply scalar_body_sval in H. destruct x; try discriminate; cbn; lia. }
    rewrite Ex in R. rewrite <- (scalar_det pre1 post pre2 post f f k _ Hs). exact R.
  Qed.

  (* the discriminator is re-read from the export *)
  Lemma pc_disc2 : forall pre post f key c ms s x,
    disc_field_ok G key c = true -> assoc $key ms = Some (JStr s) ->
    parse_cls G classify pre post f c (JObj ms) = Ok x ->
    exists ms', EXP x = JObj ms' /\ assoc $key ms' = Some (JStr s).
  Proof.
    intros pre post f key c ms s x Hd Ha H.
    destruct (parse_cls_inv _ _ _ _ _ _ _ _ H) as [f' [k [ms0 [vals [Ef [Hl _]]]]]].
    unfold disc_field_ok in Hd. rewrite Hl in Hd. apply existsb_exists in Hd. destruct Hd as [fl [Hfl Hd]].
    apply andb_true_iff in Hd. destruct Hd as [Hd Hsk]. apply andb_true_iff in Hd. destruct Hd as [Hal Hsh].
    apply String.eqb_eq in Hal.
    destruct (fld_exp classify pre post f c _ x k fl H Hl Hfl) as [f'' [y [_ [Hfv He]]]].
    rewrite Hal in *. cbn [jget] in Hfv. rewrite Ha in Hfv. unfold field_value, shape_value in Hfv.
    destruct (f_shape fl); try discriminate.
    pose proof (pk_str _ _ _ _ _ _ _ _ Hsk Hfv) as Ey. rewrite Ey in He.
    assert (Ho : is_obj (EXP x) = true).
    { apply (dx_obj classify pre post c (JObj ms) (EXP x)). exists f, x. auto. }
    destruct (EXP x) as [| | | | | |ms']; try discriminate. exists ms'. split; [reflexivity|].
    cbn [jget] in He. destruct (assoc $key ms') as [w|]; [subst w; reflexivity|discriminate].
  Qed.

  (* (i): the export of a range-expression definition is rejected, with a validation error, by the first
     alternative of the union *)
  Lemma rl_rejects_re : forall pre1 pre2 post g v x,
    parse_cls G classify pre1 post g RE v = Ok x ->
    exists e, parse_cls G classify pre2 post g RL (EXP x) = Raise e /\ e <> RuntimeError.
  Proof.
    intros pre1 pre2 post g v x H.
    destruct (parse_cls_inv _ _ _ _ _ _ _ _ H) as [g1 [k [ms [vals [Eg [Hl [Ev [_ [Hf [Ex _]]]]]]]]]].
    pose proof Hl as Hc. vm_compute in Hc. inversion Hc as [Hk]. subst k. clear Hc.
    cbn [c_fields] in Hf. destruct (F2_2 _ _ _ _ _ _ Hf) as [y0 [y1 [Evs [A0 A1]]]]. subst vals.
    (* type: a string, read with positive fuel *)
    assert (B0 : exists g2 t, g1 = S g2 /\ y0 = MStr t).
    { destruct (field_value_cases _ _ _ _ A0) as [[_ [_ Erq]]|[_ Hsv]]; [discriminate|].
      unfold shape_value in Hsv. cbn [f_shape f_kind] in Hsv. destruct g1 as [|g2]; [discriminate|].
      rewrite parse_kind_S in Hsv. cbn [kind_body scalar_body] in Hsv. unfold reject in Hsv.
      destruct (raw_of _ ms); try discriminate. destruct (existsb _ _); [|discriminate]. inversion Hsv. eauto. }
    destruct B0 as [g2 [t [Eg1 Ey0]]]. subst g1 y0.
    assert (B1 : exists s, y1 = MFmt s).
    { destruct (field_value_cases _ _ _ _ A1) as [[_ [_ Erq]]|[_ Hsv]]; [discriminate|].
      unfold shape_value in Hsv. cbn [f_shape f_kind] in Hsv.
      rewrite parse_kind_S in Hsv. cbn [kind_body scalar_body] in Hsv. unfold reject in Hsv.
      destruct (raw_of _ ms); try discriminate. destruct (_ && _); [|discriminate]. inversion Hsv. eauto. }
    destruct B1 as [s Ey1]. subst y1.
    assert (Ee : EXP x = JObj [($"type", JStr t); ($"range", JStr s)]) by (subst x; reflexivity).
    rewrite Ee. subst g. rewrite parse_cls_S. unfold cls_body.
    destruct (lookup_cls G RL) as [kR|] eqn:HlR; [|vm_compute in HlR; discriminate].
    vm_compute in HlR. inversion HlR as [HkR]. subst kR. clear HlR.
    destruct (negb (pre2 RL _)); [exists ValueError; split; [reflexivity|discriminate]|].
    destruct (negb (extra_ok _ _)); [exists ValueError; split; [reflexivity|discriminate]|].
    cbn [c_fields mapM]. unfold parse_field at 1.
    assert (Et : raw_of {| f_name := "type"; f_alias := "type"; f_required := true;
                           f_shape := Single; f_kind := KEnum ["INT"; "FLOAT"; "STRING"; "PATH"] |}
                        [($"type", JStr t); ($"range", JStr s)] = JStr t) by reflexivity.
    rewrite Et. unfold field_value at 1. unfold shape_value at 1. cbn [f_shape f_kind].
    rewrite parse_kind_S. cbn [kind_body scalar_body]. unfold reject at 1.
    destruct (existsb (fun m : string => str_eqb t $m) ["INT"; "FLOAT"; "STRING"; "PATH"]);
      [|exists ValueError; split; [reflexivity|discriminate]].
    cbn [bind]. unfold parse_field at 1.
    assert (Er : raw_of {| f_name := "range"; f_alias := "range"; f_required := true;
                           f_shape := ListOf None None; f_kind := KStr false (Some 0%N) (Some 1024%N) CS_any |}
                        [($"type", JStr t); ($"range", JStr s)] = JStr s) by reflexivity.
    rewrite Er. unfold field_value, shape_value. cbn [f_shape f_kind list_value bind].
    exists ValueError. split; [reflexivity|discriminate].
  Qed.
End Kinds.

(* ------------------------------------------------------------------------------------------ *)
(* 3. (ii): the job-side requirement classes and their template classes                        *)

Definition strs_only (raw : json) : Prop :=
  match raw with
  | JNull | JStr _ => True
  | JArr items => Forall (fun it => exists s, it = JStr s) items
  | _ => False
  end.

Lemma emit_ext2 : forall l l' : list (field * mval),
  Forall2 (fun p q => f_alias (fst p) = f_alias (fst q) /\ EXP (snd p) = EXP (snd q)) l l' ->
  emit EXP l = emit EXP l'.
Proof.
  intros l l' H. induction H as [|[fp yp] [fq yq] l l' [Ha He] _ IH]; [reflexivity|].
  unfold emit in *. cbn [flat_map fst snd] in *. rewrite IH. f_equal. rewrite Ha.
  destruct (mnone yp) eqn:Ep, (mnone yq) eqn:Eq.
  - destruct yp, yq; try discriminate. reflexivity.
  - exfalso. destruct yp; try discriminate. apply (exp_not_null G yq Eq). rewrite <- He. reflexivity.
  - exfalso. destruct yq; try discriminate. apply (exp_not_null G yp Ep). rewrite He. reflexivity.
  - destruct yp; try discriminate; destruct yq; try discriminate; rewrite He; reflexivity.
Qed.

Section Req.
  Variable classify : N -> cclass.
  Notation POST := (post_hook classify).
  Notation PCt := (parse_cls G classify pre_hook POST).

  Lemma pk_fmt_str : forall pre post g a b c d it z,
    parse_kind G classify pre post g (KFormat a b c d) it = Ok z -> exists s, it = JStr s.
  Proof.
    intros pre post g a b c d it z H. destruct g as [|g]; [discriminate|]. rewrite parse_kind_S in H.
    cbn [kind_body scalar_body] in H. unfold reject in H. destruct it; try discriminate. eauto.
  Qed.

  Lemma fmt_strs_only : forall pre post g fl raw z a b c d,
    f_kind fl = KFormat a b c d -> is_dictof (f_shape fl) = false ->
    field_value (parse_kind G classify pre post g) fl raw = Ok z -> strs_only raw.
  Proof.
    intros pre post g fl raw z a b c d Hk Hs H.
    destruct (field_value_cases _ _ _ _ H) as [[Er _]|[_ Hsv]]; [subst; exact I|].
    unfold shape_value in Hsv. rewrite Hk in Hsv. destruct (f_shape fl); try discriminate.
    - destruct (pk_fmt_str _ _ _ _ _ _ _ _ _ Hsv) as [s Es]. subst. exact I.
    - destruct (list_value_inv _ _ _ _ _ _ Hsv) as [items [ys [Er [_ HF]]]]. subst raw. cbn [strs_only].
      clear Hsv H. induction HF as [|it y l l' Hy _ IH]; [constructor|]. constructor; [|exact IH].
      eapply pk_fmt_str. exact Hy.
  Qed.

  Lemma str_image : forall pre post g fl raw y,
    str_kind (f_kind fl) = true -> is_dictof (f_shape fl) = false -> strs_only raw ->
    field_value (parse_kind G classify pre post g) fl raw = Ok y -> EXP y = raw.
  Proof.
    intros pre post g fl raw y Hk Hs Hr H.
    destruct (field_value_cases _ _ _ _ H) as [[Er [Ey _]]|[Er Hsv]]; [subst; reflexivity|].
    unfold shape_value in Hsv. destruct (f_shape fl); try discriminate.
    - destruct raw; try contradiction.
      + eapply pk_str; eassumption.
      + exfalso. destruct g as [|g]; [discriminate|]. rewrite parse_kind_S in Hsv.
        rewrite (kind_body_scalar _ _ _ _ _ (scalar_of_str _ Hk)) in Hsv.
        destruct (f_kind fl); try discriminate; cbn [scalar_body] in Hsv; discriminate.
    - destruct (list_value_inv _ _ _ _ _ _ Hsv) as [items [ys [Er' [Ey HF]]]]. subst raw y.
      rewrite exp_list. f_equal. cbn [strs_only] in Hr. clear Hsv Er H.
      induction HF as [|it z l l' Hz _ IH]; [reflexivity|]. inversion Hr as [|? ? [s Es] Hr']; subst.
      cbn [map]. rewrite (IH Hr'). rewrite (pk_str _ _ _ _ _ _ _ _ Hk Hz). reflexivity.
  Qed.

  (* a text field: format string on the template side, lax string on the job side *)
  Lemma same_str_export : forall pre post f g flJ flT r y z a b c d,
    exact_fld flT = true -> f_kind flT = KFormat a b c d ->
    str_kind (f_kind flJ) = true -> is_dictof (f_shape flJ) = false ->
    field_value (parse_kind G classify pre_hook POST g) flT r = Ok z ->
    field_value (parse_kind G classify pre post f) flJ r = Ok y ->
    EXP y = EXP z.
  Proof.
    intros pre post f g flJ flT r y z a b c d He Hk Hsj Hdj Hz Hy.
    rewrite (fv_exact _ _ _ _ _ _ _ He Hz).
    eapply str_image; try eassumption. eapply fmt_strs_only; try eassumption.
    unfold exact_fld in He. apply andb_true_iff in He. destruct He as [_ He]. destruct (f_shape flT); try discriminate; reflexivity.
  Qed.

  (* a single scalar field of the same kind on both sides *)
  Lemma same_scalar_value : forall pre post f g flJ flT r y z,
    f_shape flJ = Single -> f_shape flT = Single -> f_kind flJ = f_kind flT -> scalar_kind (f_kind flT) = true ->
    field_value (parse_kind G classify pre_hook POST g) flT r = Ok z ->
    field_value (parse_kind G classify pre post f) flJ r = Ok y ->
    y = z.
  Proof.
    intros pre post f g flJ flT r y z Hsj Hst Hk Hs Hz Hy.
    destruct (field_value_cases _ _ _ _ Hz) as [[Er [Ez _]]|[Er Hzv]];
      destruct (field_value_cases _ _ _ _ Hy) as [[Er' [Ey _]]|[Er' Hyv]]; try contradiction; [congruence|].
    unfold shape_value in *. rewrite Hsj in Hyv. rewrite Hst in Hzv. rewrite Hk in Hyv.
    destruct f as [|f]; [discriminate|]. destruct g as [|g]; [discriminate|].
    rewrite (scalar_det classify pre post pre_hook POST f g _ _ Hs) in Hyv. congruence.
  Qed.

  Lemma amount_same_export : forall pre post f g v x xt,
    parse_cls G classify pre post f "AmountRequirement" v = Ok x ->
    PCt g "AmountRequirementTemplate" v = Ok xt -> EXP x = EXP xt.
  Proof.
    intros pre post f g v x xt HJ HT.
    destruct (parse_cls_inv _ _ _ _ _ _ _ _ HJ) as [fJ [kJ [msJ [valsJ [_ [HlJ [EvJ [_ [HfJ [ExJ _]]]]]]]]]].
    destruct (parse_cls_inv _ _ _ _ _ _ _ _ HT) as [fT [kT [msT [valsT [_ [HlT [EvT [_ [HfT [ExT _]]]]]]]]]].
    destruct (generated_names_distinct _ _ HlJ) as [HnJ _]. destruct (generated_names_distinct _ _ HlT) as [HnT _].
    subst v. inversion EvT. subst msT. clear EvT.
    pose proof HlJ as Hc. vm_compute in Hc. inversion Hc as [Hk]. subst kJ. clear Hc.
    pose proof HlT as Hc. vm_compute in Hc. inversion Hc as [Hk]. subst kT. clear Hc.
    cbn [c_fields] in HfJ, HfT.
    destruct (F2_3 _ _ _ _ _ _ _ HfJ) as [y0 [y1 [y2 [E [A0 [A1 A2]]]]]]. subst valsJ.
    destruct (F2_3 _ _ _ _ _ _ _ HfT) as [z0 [z1 [z2 [E [B0 [B1 B2]]]]]]. subst valsT.
    subst x xt.
    rewrite (exp_model G _ _ [y0; y1; y2] HlJ HnJ eq_refl), (exp_model G _ _ [z0; z1; z2] HlT HnT eq_refl). f_equal.
    apply emit_ext2. cbn [c_fields combine].
    repeat (constructor; [cbn [fst snd f_alias]; split; [reflexivity|]|]); try constructor.
    - eapply (same_str_export pre post); try eassumption; reflexivity.
    - f_equal. eapply (same_scalar_value pre post); try eassumption; reflexivity.
    - f_equal. eapply (same_scalar_value pre post); try eassumption; reflexivity.
  Qed.

  Lemma attribute_same_export : forall pre post f g v x xt,
    parse_cls G classify pre post f "AttributeRequirement" v = Ok x ->
    PCt g "AttributeRequirementTemplate" v = Ok xt -> EXP x = EXP xt.
  Proof.
    intros pre post f g v x xt HJ HT.
    destruct (parse_cls_inv _ _ _ _ _ _ _ _ HJ) as [fJ [kJ [msJ [valsJ [_ [HlJ [EvJ [_ [HfJ [ExJ _]]]]]]]]]].
    destruct (parse_cls_inv _ _ _ _ _ _ _ _ HT) as [fT [kT [msT [valsT [_ [HlT [EvT [_ [HfT [ExT _]]]]]]]]]].
    destruct (generated_names_distinct _ _ HlJ) as [HnJ _]. destruct (generated_names_distinct _ _ HlT) as [HnT _].
    subst v. inversion EvT. subst msT. clear EvT.
    pose proof HlJ as Hc. vm_compute in Hc. inversion Hc as [Hk]. subst kJ. clear Hc.
    pose proof HlT as Hc. vm_compute in Hc. inversion Hc as [Hk]. subst kT. clear Hc.
    cbn [c_fields] in HfJ, HfT.
    destruct (F2_3 _ _ _ _ _ _ _ HfJ) as [y0 [y1 [y2 [E [A0 [A1 A2]]]]]]. subst valsJ.
    destruct (F2_3 _ _ _ _ _ _ _ HfT) as [z0 [z1 [z2 [E [B0 [B1 B2]]]]]]. subst valsT.
    subst x xt.
    rewrite (exp_model G _ _ [y0; y1; y2] HlJ HnJ eq_refl), (exp_model G _ _ [z0; z1; z2] HlT HnT eq_refl). f_equal.
    apply emit_ext2. cbn [c_fields combine].
    repeat (constructor; [cbn [fst snd f_alias]; split; [reflexivity|]|]); try constructor;
      (eapply (same_str_export pre post); try eassumption; reflexivity).
  Qed.

  (* more fuel, or the fuel computed from the document: same result on the template classes *)
  Lemma tmpl_fuel_change : forall F F2 c d y,
    In c template_classes -> PCt F c d = Ok y -> parse_fuel d <= F2 -> PCt F2 c d = Ok y.
  Proof.
    intros F F2 c d y Hc H Hd. destruct (Nat.le_gt_cases F F2) as [Hle|Hgt].
    - destruct (parse_sim G classify pre_hook pre_hook POST template_classes template_schema_ok
                          (fun c raw Hc => eq_refl) template_keys_scalar (F2 - F) F) as [_ Hs].
      specialize (Hs c d Hc). replace (F + (F2 - F)) with F2 in Hs by lia.
      rewrite Hs by (rewrite H; discriminate). exact H.
    - rewrite (parse_fuel_enough classify pre_hook POST F2 c d) by lia.
      rewrite <- (parse_fuel_enough classify pre_hook POST F c d) by lia. exact H.
  Qed.

  Lemma pre_full_amount : forall F raw,
    pre_full classify F "AmountRequirement" raw = is_ok (PCt F "AmountRequirementTemplate" raw).
  Proof. reflexivity. Qed.

  Lemma pre_full_attribute : forall F raw,
    pre_full classify F "AttributeRequirement" raw = is_ok (PCt F "AttributeRequirementTemplate" raw).
  Proof. reflexivity. Qed.

  Lemma pre_full_other : forall F c raw, c <> "AmountRequirement" -> c <> "AttributeRequirement" ->
    pre_full classify F c raw = pre_hook c raw.
  Proof.
    intros F c raw H1 H2. unfold pre_full. apply String.eqb_neq in H1. apply String.eqb_neq in H2.
    rewrite H1, H2. apply andb_true_r.
  Qed.

  Lemma req_pre_stable : forall F F2 post f c tc v x,
    (c = "AmountRequirement" /\ tc = "AmountRequirementTemplate")
    \/ (c = "AttributeRequirement" /\ tc = "AttributeRequirementTemplate") ->
    parse_cls G classify (pre_full classify F) post f c v = Ok x ->
    parse_fuel (EXP x) <= F2 ->
    pre_full classify F2 c (EXP x) = true.
  Proof.
    intros F F2 post f c tc v x Hc H Hd.
    assert (Hpre : pre_full classify F c v = true).
    { destruct (parse_cls_inv _ _ _ _ _ _ _ _ H) as [f' [k [ms [vals [_ [_ [_ [Hp _]]]]]]]]. exact Hp. }
    assert (Hin : In "AmountRequirementTemplate" inner_classes /\ In "AttributeRequirementTemplate" inner_classes
                  /\ In "AmountRequirementTemplate" template_classes /\ In "AttributeRequirementTemplate" template_classes)
      by (vm_compute; tauto).
    destruct Hin as [I1 [I2 [T1 T2]]].
    destruct Hc as [[-> ->]|[-> ->]].
    - rewrite pre_full_amount in *.
      destruct (PCt F "AmountRequirementTemplate" v) as [xt|] eqn:Et; [|discriminate].
      rewrite (amount_same_export _ _ _ _ _ _ _ H Et) in *.
      pose proof (roundtrip_inner classify F _ _ _ I1 Et) as Hrt.
      rewrite (tmpl_fuel_change F F2 _ _ _ T1 Hrt Hd). reflexivity.
    - rewrite pre_full_attribute in *.
      destruct (PCt F "AttributeRequirementTemplate" v) as [xt|] eqn:Et; [|discriminate].
      rewrite (attribute_same_export _ _ _ _ _ _ _ H Et) in *.
      pose proof (roundtrip_inner classify F _ _ _ I2 Et) as Hrt.
      rewrite (tmpl_fuel_change F F2 _ _ _ T2 Hrt Hd). reflexivity.
  Qed.
End Req.

(* ------------------------------------------------------------------------------------------ *)
(* 4. the induction                                                                            *)

Section JobRT.
  Variable classify : N -> cclass.
  Notation POST := (post_hook classify).

  Lemma jget_null_exp : forall pre post f c v x i a,
    parse_cls G classify pre post f c v = Ok x -> fld_is c i a (fun _ => true) = true ->
    is_null (jget a (EXP x)) = is_null (jget a v).
  Proof.
    intros pre post f c v x i a H Hi.
    destruct (fld_raw classify pre post _ _ _ _ _ _ _ H Hi) as [f' [y [_ [Hfv [He _]]]]]. rewrite He.
    destruct (field_value_cases _ _ _ _ Hfv) as [[Er [Ey _]]|[Er Hsv]]; [subst y; rewrite Er; reflexivity|].
    destruct (parse_nn G classify pre post f') as [NNk _].
    pose proof (shape_value_nn _ NNk _ _ _ Hsv) as Hn.
    pose proof (exp_not_null G y (nn_not_none y Hn)) as Hnz.
    destruct (EXP y), (jget a v); try reflexivity; contradiction.
  Qed.

  (* the template-side pre-validators of the job classes accept the re-export *)
  Lemma pre_hook_stable_job : forall pre post f c v x,
    In c job_classes -> parse_cls G classify pre post f c v = Ok x -> pre_hook c v = true ->
    pre_hook c (EXP x) = true.
  Proof.
    intros pre post f c v x Hc H Hpre.
    destruct (String.eqb c "EnvironmentActions") eqn:E1.
    { apply String.eqb_eq in E1. subst c.
      change (negb (is_null (jget "onEnter" (EXP x))) || negb (is_null (jget "onExit" (EXP x))) = true).
      rewrite (jget_null_exp pre post f _ v x 0 "onEnter" H eq_refl).
      rewrite (jget_null_exp pre post f _ v x 1 "onExit" H eq_refl). exact Hpre. }
    destruct (String.eqb c "Environment") eqn:E2.
    { apply String.eqb_eq in E2. subst c.
      change (negb (is_null (jget "script" (EXP x))) || negb (is_null (jget "variables" (EXP x))) = true).
      rewrite (jget_null_exp pre post f _ v x 1 "script" H eq_refl).
      rewrite (jget_null_exp pre post f _ v x 2 "variables" H eq_refl). exact Hpre. }
    clear H Hpre.
    repeat (destruct Hc as [<-|Hc];
            [try reflexivity; try (vm_compute in E1; discriminate E1); try (vm_compute in E2; discriminate E2)|]).
    destruct Hc.
  Qed.

  Section Ind.
    Variables F F2 D : nat.
    Hypothesis HD : 6 * D + 12 <= F2.
    Notation PK1 := (parse_kind G classify (pre_full classify F) POST).
    Notation PC1 := (parse_cls G classify (pre_full classify F) POST).
    Notation PK2 := (parse_kind G classify (pre_full classify F2) POST).
    Notation PC2 := (parse_cls G classify (pre_full classify F2) POST).

    Lemma hooks_job : forall f c ms flds,
      In c job_classes -> PC1 f c (JObj ms) = Ok (MModel c flds) -> json_depth (EXP (MModel c flds)) <= D ->
      pre_full classify F2 c (EXP (MModel c flds)) = true /\ POST c (EXP (MModel c flds)) flds = true.
    Proof.
      intros f c ms flds Hc H Hd. split.
      - assert (Hfu : parse_fuel (EXP (MModel c flds)) <= F2) by (unfold parse_fuel; lia).
        destruct (String.eqb c "AmountRequirement") eqn:E1.
        { apply String.eqb_eq in E1. subst c.
          eapply (req_pre_stable classify F F2 POST f _ "AmountRequirementTemplate"); [left; auto|exact H|exact Hfu]. }
        destruct (String.eqb c "AttributeRequirement") eqn:E2.
        { apply String.eqb_eq in E2. subst c.
          eapply (req_pre_stable classify F F2 POST f _ "AttributeRequirementTemplate"); [right; auto|exact H|exact Hfu]. }
        apply String.eqb_neq in E1. apply String.eqb_neq in E2.
        rewrite (pre_full_other classify F2 c _ E1 E2).
        eapply pre_hook_stable_job; [exact Hc|exact H|].
        destruct (parse_cls_inv _ _ _ _ _ _ _ _ H) as [f' [k [ms0 [vals [_ [_ [_ [Hp _]]]]]]]].
        rewrite (pre_full_other classify F c _ E1 E2) in Hp. exact Hp.
      - destruct (parse_cls_inv _ _ _ _ _ _ _ _ H) as [f' [k [ms0 [vals [_ [_ [Ev [_ [_ [Ex Hpo]]]]]]]]]].
        inversion Ex. subst flds. destruct (job_not_root c Hc) as [N1 N2].
        rewrite (post_hook_raw_free classify c _ (JObj ms) _ N1 N2). exact Hpo.
    Qed.

    Theorem rt_job_ind : forall f,
      (forall k v x, jk_ok k = true -> PK1 f k v = Ok x -> json_depth (EXP x) <= D -> PK2 f k (EXP x) = Ok x)
      /\ (forall c v x, In c job_classes -> PC1 f c v = Ok x -> json_depth (EXP x) <= D -> PC2 f c (EXP x) = Ok x).
    Proof.
      induction f as [|f [IHk IHc]]; [split; intros; discriminate|]. split.
      - intros k v x Hk H Hd.
        destruct (scalar_kind k) eqn:Es; [eapply scalar_step; eassumption|].
        destruct k as [| | | | | | | |c|key mapping|alts]; try discriminate.
        + (* model *)
          rewrite parse_kind_S in *. cbn [kind_body jk_ok] in *. apply mem_s_In in Hk. eapply IHc; eassumption.
        + (* discriminated union *)
          rewrite parse_kind_S in *. cbn [kind_body] in *. unfold disc_value in H.
          destruct v as [| | | | | |ms]; try discriminate.
          destruct (assoc $key ms) as [[| | | |s| |]|] eqn:Ea; try discriminate.
          destruct (List.find (fun kc => str_eqb $(fst kc) s) mapping) as [[t c]|] eqn:Ef; [|discriminate].
          cbn [jk_ok] in Hk. rewrite forallb_forall in Hk. pose proof (find_some _ _ Ef) as [Hin _].
          specialize (Hk _ Hin). cbn [snd] in Hk. apply andb_true_iff in Hk. destruct Hk as [Hc Hdf].
          apply mem_s_In in Hc.
          destruct (pc_disc2 classify _ _ _ _ _ _ _ _ Hdf Ea H) as [ms' [Ee Ea']].
          unfold disc_value. rewrite Ee, Ea', Ef. rewrite <- Ee. eapply IHc; eassumption.
        + (* the ordered union of RangeList | RangeExpression *)
          cbn [jk_ok] in Hk. apply is_tpd_union_eq in Hk. unfold tpd_union in Hk. inversion Hk. subst alts. clear Hk.
          rewrite parse_kind_S in *. cbn [kind_body try_alts alt_value] in *.
          assert (HkL : jk_ok (KModel RL) = true) by reflexivity.
          assert (HkE : jk_ok (KModel RE) = true) by reflexivity.
          destruct (PK1 f (KModel RL) v) as [y|e] eqn:E1.
          * inversion H. subst y. rewrite (IHk _ _ _ HkL E1 Hd). reflexivity.
          * assert (H2 : PK1 f (KModel RE) v = Ok x).
            { destruct e; try discriminate;
                (destruct (PK1 f (KModel RE) v) as [y|e2]; [exact H|destruct e2; discriminate]). }
            rewrite (IHk _ _ _ HkE H2 Hd).
            destruct f as [|g]; [discriminate|]. rewrite parse_kind_S in H2 |- *. cbn [kind_body] in H2 |- *.
            destruct (rl_rejects_re classify (pre_full classify F) (pre_full classify F2) POST g v x H2) as [e' [Er Hne]].
            rewrite Er. destruct e'; try reflexivity. contradiction.
      - intros c v x Hc H Hd. rewrite parse_cls_S in *.
        destruct (parse_nn G classify (pre_full classify F) POST f) as [NNk _].
        eapply (cls_body_rt2 (pre_full classify F) (pre_full classify F2) POST D (PK1 f) (PK2 f)); try eassumption.
        + intros kk s w Hs Hw. destruct f as [|g]; [discriminate|].
          rewrite <- (scalar_det classify (pre_full classify F) POST (pre_full classify F2) POST g g kk _ Hs). exact Hw.
        + intros c0 ms flds Hc0 Hb Hd0. apply (hooks_job (S f) c0 ms flds Hc0); [|exact Hd0].
          rewrite parse_cls_S. exact Hb.
    Qed.
  End Ind.

  (* decode (export (decode j)) = decode j for a Job and every class below it, as [roundtrip] computes it *)
  Theorem roundtrip_job_classes : forall root j v,
    In root job_classes ->
    parse_any classify root j = Ok v ->
    snd (roundtrip classify root v) = true.
  Proof.
    intros root j v Hroot Hp. unfold parse_any in Hp.
    assert (Ee : export v = EXP v) by (unfold export; apply to_object_exp; lia).
    unfold roundtrip. cbn [snd]. rewrite Ee. unfold parse_any.
    set (F := parse_fuel j) in *. set (F2 := parse_fuel (EXP v)). set (M := Nat.max F F2).
    assert (H1 : parse_cls G classify (pre_full classify F) POST M root j = Ok v).
    { rewrite (parse_fuel_enough classify (pre_full classify F) POST M root j) by (unfold F, M; lia). exact Hp. }
    destruct (rt_job_ind F F2 (json_depth (EXP v)) (Nat.le_refl _) M) as [_ Hc].
    specialize (Hc root j v Hroot H1 (Nat.le_refl _)).
    rewrite (parse_fuel_enough classify (pre_full classify F2) POST M root (EXP v)) in Hc by (unfold F2, M; lia).
    fold F2 in Hc. rewrite Hc. apply mval_eqb_refl. lia.
  Qed.

  Theorem roundtrip_job : forall j v,
    parse_any classify "Job" j = Ok v -> snd (roundtrip classify "Job" v) = true.
  Proof. intros j v Hp. eapply roundtrip_job_classes; [|exact Hp]. left. reflexivity. Qed.
End JobRT.
