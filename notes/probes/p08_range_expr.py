# C08/C13 probe: element sweeps vs an independent oracle (no sort/merge/bisect).
import itertools, sys, random
from openjd.model import IntRangeExpr, ExpressionError
R = int(sys.argv[1]) if len(sys.argv) > 1 else 4
def elems():
    out = []
    for a in range(-R, R+1):
        out.append((f"{a}", a, a, None))
        for b in range(-R, R+1):
            out.append((f"{a}-{b}", a, b, None))
            for s in (-3, -2, -1, 0, 1, 2, 3):
                out.append((f"{a}-{b}:{s}", a, b, s))
    return out
def elem_ok(a, b, s):
    if s is None: return a <= b
    if s == 0: return False
    if a < b and s < 0: return False
    if a > b and s > 0: return False
    return True
def denote(a, b, s):
    s = 1 if s is None else s
    out = []; x = a
    while (s > 0 and x <= b) or (s < 0 and x >= b): out.append(x); x += s
    return out
def oracle(es):
    if not all(elem_ok(a, b, s) for _, a, b, s in es): return None
    spans = [(min(a, b), max(a, b)) for _, a, b, s in es]
    for i in range(len(spans)):
        for j in range(i+1, len(spans)):
            if not (spans[i][1] < spans[j][0] or spans[j][1] < spans[i][0]): return None
    vals = [v for _, a, b, s in es for v in denote(a, b, s)]
    return sorted(vals)
def impl(text):
    try: r = IntRangeExpr.from_str(text)
    except ExpressionError: return None, None
    except Exception as e: return "EXC:" + type(e).__name__, None
    return sorted(r), r
E = elems(); print("elements", len(E))
bad = {}
def check(es):
    text = ",".join(t for t, *_ in es)
    i, r = impl(text); o = oracle(es)
    if i != o:
        k = "other-exception" if isinstance(i, str) else ("values" if (i is not None and o is not None) else ("false-accept" if o is None else "false-reject"))
        bad.setdefault(k, []).append((text, i if not r else list(r), o))
        return
    if r is not None:   # C13 self-consistency
        L = list(r)
        if len(r) != len(L): bad.setdefault("len", []).append(text)
        for idx in range(-len(L)-2, len(L)+2):
            try: v = r[idx]
            except IndexError: v = "IE"
            w = L[idx] if -len(L) <= idx < len(L) else "IE"
            if v != w: bad.setdefault("getitem", []).append((text, idx, v, w))
        try:
            r2 = IntRangeExpr.from_str(str(r))
            if list(r2) != L: bad.setdefault("str-roundtrip", []).append((text, str(r), list(r2), L))
        except Exception as e: bad.setdefault("str-roundtrip-exc", []).append((text, str(r), type(e).__name__))
for e in E: check([e])
rnd = random.Random(7)
pairs = 0
for _ in range(int(sys.argv[2]) if len(sys.argv) > 2 else 60000):
    k = rnd.choice([2, 2, 2, 3, 4]); check([rnd.choice(E) for _ in range(k)]); pairs += 1
print("multi-element cases", pairs)
for k, v in bad.items(): print(k, len(v), v[:4])
# from_list
badl = {}
for L in range(1, 6):
    for vs in itertools.product(range(-1, 4), repeat=L):
        try: got = list(IntRangeExpr.from_list(list(vs)))
        except Exception as e: got = "EXC:" + type(e).__name__
        if got != sorted(set(vs)): badl.setdefault(str(got) if isinstance(got, str) else "values", []).append(vs)
for k, v in badl.items(): print("from_list", k, len(v), v[:3])
print("done")
