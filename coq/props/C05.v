(* props/C05.v — "A created Job is the template with creation-time substitutions, nothing else".

   Model: CreateJob.v ([inst] = instantiate_model driven by the creation metadata of a schema,
   [symtab_of] = the symbol table create_job builds).  All theorems are for ALL instance trees, symbol
   tables and fuels (unbounded); those about the 2023-09 classes are about Generated.schema, i.e. the
   metadata read from the live classes by tools/regen.py.  Lemmas: CreateJobProofs.v.

     C05_meta_table, C05_trivial_classes      the metadata itself (by computation)
     C05_trivial_identity                     generic: trivial metadata => carried over unchanged
     C05_trivial_unchanged, C05_script_unchanged   ... for the live schema
     C05_inst_unfold, C05_gen_*, C05_shape_*  the result of [inst], class by class, as an exact field list
     C05_keyed_distinct                       the list -> dictionary reshaping
     C05_symtab                               the symbol table
     C05_no_reexpand*                         resolved text = one-pass substitution on the original *)
From Coq Require Import List NArith ZArith String.
Import ListNotations.
Require Import OJD.Base OJD.Lexer OJD.Json OJD.Schema OJD.Generated OJD.CreateJob OJD.CreateJobProofs.
Require Import OJD.FormatStr OJD.FormatStrSpec.
Local Open Scope string_scope.
Local Open Scope list_scope.

(* ------------------------------------------------------------------ the metadata *)

Theorem C05_meta_table : nontrivial_jcm Generated.schema = expected_jcm_table.
Proof. exact meta_table_ok. Qed.
Print Assumptions C05_meta_table.

(* every other class has trivial metadata: nothing resolved, excluded, renamed, reshaped, added,
   same class *)
Theorem C05_trivial_classes :
  trivial_classes Generated.schema =
  [ "CancelationMethodNotifyThenTerminate"; "CancelationMethodTerminate"; "Action"; "StepActions";
    "EnvironmentActions"; "EmbeddedFileText"; "StepScript"; "EnvironmentScript";
    "RangeListTaskParameterDefinition"; "IntRangeListTaskParameterDefinition";
    "FloatRangeListTaskParameterDefinition"; "RangeExpressionTaskParameterDefinition";
    "StepParameterSpace"; "Environment"; "JobParameter";
    "JobStringParameterDefinitionUserInterface"; "JobPathParameterDefinitionFileFilter";
    "JobPathParameterDefinitionUserInterface"; "JobIntParameterDefinitionUserInterface";
    "JobFloatParameterDefinitionUserInterface"; "AmountRequirement"; "AttributeRequirement";
    "HostRequirements"; "StepDependency"; "Step"; "Job"; "EnvironmentTemplate" ].
Proof. exact trivial_classes_ok. Qed.
Print Assumptions C05_trivial_classes.

(* in particular the classes that make up scripts, environments and dependencies — the home of every
   session- and task-scope format string *)
Theorem C05_carried_trivial :
  incl [ "StepScript"; "StepActions"; "Action"; "CancelationMethodNotifyThenTerminate";
         "CancelationMethodTerminate"; "EmbeddedFileText"; "Environment"; "EnvironmentScript";
         "EnvironmentActions"; "StepDependency" ]
       (trivial_classes Generated.schema).
Proof. exact carried_are_trivial. Qed.
Print Assumptions C05_carried_trivial.

(* ------------------------------------------------------------------ "everything else is unchanged" *)

(* generic, any schema: an instance tree all of whose classes (at any depth, through lists,
   dictionaries and nested models) have trivial metadata is returned unchanged *)
Theorem C05_trivial_identity : forall SC resolve sigma fuel v,
  (forall c, In c (classes_in v) -> jcm_is_trivial (jcm_of SC c) = true) ->
  mval_depth v < fuel ->
  inst SC resolve sigma fuel v = Ok v.
Proof. exact trivial_identity. Qed.
Print Assumptions C05_trivial_identity.

Theorem C05_trivial_unchanged : forall resolve sigma fuel v,
  incl (classes_in v) (trivial_classes Generated.schema) ->
  mval_depth v < fuel ->
  inst Generated.schema resolve sigma fuel v = Ok v.
Proof. exact trivial_unchanged. Qed.
Print Assumptions C05_trivial_unchanged.

(* scripts, environments, dependencies: whatever the symbol table and the resolver *)
Theorem C05_script_unchanged : forall resolve sigma fuel v,
  incl (classes_in v) carried_classes ->
  mval_depth v < fuel ->
  inst Generated.schema resolve sigma fuel v = Ok v.
Proof. exact carried_unchanged. Qed.
Print Assumptions C05_script_unchanged.

(* ------------------------------------------------------------------ one step of [inst] *)

Theorem C05_inst_unfold : forall SC resolve sigma f v,
  inst SC resolve sigma (S f) v =
  match v with
  | MModel c fields => inst_model resolve sigma (inst SC resolve sigma f) (jcm_of SC c) c fields
  | _ => Ok v
  end.
Proof. exact inst_S. Qed.
Print Assumptions C05_inst_unfold.

Theorem C05_jcm_of_generated :
  jcm_of Generated.schema "JobTemplate" = jcm_JobTemplate
  /\ jcm_of Generated.schema "StepTemplate" = jcm_StepTemplate
  /\ jcm_of Generated.schema "JobStringParameterDefinition" = jcm_JobStringParam
  /\ jcm_of Generated.schema "JobPathParameterDefinition" = jcm_JobPathParam
  /\ jcm_of Generated.schema "JobIntParameterDefinition" = jcm_JobNumParam
  /\ jcm_of Generated.schema "JobFloatParameterDefinition" = jcm_JobNumParam
  /\ jcm_of Generated.schema "IntTaskParameterDefinition" = jcm_IntTaskParam
  /\ jcm_of Generated.schema "FloatTaskParameterDefinition" = jcm_TaskParam "FloatRangeListTaskParameterDefinition"
  /\ jcm_of Generated.schema "StringTaskParameterDefinition" = jcm_TaskParam "RangeListTaskParameterDefinition"
  /\ jcm_of Generated.schema "PathTaskParameterDefinition" = jcm_TaskParam "RangeListTaskParameterDefinition"
  /\ jcm_of Generated.schema "StepParameterSpaceDefinition" = jcm_ParamSpace
  /\ jcm_of Generated.schema "AmountRequirementTemplate" = jcm_Amount
  /\ jcm_of Generated.schema "AttributeRequirementTemplate" = jcm_Attribute
  /\ jcm_of Generated.schema "HostRequirementsTemplate" = jcm_HostReq.
Proof. exact jcm_of_generated. Qed.
Print Assumptions C05_jcm_of_generated.

(* ------------------------------------------------------------------ shapes, arbitrary field values:
   which fields survive, under which name, in which order, in which class.  [inst_val] is the
   generic treatment of one field value (list / dict / single) *)

Theorem C05_gen_JobTemplate : forall resolve sigma rec sv nm st d pd je ss,
  inst_model resolve sigma rec jcm_JobTemplate "JobTemplate"
    [("specificationVersion", sv); ("name", nm); ("steps", st); ("description", d);
     ("parameterDefinitions", pd); ("jobEnvironments", je); ("schemaStr", ss)]
  = do n <- inst_val resolve sigma rec jcm_JobTemplate "name" nm;
    do s <- inst_val resolve sigma rec jcm_JobTemplate "steps" st;
    do d' <- inst_val resolve sigma rec jcm_JobTemplate "description" d;
    do p <- inst_val resolve sigma rec jcm_JobTemplate "parameterDefinitions" pd;
    do e <- inst_val resolve sigma rec jcm_JobTemplate "jobEnvironments" je;
    Ok (MModel "Job" [("name", n); ("steps", s); ("description", d'); ("parameters", p); ("jobEnvironments", e)]).
Proof. exact gen_JobTemplate. Qed.
Print Assumptions C05_gen_JobTemplate.

Theorem C05_gen_StepTemplate : forall resolve sigma rec n d sc se ps hr dp,
  inst_model resolve sigma rec jcm_StepTemplate "StepTemplate"
    [("name", n); ("description", d); ("script", sc); ("stepEnvironments", se);
     ("parameterSpace", ps); ("hostRequirements", hr); ("dependencies", dp)]
  = do n' <- inst_val resolve sigma rec jcm_StepTemplate "name" n;
    do d' <- inst_val resolve sigma rec jcm_StepTemplate "description" d;
    do sc' <- inst_val resolve sigma rec jcm_StepTemplate "script" sc;
    do se' <- inst_val resolve sigma rec jcm_StepTemplate "stepEnvironments" se;
    do ps' <- inst_val resolve sigma rec jcm_StepTemplate "parameterSpace" ps;
    do hr' <- inst_val resolve sigma rec jcm_StepTemplate "hostRequirements" hr;
    do dp' <- inst_val resolve sigma rec jcm_StepTemplate "dependencies" dp;
    Ok (MModel "Step" [("name", n'); ("description", d'); ("script", sc'); ("stepEnvironments", se');
                       ("parameterSpace", ps'); ("hostRequirements", hr'); ("dependencies", dp')]).
Proof. exact gen_StepTemplate. Qed.
Print Assumptions C05_gen_StepTemplate.

(* the excluded fields (ui, limits, allowed values, default, ...) are never even looked at *)
Theorem C05_gen_JobStringParam : forall resolve sigma rec n t ui d mn mx av df,
  inst_model resolve sigma rec jcm_JobStringParam "JobStringParameterDefinition"
    [("name", MStr n); ("type", t); ("userInterface", ui); ("description", d);
     ("minLength", mn); ("maxLength", mx); ("allowedValues", av); ("default", df)]
  = do t' <- inst_val resolve sigma rec jcm_JobStringParam "type" t;
    do d' <- inst_val resolve sigma rec jcm_JobStringParam "description" d;
    with_value sigma n [("type", t'); ("description", d')].
Proof. exact gen_JobStringParam. Qed.
Print Assumptions C05_gen_JobStringParam.

Theorem C05_gen_JobPathParam : forall resolve sigma rec n t ot dfl ui d mn mx av df,
  inst_model resolve sigma rec jcm_JobPathParam "JobPathParameterDefinition"
    [("name", MStr n); ("type", t); ("objectType", ot); ("dataFlow", dfl); ("userInterface", ui);
     ("description", d); ("minLength", mn); ("maxLength", mx); ("allowedValues", av); ("default", df)]
  = do t' <- inst_val resolve sigma rec jcm_JobPathParam "type" t;
    do d' <- inst_val resolve sigma rec jcm_JobPathParam "description" d;
    with_value sigma n [("type", t'); ("description", d')].
Proof. exact gen_JobPathParam. Qed.
Print Assumptions C05_gen_JobPathParam.

Theorem C05_gen_JobNumParam : forall resolve sigma rec c n t ui d mn mx av df,
  inst_model resolve sigma rec jcm_JobNumParam c
    [("name", MStr n); ("type", t); ("userInterface", ui); ("description", d);
     ("minValue", mn); ("maxValue", mx); ("allowedValues", av); ("default", df)]
  = do t' <- inst_val resolve sigma rec jcm_JobNumParam "type" t;
    do d' <- inst_val resolve sigma rec jcm_JobNumParam "description" d;
    with_value sigma n [("type", t'); ("description", d')].
Proof. exact gen_JobNumParam. Qed.
Print Assumptions C05_gen_JobNumParam.

Theorem C05_gen_IntTaskParam : forall resolve sigma rec nm t r,
  inst_model resolve sigma rec jcm_IntTaskParam "IntTaskParameterDefinition" [("name", nm); ("type", t); ("range", r)]
  = do t' <- inst_val resolve sigma rec jcm_IntTaskParam "type" t;
    do r' <- inst_val resolve sigma rec jcm_IntTaskParam "range" r;
    Ok (MModel (match r with
                | MFmt _ => "RangeExpressionTaskParameterDefinition"
                | _ => "IntRangeListTaskParameterDefinition"
                end) [("type", t'); ("range", r')]).
Proof. exact gen_IntTaskParam. Qed.
Print Assumptions C05_gen_IntTaskParam.

Theorem C05_gen_TaskParam : forall resolve sigma rec target c nm t r,
  inst_model resolve sigma rec (jcm_TaskParam target) c [("name", nm); ("type", t); ("range", r)]
  = do t' <- inst_val resolve sigma rec (jcm_TaskParam target) "type" t;
    do r' <- inst_val resolve sigma rec (jcm_TaskParam target) "range" r;
    Ok (MModel target [("type", t'); ("range", r')]).
Proof. exact gen_TaskParam. Qed.
Print Assumptions C05_gen_TaskParam.

Theorem C05_gen_ParamSpace : forall resolve sigma rec tpd cb,
  inst_model resolve sigma rec jcm_ParamSpace "StepParameterSpaceDefinition"
    [("taskParameterDefinitions", tpd); ("combination", cb)]
  = do t <- inst_val resolve sigma rec jcm_ParamSpace "taskParameterDefinitions" tpd;
    do c <- inst_val resolve sigma rec jcm_ParamSpace "combination" cb;
    Ok (MModel "StepParameterSpace" [("taskParameterDefinitions", t); ("combination", c)]).
Proof. exact gen_ParamSpace. Qed.
Print Assumptions C05_gen_ParamSpace.

Theorem C05_gen_Amount : forall resolve sigma rec nm a b,
  inst_model resolve sigma rec jcm_Amount "AmountRequirementTemplate" [("name", nm); ("min", a); ("max", b)]
  = do n <- inst_val resolve sigma rec jcm_Amount "name" nm;
    do a' <- inst_val resolve sigma rec jcm_Amount "min" a;
    do b' <- inst_val resolve sigma rec jcm_Amount "max" b;
    Ok (MModel "AmountRequirement" [("name", n); ("min", a'); ("max", b')]).
Proof. exact gen_Amount. Qed.
Print Assumptions C05_gen_Amount.

Theorem C05_gen_Attribute : forall resolve sigma rec nm any all,
  inst_model resolve sigma rec jcm_Attribute "AttributeRequirementTemplate" [("name", nm); ("anyOf", any); ("allOf", all)]
  = do n <- inst_val resolve sigma rec jcm_Attribute "name" nm;
    do a' <- inst_val resolve sigma rec jcm_Attribute "anyOf" any;
    do b' <- inst_val resolve sigma rec jcm_Attribute "allOf" all;
    Ok (MModel "AttributeRequirement" [("name", n); ("anyOf", a'); ("allOf", b')]).
Proof. exact gen_Attribute. Qed.
Print Assumptions C05_gen_Attribute.

Theorem C05_gen_HostReq : forall resolve sigma rec am at_,
  inst_model resolve sigma rec jcm_HostReq "HostRequirementsTemplate" [("amounts", am); ("attributes", at_)]
  = do a <- inst_val resolve sigma rec jcm_HostReq "amounts" am;
    do b <- inst_val resolve sigma rec jcm_HostReq "attributes" at_;
    Ok (MModel "HostRequirements" [("amounts", a); ("attributes", b)]).
Proof. exact gen_HostReq. Qed.
Print Assumptions C05_gen_HostReq.

(* an absent (None) field stays None whatever the metadata *)
Theorem C05_absent_stays_absent : forall resolve sigma rec j fn,
  inst_val resolve sigma rec j fn MNone = Ok MNone.
Proof. exact inst_val_none. Qed.
Print Assumptions C05_absent_stays_absent.

(* ------------------------------------------------------------------ shapes, well-shaped values.
   leaf = not a list / dict / model; single = not a list / dict; opt_list = None or a list.
   elems = instantiate elementwise; res_elem = resolve a format string, instantiate a model;
   keyed = list -> dictionary keyed by the named attribute. *)

Theorem C05_shape_JobTemplate : forall resolve sigma f sv s st d pd je ss,
  opt_list st = true -> leaf d = true -> opt_list pd = true -> opt_list je = true ->
  inst Generated.schema resolve sigma (S f)
       (MModel "JobTemplate"
          [("specificationVersion", sv); ("name", MFmt s); ("steps", st); ("description", d);
           ("parameterDefinitions", pd); ("jobEnvironments", je); ("schemaStr", ss)])
  = do n <- resolve sigma s;
    do st' <- elems (inst Generated.schema resolve sigma f) st;
    do p <- keyed (inst Generated.schema resolve sigma f) "name" pd;
    do e <- elems (inst Generated.schema resolve sigma f) je;
    Ok (MModel "Job" [("name", MStr n); ("steps", st'); ("description", d); ("parameters", p);
                      ("jobEnvironments", e)]).
Proof. exact shape_JobTemplate. Qed.
Print Assumptions C05_shape_JobTemplate.

(* job environments (lists of carried classes) are unchanged *)
Theorem C05_elems_unchanged : forall resolve sigma f x,
  incl (classes_in x) (trivial_classes Generated.schema) -> mval_depth x <= f ->
  elems (inst Generated.schema resolve sigma f) x = Ok x.
Proof. exact elems_unchanged. Qed.
Print Assumptions C05_elems_unchanged.

Theorem C05_shape_StepTemplate : forall resolve sigma f n d sc se ps hr dp,
  leaf n = true -> leaf d = true -> single sc = true -> opt_list se = true ->
  single ps = true -> single hr = true -> opt_list dp = true ->
  inst Generated.schema resolve sigma (S f)
       (MModel "StepTemplate"
          [("name", n); ("description", d); ("script", sc); ("stepEnvironments", se);
           ("parameterSpace", ps); ("hostRequirements", hr); ("dependencies", dp)])
  = do sc' <- inst_elem (inst Generated.schema resolve sigma f) sc;
    do se' <- elems (inst Generated.schema resolve sigma f) se;
    do ps' <- inst_elem (inst Generated.schema resolve sigma f) ps;
    do hr' <- inst_elem (inst Generated.schema resolve sigma f) hr;
    do dp' <- elems (inst Generated.schema resolve sigma f) dp;
    Ok (MModel "Step" [("name", n); ("description", d); ("script", sc'); ("stepEnvironments", se');
                       ("parameterSpace", ps'); ("hostRequirements", hr'); ("dependencies", dp')]).
Proof. exact shape_StepTemplate. Qed.
Print Assumptions C05_shape_StepTemplate.

Theorem C05_shape_StepTemplate_carried : forall resolve sigma f n d sc se ps hr dp,
  leaf n = true -> leaf d = true -> single sc = true -> opt_list se = true ->
  single ps = true -> single hr = true -> opt_list dp = true ->
  incl (classes_in sc) carried_classes -> mval_depth sc < f ->
  incl (classes_in se) carried_classes -> mval_depth se <= f ->
  incl (classes_in dp) carried_classes -> mval_depth dp <= f ->
  inst Generated.schema resolve sigma (S f)
       (MModel "StepTemplate"
          [("name", n); ("description", d); ("script", sc); ("stepEnvironments", se);
           ("parameterSpace", ps); ("hostRequirements", hr); ("dependencies", dp)])
  = do ps' <- inst_elem (inst Generated.schema resolve sigma f) ps;
    do hr' <- inst_elem (inst Generated.schema resolve sigma f) hr;
    Ok (MModel "Step" [("name", n); ("description", d); ("script", sc); ("stepEnvironments", se);
                       ("parameterSpace", ps'); ("hostRequirements", hr'); ("dependencies", dp)]).
Proof. exact shape_StepTemplate_carried. Qed.
Print Assumptions C05_shape_StepTemplate_carried.

(* job parameters: {type, description, value = RawParam.<name>} and nothing else; KeyError when the
   symbol is unbound ([job_parameter]) *)
Theorem C05_job_parameter_def : forall sigma n t d,
  job_parameter sigma n t d =
  match st_lookup sigma ($"RawParam." ++ n) with
  | Some v => Ok (MModel "JobParameter" [("type", t); ("description", d); ("value", MStr v)])
  | None => Raise KeyError
  end.
Proof. reflexivity. Qed.
Print Assumptions C05_job_parameter_def.

Theorem C05_shape_JobStringParam : forall resolve sigma f n t ui d mn mx av df,
  leaf t = true -> leaf d = true ->
  inst Generated.schema resolve sigma (S f)
       (MModel "JobStringParameterDefinition"
          [("name", MStr n); ("type", t); ("userInterface", ui); ("description", d);
           ("minLength", mn); ("maxLength", mx); ("allowedValues", av); ("default", df)])
  = job_parameter sigma n t d.
Proof. exact shape_JobStringParam. Qed.
Print Assumptions C05_shape_JobStringParam.

Theorem C05_shape_JobPathParam : forall resolve sigma f n t ot dfl ui d mn mx av df,
  leaf t = true -> leaf d = true ->
  inst Generated.schema resolve sigma (S f)
       (MModel "JobPathParameterDefinition"
          [("name", MStr n); ("type", t); ("objectType", ot); ("dataFlow", dfl); ("userInterface", ui);
           ("description", d); ("minLength", mn); ("maxLength", mx); ("allowedValues", av); ("default", df)])
  = job_parameter sigma n t d.
Proof. exact shape_JobPathParam. Qed.
Print Assumptions C05_shape_JobPathParam.

Theorem C05_shape_JobIntParam : forall resolve sigma f n t ui d mn mx av df,
  leaf t = true -> leaf d = true ->
  inst Generated.schema resolve sigma (S f)
       (MModel "JobIntParameterDefinition"
          [("name", MStr n); ("type", t); ("userInterface", ui); ("description", d);
           ("minValue", mn); ("maxValue", mx); ("allowedValues", av); ("default", df)])
  = job_parameter sigma n t d.
Proof. exact shape_JobIntParam. Qed.
Print Assumptions C05_shape_JobIntParam.

Theorem C05_shape_JobFloatParam : forall resolve sigma f n t ui d mn mx av df,
  leaf t = true -> leaf d = true ->
  inst Generated.schema resolve sigma (S f)
       (MModel "JobFloatParameterDefinition"
          [("name", MStr n); ("type", t); ("userInterface", ui); ("description", d);
           ("minValue", mn); ("maxValue", mx); ("allowedValues", av); ("default", df)])
  = job_parameter sigma n t d.
Proof. exact shape_JobFloatParam. Qed.
Print Assumptions C05_shape_JobFloatParam.

(* task parameters: name dropped; range resolved (itemwise for a list); target class *)
Theorem C05_shape_IntTaskParam_expr : forall resolve sigma f nm t s,
  leaf t = true ->
  inst Generated.schema resolve sigma (S f)
       (MModel "IntTaskParameterDefinition" [("name", nm); ("type", t); ("range", MFmt s)])
  = do r <- resolve sigma s;
    Ok (MModel "RangeExpressionTaskParameterDefinition" [("type", t); ("range", MStr r)]).
Proof. exact shape_IntTaskParam_expr. Qed.
Print Assumptions C05_shape_IntTaskParam_expr.

Theorem C05_shape_IntTaskParam_list : forall resolve sigma f nm t items,
  leaf t = true ->
  inst Generated.schema resolve sigma (S f)
       (MModel "IntTaskParameterDefinition" [("name", nm); ("type", t); ("range", MList items)])
  = do l <- mapM (res_elem resolve sigma (inst Generated.schema resolve sigma f)) items;
    Ok (MModel "IntRangeListTaskParameterDefinition" [("type", t); ("range", MList l)]).
Proof. exact shape_IntTaskParam_list. Qed.
Print Assumptions C05_shape_IntTaskParam_list.

Theorem C05_shape_TaskParam : forall resolve sigma f c nm t items,
  In c ["FloatTaskParameterDefinition"; "StringTaskParameterDefinition"; "PathTaskParameterDefinition"] ->
  leaf t = true ->
  inst Generated.schema resolve sigma (S f)
       (MModel c [("name", nm); ("type", t); ("range", MList items)])
  = do l <- mapM (res_elem resolve sigma (inst Generated.schema resolve sigma f)) items;
    Ok (MModel (if String.eqb c "FloatTaskParameterDefinition"
                then "FloatRangeListTaskParameterDefinition"
                else "RangeListTaskParameterDefinition") [("type", t); ("range", MList l)]).
Proof. exact shape_TaskParam. Qed.
Print Assumptions C05_shape_TaskParam.

Theorem C05_shape_ParamSpace : forall resolve sigma f tpd cb,
  opt_list tpd = true -> leaf cb = true ->
  inst Generated.schema resolve sigma (S f)
       (MModel "StepParameterSpaceDefinition" [("taskParameterDefinitions", tpd); ("combination", cb)])
  = do t <- keyed (inst Generated.schema resolve sigma f) "name" tpd;
    Ok (MModel "StepParameterSpace" [("taskParameterDefinitions", t); ("combination", cb)]).
Proof. exact shape_ParamSpace. Qed.
Print Assumptions C05_shape_ParamSpace.

Theorem C05_shape_Amount : forall resolve sigma f s a b,
  leaf a = true -> leaf b = true ->
  inst Generated.schema resolve sigma (S f)
       (MModel "AmountRequirementTemplate" [("name", MFmt s); ("min", a); ("max", b)])
  = do r <- resolve sigma s;
    Ok (MModel "AmountRequirement" [("name", MStr r); ("min", a); ("max", b)]).
Proof. exact shape_Amount. Qed.
Print Assumptions C05_shape_Amount.

Theorem C05_shape_Attribute : forall resolve sigma f s any all,
  opt_list any = true -> opt_list all = true ->
  inst Generated.schema resolve sigma (S f)
       (MModel "AttributeRequirementTemplate" [("name", MFmt s); ("anyOf", any); ("allOf", all)])
  = do r <- resolve sigma s;
    do a <- res_elems resolve sigma (inst Generated.schema resolve sigma f) any;
    do b <- res_elems resolve sigma (inst Generated.schema resolve sigma f) all;
    Ok (MModel "AttributeRequirement" [("name", MStr r); ("anyOf", a); ("allOf", b)]).
Proof. exact shape_Attribute. Qed.
Print Assumptions C05_shape_Attribute.

Theorem C05_shape_HostReq : forall resolve sigma f am at_,
  opt_list am = true -> opt_list at_ = true ->
  inst Generated.schema resolve sigma (S f)
       (MModel "HostRequirementsTemplate" [("amounts", am); ("attributes", at_)])
  = do a <- elems (inst Generated.schema resolve sigma f) am;
    do b <- elems (inst Generated.schema resolve sigma f) at_;
    Ok (MModel "HostRequirements" [("amounts", a); ("attributes", b)]).
Proof. exact shape_HostReq. Qed.
Print Assumptions C05_shape_HostReq.

(* list -> dictionary: with distinct keys the dictionary lists (key, instantiated item) in list order *)
Theorem C05_keyed_distinct : forall rec kf items kys,
  Forall2 (fun item ky => key_of item kf = Ok (fst ky) /\ inst_elem rec item = Ok (snd ky)) items kys ->
  NoDup (map fst kys) ->
  keyed rec kf (MList items) = Ok (MDict kys).
Proof. exact keyed_distinct. Qed.
Print Assumptions C05_keyed_distinct.

(* ------------------------------------------------------------------ the symbol table *)

(* [vals] = (name, type, final value) of the job parameters, in order.
   RawParam.<n> is bound for every parameter; Param.<n> iff the parameter is not a PATH; both to the
   final value; no other name is bound. *)
Theorem C05_symtab : forall vals,
  (forall n, st_lookup (symtab_of vals) ($"RawParam." ++ n) = option_map v_value (first_named n vals))
  /\ (forall n, st_lookup (symtab_of vals) ($"Param." ++ n)
               = option_map v_value (first_named n (filter (fun e => negb (is_path e)) vals)))
  /\ (NoDup (map v_name vals) ->
      forall n, st_lookup (symtab_of vals) ($"Param." ++ n)
                = match first_named n vals with
                  | Some e => if is_path e then None else Some (v_value e)
                  | None => None
                  end)
  /\ (forall k v, st_lookup (symtab_of vals) k = Some v ->
        exists e, In e vals /\
                  (k = $"RawParam." ++ v_name e \/ (k = $"Param." ++ v_name e /\ is_path e = false))).
Proof. exact symtab_facts. Qed.
Print Assumptions C05_symtab.

(* ------------------------------------------------------------------ no re-expansion *)

(* the resolver create_job uses, in terms of the format-string model of C16 *)
Theorem C05_fs_resolve_def : forall classify sigma s,
  fs_resolve classify sigma s = match mk classify s with
                                | Ok f => FormatStr.resolve sigma f
                                | Raise e => Raise e
                                end.
Proof. reflexivity. Qed.
Print Assumptions C05_fs_resolve_def.

(* the resolved text is the one-pass substitution computed from the decomposition
   s = L0 {{E1}} L1 ... {{En}} Ln of the ORIGINAL string: L0 sigma(E1) L1 ... sigma(En) Ln.
   [spec_resolve] never looks at a substituted value, so a value containing "{{...}}" is not expanded *)
Theorem C05_no_reexpand : forall classify, ascii_ok classify = true ->
  forall s segs last sigma, Decomp classify s segs last ->
  fs_resolve classify sigma s = match spec_resolve classify sigma segs last with
                                | Some r => Ok r
                                | None => Raise FormatStringError
                                end.
Proof. exact fs_resolve_single_pass. Qed.
Print Assumptions C05_no_reexpand.

Theorem C05_no_reexpand_bound : forall classify, ascii_ok classify = true ->
  forall s segs last sigma, Decomp classify s segs last ->
  (forall n, In n (refs classify segs) -> st_lookup sigma n <> None) ->
  exists r, spec_resolve classify sigma segs last = Some r /\ fs_resolve classify sigma s = Ok r.
Proof. exact fs_resolve_bound. Qed.
Print Assumptions C05_no_reexpand_bound.

Theorem C05_resolve_errors : forall classify, ascii_ok classify = true ->
  forall s sigma e, fs_resolve classify sigma s = Raise e -> e = FormatStringError.
Proof. exact fs_resolve_errors. Qed.
Print Assumptions C05_resolve_errors.

(* the value [inst] stores in a resolved field: plain text, the one-pass substitution *)
Theorem C05_resolved_value : forall classify, ascii_ok classify = true ->
  forall s segs last sigma rec, Decomp classify s segs last ->
  res_elem (fs_resolve classify) sigma rec (MFmt s)
  = match spec_resolve classify sigma segs last with
    | Some r => Ok (MStr r)
    | None => Raise FormatStringError
    end.
Proof. exact res_elem_single_pass. Qed.
Print Assumptions C05_resolved_value.

(* ================================================================== non-vacuity *)

Definition R := fs_resolve ascii_class.

Example ascii_class_ok : ascii_ok ascii_class = true.
Proof. vm_compute. reflexivity. Qed.

Definition ex_action (cmd : string) : mval :=
  MModel "Action" [("command", MFmt $cmd); ("args", MList [MFmt $"{{Task.Param.i}}"; MFmt $"{{Param.S}}"]);
                   ("timeout", MInt 5); ("cancelation", MModel "CancelationMethodTerminate" [("mode", MStr $"TERMINATE")])].
Definition ex_script : mval :=
  MModel "StepScript"
    [("actions", MModel "StepActions" [("onRun", ex_action "echo {{Param.S}} {{Task.File.f}}")]);
     ("embeddedFiles", MList [MModel "EmbeddedFileText"
                                [("name", MStr $"f"); ("type", MStr $"TEXT"); ("data", MFmt $"{{RawParam.P}}");
                                 ("filename", MNone); ("runnable", MNone)]])].
Definition ex_env : mval :=
  MModel "Environment"
    [("name", MStr $"e"); ("script", MNone);
     ("variables", MDict [($"V", MFmt $"{{Param.S}}"); ($"name", MFmt $"{{Param.I}}")]);
     ("description", MNone)].

(* hypotheses of C05_trivial_identity / C05_script_unchanged *)
Example C05_script_unchanged_nonvacuous :
  incl (classes_in ex_script) carried_classes /\ mval_depth ex_script < 10
  /\ incl (classes_in ex_env) carried_classes /\ mval_depth ex_env < 10
  /\ inst Generated.schema R [] 10 ex_script = Ok ex_script
  /\ inst Generated.schema R [] 10 ex_env = Ok ex_env.
Proof.
  assert (H1 : incl (classes_in ex_script) carried_classes).
  { intros c Hc. vm_compute in Hc. vm_compute. intuition. }
  assert (H2 : incl (classes_in ex_env) carried_classes).
  { intros c Hc. vm_compute in Hc. vm_compute. intuition. }
  assert (D1 : mval_depth ex_script < 10) by (vm_compute; repeat constructor).
  assert (D2 : mval_depth ex_env < 10) by (vm_compute; repeat constructor).
  split; [exact H1|]. split; [exact D1|]. split; [exact H2|]. split; [exact D2|]. split.
  - apply C05_script_unchanged; assumption.
  - apply C05_script_unchanged; assumption.
Qed.

Example C05_trivial_identity_nonvacuous :
  (forall c, In c (classes_in ex_script) -> jcm_is_trivial (jcm_of Generated.schema c) = true).
Proof. intros c Hc. vm_compute in Hc. intuition; subst c; vm_compute; reflexivity. Qed.

(* a two-step job template instance with one parameter of each type *)
Definition ex_params : mval :=
  MList [
    MModel "JobStringParameterDefinition"
      [("name", MStr $"S"); ("type", MStr $"STRING"); ("userInterface", MNone); ("description", MStr $"a string");
       ("minLength", MInt 1); ("maxLength", MNone); ("allowedValues", MNone); ("default", MStr $"d")];
    MModel "JobPathParameterDefinition"
      [("name", MStr $"P"); ("type", MStr $"PATH"); ("objectType", MStr $"FILE"); ("dataFlow", MStr $"IN");
       ("userInterface", MNone); ("description", MNone); ("minLength", MNone); ("maxLength", MNone);
       ("allowedValues", MNone); ("default", MNone)];
    MModel "JobIntParameterDefinition"
      [("name", MStr $"I"); ("type", MStr $"INT"); ("userInterface", MNone); ("description", MNone);
       ("minValue", MInt 0); ("maxValue", MInt 9); ("allowedValues", MNone); ("default", MInt 2)];
    MModel "JobFloatParameterDefinition"
      [("name", MStr $"F"); ("type", MStr $"FLOAT"); ("userInterface", MNone); ("description", MNone);
       ("minValue", MNone); ("maxValue", MNone); ("allowedValues", MList [MDec 15 (-1)]); ("default", MNone)] ].

Definition ex_space : mval :=
  MModel "StepParameterSpaceDefinition"
    [("taskParameterDefinitions",
      MList [MModel "IntTaskParameterDefinition" [("name", MStr $"i"); ("type", MStr $"INT"); ("range", MFmt $"1-{{Param.I}}")];
             MModel "IntTaskParameterDefinition" [("name", MStr $"k"); ("type", MStr $"INT"); ("range", MList [MInt 7; MFmt $"{{Param.I}}"])];
             MModel "FloatTaskParameterDefinition" [("name", MStr $"x"); ("type", MStr $"FLOAT"); ("range", MList [MDec 25 (-1); MFmt $"{{Param.F}}"])];
             MModel "StringTaskParameterDefinition" [("name", MStr $"s"); ("type", MStr $"STRING"); ("range", MList [MFmt $"a{{Param.S}}"])];
             MModel "PathTaskParameterDefinition" [("name", MStr $"p"); ("type", MStr $"PATH"); ("range", MList [MFmt $"{{RawParam.P}}/x"])]]);
     ("combination", MStr $"(i,k) * x * s * p")].

Definition ex_hostreq : mval :=
  MModel "HostRequirementsTemplate"
    [("amounts", MList [MModel "AmountRequirementTemplate" [("name", MFmt $"amount.{{Param.S}}"); ("min", MDec 1 0); ("max", MNone)]]);
     ("attributes", MList [MModel "AttributeRequirementTemplate"
                             [("name", MFmt $"attr.worker.os.family"); ("anyOf", MList [MFmt $"{{Param.S}}"; MFmt $"linux"]); ("allOf", MNone)]])].

Definition ex_template : mval :=
  MModel "JobTemplate"
    [("specificationVersion", MStr $"jobtemplate-2023-09");
     ("name", MFmt $"job {{Param.S}} {{RawParam.P}}");
     ("steps", MList [
        MModel "StepTemplate"
          [("name", MStr $"a"); ("description", MStr $"first {{Param.S}}"); ("script", ex_script);
           ("stepEnvironments", MList [ex_env]); ("parameterSpace", ex_space); ("hostRequirements", ex_hostreq);
           ("dependencies", MNone)];
        MModel "StepTemplate"
          [("name", MStr $"b"); ("description", MNone); ("script", ex_script);
           ("stepEnvironments", MNone); ("parameterSpace", MNone); ("hostRequirements", MNone);
           ("dependencies", MList [MModel "StepDependency" [("dependsOn", MStr $"a")]])]]);
     ("description", MStr $"d {{Param.S}}");
     ("parameterDefinitions", ex_params);
     ("jobEnvironments", MList [ex_env]);
     ("schemaStr", MStr $"http://x")].

(* the value of S looks like a reference: it must not be expanded again *)
Definition ex_vals : list (str * str * str) :=
  [($"S", $"STRING", $"{{Param.I}}"); ($"P", $"PATH", $"/tmp"); ($"I", $"INT", $"3"); ($"F", $"FLOAT", $"1.5")].

Definition ex_job : mval :=
  MModel "Job"
    [("name", MStr $"job {{Param.I}} /tmp");
     ("steps", MList [
        MModel "Step"
          [("name", MStr $"a"); ("description", MStr $"first {{Param.S}}"); ("script", ex_script);
           ("stepEnvironments", MList [ex_env]);
           ("parameterSpace",
            MModel "StepParameterSpace"
              [("taskParameterDefinitions",
                MDict [($"i", MModel "RangeExpressionTaskParameterDefinition" [("type", MStr $"INT"); ("range", MStr $"1-3")]);
                       ($"k", MModel "IntRangeListTaskParameterDefinition" [("type", MStr $"INT"); ("range", MList [MInt 7; MStr $"3"])]);
                       ($"x", MModel "FloatRangeListTaskParameterDefinition" [("type", MStr $"FLOAT"); ("range", MList [MDec 25 (-1); MStr $"1.5"])]);
                       ($"s", MModel "RangeListTaskParameterDefinition" [("type", MStr $"STRING"); ("range", MList [MStr $"a{{Param.I}}"])]);
                       ($"p", MModel "RangeListTaskParameterDefinition" [("type", MStr $"PATH"); ("range", MList [MStr $"/tmp/x"])])]);
               ("combination", MStr $"(i,k) * x * s * p")]);
           ("hostRequirements",
            MModel "HostRequirements"
              [("amounts", MList [MModel "AmountRequirement" [("name", MStr $"amount.{{Param.I}}"); ("min", MDec 1 0); ("max", MNone)]]);
               ("attributes", MList [MModel "AttributeRequirement"
                                       [("name", MStr $"attr.worker.os.family"); ("anyOf", MList [MStr $"{{Param.I}}"; MStr $"linux"]); ("allOf", MNone)]])]);
           ("dependencies", MNone)];
        MModel "Step"
          [("name", MStr $"b"); ("description", MNone); ("script", ex_script);
           ("stepEnvironments", MNone); ("parameterSpace", MNone); ("hostRequirements", MNone);
           ("dependencies", MList [MModel "StepDependency" [("dependsOn", MStr $"a")]])]]);
     ("description", MStr $"d {{Param.S}}");
     ("parameters",
      MDict [($"S", MModel "JobParameter" [("type", MStr $"STRING"); ("description", MStr $"a string"); ("value", MStr $"{{Param.I}}")]);
             ($"P", MModel "JobParameter" [("type", MStr $"PATH"); ("description", MNone); ("value", MStr $"/tmp")]);
             ($"I", MModel "JobParameter" [("type", MStr $"INT"); ("description", MNone); ("value", MStr $"3")]);
             ($"F", MModel "JobParameter" [("type", MStr $"FLOAT"); ("description", MNone); ("value", MStr $"1.5")])]);
     ("jobEnvironments", MList [ex_env])].

Example C05_example_job :
  inst Generated.schema R (symtab_of ex_vals) (S (mval_depth ex_template)) ex_template = Ok ex_job.
Proof. vm_compute. reflexivity. Qed.

(* the hypotheses of the shape theorems hold of its parts *)
Example C05_shape_JobTemplate_nonvacuous :
  exists sv s st d pd je ss,
    ex_template = MModel "JobTemplate"
                    [("specificationVersion", sv); ("name", MFmt s); ("steps", st); ("description", d);
                     ("parameterDefinitions", pd); ("jobEnvironments", je); ("schemaStr", ss)]
    /\ opt_list st = true /\ leaf d = true /\ opt_list pd = true /\ opt_list je = true
    /\ incl (classes_in je) (trivial_classes Generated.schema).
Proof.
  do 7 eexists. split; [reflexivity|]. repeat split.
  intros c Hc. vm_compute in Hc. vm_compute. intuition.
Qed.

Example C05_shape_StepTemplate_carried_nonvacuous :
  leaf (MStr $"a") = true /\ leaf (MStr $"first {{Param.S}}") = true /\ single ex_script = true
  /\ opt_list (MList [ex_env]) = true /\ single ex_space = true /\ single ex_hostreq = true
  /\ opt_list MNone = true
  /\ incl (classes_in ex_script) carried_classes /\ mval_depth ex_script < 8
  /\ incl (classes_in (MList [ex_env])) carried_classes /\ mval_depth (MList [ex_env]) <= 8
  /\ incl (classes_in MNone) carried_classes /\ mval_depth MNone <= 8.
Proof.
  repeat split; try (vm_compute; repeat constructor; fail);
    intros c Hc; vm_compute in Hc; vm_compute; intuition.
Qed.

Example C05_shape_params_nonvacuous :
  leaf (MStr $"STRING") = true /\ leaf MNone = true /\ opt_list ex_params = true
  /\ In "PathTaskParameterDefinition"
        ["FloatTaskParameterDefinition"; "StringTaskParameterDefinition"; "PathTaskParameterDefinition"].
Proof. repeat split. simpl. auto. Qed.

(* unbound symbol: KeyError *)
Example C05_job_param_unbound :
  inst Generated.schema R [] 3
       (MModel "JobIntParameterDefinition"
          [("name", MStr $"I"); ("type", MStr $"INT"); ("userInterface", MNone); ("description", MNone);
           ("minValue", MInt 0); ("maxValue", MInt 9); ("allowedValues", MNone); ("default", MInt 2)])
  = Raise KeyError.
Proof. vm_compute. reflexivity. Qed.

Definition ex_param_dict : list (str * mval) :=
  [($"S", MModel "JobParameter" [("type", MStr $"STRING"); ("description", MStr $"a string"); ("value", MStr $"{{Param.I}}")]);
   ($"P", MModel "JobParameter" [("type", MStr $"PATH"); ("description", MNone); ("value", MStr $"/tmp")]);
   ($"I", MModel "JobParameter" [("type", MStr $"INT"); ("description", MNone); ("value", MStr $"3")]);
   ($"F", MModel "JobParameter" [("type", MStr $"FLOAT"); ("description", MNone); ("value", MStr $"1.5")])].

Example C05_keyed_distinct_nonvacuous :
  Forall2 (fun item ky => key_of item "name" = Ok (fst ky)
                          /\ inst_elem (inst Generated.schema R (symtab_of ex_vals) 5) item = Ok (snd ky))
          (match ex_params with MList l => l | _ => [] end) ex_param_dict
  /\ NoDup (map fst ex_param_dict)
  /\ keyed (inst Generated.schema R (symtab_of ex_vals) 5) "name" ex_params = Ok (MDict ex_param_dict).
Proof.
  assert (H1 : Forall2 (fun item ky => key_of item "name" = Ok (fst ky)
                          /\ inst_elem (inst Generated.schema R (symtab_of ex_vals) 5) item = Ok (snd ky))
          (match ex_params with MList l => l | _ => [] end) ex_param_dict).
  { cbv [ex_params ex_param_dict].
    repeat (apply Forall2_cons; [split; vm_compute; reflexivity|]). apply Forall2_nil. }
  assert (H2 : NoDup (map fst ex_param_dict)).
  { cbv [ex_param_dict map fst].
    repeat (apply NoDup_cons; [vm_compute; intuition discriminate|]). apply NoDup_nil. }
  split; [exact H1|]. split; [exact H2|].
  apply (C05_keyed_distinct _ "name" _ ex_param_dict H1 H2).
Qed.

Example C05_symtab_nonvacuous :
  NoDup (map v_name ex_vals)
  /\ st_lookup (symtab_of ex_vals) ($"RawParam." ++ $"P") = Some $"/tmp"
  /\ st_lookup (symtab_of ex_vals) ($"Param." ++ $"P") = None
  /\ st_lookup (symtab_of ex_vals) ($"Param." ++ $"S") = Some $"{{Param.I}}"
  /\ map fst (symtab_of ex_vals)
     = [$"Param.S"; $"RawParam.S"; $"RawParam.P"; $"Param.I"; $"RawParam.I"; $"Param.F"; $"RawParam.F"].
Proof.
  split; [|vm_compute; repeat split].
  repeat (constructor; [vm_compute; intuition discriminate|]). constructor.
Qed.

(* "{{Param.A}}-{{Param.B}}" with A = "{{Param.B}}", B = "x": the substituted text is not rescanned *)
Example C05_no_reexpand_nonvacuous :
  (exists segs last, Decomp ascii_class $"{{Param.A}}-{{Param.B}}" segs last)
  /\ R [($"Param.A", $"{{Param.B}}"); ($"Param.B", $"x")] $"{{Param.A}}-{{Param.B}}" = Ok $"{{Param.B}}-x"
  /\ R [($"Param.B", $"x")] $"{{Param.A}}-{{Param.B}}" = Raise FormatStringError.
Proof.
  split; [|split; vm_compute; reflexivity].
  apply (FormatStrProofs.mk_accept_iff ascii_class ascii_class_ok). vm_compute. eauto.
Qed.
