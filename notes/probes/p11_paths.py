# C11 probe: path spellings x directories x walk-up flag; containment oracle written independently.
import itertools, sys
from pathlib import Path, PurePosixPath
from openjd.model import decode_job_template, preprocess_job_parameters
COMPS = ["..", ".", "", " ", "a", "é", "..a", "b"]
def spellings(maxc):
    out = set()
    for k in range(0, maxc+1):
        for cs in itertools.product(COMPS, repeat=k):
            body = "/".join(cs)
            for pre in ("", "/", "//"):
                for suf in ("", "/"):
                    out.add(pre + body + suf)
    return sorted(out)
def tmpl(default):
    return decode_job_template(template={"specificationVersion": "jobtemplate-2023-09", "name": "J",
        "parameterDefinitions": [{"name": "P", "type": "PATH", "default": default}],
        "steps": [{"name": "S", "script": {"actions": {"onRun": {"command": "e"}}}}]})
def lexical_parts(p):   # independent: split, drop '' and '.', resolve '..' lexically
    absolute = p.startswith("/")
    st = []
    for c in p.split("/"):
        if c in ("", "."): continue
        if c == "..":
            if st and st[-1] != "..": st.pop()
            elif not absolute: st.append("..")
        else: st.append(c)
    return absolute, st
DIRS = ["/t/dir", "/", "/t/dir/../x", "t/dir", "", "//t/u"]
M = int(sys.argv[1]) if len(sys.argv) > 1 else 3
sp = spellings(M); print("spellings", len(sp))
bad = n = 0; stats = {}
for default in sp:
    if len(default) > 1024: continue
    jt = tmpl(default)
    for d in DIRS:
        for walk in (False, True):
            n += 1
            try: v = preprocess_job_parameters(job_template=jt, job_parameter_values={}, job_template_dir=Path(d), current_working_dir=Path("/cwd"), allow_job_template_dir_walk_up=walk)["P"].value; res = "ok"
            except ValueError: v = None; res = "VE"
            except Exception as e: v = None; res = "EXC:" + type(e).__name__
            stats[res] = stats.get(res, 0) + 1
            if res.startswith("EXC"): bad += 1; print(res, repr(default), d, walk); continue
            dabs = d.startswith("/")
            if not walk:
                if not dabs:
                    if res != "VE": bad += 1; print("RELDIR", repr(default), d)
                    continue
                if default == "":
                    if v != "": bad += 1; print("EMPTY", d)
                    continue
                if res == "ok":
                    # containment: absolute, lexically under d, no '..'
                    _, dparts = True, [c for c in d.split("/") if c not in ("", ".")]
                    a, vparts = lexical_parts(v)
                    if not v.startswith("/") or ".." in v.split("/") or vparts[:len(dparts)] != dparts or ".." in dparts:
                        bad += 1; print("ESCAPE", repr(default), d, v)
                else:
                    # rejection must be justified: absolute default, or join climbs out of d (or d has '..')
                    a, jparts = lexical_parts(d.rstrip("/") + "/" + default)
                    _, dparts = lexical_parts(d)
                    raw_d = [c for c in d.split("/") if c not in ("", ".")]
                    justified = default.startswith("/") or jparts[:len(dparts)] != dparts or ".." in raw_d
                    if not justified: bad += 1; print("FALSE-REJECT", repr(default), d)
            else:
                if res != "ok": bad += 1; print("WALK-REJECT", repr(default), d); continue
                if default == "" or default.startswith("/") or not dabs:
                    if v != default: bad += 1; print("WALK-CHANGED", repr(default), d, repr(v))
print("cases", n, stats, "bad", bad)
# supplied values + server mode idempotence
jt = tmpl("d"); bad = 0
for val in sp:
    for cwd in ("/cwd", ""):
        v1 = preprocess_job_parameters(job_template=jt, job_parameter_values={"P": val}, job_template_dir=Path("/t"), current_working_dir=Path(cwd))["P"].value if cwd else None
        vs = preprocess_job_parameters(job_template=jt, job_parameter_values={"P": val}, job_template_dir=Path(), current_working_dir=Path(), allow_job_template_dir_walk_up=True)["P"].value
        if val == "" or val.startswith("/"):
            if vs != val or (v1 is not None and v1 != val): bad += 1; print("SUPPLIED-CHANGED", repr(val), repr(vs), repr(v1))
        else:
            if vs != str(PurePosixPath(val)): bad += 1; print("SERVER-TIDY", repr(val), repr(vs))
            if v1 is not None and v1 != str(PurePosixPath("/cwd") / val): bad += 1; print("JOIN", repr(val), repr(v1))
        if v1 is not None:
            v2 = preprocess_job_parameters(job_template=jt, job_parameter_values={"P": v1}, job_template_dir=Path(), current_working_dir=Path(), allow_job_template_dir_walk_up=True)["P"].value
            if v2 != v1: bad += 1; print("NOT-IDEMPOTENT", repr(val), repr(v1), repr(v2))
print("supplied bad", bad)
