(* AcceptCap.v — C01/C02 part B: the capability-name validator ([capability_name_ok], the model of
   validate_amount_capability_name / validate_attribute_capability_name with the regex of
   _capabilities.py) is equivalent to the declarative grammar [CapName] of WF.v. *)
From Coq Require Import List NArith ZArith Bool String Lia.
Import ListNotations.
Require Import OJD.Base OJD.Lexer OJD.Json OJD.Schema OJD.Generated OJD.Charsets OJD.Numerals OJD.FsRefs
               OJD.CreateJob OJD.CombProofs OJD.Validators OJD.WF OJD.AcceptRules.
Local Open Scope string_scope.
Local Open Scope list_scope.

(* ---------- segments ---------- *)
Lemma seg_ok_iff s : seg_ok s = true <-> Seg s.
Proof.
  unfold seg_ok, Seg. destruct s as [|c r].
  - split; [discriminate|intros (c & r & E & _); discriminate E].
  - rewrite andb_true_iff, forallb_forall. split.
    + intros [H1 H2]. exists c, r. split; [reflexivity|]. split.
      * apply orb_true_iff in H1. destruct H1 as [H1|H1]; [left; exact H1|right; apply N.eqb_eq; exact H1].
      * apply Forall_forall. intros x Hx. specialize (H2 x Hx).
        apply orb_true_iff in H2. destruct H2 as [H2|H2]; [|right; right; apply N.eqb_eq; exact H2].
        apply orb_true_iff in H2. destruct H2 as [H2|H2]; [left; exact H2|right; left; exact H2].
    + intros (c' & r' & E & H1 & H2). inversion E. subst c' r'. split.
      * apply orb_true_iff. destruct H1 as [H1|H1]; [left; exact H1|right; apply N.eqb_eq; exact H1].
      * intros x Hx. rewrite Forall_forall in H2. rewrite !orb_true_iff.
        destruct (H2 x Hx) as [H|[H|H]]; [left; left; exact H|left; right; exact H|right; apply N.eqb_eq; exact H].
Qed.

(* a segment character is neither '.' nor ':' *)
Lemma seg_char_not x : is_lower x = true \/ is_digit09 x = true \/ x = 95%N -> x <> 46%N /\ x <> 58%N.
Proof.
  unfold is_lower, is_digit09. intros [H|[H|H]].
  - apply andb_true_iff in H. destruct H as [H1 H2]. apply N.leb_le in H1. lia.
  - apply andb_true_iff in H. destruct H as [H1 H2]. apply N.leb_le in H2. lia.
  - lia.
Qed.

Lemma Seg_no s x : Seg s -> (x = 46%N \/ x = 58%N) -> ~ In x s.
Proof.
  intros (c & r & E & H1 & H2) Hx Hin. subst s. destruct Hin as [Hc|Hr].
  - subst x. assert (Hc : is_lower c = true \/ is_digit09 c = true \/ c = 95%N) by tauto.
    apply seg_char_not in Hc. lia.
  - rewrite Forall_forall in H2. specialize (H2 x Hr). apply seg_char_not in H2. lia.
Qed.

Lemma kind_no k x : k = $"amount" \/ k = $"attr" -> (x = 46%N \/ x = 58%N) -> ~ In x k.
Proof.
  intros [E|E] Hx Hin; subst k; cbn in Hin; lia.
Qed.

(* ---------- splitting on a separator ---------- *)
Lemma app_sing_assoc {A} (w : list A) c r : (w ++ [c]) ++ r = w ++ c :: r.
Proof. rewrite <- app_assoc. reflexivity. Qed.

Lemma join_dot_cons_char c p ps : join_dot ((c :: p) :: ps) = c :: join_dot (p :: ps).
Proof. destruct ps; reflexivity. Qed.

Lemma join_dot_app_head a b q ps : join_dot ((a ++ b) :: q :: ps) = a ++ join_dot (b :: q :: ps).
Proof. cbn [join_dot]. rewrite <- app_assoc. reflexivity. Qed.

Lemma split_on_nosep sep p : forall acc rest,
  ~ In sep p -> split_on sep acc (p ++ rest) = split_on sep (rev p ++ acc) rest.
Proof.
  induction p as [|c r IH]; intros acc rest Hn; [reflexivity|].
  cbn [app split_on]. destruct (N.eqb c sep) eqn:E.
  - apply N.eqb_eq in E. exfalso. apply Hn. left. exact E.
  - rewrite IH; [|intros Hin; apply Hn; right; exact Hin]. cbn [rev]. rewrite <- app_assoc. reflexivity.
Qed.

Lemma split_on_join sep (Hsep : sep = 46%N) : forall ps p acc,
  Forall (fun q => ~ In sep q) (p :: ps) ->
  split_on sep acc (join_dot (p :: ps)) = (rev acc ++ p) :: ps.
Proof.
  induction ps as [|q qs IH]; intros p acc HF.
  - cbn [join_dot]. rewrite <- (app_nil_r p) at 1. rewrite split_on_nosep by (inversion HF; assumption).
    cbn [split_on]. rewrite rev_app_distr, rev_involutive. reflexivity.
  - assert (E : join_dot (p :: q :: qs) = p ++ sep :: join_dot (q :: qs)) by (subst sep; reflexivity).
    rewrite E. rewrite split_on_nosep by (inversion HF; assumption).
    cbn [split_on]. rewrite N.eqb_refl. rewrite rev_app_distr, rev_involutive.
    rewrite IH by (inversion HF; assumption). reflexivity.
Qed.

Lemma split_on_inv sep (Hsep : sep = 46%N) : forall s acc,
  exists p ps, split_on sep acc s = (rev acc ++ p) :: ps /\ s = join_dot (p :: ps) /\
               Forall (fun q => ~ In sep q) (p :: ps).
Proof.
  induction s as [|c r IH]; intros acc.
  - exists [], []. cbn. rewrite app_nil_r. repeat split. constructor; [intros []|constructor].
  - cbn [split_on]. destruct (N.eqb c sep) eqn:E.
    + apply N.eqb_eq in E. destruct (IH []) as (p & ps & H1 & H2 & H3).
      exists [], (p :: ps). rewrite H1. cbn [rev app]. rewrite app_nil_r. split; [reflexivity|]. split.
      * subst c sep. rewrite H2. reflexivity.
      * constructor; [intros []|exact H3].
    + destruct (IH (c :: acc)) as (p & ps & H1 & H2 & H3).
      exists (c :: p), ps. rewrite H1. cbn [rev]. rewrite <- app_assoc. split; [reflexivity|]. split.
      * rewrite join_dot_cons_char, <- H2. reflexivity.
      * inversion H3 as [|? ? Hp Hps]. constructor; [|exact Hps].
        intros [Hc|Hin]; [subst c; rewrite N.eqb_refl in E; discriminate|exact (Hp Hin)].
Qed.

Lemma split_first_ok sep v : forall acc c,
  ~ In sep v -> split_first sep acc (v ++ sep :: c) = Some (rev acc ++ v, c).
Proof.
  induction v as [|x r IH]; intros acc c Hn.
  - cbn. rewrite N.eqb_refl, app_nil_r. reflexivity.
  - cbn [app split_first]. destruct (N.eqb x sep) eqn:E.
    + apply N.eqb_eq in E. exfalso. apply Hn. left. exact E.
    + rewrite IH by (intros Hin; apply Hn; right; exact Hin). cbn [rev]. rewrite <- app_assoc. reflexivity.
Qed.

Lemma split_first_none sep s : forall acc, ~ In sep s -> split_first sep acc s = None.
Proof.
  induction s as [|x r IH]; intros acc Hn; [reflexivity|]. cbn [split_first].
  destruct (N.eqb x sep) eqn:E.
  - apply N.eqb_eq in E. exfalso. apply Hn. left. exact E.
  - apply IH. intros Hin. apply Hn. right. exact Hin.
Qed.

Lemma split_first_inv sep s : forall acc,
  match split_first sep acc s with
  | Some (v, c) => exists v', v = rev acc ++ v' /\ s = v' ++ sep :: c /\ ~ In sep v'
  | None => ~ In sep s
  end.
Proof.
  induction s as [|x r IH]; intros acc; [intros []|]. cbn [split_first].
  destruct (N.eqb x sep) eqn:E.
  - apply N.eqb_eq in E. subst x. exists []. rewrite app_nil_r. repeat split. intros [].
  - specialize (IH (x :: acc)). destruct (split_first sep (x :: acc) r) as [[v c]|].
    + destruct IH as (v' & H1 & H2 & H3). exists (x :: v'). cbn [rev] in H1. rewrite <- app_assoc in H1.
      split; [exact H1|]. split; [rewrite H2; reflexivity|].
      intros [Hx|Hin]; [subst x; rewrite N.eqb_refl in E; discriminate|exact (H3 Hin)].
    + intros [Hx|Hin]; [subst x; rewrite N.eqb_refl in E; discriminate|exact (IH Hin)].
Qed.

Lemma In_join_dot x : forall ps, In x (join_dot ps) -> x = 46%N \/ exists p, In p ps /\ In x p.
Proof.
  induction ps as [|p qs IH]; intros Hin; [contradiction|].
  destruct qs as [|q qs'].
  - right. exists p. split; [left; reflexivity|exact Hin].
  - change (join_dot (p :: q :: qs')) with (p ++ 46%N :: join_dot (q :: qs')) in Hin.
    apply in_app_or in Hin. destruct Hin as [Hp|[E|Hr]].
    + right. exists p. split; [left; reflexivity|exact Hp].
    + left. symmetry. exact E.
    + destruct (IH Hr) as [E|(p' & H1 & H2)]; [left; exact E|].
      right. exists p'. split; [right; exact H1|exact H2].
Qed.

(* ---------- the regex ---------- *)
Definition CapShape (vendor : option str) (capability : str) (kind seg1 : str) (segs : list str) : Prop :=
  capability = join_dot (kind :: seg1 :: segs) /\
  (forall v, vendor = Some v -> Seg v /\ 2 <= List.length v) /\
  (kind = $"amount" \/ kind = $"attr") /\ Seg seg1 /\ Forall Seg segs.

Lemma pieces_nodot kind seg1 segs :
  (kind = $"amount" \/ kind = $"attr") -> Seg seg1 -> Forall Seg segs ->
  Forall (fun q => ~ In 46%N q) (kind :: seg1 :: segs).
Proof.
  intros Hk H1 Hs. constructor; [apply kind_no; [exact Hk|left; reflexivity]|].
  constructor; [apply Seg_no; [exact H1|left; reflexivity]|].
  apply Forall_forall. intros q Hq. rewrite Forall_forall in Hs. apply Seg_no; [apply Hs; exact Hq|left; reflexivity].
Qed.

Lemma cap_regex_iff vendor capability :
  cap_regex_ok vendor capability = true <-> exists kind seg1 segs, CapShape vendor capability kind seg1 segs.
Proof.
  unfold cap_regex_ok, CapShape. rewrite andb_true_iff.
  assert (HV : (match vendor with Some v => seg_ok v && Nat.leb 2 (List.length v) | None => true end) = true <->
               (forall v, vendor = Some v -> Seg v /\ 2 <= List.length v)).
  { destruct vendor as [v|]; split; intros H; try reflexivity.
    - intros v' E. inversion E. subst v'. apply andb_true_iff in H. destruct H as [H1 H2].
      split; [apply seg_ok_iff; exact H1|apply Nat.leb_le; exact H2].
    - destruct (H v eq_refl) as [H1 H2]. apply andb_true_iff. split; [apply seg_ok_iff; exact H1|apply Nat.leb_le; exact H2].
    - intros v E. discriminate E. }
  rewrite HV. split.
  - intros [Hv H]. destruct (split_on_inv 46%N eq_refl capability []) as (p & ps & H1 & H2 & H3).
    rewrite H1 in H. cbn [rev app] in H. destruct ps as [|seg1 segs]; [discriminate|].
    apply andb_true_iff in H. destruct H as [H Hs]. apply andb_true_iff in H. destruct H as [Hk Hs1].
    exists p, seg1, segs. split; [exact H2|]. split; [exact Hv|]. split.
    + apply orb_true_iff in Hk. destruct Hk as [Hk|Hk]; apply str_eqb_eq in Hk; [left|right]; exact Hk.
    + split; [apply seg_ok_iff; exact Hs1|]. apply Forall_forall. intros q Hq. apply seg_ok_iff.
      rewrite forallb_forall in Hs. apply Hs. exact Hq.
  - intros (kind & seg1 & segs & E & Hv & Hk & H1 & Hs). split; [exact Hv|]. subst capability.
    rewrite (split_on_join 46%N eq_refl) by (apply pieces_nodot; assumption). cbn [rev app].
    rewrite !andb_true_iff. split; [split|].
    + apply orb_true_iff. destruct Hk as [Hk|Hk]; [left|right]; apply str_eqb_eq; exact Hk.
    + apply seg_ok_iff. exact H1.
    + apply forallb_forall. intros q Hq. apply seg_ok_iff. rewrite Forall_forall in Hs. apply Hs. exact Hq.
Qed.

Lemma not_reserved_iff scope :
  negb (existsb (fun r => str_eqb scope (str_of_string r)) Generated.reserved_scopes) = true <->
  ~ In scope (map str_of_string Generated.reserved_scopes).
Proof.
  rewrite negb_true_iff. rewrite <- existsb_sos_In.
  destruct (existsb (fun r => str_eqb scope (str_of_string r)) Generated.reserved_scopes); split; intros H;
    try reflexivity; try discriminate; try congruence.
Qed.

(* ---------- the validator ---------- *)
Section Cap.
Variable classify : N -> cclass.

Theorem capability_name_iff : forall standard required_prefix name,
  capability_name_ok classify standard required_prefix name = true <->
  CapName classify standard required_prefix name.
Proof.
  intros standard pfx name. unfold capability_name_ok, CapName. cbv zeta.
  pose proof (has_refs_iff classify name) as HRf.
  destruct (has_refs classify name).
  { split; [intros _; left; apply HRf; reflexivity|reflexivity]. }
  assert (NR : ~ HasRefs classify name) by (intros C; apply HRf in C; discriminate C).
  set (low := lower_s name).
  pose proof (split_first_inv 58%N low []) as HSF.
  destruct (split_first 58 [] low) as [[v cap]|] eqn:ESF.
  - (* vendor present *)
    destruct HSF as (v' & Ev & Elow & Hv58). cbn [rev app] in Ev. subst v'.
    pose proof (cap_regex_iff (Some v) cap) as HRX.
    destruct (cap_regex_ok (Some v) cap).
    + destruct (proj1 HRX eq_refl) as (kind & seg1 & segs & Ecap & Hv & Hk & H1 & Hs).
      destruct (Hv v eq_refl) as [Sv Lv].
      assert (Vne : (match v with [] => true | _ => false end) = false)
        by (destruct Sv as (c & r & E & _); subst v; reflexivity).
      cbn [negb]. rewrite Vne. cbn [andb].
      (* the scope read from the whole lower-cased name is the first segment *)
      assert (Esp : split_on 46 [] low = (v ++ 58%N :: kind) :: seg1 :: segs).
      { rewrite Elow, Ecap.
        change (58%N :: join_dot (kind :: seg1 :: segs)) with ([58%N] ++ join_dot (kind :: seg1 :: segs)).
        rewrite app_assoc. rewrite <- join_dot_app_head. rewrite <- app_assoc.
        rewrite (split_on_join 46%N eq_refl); [reflexivity|].
        pose proof (pieces_nodot kind seg1 segs Hk H1 Hs) as HF. inversion HF as [|? ? Hkd Hrest]. subst.
        constructor; [|exact Hrest].
        intros Hin. apply in_app_or in Hin. destruct Hin as [Hin|[Hin|Hin]].
        - revert Hin. apply Seg_no; [exact Sv|left; reflexivity].
        - discriminate Hin.
        - exact (Hkd Hin). }
      rewrite Esp.
      destruct (str_prefix pfx cap) eqn:EP; cbn [negb].
      * rewrite not_reserved_iff. split.
        -- intros Hres. right. exists (Some v), kind, seg1, segs. cbv zeta. rewrite <- Ecap.
           split; [rewrite Elow, <- app_assoc; reflexivity|].
           split; [exact Hv|]. split; [exact Hk|]. split; [exact H1|]. split; [exact Hs|].
           right. split; [exact EP|exact Hres].
        -- intros [C|(vendor & kind' & seg1' & segs' & El & Hv' & Hk' & H1' & Hs' & Hd)]; [contradiction|].
           cbv zeta in El, Hd.
           (* the decomposition is unique: read the first segment off the same split *)
           destruct vendor as [w|].
           ++ destruct (Hv' w eq_refl) as [Sw _].
              assert (Esp' : split_on 46 [] low = (w ++ 58%N :: kind') :: seg1' :: segs').
              { rewrite El. rewrite app_sing_assoc.
                change (58%N :: join_dot (kind' :: seg1' :: segs')) with ([58%N] ++ join_dot (kind' :: seg1' :: segs')).
                rewrite app_assoc. rewrite <- join_dot_app_head. rewrite <- app_assoc.
                rewrite (split_on_join 46%N eq_refl); [reflexivity|].
                pose proof (pieces_nodot kind' seg1' segs' Hk' H1' Hs') as HF. inversion HF as [|? ? Hkd Hrest]. subst.
                constructor; [|exact Hrest].
                intros Hin. apply in_app_or in Hin. destruct Hin as [Hin|[Hin|Hin]].
                - revert Hin. apply Seg_no; [exact Sw|left; reflexivity].
                - discriminate Hin.
                - exact (Hkd Hin). }
              rewrite Esp in Esp'. inversion Esp'. subst seg1'.
              destruct Hd as [[C _]|[_ Hres]]; [discriminate C|exact Hres].
           ++ (* no vendor: then the name has no ':' — but it has one *)
              exfalso. rewrite app_nil_l in El.
              assert (Hin : In 58%N low) by (rewrite Elow; apply in_or_app; right; left; reflexivity).
              rewrite El in Hin. apply In_join_dot in Hin. destruct Hin as [C|(p & Hp & Hin)]; [discriminate C|].
              destruct Hp as [Ep|[Ep|Hp]].
              ** subst p. revert Hin. apply kind_no; [exact Hk'|right; reflexivity].
              ** subst p. revert Hin. apply Seg_no; [exact H1'|right; reflexivity].
              ** rewrite Forall_forall in Hs'. revert Hin. apply Seg_no; [apply Hs'; exact Hp|right; reflexivity].
      * split; [discriminate|].
        intros [C|(vendor & kind' & seg1' & segs' & El & Hv' & Hk' & H1' & Hs' & Hd)]; [contradiction|].
        cbv zeta in El, Hd. exfalso.
        destruct vendor as [w|].
        -- destruct (Hv' w eq_refl) as [Sw _].
           (* same vendor, same capability *)
           assert (Hw58 : ~ In 58%N w) by (apply Seg_no; [exact Sw|right; reflexivity]).
           pose proof (split_first_ok 58%N w [] (join_dot (kind' :: seg1' :: segs')) Hw58) as ESF'.
           rewrite app_sing_assoc in El. rewrite <- El in ESF'. rewrite ESF in ESF'.
           change (rev [] ++ w) with w in ESF'. assert (Ew : v = w) by congruence. assert (Ec : cap = join_dot (kind' :: seg1' :: segs')) by congruence. rewrite <- Ec in Hd.
           destruct Hd as [[C _]|[EP' _]]; [discriminate C|]. rewrite EP in EP'. discriminate EP'.
        -- rewrite app_nil_l in El.
           assert (Hin : In 58%N low) by (rewrite Elow; apply in_or_app; right; left; reflexivity).
           rewrite El in Hin. apply In_join_dot in Hin. destruct Hin as [C|(p & Hp & Hin)]; [discriminate C|].
           destruct Hp as [Ep|[Ep|Hp]].
           ++ subst p. revert Hin. apply kind_no; [exact Hk'|right; reflexivity].
           ++ subst p. revert Hin. apply Seg_no; [exact H1'|right; reflexivity].
           ++ rewrite Forall_forall in Hs'. revert Hin. apply Seg_no; [apply Hs'; exact Hp|right; reflexivity].
    + cbn [negb]. split; [discriminate|].
      intros [C|(vendor & kind' & seg1' & segs' & El & Hv' & Hk' & H1' & Hs' & Hd)]; [contradiction|].
      cbv zeta in El. exfalso.
      destruct vendor as [w|].
      * destruct (Hv' w eq_refl) as [Sw Lw].
        assert (Hw58 : ~ In 58%N w) by (apply Seg_no; [exact Sw|right; reflexivity]).
        pose proof (split_first_ok 58%N w [] (join_dot (kind' :: seg1' :: segs')) Hw58) as ESF'.
        rewrite app_sing_assoc in El. rewrite <- El in ESF'. rewrite ESF in ESF'.
        change (rev [] ++ w) with w in ESF'. assert (Ew : v = w) by congruence. assert (Ec : cap = join_dot (kind' :: seg1' :: segs')) by congruence. subst w.
        assert (X : false = true); [|discriminate X].
        apply HRX. exists kind', seg1', segs'. split; [exact Ec|]. split; [exact Hv'|]. tauto.
      * rewrite app_nil_l in El.
        assert (Hin : In 58%N low) by (rewrite Elow; apply in_or_app; right; left; reflexivity).
        rewrite El in Hin. apply In_join_dot in Hin. destruct Hin as [C|(p & Hp & Hin)]; [discriminate C|].
        destruct Hp as [Ep|[Ep|Hp]].
        -- subst p. revert Hin. apply kind_no; [exact Hk'|right; reflexivity].
        -- subst p. revert Hin. apply Seg_no; [exact H1'|right; reflexivity].
        -- rewrite Forall_forall in Hs'. revert Hin. apply Seg_no; [apply Hs'; exact Hp|right; reflexivity].
  - (* no vendor *)
    pose proof (cap_regex_iff None low) as HRX.
    (* any decomposition of the rule has no vendor either *)
    assert (NoV : forall (w : str) (kind' seg1' : str) (segs' : list str) rest, low = (w ++ [58%N]) ++ rest -> False).
    { intros w _ _ _ rest El. apply HSF. rewrite El. apply in_or_app. left. apply in_or_app. right. left. reflexivity. }
    destruct (cap_regex_ok None low).
    + destruct (proj1 HRX eq_refl) as (kind & seg1 & segs & Ecap & Hv & Hk & H1 & Hs).
      cbn [negb andb].
      assert (Esp : split_on 46 [] low = kind :: seg1 :: segs).
      { rewrite Ecap. rewrite (split_on_join 46%N eq_refl) by (apply pieces_nodot; assumption). reflexivity. }
      rewrite Esp.
      pose proof (existsb_sos_In low standard) as HStd.
      destruct (existsb (fun s => str_eqb low (str_of_string s)) standard).
      * split; [intros _|reflexivity]. right. exists None, kind, seg1, segs. cbv zeta. rewrite <- Ecap.
        split; [reflexivity|]. split; [exact Hv|]. split; [exact Hk|]. split; [exact H1|]. split; [exact Hs|].
        left. split; [reflexivity|apply HStd; reflexivity].
      * destruct (str_prefix pfx low) eqn:EP; cbn [negb].
        -- rewrite not_reserved_iff. split.
           ++ intros Hres. right. exists None, kind, seg1, segs. cbv zeta. rewrite <- Ecap.
              split; [reflexivity|]. split; [exact Hv|]. split; [exact Hk|]. split; [exact H1|]. split; [exact Hs|].
              right. split; [exact EP|exact Hres].
           ++ intros [C|(vendor & kind' & seg1' & segs' & El & Hv' & Hk' & H1' & Hs' & Hd)]; [contradiction|].
              cbv zeta in El, Hd. destruct vendor as [w|]; [exfalso; exact (NoV w kind' seg1' segs' _ El)|].
              rewrite app_nil_l in El.
              assert (Esp' : split_on 46 [] low = kind' :: seg1' :: segs').
              { rewrite El. rewrite (split_on_join 46%N eq_refl) by (apply pieces_nodot; assumption). reflexivity. }
              rewrite Esp in Esp'. inversion Esp'. subst kind' seg1' segs'.
              destruct Hd as [[_ Hin]|[_ Hres]]; [|exact Hres].
              rewrite <- El in Hin. apply HStd in Hin. discriminate Hin.
        -- split; [discriminate|].
           intros [C|(vendor & kind' & seg1' & segs' & El & Hv' & Hk' & H1' & Hs' & Hd)]; [contradiction|].
           cbv zeta in El, Hd. destruct vendor as [w|]; [exfalso; exact (NoV w kind' seg1' segs' _ El)|].
           rewrite app_nil_l in El. rewrite <- El in Hd. exfalso.
           destruct Hd as [[_ Hin]|[EP' _]]; [apply HStd in Hin; discriminate Hin|rewrite EP in EP'; discriminate EP'].
    + cbn [negb]. split; [discriminate|].
      intros [C|(vendor & kind' & seg1' & segs' & El & Hv' & Hk' & H1' & Hs' & Hd)]; [contradiction|].
      cbv zeta in El. destruct vendor as [w|]; [exfalso; exact (NoV w kind' seg1' segs' _ El)|].
      rewrite app_nil_l in El. exfalso.
      assert (X : false = true); [|discriminate X].
      apply HRX. exists kind', seg1', segs'. split; [exact El|]. split; [intros v E; discriminate E|]. tauto.
Qed.

(* ---------- the two requirement classes ---------- *)
Theorem amount_rule_iff : forall fs,
  (capability_name_ok classify Generated.std_amount_caps $"amount." (mstr (fget "name" fs))
   && (match num_of (fget "min" fs) with Some v => num_leb (num_of_Z 0) v | None => true end)
   && (match num_of (fget "max" fs) with Some v => num_ltb (num_of_Z 0) v | None => true end)
   && opt_le (fget "min" fs) (fget "max" fs)) = true <-> AmountRule classify fs.
Proof.
  intros fs. unfold AmountRule.
  rewrite !andb_true_iff, capability_name_iff, !opt_num_match_iff, opt_le_iff. tauto.
Qed.

Theorem attribute_rule_iff : forall fs,
  (capability_name_ok classify (map fst Generated.std_attr_caps) $"attr." (mstr (fget "name" fs))
   && attribute_list_ok classify (fget "name" fs) (fget "anyOf" fs) false
   && attribute_list_ok classify (fget "name" fs) (fget "allOf" fs) true) = true <-> AttributeRule classify fs.
Proof.
  intros fs. unfold AttributeRule.
  rewrite !andb_true_iff, capability_name_iff, !attribute_list_rule_iff. tauto.
Qed.
End Cap.
