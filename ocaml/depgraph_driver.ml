(* depgraph_driver.ml — serves the extracted dependency-graph model (C15).
   request:  (graph ((name (dep ...)) ...))
   reply:    (raise E)                                       when the constructor raises
             (ok ((name in-edges out-edges) ...) maxin maxout topo)
               edges are (origin dependent) pairs; maxin/maxout/topo are outcomes
   request:  (template ((name (dep ...)) ...))
   reply:    (dupnames dupdeps self unknown cycle)            booleans; cycle = none when the
                                                              constructor raises
   request:  (spec ((name (dep ...)) ...))
   reply:    (stable-order (n ...))                           the recursive definition *)
open Sx
open Model
open Conv

let job_of_sx (x : Sx.t) : (n * n list) list =
  list_of_sx (function L [nm; ds] -> (n_of_sx nm, list_of_sx n_of_sx ds) | _ -> failwith "step") x

let sx_of_edge (o, d) = L [sx_of_n o; sx_of_n d]

let handle (req : Sx.t) : Sx.t =
  match req with
  | L [A "graph"; j] ->
    let j = job_of_sx j in
    (match build j with
     | Raise e -> L [A "raise"; A (exn_name e)]
     | Ok g ->
       let nodes = List.map (fun x ->
         let nm = nname x in
         L [sx_of_n nm;
            sx_of_outcome (sx_of_list sx_of_edge) (in_edges g nm);
            sx_of_outcome (sx_of_list sx_of_edge) (out_edges g nm)]) g in
       L [A "ok"; L nodes;
          sx_of_outcome sx_of_nat (max_indegree g);
          sx_of_outcome sx_of_nat (max_outdegree g);
          sx_of_outcome (sx_of_list sx_of_n) (topo g)])
  | L [A "template"; j] ->
    let j = job_of_sx j in
    let cyc = match build j with Raise _ -> A "none" | Ok _ -> sx_of_bool (has_cycle j) in
    L [sx_of_bool (dup_step_names j); sx_of_bool (dup_deps j); sx_of_bool (self_dep j);
       sx_of_bool (unknown_dep j); cyc]
  | L [A "spec"; j] ->
    let j = job_of_sx j in
    L [A "stable-order"; sx_of_list sx_of_n (stable_order j)]
  | _ -> failwith "unknown-request"

let () = serve handle
