(* props/C07xv.v — C07 for spaces too large to enumerate: the index arithmetic of
   StepParameterSpaceIterator over a tree of LENGTHS (OJD.ParamSpaceIdx: [llen], [lindex]) is the
   value-list model of props/C07.v (OJD.ParamSpace: [node_len], [getitem]) with the values forgotten.

   [shape t]      the tree of lengths of the value tree t (name and len() of every leaf);
   [lindex s i]   for obj[i]: the dict  leaf name -> position in that leaf's range  (0 <= position < len(leaf)),
                  built by the same mod / floor-div / result.update steps as ProductNode / AssociationNode /
                  leaf __getitem__;
   [env_at t pos] the dict of values the positions stand for: name -> (type of that leaf, range[position]).
   The harness (kind "vast") runs the EXTRACTED [llen] / [lindex] on operand lengths up to 2**63 and adds each
   leaf's range start to the position (ranges "a-b", step 1).  All statements are for ALL trees and ALL
   indices (unbounded); nothing here depends on the iterator or on the pinned flag. *)
From Coq Require Import List NArith ZArith Bool Lia.
Import ListNotations.
Require Import OJD.Base OJD.ParamSpace OJD.ParamSpaceSpec OJD.ParamSpaceProofs
               OJD.ParamSpaceIdx OJD.ParamSpaceIdxSpec OJD.ParamSpaceIdxProofs.
Local Open Scope Z_scope.

(* len(): the same value or the same exception, for EVERY value tree (valid or not) *)
Theorem C07xv_len : forall t, llen (shape t) = node_len t.
Proof. exact llen_shape. Qed.
Print Assumptions C07xv_len.

(* obj[i] for EVERY value tree (duplicate names, empty ranges, unbalanced associations included) and every i:
   the same exception, or dicts that agree entry by entry, in the same order: same key, and the value is the
   element at the listed position (inside the range) of a leaf of that name and type *)
Theorem C07xv_getitem_all_trees : forall t i,
  match lindex (shape t) i with
  | Ok pos => exists env, getitem t i = Ok env /\ Forall2 (Ent t) env pos
  | Raise x => getitem t i = Raise x
  end.
Proof. exact lindex_getitem_rel. Qed.
Print Assumptions C07xv_getitem_all_trees.

(* distinct parameter names (in particular every valid tree): obj[i] IS the position dict read through the
   leaves' ranges; IndexError (or any other exception) exactly when the length arithmetic raises it *)
Theorem C07xv_getitem : forall t i, NoDup (names t) ->
  getitem t i = match lindex (shape t) i with
                | Ok pos => Ok (env_at t pos)
                | Raise x => Raise x
                end.
Proof. exact lindex_getitem. Qed.
Print Assumptions C07xv_getitem.

Theorem C07xv_getitem_iff : forall t i, NoDup (names t) ->
  (forall env, getitem t i = Ok env <-> exists pos, lindex (shape t) i = Ok pos /\ env = env_at t pos) /\
  (forall x, getitem t i = Raise x <-> lindex (shape t) i = Raise x).
Proof. exact lindex_getitem_iff. Qed.
Print Assumptions C07xv_getitem_iff.

(* valid trees, composed with C07_len / C07_getitem: [llen] is the number of task parameter sets, and for
   -len <= i < len the positions select the (i mod len)-th set of the denotation; IndexError outside *)
Theorem C07xv_valid : forall t i, valid t ->
  let len := Z.of_nat (length (denote t)) in
  llen (shape t) = Ok len /\
  (- len <= i < len ->
     exists pos, lindex (shape t) i = Ok pos /\ getitem t i = Ok (env_at t pos) /\
                 env_at t pos ≈ nth (Z.to_nat (i mod len)) (denote t) []) /\
  (~ (- len <= i < len) -> lindex (shape t) i = Raise IndexError).
Proof. exact lindex_denote. Qed.
Print Assumptions C07xv_valid.

(* every listed position lies inside the range of a leaf of that name (every tree) *)
Theorem C07xv_in_range : forall t i pos, lindex (shape t) i = Ok pos ->
  Forall (fun np => exists ty vs, In (fst np, ty, vs) (leaves t) /\ 0 <= snd np < Z.of_nat (length vs)) pos.
Proof. exact lindex_in_range. Qed.
Print Assumptions C07xv_in_range.

(* every leaf name gets a position, nothing else does, no name twice (every length tree, every index) *)
Theorem C07xv_keys : forall c i p, lindex c i = Ok p ->
  NoDup (pkeys p) /\ forall n, In n (pkeys p) <-> In n (lnames c).
Proof. exact lindex_keys. Qed.
Print Assumptions C07xv_keys.

Theorem C07xv_names : forall t, lnames (shape t) = names t.
Proof. exact lnames_shape. Qed.
Print Assumptions C07xv_names.

(* the stand-in for ZeroDivisionError in ProductNode.__getitem__ is unreachable for every length tree *)
Theorem C07xv_no_zero_division : forall t i, lindex t i <> Raise RuntimeError.
Proof. exact lindex_no_zero_division. Qed.
Print Assumptions C07xv_no_zero_division.

(* closed form for pure products A1 * ... * Ak (distinct names, lengths l1 .. lk > 0): len is l1 * ... * lk and
   obj[i], -len <= i < len, selects in Am the mixed-radix digit (j / (l(m+1) * ... * lk)) mod lm of j = i mod len
   (right-most operand fastest; the dict lists the right-most operand first); IndexError outside *)
Theorem C07xv_product : forall nls i,
  NoDup (map fst nls) -> Forall (fun nl => 0 < snd nl) nls ->
  let total := zprod (map snd nls) in
  llen (lprod_of nls) = Ok total /\
  (- total <= i < total ->
     lindex (lprod_of nls) i = Ok (rev (combine (map fst nls) (radix (map snd nls) (i mod total))))) /\
  (~ (- total <= i < total) -> lindex (lprod_of nls) i = Raise IndexError).
Proof. exact lindex_product. Qed.
Print Assumptions C07xv_product.

(* ... and [radix lens j] is THE list of in-range digits with  j = (..(d1 * l2 + d2) * l3 + ..) * lk + dk
   ("index = (a * len(B) + b) * len(C) + c" of the code's comment) *)
Theorem C07xv_radix : forall lens j, Forall (fun l => 0 < l) lens -> 0 <= j < zprod lens ->
  Forall2 (fun d l => 0 <= d < l) (radix lens j) lens /\
  horner lens (radix lens j) = j /\
  forall ds, Forall2 (fun d l => 0 <= d < l) ds lens -> horner lens ds = j -> ds = radix lens j.
Proof. exact radix_spec. Qed.
Print Assumptions C07xv_radix.

(* length trees of any size are shapes of valid value trees: a product of INT leaves with the given lengths *)
Theorem C07xv_product_is_shape : forall nls,
  nls <> [] -> NoDup (map fst nls) -> Forall (fun nl => 0 < snd nl) nls ->
  valid (vprod_of nls) /\ shape (vprod_of nls) = lprod_of nls.
Proof. exact vprod_valid. Qed.
Print Assumptions C07xv_product_is_shape.

(* ------------------------------------------------------------------ non-vacuity *)
Ltac notin := let H := fresh in cbn [In]; intro H; repeat (destruct H as [H|H]; [discriminate H|]); exact H.
Ltac nd := repeat (constructor; [notin|]); constructor.

(* small: A * (B, C) * D with |A| = 2, |B| = |C| = 3, |D| = 2 (the tree of props/C07.v) *)
Definition xA : node := Leaf [65%N] TInt [[49%N]; [50%N]].
Definition xB : node := Leaf [66%N] TInt [[49%N]; [51%N]; [53%N]].
Definition xC : node := Leaf [67%N] TFloat [[49%N; 46%N; 53%N]; [50%N]; [51%N]].
Definition xD : node := Leaf [68%N] TString [[120%N]; [121%N]].
Definition x1 : node := Prod [xA; Assoc [xB; xC]; xD].

Example C07xv_small_nonvacuous :
  valid x1 /\ llen (shape x1) = Ok 12 /\
  lindex (shape x1) (-5) = Ok [([68%N], 1); ([66%N], 0); ([67%N], 0); ([65%N], 1)] /\
  getitem x1 (-5) = Ok [([68%N], (TString, [121%N])); ([66%N], (TInt, [49%N]));
                        ([67%N], (TFloat, [49%N; 46%N; 53%N])); ([65%N], (TInt, [50%N]))] /\
  lindex (shape x1) 12 = Raise IndexError /\ lindex (shape x1) (-13) = Raise IndexError.
Proof.
  split.
  - split.
    + cbn. nd.
    + apply WfProd; [discriminate|]. constructor; [apply WfLeaf; discriminate|].
      constructor; [|constructor; [apply WfLeaf; discriminate | constructor]].
      apply WfAssoc; [repeat constructor; discriminate | repeat constructor].
  - repeat split; vm_compute; reflexivity.
Qed.

(* vast: A * B * C with 1048577 * 3000000000 * 367 = 1154483277000000000 sets (2**60 < . < 2**63): the
   hypotheses of C07xv_product hold, the tree is the shape of a VALID value tree (C07xv_product_is_shape, so
   C07xv_valid / C07xv_getitem apply to it), and the extracted function computes the digits *)
Definition vast_nls : list (str * Z) := [([65%N], 2 ^ 20 + 1); ([66%N], 3 * 10 ^ 9); ([67%N], 367)].

Example C07xv_vast_nonvacuous :
  NoDup (map fst vast_nls) /\ Forall (fun nl => 0 < snd nl) vast_nls /\
  valid (vprod_of vast_nls) /\ shape (vprod_of vast_nls) = lprod_of vast_nls /\
  zprod (map snd vast_nls) = 1154483277000000000 /\ 2 ^ 60 < zprod (map snd vast_nls) < 2 ^ 63 /\
  llen (lprod_of vast_nls) = Ok 1154483277000000000 /\
  lindex (lprod_of vast_nls) (2 ^ 60) = Ok [([67%N], 225); ([66%N], 1489391953); ([65%N], 1047158)] /\
  lindex (lprod_of vast_nls) (-7) = Ok [([67%N], 360); ([66%N], 2999999999); ([65%N], 1048576)] /\
  radix (map snd vast_nls) (2 ^ 60) = [1047158; 1489391953; 225] /\
  horner (map snd vast_nls) [1047158; 1489391953; 225] = 2 ^ 60 /\
  lindex (lprod_of vast_nls) 1154483277000000000 = Raise IndexError /\
  lindex (lprod_of vast_nls) (-1154483277000000001) = Raise IndexError.
Proof.
  assert (ND : NoDup (map fst vast_nls)) by (cbn; nd).
  assert (HP : Forall (fun nl => 0 < snd nl) vast_nls) by (repeat constructor).
  destruct (C07xv_product_is_shape vast_nls ltac:(discriminate) ND HP) as [V S].
  split; [exact ND|]. split; [exact HP|]. split; [exact V|]. split; [exact S|].
  repeat split; vm_compute; reflexivity.
Qed.

(* vast and nested: A * (B, C) with 2**30 * 2**31 = 2**61 sets; B and C move together *)
Example C07xv_vast_nested_nonvacuous :
  let s := LProd [LLeaf [65%N] (2 ^ 30); LAssoc [LLeaf [66%N] (2 ^ 31); LLeaf [67%N] (2 ^ 31)]] in
  llen s = Ok (2 ^ 61) /\
  lindex s (2 ^ 60 + 12345) = Ok [([66%N], 12345); ([67%N], 12345); ([65%N], 2 ^ 29)] /\
  lindex s (-1) = Ok [([66%N], 2 ^ 31 - 1); ([67%N], 2 ^ 31 - 1); ([65%N], 2 ^ 30 - 1)] /\
  lindex s (2 ^ 61) = Raise IndexError.
Proof. repeat split; vm_compute; reflexivity. Qed.
