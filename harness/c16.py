"""C16 — format strings parse and resolve literally.

Observables compared between the real `openjd.model.FormatString` / `SymbolTable` and the
extracted Coq model (FormatStr.v):
  * constructor verdict: ok / FormatStringError / other:<class>;
  * the value compares equal to the input string;
  * `.expressions` as [(name as the code normalises it, start_pos, end_pos)];
  * `resolve(symtab=...)` result or exception family under three symbol tables (one binding
    everything that looks like a name in the input, one partial, one empty);
  * the names for which `expr.expression.validate_symbol_refs(symbols=set(symtab.symbols))`
    raises ValueError (the loop of _variable_reference_validation.py), and whether
    "resolve failed" == "some reference failed the check".
"""
import itertools
import random
import re
import signal
import sys
from pathlib import Path

sys.path.insert(0, str(Path(__file__).resolve().parent))
import core  # noqa: E402

from openjd.model import SymbolTable  # noqa: E402
from openjd.model._format_strings import FormatString, FormatStringError  # noqa: E402

ALPHA = ["{", "}", ".", " ", "a", "1", "_", "\n", "é"]

BLANKS = [" ", "\t", "\n", "\r\n", " ", "　", " ", "  ", "\x0b", "\x1f"]
NAME_START = ["a", "b", "Z", "_", "é", "ü", "ß", "中", "Param", "Task", "x", "RawParam", "Session", "FrameStart_0123456789", "OutputDirectoryName"]
NAME_CONT = ["a", "1", "_", "9", "é", "ü2", "٣", "²", "B", "0"]
LIT_POOL = ["x", "y", " ", "-", ".", "1", "a", "é", "{", "}", "{ {", "} }", "{a}", "\n", "\t", "中", "٣", "$", "\\", "'", '"', "{.}", ":", "}{"]
EXTRA_CHARS = "".join(sorted({c for pool in (ALPHA, BLANKS, NAME_START, NAME_CONT, LIT_POOL) for w in pool for c in w if ord(c) > 127}))

# the corner cases named in the property's design notes come first
CORPUS = [
    "{{a}}}", "}}{{a}}", "{{{a}}", "{{a}}{{", "{{a\n.b}}", "{{ a . b }}", "{{}}", "{{a..b}}", "{{1a}}", "{{é.ü2}}",
    "{", "}", "{ {a} }", "", "a", "{{a}}", "{{a}}{{b}}", "{{a}}x{{b}}y", "x{{a}}", "{{a}", "{a}}", "}}", "{{", "}}{{",
    "{{a}}}}", "{{{{a}}}}", "{{a}}{", "{{a}}}{{b}}", "{{ }}", "{{.}}", "{{a.}}", "{{.a}}", "{{a b}}", "{{a.1}}",
    "{{a.b.c}}", "{{ a\t.\n b }}", "{{a-b}}", "{{a*}}", "{{a,b}}", "{{a(b)}}", "{{a:b}}", "{{1}}", "{{a}b}}", "{{a{b}}",
    "{{a}}{{a}}{{a}}", "{{_}}", "{{_1._2}}", "{{a٣}}", "{{٣a}}", "{{a²}}", "{{²}}", "{{a .　b}}", "{}{{a}}{}",
    "{{Param.Frame}} of {{Task.File}}", "{{a}}\n{{b}}", "{{a }}", "{{ a}}", "{{a. b}}", "{{a .b}}", "{ {a}}", "{{a} }",
]

class Label(str):
    """a value that IS a string without being exactly `str` (what a FormatString field of a template, a path-like text
    type or an enum member with a str base are)"""


VALUES = ["X", "{{a}}", 5, "", "}}{{", "v.w", -3, "é {{ b }}", True, "{{", "}}", 0, "a", "{", "}",
          Label("sub"), Label("{{a}}"), Label(""), FormatString("fs {{a}} lit"), 2.5]

_NAME = r"[^\W\d]\w*"
_DOTTED = re.compile(rf"{_NAME}(?:\s*\.\s*{_NAME})*")
_WS = re.compile(r"\s+")


def candidates(s: str):
    """everything in s that looks like a (dotted) name, blanks removed, in order, distinct"""
    out = []
    for m in _DOTTED.finditer(s):
        full = _WS.sub("", m.group())
        parts = full.split(".")
        for k in range(len(parts), 0, -1):
            n = ".".join(parts[:k])
            if n not in out:
                out.append(n)
    return out


def tabs_for(s: str):
    """three symbol tables, a deterministic function of the input string"""
    cands = candidates(s)
    h = sum(ord(c) for c in s) + len(s)
    full = {n: VALUES[(h + 7 * i) % len(VALUES)] for i, n in enumerate(cands)}
    part = {n: v for i, (n, v) in enumerate(full.items()) if (i + h) % 2 == 1}
    part["zz"] = "unused"
    return [full, part, {}]


class ImplTimeout(Exception):
    pass


def _on_alarm(signum, frame):
    raise ImplTimeout()


def exn_family(e: BaseException) -> str:
    if isinstance(e, FormatStringError):
        return "FormatStringError"
    return "other:" + type(e).__name__


def tree_name(expr) -> str:
    node = getattr(expr, "_expresion_tree", None)
    if node is None:
        node = getattr(expr, "_expression_tree")
    return node.name


def oracle(s: str):
    """independent scanner written from the property text (used only in replay files)"""
    ex = re.compile(rf"\s*{_NAME}(?:\s*\.\s*{_NAME})*\s*\Z")
    out = []
    pos = 0
    while pos < len(s):
        o = s.find("{{", pos)
        c = s.find("}}", pos)
        if o == -1 and c == -1:
            break
        if o == -1 or c == -1 or c < o:
            return None
        inner = s[o + 2:c]
        if not ex.match(inner):
            return None
        out.append([core.cps(".".join(re.findall(_NAME, inner))), o, c + 2])
        pos = c + 2
    return out


def rand_name(rng):
    w = rng.choice(NAME_START)
    for _ in range(rng.choice([0, 0, 1, 2])):
        w += rng.choice(NAME_CONT)
    return w


def rand_blank(rng, p=0.35):
    return rng.choice(BLANKS) if rng.random() < p else ""


def rand_ref(rng):
    n = rng.choice([1, 1, 2, 2, 3, 4])
    inner = rand_blank(rng) + rand_name(rng)
    for _ in range(n - 1):
        inner += rand_blank(rng) + "." + rand_blank(rng) + rand_name(rng)
    inner += rand_blank(rng)
    return "{{" + inner + "}}"


def rand_long_ref(rng):
    """one expression with MANY blank runs (5-12 components, a blank run of 1-3 characters of any kind before and after
    every dot): whatever the scanner does with the first few runs it must do with all of them"""
    n = rng.randint(5, 12)
    def b():
        return "".join(rng.choice([" ", "\t", "\n", "\r\n", "\x0b", "\x0c", "\u00a0", "\u2003", " "]) for _ in range(rng.choice([1, 1, 2, 3])))
    inner = b() + rand_name(rng)
    for _ in range(n - 1):
        inner += b() + "." + b() + rand_name(rng)
    return "{{" + inner + b() + "}}"


BAD_INNER = ["", " ", "1a", "a..b", "a.", ".a", "a b", "a-b", "a{b", "a}b", "{a", "a}", "a.1", "1", "a,b", "a*", "(a)", "a:b", "a.b.", "a . . b", "٣", "a.٣", "$a", "a$"]


def rand_mix(rng):
    parts = []
    for _ in range(rng.randint(1, 7)):
        k = rng.random()
        if k < 0.45:
            parts.append(rand_ref(rng))
        elif k < 0.85:
            parts.append("".join(rng.choice(LIT_POOL) for _ in range(rng.randint(0, 5))))
        elif k < 0.92:
            parts.append("{{" + rng.choice(BAD_INNER) + "}}")
        else:
            parts.append(rng.choice(["{{", "}}", "{{{", "}}}", "{", "}", "}}{{", "{{}}"]))
    return "".join(parts)


def mutate(rng, s: str) -> str:
    toks = list(s)
    pool = ["{", "}", "{{", "}}", ".", " ", "\n", "a", "1", "_", "é", "\t", "-", "٣"]
    if not toks:
        return rng.choice(pool)
    i = rng.randrange(len(toks))
    k = rng.random()
    if k < 0.3:
        del toks[i]
    elif k < 0.6:
        toks.insert(i, rng.choice(pool))
    elif k < 0.75:
        toks[i] = rng.choice(pool)
    elif k < 0.9:
        j = rng.randrange(len(toks))
        toks[i], toks[j] = toks[j], toks[i]
    else:
        toks.insert(i, toks[i])
    return "".join(toks)


class C16(core.PropBase):
    id = "C16"
    component = "fmtstr"
    extract_file = "ExtractFormatStr.v"
    chars = EXTRA_CHARS
    uses_table = True
    chunk_size = 1500
    theorem_for_mismatch = "C16_accept_iff / C16_eq / C16_spans / C16_resolve / C16_resolve_fail_iff (model = implementation correspondence)"
    assumptions = [
        "str.find / slicing / ''.join on Python str behave as on code-point lists",
        "symbol values are str / int / bool; the harness passes str(value) to the model (FormatString.resolve applies str())",
        "classes \\s \\w \\d of the characters used are read from Python's re on every run; theorems assume only the ASCII table (ascii_ok, checked by the driver each run)",
        "the normalised name is read from the private attribute InterpolationExpression._expresion_tree.name",
        "CPython 3.12 as installed",
    ]

    def corpus_cases(self):
        return [{"s": s} for s in CORPUS]

    def sweep_len(self, tier):
        return 6 if tier == "thorough" else 5

    def cases(self, tier, seed):
        rng = random.Random(seed * 7919 + 16)
        thorough = tier == "thorough"
        for n in range(0, self.sweep_len(tier) + 1):
            for t in itertools.product(ALPHA, repeat=n):
                yield {"s": "".join(t)}
        if not thorough:
            # a sample of the next length, anchored on at least one brace pair
            for _ in range(20000):
                yield {"s": "".join(rng.choice(ALPHA) for _ in range(rng.choice([6, 6, 7, 8])))}
        for _ in range(200000 if thorough else 12000):
            yield {"s": rand_mix(rng)}
        for _ in range(30000 if thorough else 3000):
            yield {"s": rng.choice(["", "pre ", "{{a}} "]) + rand_long_ref(rng) + rng.choice(["", " post", rand_long_ref(rng)])}
        for _ in range(200000 if thorough else 12000):
            s = rand_mix(rng)
            for _ in range(rng.randint(1, 3)):
                s = mutate(rng, s)
            yield {"s": s}
        # two parties at once (deterministic pre-emption, see core.run_preempted)
        for _ in range(600 if thorough else 60):
            yield {"s": rand_mix(rng), "with": rng.choice([rand_mix(rng), rand_long_ref(rng), "{{ a.b }} x {{c}}", mutate(rng, rand_mix(rng))])}

    def rule(self, tier):
        n = self.sweep_len(tier)
        return (f"corpus of corner cases; every string of length <= {n} over the 9 symbols "
                "{ '{', '}', '.', ' ', 'a', '1', '_', newline, e-acute } (exhaustive); "
                + ("" if tier == "thorough" else "20k random strings of length 6-8 over the same symbols; ")
                + "random mixes of literal text, single/double/triple braces and references with blanks, tabs, unicode blanks and "
                "unicode identifiers; character-level mutations of such mixes (malformed stream). Each string is resolved under three "
                "symbol tables derived from it (all names bound / partial / empty; values include text containing '{{a}}'). "
                "distinct = by input string; non-trivial = contains '{{' or '}}'")

    def exhaustive(self, tier):
        return True

    def samples(self, tier, seed):
        rng = random.Random(seed)
        return CORPUS[:5] + [rand_mix(rng) for _ in range(4)] + [mutate(rng, rand_mix(rng)) for _ in range(3)]

    def nontrivial(self, case):
        return "{{" in case["s"] or "}}" in case["s"]

    def impl(self, case):
        # a non-terminating scanner must show up as a disagreement, not as a hung check
        old = signal.signal(signal.SIGALRM, _on_alarm)
        signal.setitimer(signal.ITIMER_REAL, 10.0)
        try:
            return self._impl(case)
        except ImplTimeout:
            return ["raise", "other:Timeout(10s)"]
        finally:
            signal.setitimer(signal.ITIMER_REAL, 0)
            signal.signal(signal.SIGALRM, old)

    def _impl(self, case):
        if "with" in case:
            # another party builds and resolves ITS string (nothing shared by the users) at every function entry and line of
            # this one's: each gets what it gets alone
            other = {"s": case["with"]}
            want_b = self._impl(other)
            ra, odd, _ = core.run_preempted(lambda: self._impl({"s": case["s"]}), lambda: self._impl(other), want_b, max_points=150, lines=True)
            if odd is not None:
                return ["raise", "other:the-other-party-got-a-different-answer"]
            return ra
        s = case["s"]
        try:
            f = FormatString(s)
        except BaseException as e:  # noqa: BLE001
            return ["raise", exn_family(e)]
        try:
            exprs = [[core.cps(tree_name(e.expression)), e.start_pos, e.end_pos] for e in f.expressions]
        except BaseException as e:  # noqa: BLE001
            return ["expressions-raise", exn_family(e)]
        per = []
        for tab in tabs_for(s):
            st = SymbolTable(source=dict(tab))
            try:
                r = ["ok", core.cps(f.resolve(symtab=st))]
            except BaseException as e:  # noqa: BLE001
                r = ["raise", exn_family(e)]
            failing = []
            for e in f.expressions:
                try:
                    e.expression.validate_symbol_refs(symbols=set(st.symbols))
                except ValueError:
                    failing.append(core.cps(tree_name(e.expression)))
                except BaseException as x:  # noqa: BLE001
                    failing.append("other:" + type(x).__name__)
            per.append([r, failing, (r[0] == "raise") == (len(failing) > 0)])
        return ["ok", bool(f == s) and str(f) == s, exprs, per]

    def requests(self, case):
        s = case["s"]
        tabs = [[[core.cps(k), core.cps(str(v))] for k, v in tab.items()] for tab in tabs_for(s)]
        return [["fs", core.cps(s), tabs]]

    def model_obs(self, case, replies):
        r = replies[0]
        if r[0] == "raise":
            return ["raise", r[1] if r[1] == "FormatStringError" else "other:" + str(r[1])]
        if r[0] != "ok":
            return ["driver", r]
        _, orig, exprs, pieces, per = r
        s = core.cps(case["s"])
        out = []
        for res, failing in per:
            if res[0] == "ok":
                ro = ["ok", res[1]]
            else:
                ro = ["raise", res[1] if res[1] == "FormatStringError" else "other:" + str(res[1])]
            out.append([ro, failing, (ro[0] == "raise") == (len(failing) > 0)])
        return ["ok", orig == s and pieces == s, exprs, out]

    def classify_case(self, case, obs):
        ks = [obs[0] if obs[0] == "ok" else "raise:" + str(obs[1])]
        if obs[0] == "ok":
            ks.append(f"ok_refs={min(len(obs[2]), 4)}")
            for name, (r, failing, _) in zip(("full", "partial", "empty"), obs[3]):
                ks.append(f"resolve_{name}={'ok' if r[0] == 'ok' else 'raise'}")
            if obs[2]:
                ks.append("ok_with_reference")
        return ks

    def spec_obs(self, case):
        o = oracle(case["s"])
        return ["rejected (FormatStringError expected)"] if o is None else ["accepted; references", o]

    def shrink_candidates(self, case):
        s = case["s"]
        for i in range(len(s)):
            yield {"s": s[:i] + s[i + 1:]}


PROP = C16()

if __name__ == "__main__":
    sys.exit(core.main(PROP, sys.argv[1:]))
