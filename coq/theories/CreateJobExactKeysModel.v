(* CreateJobExactKeysModel.v — the MODEL's Job has pairwise distinct keys in every object.

   Generic in the schema (no class is named):

     [shaped]  an instance tree as the acceptance model builds it from a document with distinct keys: every
               model node carries exactly the declared fields of its class, in order; dictionaries have
               distinct keys;
     [kwf]     an instance tree whose export has distinct keys: the aliases (under the node's class) of the
               field names of every model node are pairwise distinct; dictionaries have distinct keys.

     decode        : distinct_keys v -> parse v = Ok x -> shaped x
     instantiate   : shaped v -> inst v = Ok y -> kwf y        (a reshaped list becomes a dictionary by
                     [dict_set], which never repeats a key; the output field names of a class are a function of
                     the class: declared names minus excluded, renamed, plus "value")
     export        : kwf y -> distinct_keys (jobj y)

   The condition on the schema is one boolean check ([schema_keys_ok], by computation on Generated.schema): for
   every class, the aliases of its declared fields are distinct, and so are the aliases -- under each possible
   target class -- of the field names instantiate_model produces for it. *)
From Coq Require Import List NArith ZArith Bool String Lia.
Import ListNotations.
Require Import OJD.Base OJD.Lexer OJD.Json OJD.Schema OJD.Generated OJD.Charsets OJD.Numerals OJD.NumPrint OJD.FormatStr OJD.CreateJob OJD.CreateJobProofs OJD.Parse
               OJD.Validators OJD.Accept OJD.AcceptMono OJD.DecodeInv OJD.JsonEquiv OJD.CreateJobExactLib
               OJD.CreateJobExactCarried OJD.CreateJobExactKeysLib.
Local Open Scope string_scope.
Local Open Scope list_scope.

Lemma leaf_of_scalar : forall m, scalar_mval m -> leaf m = true.
Proof. intros m H. destruct m; try reflexivity; destruct H. Qed.

Lemma Forall_snd_in : forall (K V : Type) (P : V -> Prop) (l : list (K * V)),
  (forall kv, In kv l -> P (snd kv)) -> Forall (fun kv => P (snd kv)) l.
Proof. intros K V P l H. apply Forall_forall. exact H. Qed.

Section Keys.
  Variable SC : schema_t.

  Definition akey (c n : string) : str := str_of_string (alias_of SC c n).

  (* ---------------------------------------------------------------- the two invariants *)
  Inductive shaped : mval -> Prop :=
  | Sh_leaf : forall v, leaf v = true -> shaped v
  | Sh_list : forall l, Forall shaped l -> shaped (MList l)
  | Sh_dict : forall l, NoDup (map fst l) -> Forall (fun kv => shaped (snd kv)) l -> shaped (MDict l)
  | Sh_model : forall c c0 fs, lookup_cls SC c = Some c0 -> map fst fs = map f_name (c_fields c0) ->
                               Forall (fun kv => shaped (snd kv)) fs -> shaped (MModel c fs).

  Inductive kwf : mval -> Prop :=
  | K_leaf : forall v, leaf v = true -> kwf v
  | K_list : forall l, Forall kwf l -> kwf (MList l)
  | K_dict : forall l, NoDup (map fst l) -> Forall (fun kv => kwf (snd kv)) l -> kwf (MDict l)
  | K_model : forall c fs, NoDup (map (fun fv => akey c (fst fv)) fs) ->
                           Forall (fun kv => kwf (snd kv)) fs -> kwf (MModel c fs).

  Lemma kwf_list_inv : forall l, kwf (MList l) -> Forall kwf l.
  Proof. intros l H. inversion H as [v Hl| | |]; subst; [discriminate Hl|assumption]. Qed.

  Lemma kwf_dict_inv : forall l, kwf (MDict l) -> NoDup (map fst l) /\ Forall (fun kv => kwf (snd kv)) l.
  Proof. intros l H. inversion H as [v Hl| | |]; subst; [discriminate Hl|split; assumption]. Qed.

  Lemma kwf_model_inv : forall c fs, kwf (MModel c fs) ->
    NoDup (map (fun fv => akey c (fst fv)) fs) /\ Forall (fun kv => kwf (snd kv)) fs.
  Proof. intros c fs H. inversion H as [v Hl| | |]; subst; [discriminate Hl|split; assumption]. Qed.

  (* ---------------------------------------------------------------- export *)
  Lemma dict_kept : forall (g : mval -> json) (kv : str * mval),
    match snd kv with MNone => [] | _ => [(fst kv, g (snd kv))] end = [] \/
    exists b : str * json, match snd kv with MNone => [] | _ => [(fst kv, g (snd kv))] end = [b] /\ fst b = fst kv.
  Proof. intros g [k v]. cbn [snd fst]. destruct v; [left; reflexivity|right; eexists; split; reflexivity ..]. Qed.

  Lemma model_kept : forall c (g : string * mval -> json) (fv : string * mval),
    match snd fv with MNone => [] | _ => [(akey c (fst fv), g fv)] end = [] \/
    exists b : str * json, match snd fv with MNone => [] | _ => [(akey c (fst fv), g fv)] end = [b] /\ fst b = akey c (fst fv).
  Proof. intros c g [k v]. cbn [snd fst]. destruct v; [left; reflexivity|right; eexists; split; reflexivity ..]. Qed.

  Lemma in_dict_members : forall (g : mval -> json) (l : list (str * mval)) kv,
    In kv (flat_map (fun kv : str * mval => match snd kv with MNone => [] | _ => [(fst kv, g (snd kv))] end) l) ->
    exists x, In (fst kv, x) l /\ snd kv = g x.
  Proof.
    intros g l kv H. apply in_flat_map in H. destruct H as [[k v] [Hin H]]. cbn [snd fst] in H.
    destruct v; [destruct H|..]; destruct H as [<-|[]]; cbn [fst snd]; eexists; (split; [exact Hin|reflexivity]).
  Qed.

  Lemma in_model_members : forall c (g : string * mval -> json) (l : list (string * mval)) kv,
    In kv (flat_map (fun fv : string * mval => match snd fv with MNone => [] | _ => [(akey c (fst fv), g fv)] end) l) ->
    exists fv, In fv l /\ snd kv = g fv.
  Proof.
    intros c g l kv H. apply in_flat_map in H. destruct H as [[k v] [Hin H]]. cbn [snd fst] in H.
    destruct v; [destruct H|..]; destruct H as [<-|[]]; cbn [fst snd]; eexists; (split; [exact Hin|reflexivity]).
  Qed.

  Lemma tobj_model : forall c fs,
    tobj SC (MModel c fs) = JObj (flat_map (fun fv : string * mval => match snd fv with
                                                                       | MNone => []
                                                                       | _ => [(akey c (fst fv), (fun fv => tobj SC (snd fv)) fv)]
                                                                       end) fs).
  Proof. reflexivity. Qed.

  Lemma jobj_model' : forall c fs,
    jobj SC (MModel c fs) = JObj (flat_map (fun fv : string * mval => match snd fv with
                                                                       | MNone => []
                                                                       | _ => [(akey c (fst fv), (fun fv => jval SC (fst fv) (snd fv)) fv)]
                                                                       end) fs).
  Proof. reflexivity. Qed.

  Lemma tobj_dict : forall l,
    tobj SC (MDict l) = JObj (flat_map (fun kv : str * mval => match snd kv with MNone => [] | _ => [(fst kv, tobj SC (snd kv))] end) l).
  Proof. reflexivity. Qed.

  Lemma jobj_dict : forall l,
    jobj SC (MDict l) = JObj (flat_map (fun kv : str * mval => match snd kv with MNone => [] | _ => [(fst kv, jobj SC (snd kv))] end) l).
  Proof. reflexivity. Qed.

  Theorem kwf_tobj : forall v, kwf v -> distinct_keys (tobj SC v) = true.
  Proof.
    induction v as [ | | | | | | |l IH|l IH|c fs IH] using mval_ind3; intros H; try reflexivity.
    - apply kwf_list_inv in H. cbn [tobj distinct_keys]. rewrite forallb_forall. intros y Hy. apply in_map_iff in Hy.
      destruct Hy as [x [<- Hx]]. rewrite Forall_forall in IH, H. exact (IH x Hx (H x Hx)).
    - apply kwf_dict_inv in H. destruct H as [Hnd Hv]. rewrite tobj_dict. cbn [distinct_keys]. apply andb_true_iff. split.
      + apply NoDup_str_nodupb. apply (kept_keys_NoDup _ _ fst fst); [exact (dict_kept (tobj SC))|exact Hnd].
      + rewrite forallb_forall. intros kv Hkv. apply in_dict_members in Hkv. destruct Hkv as [x [Hin ->]].
        rewrite Forall_forall in IH, Hv. exact (IH _ Hin (Hv _ Hin)).
    - apply kwf_model_inv in H. destruct H as [Hnd Hv]. rewrite tobj_model. cbn [distinct_keys]. apply andb_true_iff. split.
      + apply NoDup_str_nodupb.
        apply (kept_keys_NoDup _ _ (fun fv : string * mval => akey c (fst fv)) fst); [exact (model_kept c _)|exact Hnd].
      + rewrite forallb_forall. intros kv Hkv. apply in_model_members in Hkv. destruct Hkv as [fv [Hin ->]].
        rewrite Forall_forall in IH, Hv. exact (IH _ Hin (Hv _ Hin)).
  Qed.

  Lemma kwf_coerce : forall i, kwf i -> kwf (coerce_range_item i).
  Proof. intros i H. destruct i; try exact H; apply K_leaf; reflexivity. Qed.

  Theorem kwf_jobj : forall v, kwf v -> distinct_keys (jobj SC v) = true.
  Proof.
    induction v as [ | | | | | | |l IH|l IH|c fs IH] using mval_ind3; intros H; try reflexivity.
    - apply kwf_list_inv in H. cbn [jobj distinct_keys]. rewrite forallb_forall. intros y Hy. apply in_map_iff in Hy.
      destruct Hy as [x [<- Hx]]. rewrite Forall_forall in IH, H. exact (IH x Hx (H x Hx)).
    - apply kwf_dict_inv in H. destruct H as [Hnd Hv]. rewrite jobj_dict. cbn [distinct_keys]. apply andb_true_iff. split.
      + apply NoDup_str_nodupb. apply (kept_keys_NoDup _ _ fst fst); [exact (dict_kept (jobj SC))|exact Hnd].
      + rewrite forallb_forall. intros kv Hkv. apply in_dict_members in Hkv. destruct Hkv as [x [Hin ->]].
        rewrite Forall_forall in IH, Hv. exact (IH _ Hin (Hv _ Hin)).
    - apply kwf_model_inv in H. destruct H as [Hnd Hv]. rewrite jobj_model'. cbn [distinct_keys]. apply andb_true_iff. split.
      + apply NoDup_str_nodupb.
        apply (kept_keys_NoDup _ _ (fun fv : string * mval => akey c (fst fv)) fst); [exact (model_kept c _)|exact Hnd].
      + rewrite forallb_forall. intros kv Hkv. apply in_model_members in Hkv. destruct Hkv as [[n x] [Hin ->]].
        rewrite Forall_forall in IH, Hv. specialize (IH _ Hin). specialize (Hv _ Hin). cbn [fst snd] in *.
        unfold jval. destruct (String.eqb n "range"); [|exact (IH Hv)].
        destruct x as [ | | | | | | |items| | ]; try exact (kwf_tobj _ Hv).
        apply kwf_list_inv in Hv. cbn [distinct_keys]. rewrite forallb_forall. intros y Hy. apply in_map_iff in Hy.
        destruct Hy as [i [<- Hi]]. unfold range_item. apply kwf_tobj. apply kwf_coerce.
        rewrite Forall_forall in Hv. exact (Hv i Hi).
  Qed.

  (* ---------------------------------------------------------------- the schema condition *)
  Definition renamed (j : jcm) (n : string) : string := match lookup_s n (j_rename j) with Some t => t | None => n end.

  Definition out_core (j : jcm) (ns : list string) : list string :=
    flat_map (fun n => if mem_s n (j_exclude j) then [] else [renamed j n]) ns.

  Definition out_names (j : jcm) (ns : list string) : list string :=
    out_core j ns ++ (if j_adds_value j then ["value"] else []).

  Definition targets (j : jcm) (c : string) : list string :=
    match j_create_as j with
    | CreateSelf => [c]
    | CreateModel t => [t]
    | CreateIntRange a b => [a; b]
    end.

  Definition cls_keys_ok (nc : string * cls) : bool :=
    let j := c_jcm (snd nc) in
    let ns := map f_name (c_fields (snd nc)) in
    str_nodupb (map (akey (fst nc)) ns) &&
    forallb (fun t => str_nodupb (map (akey t) (out_names j ns))) (targets j (fst nc)).

  Definition schema_keys_ok : bool := forallb cls_keys_ok SC.

  Hypothesis Hschema : schema_keys_ok = true.

  Lemma cls_keys_of : forall c c0, lookup_cls SC c = Some c0 ->
    NoDup (map (akey c) (map f_name (c_fields c0))) /\
    forall t, In t (targets (c_jcm c0) c) -> NoDup (map (akey t) (out_names (c_jcm c0) (map f_name (c_fields c0)))).
  Proof.
    intros c c0 Hl. apply lookup_cls_In in Hl. unfold schema_keys_ok in Hschema. rewrite forallb_forall in Hschema.
    specialize (Hschema _ Hl). unfold cls_keys_ok in Hschema. cbn [fst snd] in Hschema.
    apply andb_true_iff in Hschema. destruct Hschema as [H1 H2]. split; [apply str_nodupb_NoDup; exact H1|].
    intros t Ht. rewrite forallb_forall in H2. apply str_nodupb_NoDup. exact (H2 t Ht).
  Qed.

  Theorem shaped_kwf : forall v, shaped v -> kwf v.
  Proof.
    induction v as [ | | | | | | |l IH|l IH|c fs IH] using mval_ind3; intros H; try (apply K_leaf; reflexivity).
    - inversion H as [v Hl|l' HF| |]; subst; [discriminate Hl|]. apply K_list. rewrite Forall_forall in *.
      intros x Hx. exact (IH x Hx (HF x Hx)).
    - inversion H as [v Hl| |l' Hnd HF|]; subst; [discriminate Hl|]. apply K_dict; [exact Hnd|]. rewrite Forall_forall in *.
      intros x Hx. exact (IH x Hx (HF x Hx)).
    - inversion H as [v Hl| | |c' c0 fs' Hlk Hn HF]; subst; [discriminate Hl|]. apply K_model.
      + rewrite <- (map_map fst (akey c)). rewrite Hn. exact (proj1 (cls_keys_of c c0 Hlk)).
      + rewrite Forall_forall in *. intros x Hx. exact (IH x Hx (HF x Hx)).
  Qed.

  (* ---------------------------------------------------------------- decode *)
  Section Decode.
    Variable classify : N -> cclass.
    Variable pre : string -> json -> bool.
    Variable post : string -> json -> list (string * mval) -> bool.
    Notation pk := (parse_kind SC classify pre post).
    Notation pc := (parse_cls SC classify pre post).

    Lemma list_items_shaped : forall f lo hi k v x,
      (forall k v x, pk f k v = Ok x -> distinct_keys v = true -> shaped x) ->
      list_items (pk f) lo hi k v = Ok x -> distinct_keys v = true -> shaped x.
    Proof.
      intros f lo hi k v x IHk H Hd. unfold list_items in H. destruct v as [| | | | |items|]; try discriminate H.
      destruct (len_ok_n lo hi (List.length items)); [|discriminate H].
      destruct (mapM (pk f k) items) as [l|e] eqn:Em; cbn [bind] in H; [|discriminate H]. injection H as <-.
      apply Sh_list. apply Forall_forall. intros y Hy.
      destruct (mapM_ok_in _ _ _ _ _ Em y Hy) as [it [Hit Hp]]. exact (IHk k it y Hp (dk_item items it Hd Hit)).
    Qed.

    Lemma dict_entries_keys : forall f kk k members l,
      mapM (dict_entry (pk f) kk k) members = Ok l -> map fst l = map fst members.
    Proof.
      intros f kk k members. induction members as [|[k0 v0] r IH]; intros l H.
      - injection H as <-. reflexivity.
      - apply mapM_cons_ok in H. destruct H as [y [ys [Hy [Hr ->]]]]. cbn [map]. rewrite (IH ys Hr). f_equal.
        unfold dict_entry in Hy. cbn [fst snd] in Hy.
        destruct (pk f kk (JStr k0)) as [y1|e1]; cbn [bind] in Hy; [|discriminate Hy].
        destruct (pk f k v0) as [y2|e2]; cbn [bind] in Hy; [|discriminate Hy]. injection Hy as <-. reflexivity.
    Qed.

    Lemma parse_value_shaped : forall f fl raw x,
      (forall k v x, pk f k v = Ok x -> distinct_keys v = true -> shaped x) ->
      parse_value (pk f) fl raw = Ok x -> distinct_keys raw = true -> shaped x.
    Proof.
      intros f fl raw x IHk H Hd. unfold parse_value in H.
      assert (K : match f_shape fl with
                  | Single => pk f (f_kind fl) raw
                  | ListOf minl maxl => list_items (pk f) minl maxl (f_kind fl) raw
                  | DictOf kk =>
                    match raw with
                    | JObj members => do l' <- mapM (dict_entry (pk f) kk (f_kind fl)) members; Ok (MDict l')
                    | _ => reject
                    end
                  end = Ok x -> shaped x).
      { clear H. intros H. destruct (f_shape fl) as [|lo hi|kk].
        - exact (IHk _ _ _ H Hd).
        - exact (list_items_shaped f lo hi _ _ _ IHk H Hd).
        - destruct raw as [| | | | | |members]; try discriminate H.
          destruct (mapM (dict_entry (pk f) kk (f_kind fl)) members) as [l'|e] eqn:Em; cbn [bind] in H; [|discriminate H].
          injection H as <-. destruct (dk_members members Hd) as [Hnd Hv]. apply Sh_dict.
          + rewrite (dict_entries_keys f kk _ members l' Em). exact Hnd.
          + apply Forall_forall. intros kv' Hkv'. destruct (mapM_ok_in _ _ _ _ _ Em kv' Hkv') as [[k0 v0] [Hin Hx]].
            unfold dict_entry in Hx. cbn [fst snd] in Hx.
            destruct (pk f kk (JStr k0)) as [y1|e1]; cbn [bind] in Hx; [|discriminate Hx].
            destruct (pk f (f_kind fl) v0) as [y2|e2] eqn:E2; cbn [bind] in Hx; [|discriminate Hx].
            injection Hx as <-. cbn [snd]. exact (IHk _ _ _ E2 (Hv _ _ Hin)). }
      destruct raw; try (apply K; exact H).
      destruct (f_required fl); [discriminate H|]. injection H as <-. apply Sh_leaf. reflexivity.
    Qed.

    Lemma parse_fields_names : forall pkf ms fls fields,
      mapM (parse_field pkf ms) fls = Ok fields -> map fst fields = map f_name fls.
    Proof.
      intros pkf ms fls. induction fls as [|fl r IH]; intros fields H.
      - injection H as <-. reflexivity.
      - apply mapM_cons_ok in H. destruct H as [y [ys [Hy [Hr ->]]]]. cbn [map]. rewrite (IH ys Hr). f_equal.
        unfold parse_field in Hy. destruct (parse_value pkf fl (field_raw ms fl)); cbn [bind] in Hy; [|discriminate Hy].
        injection Hy as <-. reflexivity.
    Qed.

    Lemma dk_field_raw : forall ms fl, distinct_keys (JObj ms) = true -> distinct_keys (field_raw ms fl) = true.
    Proof.
      intros ms fl H. unfold field_raw. destruct (assoc (str_of_string (f_alias fl)) ms) as [v|] eqn:E; [|reflexivity].
      apply assoc_some_in in E. exact (proj2 (dk_members ms H) _ _ E).
    Qed.

    Theorem decode_shaped : forall f,
      (forall k v x, pk f k v = Ok x -> distinct_keys v = true -> shaped x) /\
      (forall c v x, pc f c v = Ok x -> distinct_keys v = true -> shaped x).
    Proof.
      induction f as [|f [IHk IHc]].
      - split; intros a v x H; discriminate H.
      - split.
        + intros k v x H Hd. rewrite parse_kind_S in H.
          destruct k as [lit|members|strict lo hi cs|c lo hi cs|strict|strict ge le gt|gt| |c|key mp|alts];
            try (apply Sh_leaf; apply leaf_of_scalar; exact (parse_scalar_ok_scalar _ _ _ _ H)).
          * exact (IHc c v x H Hd).
          * unfold disc_res in H. destruct v as [| | | | | |ms]; try discriminate H.
            destruct (assoc (str_of_string key) ms) as [[| | | |s| |]|]; try discriminate H.
            destruct (List.find _ mp) as [[k' c']|]; [|discriminate H]. exact (IHc c' _ x H Hd).
          * apply (try_alts_ok SC classify pre post) in H. destruct H as [a [_ Hr]].
            destruct a as [k'|lo hi k']; cbn [alt_res] in Hr.
            -- exact (IHk k' v x Hr Hd).
            -- exact (list_items_shaped f lo hi k' v x IHk Hr Hd).
        + intros c v x H Hd.
          destruct (pc_inv _ _ _ _ _ _ _ _ H) as [f' [c0 [ms [fields [Ef [Hlk [-> [-> [_ [_ [Hm _]]]]]]]]]]].
          injection Ef as <-. apply (Sh_model c c0 fields Hlk (parse_fields_names _ _ _ _ Hm)).
          apply Forall_forall. intros kv Hkv. destruct (mapM_ok_in _ _ _ _ _ Hm kv Hkv) as [fl [_ Hp]].
          apply parse_field_inv in Hp. destruct Hp as [y [-> Hv]]. cbn [snd].
          exact (parse_value_shaped f fl _ y IHk Hv (dk_field_raw ms fl Hd)).
    Qed.
  End Decode.

  (* ---------------------------------------------------------------- instantiate *)
  Lemma dict_set_keys_in : forall d k v x, In x (map fst (dict_set d k v)) -> x = k \/ In x (map fst d).
  Proof.
    intros d k v x H. apply in_map_iff in H. destruct H as [kv [<- Hkv]]. apply dict_set_in in Hkv.
    destruct Hkv as [->|Hkv]; [left; reflexivity|right; apply in_map; exact Hkv].
  Qed.

  Lemma dict_set_NoDup : forall d k v, NoDup (map fst d) -> NoDup (map fst (dict_set d k v)).
  Proof.
    induction d as [|[k' v'] r IH]; intros k v H.
    - cbn [dict_set map fst]. constructor; [intros []|constructor].
    - cbn [map fst] in H. inversion H as [|a l Hn Hd]; subst. cbn [dict_set]. destruct (str_eqb k k') eqn:E.
      + apply je_str_eqb_eq in E. subst k'. cbn [map fst]. constructor; assumption.
      + cbn [map fst]. constructor; [|exact (IH k v Hd)]. intros Hin. apply dict_set_keys_in in Hin.
        destruct Hin as [->|Hin]; [rewrite je_str_eqb_refl in E; discriminate E|exact (Hn Hin)].
  Qed.

  Section Inst.
    Variable resolve : symtab -> str -> outcome str.
    Variable sigma : symtab.
    Variable rec : mval -> outcome mval.
    Hypothesis Hrec : forall v y, shaped v -> rec v = Ok y -> kwf y.
    Variable j : jcm.

    Lemma inst_item_kwf : forall fn x y, shaped x -> inst_item resolve sigma rec j fn x = Ok y -> kwf y.
    Proof.
      intros fn x y Hs H. destruct x; cbn [inst_item] in H; try (injection H as <-; apply shaped_kwf; exact Hs).
      - destruct (mem_s fn (j_resolve j)); [|injection H as <-; apply K_leaf; reflexivity].
        destruct (resolve sigma s); cbn [bind] in H; [injection H as <-; apply K_leaf; reflexivity|discriminate H].
      - exact (Hrec _ _ Hs H).
    Qed.

    Lemma inst_member_kwf : forall kv kv', shaped (snd kv) -> inst_member resolve sigma rec j kv = Ok kv' ->
      fst kv' = fst kv /\ kwf (snd kv').
    Proof.
      intros [k x] kv' Hs H. unfold inst_member in H. cbn [fst snd] in *.
      destruct x; cbn [bind] in H; try (injection H as <-; split; [reflexivity|apply shaped_kwf; exact Hs]).
      - destruct (existsb _ (j_resolve j)); cbn [bind] in H; [|injection H as <-; split; [reflexivity|apply K_leaf; reflexivity]].
        destruct (resolve sigma s); cbn [bind] in H; [injection H as <-; split; [reflexivity|apply K_leaf; reflexivity]|discriminate H].
      - destruct (rec (MModel cls fields)) as [y|e] eqn:Er; cbn [bind] in H; [|discriminate H].
        injection H as <-. split; [reflexivity|exact (Hrec _ _ Hs Er)].
    Qed.

    Lemma reshape_fold_kwf : forall fn kf items acc d,
      Forall shaped items -> NoDup (map fst acc) -> Forall (fun kv => kwf (snd kv)) acc ->
      fold_left (reshape_step resolve sigma rec j fn kf) items (Ok acc) = Ok d ->
      NoDup (map fst d) /\ Forall (fun kv => kwf (snd kv)) d.
    Proof.
      intros fn kf items. induction items as [|it r IH]; intros acc d Hs Hnd Hv H.
      - cbn [fold_left] in H. injection H as <-. split; assumption.
      - cbn [fold_left] in H. inversion Hs as [|a l Hs1 Hs2]; subst.
        destruct (reshape_step resolve sigma rec j fn kf (Ok acc) it) as [acc'|e] eqn:Es.
        + unfold reshape_step in Es. cbn [bind] in Es.
          destruct (key_of it kf) as [k|e]; cbn [bind] in Es; [|discriminate Es].
          destruct (inst_item resolve sigma rec j fn it) as [y|e] eqn:Ei; cbn [bind] in Es; [|discriminate Es].
          injection Es as <-. apply (IH (dict_set acc k y) d Hs2); [apply dict_set_NoDup; exact Hnd| |exact H].
          apply Forall_forall. intros kv Hkv. apply dict_set_in in Hkv. destruct Hkv as [->|Hkv].
          * cbn [snd]. exact (inst_item_kwf fn it y Hs1 Ei).
          * rewrite Forall_forall in Hv. exact (Hv kv Hkv).
        + exfalso. clear - H. induction r as [|it' r IH]; [discriminate H|]. cbn [fold_left] in H. apply IH. exact H.
    Qed.

    Lemma inst_val_kwf : forall fn x y, shaped x -> inst_val resolve sigma rec j fn x = Ok y -> kwf y.
    Proof.
      intros fn x y Hs H. destruct x as [ | | | | | | |items|members|c fs]; try exact (inst_item_kwf fn _ y Hs H).
      - inversion Hs as [v Hl|l HF| |]; subst; [discriminate Hl|]. cbn [inst_val] in H.
        destruct (lookup_s fn (j_reshape j)) as [kf|].
        + destruct (fold_left _ items (Ok [])) as [d|e] eqn:Ef; cbn [bind] in H; [|discriminate H]. injection H as <-.
          destruct (reshape_fold_kwf fn kf items [] d HF (NoDup_nil _) (Forall_nil _) Ef) as [H1 H2].
          apply K_dict; assumption.
        + destruct (mapM _ items) as [l|e] eqn:Em; cbn [bind] in H; [|discriminate H]. injection H as <-.
          apply K_list. apply Forall_forall. intros y Hy. destruct (mapM_in_ok _ _ _ _ _ Em y Hy) as [x [Hx Hf]].
          rewrite Forall_forall in HF. exact (inst_item_kwf fn x y (HF x Hx) Hf).
      - inversion Hs as [v Hl| |l Hnd HF|]; subst; [discriminate Hl|]. cbn [inst_val] in H.
        destruct (mapM _ members) as [l|e] eqn:Em; cbn [bind] in H; [|discriminate H]. injection H as <-.
        rewrite Forall_forall in HF. apply K_dict.
        + assert (E : map fst l = map fst members).
          { clear Hnd Hs. revert l Em HF. induction members as [|kv r IH]; intros l Em HF.
            - injection Em as <-. reflexivity.
            - apply mapM_cons_ok in Em. destruct Em as [y [ys [Hy [Hr ->]]]]. cbn [map].
              rewrite (IH ys Hr (fun kv' Hkv' => HF kv' (or_intror Hkv'))). f_equal.
              exact (proj1 (inst_member_kwf kv y (HF kv (or_introl eq_refl)) Hy)). }
          rewrite E. exact Hnd.
        + apply Forall_forall. intros kv' Hkv'. destruct (mapM_in_ok _ _ _ _ _ Em kv' Hkv') as [kv [Hkv Hf]].
          exact (proj2 (inst_member_kwf kv kv' (HF kv Hkv) Hf)).
    Qed.

    Lemma inst_fields_out : forall fields fss,
      mapM (inst_field resolve sigma rec j) fields = Ok fss -> Forall (fun kv => shaped (snd kv)) fields ->
      map fst (List.concat fss) = out_core j (map fst fields) /\ Forall (fun kv => kwf (snd kv)) (List.concat fss).
    Proof.
      induction fields as [|[fn x] r IH]; intros fss H Hs.
      - injection H as <-. split; [reflexivity|constructor].
      - apply mapM_cons_ok in H. destruct H as [y [ys [Hy [Hr ->]]]]. inversion Hs as [|a l Hs1 Hs2]; subst.
        destruct (IH ys Hr Hs2) as [IH1 IH2]. cbn [List.concat map fst]. unfold out_core in *. cbn [flat_map].
        rewrite map_app, IH1. unfold inst_field in Hy.
        destruct (mem_s fn (j_exclude j)).
        + injection Hy as <-. split; [reflexivity|exact IH2].
        + destruct (inst_val resolve sigma rec j fn x) as [y0|e] eqn:Ev; cbn [bind] in Hy; [|discriminate Hy].
          injection Hy as <-. split; [reflexivity|]. cbn [app]. constructor; [|exact IH2].
          cbn [snd] in *. exact (inst_val_kwf fn x y0 Hs1 Ev).
    Qed.
  End Inst.

  Theorem inst_kwf : forall resolve sigma f v y, shaped v -> inst SC resolve sigma f v = Ok y -> kwf y.
  Proof.
    intros resolve sigma. induction f as [|f IH]; intros v y Hs H; [rewrite inst_O in H; discriminate H|].
    rewrite inst_S in H. destruct v as [ | | | | | | | | |c fields]; try (injection H as <-; apply shaped_kwf; exact Hs).
    inversion Hs as [v Hl| | |c' c0 fs' Hlk Hn HF]; subst; [discriminate Hl|].
    assert (Ej : jcm_of SC c = c_jcm c0) by (unfold jcm_of; rewrite Hlk; reflexivity).
    rewrite Ej in H. set (j := c_jcm c0) in *.
    unfold inst_model in H.
    destruct (mapM _ fields) as [fss|e] eqn:Em; cbn [bind] in H; [|discriminate H].
    destruct (add_value sigma j fields (List.concat fss)) as [fs'|e] eqn:Ea; cbn [bind] in H; [|discriminate H].
    injection H as <-.
    destruct (inst_fields_out resolve sigma (inst SC resolve sigma f) IH j fields fss Em HF) as [Hnames Hvals].
    assert (Hout : map fst fs' = out_names j (map fst fields) /\ Forall (fun kv => kwf (snd kv)) fs').
    { unfold add_value in Ea. unfold out_names. destruct (j_adds_value j).
      - destruct (mfield "name" fields) as [ | | | | |n| | | | ]; try discriminate Ea.
        destruct (st_lookup sigma _); [|discriminate Ea]. injection Ea as <-. split.
        + rewrite map_app, Hnames. reflexivity.
        + apply Forall_app. split; [exact Hvals|]. constructor; [apply K_leaf; reflexivity|constructor].
      - injection Ea as <-. rewrite app_nil_r. split; assumption. }
    destruct Hout as [Hout1 Hout2]. apply K_model; [|exact Hout2].
    rewrite <- (map_map fst (akey _)). rewrite Hout1, Hn.
    apply (proj2 (cls_keys_of c c0 Hlk)). fold j. unfold target_class, targets.
    destruct (j_create_as j) as [|t|a b]; [left; reflexivity|left; reflexivity|].
    destruct (mfield "range" fields); try (right; left; reflexivity). left. reflexivity.
  Qed.
End Keys.

(* ------------------------------------------------------------------ the live schema *)
Notation G := Generated.schema.

Lemma live_schema_keys_ok : schema_keys_ok G = true.
Proof. vm_compute. reflexivity. Qed.

Theorem decoded_job_shaped : forall classify j t, decode_job classify j = Ok t -> distinct_keys j = true -> shaped G t.
Proof.
  intros classify j t H Hd. unfold decode_job in H. destruct j as [| | | | | |ms]; try discriminate H.
  destruct (version_ok Generated.job_template_versions (JObj ms)); [|discriminate H].
  unfold parse_template, parse_root in H.
  exact (proj2 (decode_shaped G classify pre_hook (post_hook classify) _) _ _ _ H Hd).
Qed.

(* the object form of the Job the instantiation model builds has pairwise distinct keys in every object *)
Theorem model_job_distinct_keys : forall classify resolve j t vals job,
  decode_job classify j = Ok t -> distinct_keys j = true ->
  create_job_object G resolve vals t = Ok job -> distinct_keys job = true.
Proof.
  intros classify resolve j t vals job Hdec Hd H. unfold create_job_object in H. cbv zeta in H.
  destruct (inst G resolve (symtab_of vals) (S (mval_depth t)) t) as [y|e] eqn:Ei; cbn [bind] in H; [|discriminate H].
  assert (E : job = to_object G (S (S (S (mval_depth t)))) (coerce_job (S (mval_depth t)) y))
    by (injection H; intros <-; reflexivity).
  pose proof (inst_depth G resolve (symtab_of vals) _ _ _ Ei) as Hdy.
  rewrite E. rewrite to_object_coerce_jobj by lia. apply kwf_jobj.
  exact (inst_kwf G live_schema_keys_ok resolve (symtab_of vals) _ t y (decoded_job_shaped classify j t Hdec Hd) Ei).
Qed.
