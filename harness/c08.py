"""C08 — a range expression denotes exactly the integers it spells out."""
import itertools
import random
import re
import sys
from pathlib import Path

sys.path.insert(0, str(Path(__file__).resolve().parent))
import core  # noqa: E402

from openjd.model import IntRangeExpr  # noqa: E402
from openjd.model._errors import ExpressionError  # noqa: E402

EXTRA_CHARS = " 　٣é² "
BLANKS = [" ", "\t", "\n", " ", "　", "  ", "\r\n"]


def exn_family(e: BaseException) -> str:
    if isinstance(e, ExpressionError):
        return "ExpressionError"
    return type(e).__name__


def model_family(name: str) -> str:
    return "ExpressionError" if name in ("ExpressionError", "TokenError") else name


def elem_str(a, b=None, s=None):
    if b is None:
        return f"{a}"
    if s is None:
        return f"{a}-{b}"
    return f"{a}-{b}:{s}"


def single_elements(lo, hi, smax):
    for a in range(lo, hi + 1):
        yield elem_str(a)
        for b in range(lo, hi + 1):
            yield elem_str(a, b)
            for s in range(-smax, smax + 1):
                yield elem_str(a, b, s)


def pair_elements(lo, hi):
    els = []
    for a in range(lo, hi + 1):
        els.append(elem_str(a))
        for b in range(lo, hi + 1):
            els.append(elem_str(a, b))
            for s in (-3, -2, -1, 1, 2, 3):
                els.append(elem_str(a, b, s))
    return els


def rand_elem(rng, lo, hi):
    a = rng.randint(lo, hi)
    k = rng.random()
    if k < 0.2:
        return elem_str(a)
    s = rng.choice([1, 1, 2, 2, 3, 4, 5, -1, -2, -3])
    n = rng.randint(0, 6)
    off = rng.choice([0, 0, 1, 2]) if abs(s) > 1 else 0   # written end off the step grid
    b = a + s * n + (off if s > 0 else -off)
    if k < 0.45 and s == 1:
        return elem_str(a, b)
    if rng.random() < 0.08:
        s = -s  # wrong sign
    if rng.random() < 0.03:
        s = 0
    return elem_str(a, b, s)


def rand_list(rng):
    """3-6 elements biased to adjacent / grid-misaligned / overlapping neighbours."""
    n = rng.randint(2, 6)
    out = []
    cur = rng.randint(-12, 5)
    for _ in range(n):
        s = rng.choice([1, 1, 2, 2, 3, -1, -2])
        cnt = rng.randint(0, 5)
        off = rng.choice([0, 0, 0, 1, 2]) if abs(s) > 1 else 0
        if s > 0:
            a, b = cur, cur + s * cnt + off
            hi = b
        else:
            b, a = cur - (0 if rng.random() < 0.7 else off), cur + (-s) * cnt
            hi = a
        if cnt == 0 and rng.random() < 0.5:
            out.append(elem_str(a))
            hi = a
        elif s == 1 and rng.random() < 0.5:
            out.append(elem_str(a, b))
        else:
            out.append(elem_str(a, b, s))
        gap = rng.choice([abs(s), abs(s), 1, 1, 2, 3, 0, -1])   # next start relative to this hull
        cur = hi + gap
    rng.shuffle(out) if rng.random() < 0.5 else None
    return ",".join(out)


def mutate(rng, s: str) -> str:
    toks = list(s)
    k = rng.random()
    pool = list("0123456789-:, ") + ["\t", "\n", "x", "_", ".", "*", "+", "٣", "é", "²", " ", "　", "--", ",,", "::"]
    if not toks:
        return rng.choice(pool)
    i = rng.randrange(len(toks))
    if k < 0.25:
        del toks[i]
    elif k < 0.5:
        toks.insert(i, rng.choice(pool))
    elif k < 0.65:
        toks[i] = rng.choice(pool)
    elif k < 0.8:
        j = rng.randrange(len(toks))
        toks[i], toks[j] = toks[j], toks[i]
    else:
        toks.insert(i, toks[i])
    return "".join(toks)


_DIGITS = re.compile(r"[0-9]+")
DIGIT_BUDGET = 14


def digit_cost(s: str) -> int:
    """Number of digits that continue a number.  The extracted lexer model of the shared Lexer.v
    evaluates its `start` binding eagerly under OCaml, so its running time doubles with every such
    digit (a cost, not a semantic, issue); generators keep this count bounded."""
    return sum(len(m.group()) - 1 for m in _DIGITS.finditer(s))


def cap_digits(s: str, budget: int = DIGIT_BUDGET) -> str:
    """Keep ASCII digit runs <= 5 (an accepted element then has at most 10^5 values, which both
    sides enumerate) and the total digit_cost <= budget (later numbers are cut to one digit)."""
    left = [budget]

    def cut(m):
        run = m.group()[:5]
        keep = min(len(run) - 1, left[0])
        left[0] -= keep
        return run[: 1 + keep]

    return _DIGITS.sub(cut, s)


def with_blanks(rng, s: str) -> str:
    out = []
    for ch in s:
        if rng.random() < 0.3 and not ch.isdigit():
            out.append(rng.choice(BLANKS))
        out.append(ch)
        if rng.random() < 0.2 and not ch.isdigit():
            out.append(rng.choice(BLANKS))
    if rng.random() < 0.3:
        out.insert(0, rng.choice(BLANKS))
    if rng.random() < 0.3:
        out.append(rng.choice(BLANKS))
    return "".join(out)


CORPUS = [
    "1-10:2,12-20:2", "5-3", "12--10,3", "1-10:2,11-20:2", "1-10:2,10", "0--0", "-0", "007", "1 2", "1,", ",1", "",
    " ", "1-", "1-2:", "1-2:0", "1-2:-1", "2-1:1", "2-1:-1", "5-5:-3", "5-5:0", "1-3,3-5", "1-3,4-6", "10-1:-3,0",
    "1-5:2,2-6:2", "1-5:2,6", "1-4:2,5-7:2", "3,1,2", "1 2", "1٣", "٣1", "a", "1-2-3", "1:2", "- 1", "--1", "1 - - 2",
    "1-2:3:4", "1,2,3,4,5,6,7,8", "-5--1", "-1--5:-1", "-1--5", "100-1:-7,101-200:7",
    # characters that mean something to whoever formats the error message
    "1-{5", "7}", "1,{2}", "3 {", "{{Param.X}}", "1-{{Param.N}}", "{", "}", "1%", "1-%s", "1,%d", "1-{0}", "1\\", "5-'", "2\x00", "1-3,{", "1-3,}",
]


class C08(core.PropBase):
    id = "C08"
    component = "range"
    extract_file = "ExtractRange.v"
    chars = EXTRA_CHARS
    uses_table = True
    chunk_size = 500
    theorem_for_mismatch = "C08_accept_iff / C08_denotation / C08_errors (model = implementation correspondence)"
    assumptions = [
        "Python int() on ASCII digit strings equals the decimal value",
        "classes \\s \\w \\d of the characters used are read from Python's re on every run; theorems assume only the ASCII table (ascii_ok, checked by the driver each run)",
        "CPython 3.12 as installed",
    ]

    # expressions with 2**63 values or more cannot be held by a Python container: they are outside the Coq
    # model's domain (it is unbounded) and are checked for the error FAMILY only: such an expression must be
    # rejected with ExpressionError (fix 4e7d04b), one just below the limit must be accepted
    HUGE = [("0-9223372036854775807", "ExpressionError"), ("-9223372036854775808-2", "ExpressionError"), ("1-9223372036854775807", "accepted"),
            ("1-9223372036854775807,-5--1", "ExpressionError"), ("9223372036854775807-0:-1", "ExpressionError"), ("0-18446744073709551616:2", "ExpressionError"),
            ("0-18446744073709551612:2", "accepted"), ("0-18446744073709551614:2", "ExpressionError"), ("5-5,0-9223372036854775807", "ExpressionError"),
            # numbers with more digits than CPython's int() reads (4300): refused, and refused as ExpressionError (fix 1f77c5b)
            ("9" * 4301, "ExpressionError"), ("-" + "9" * 4301, "ExpressionError"), ("1," + "9" * 4301, "ExpressionError"), ("1-" + "9" * 4301, "ExpressionError"),
            ("1-3:" + "1" * 4301, "ExpressionError"), ("9" * 4300, "accepted"), (" " * 5000 + "7", "accepted")]

    # ... and the same question after the PROCESS has changed how many digits int() reads (sys.set_int_max_str_digits, after
    # the package was imported): what is refused is refused as ExpressionError, and what int() can read now is accepted
    LIMITED = [(640, "9" * 640, "accepted"), (640, "9" * 641, "ExpressionError"), (640, "-" + "9" * 641, "ExpressionError"), (640, "1-" + "9" * 1000, "ExpressionError"),
               (640, "1-3:" + "1" * 641, "ExpressionError"), (640, "5," + "9" * 4300, "ExpressionError"), (640, "7", "accepted"),
               (0, "9" * 4301, "accepted"), (0, "-" + "9" * 5000, "accepted"), (0, "1" + "0" * 4300 + "-1" + "0" * 4299 + "5", "accepted"), (0, "1-3:" + "1" * 4301, "accepted"),
               (10000, "9" * 4301, "accepted"), (10000, "9" * 10001, "ExpressionError"), (4300, "9" * 4301, "ExpressionError")]

    def corpus_cases(self):
        return ([{"s": s} for s in CORPUS] + [{"s": s, "huge": want} for s, want in self.HUGE]
                + [{"s": s, "huge": want, "limit": lim} for lim, s, want in self.LIMITED])

    def cases(self, tier, seed):
        rng = random.Random(seed * 7919 + 8)
        thorough = tier == "thorough"
        # 1. every single element (exhaustive)
        for s in single_elements(-6, 6, 3):
            yield {"s": s}
        # 2. ordered pairs
        els = pair_elements(-3, 5) if thorough else pair_elements(-2, 4)
        n_pairs = len(els) ** 2
        quota = n_pairs if thorough else 30000
        if quota >= n_pairs:
            for x, y in itertools.product(els, els):
                yield {"s": x + "," + y}
        else:
            for _ in range(quota):
                yield {"s": rng.choice(els) + "," + rng.choice(els)}
        # 2b. call SEQUENCES in one process: a valid expression followed by look-alikes that differ only in blanks
        #     (between tokens: same meaning; inside a number: ungrammatical).  Each case is judged on its own, but a
        #     cache or other state kept between calls shows up on the second and third.
        for _ in range(6000 if thorough else 600):
            s0 = cap_digits(rand_list(rng))
            yield {"s": s0}
            yield {"s": with_blanks(rng, s0)}
            digits = [i for i in range(1, len(s0)) if s0[i].isdigit() and s0[i - 1].isdigit()]
            if digits:
                i = rng.choice(digits)
                yield {"s": s0[:i] + rng.choice(BLANKS) + s0[i:]}
            yield {"s": s0}
        # 3. random structured lists
        n = 60000 if thorough else 4000
        for _ in range(n):
            s = cap_digits(rand_list(rng))
            if rng.random() < 0.3:
                s = with_blanks(rng, s)
            yield {"s": s}
        # 4. malformed stream: mutations of structured lists
        for _ in range(60000 if thorough else 4000):
            s = rand_list(rng) if rng.random() < 0.7 else rand_elem(rng, -9, 9)
            for _ in range(rng.randint(1, 3)):
                s = mutate(rng, s)
            yield {"s": cap_digits(s)}

    def rule(self, tier):
        return ("corpus; every single element a | a-b | a-b:s with a,b in [-6,6], s in [-3,3] (exhaustive); "
                + ("all ordered pairs of elements over a,b in [-3,5], s in {+-1,+-2,+-3,none} (exhaustive)" if tier == "thorough" else "30k sampled ordered pairs over a,b in [-2,4]")
                + "; random 2-6 element lists biased to adjacent/misaligned/overlapping neighbours (30% with unicode blanks); token-level mutations. "
                "distinct = by input string; non-trivial = at least two elements or a step other than absent/1 or malformed")

    def exhaustive(self, tier):
        return False

    def samples(self, tier, seed):
        rng = random.Random(seed)
        return CORPUS[:4] + [rand_list(rng) for _ in range(4)] + [mutate(rng, rand_list(rng)) for _ in range(3)]

    def nontrivial(self, case):
        s = case["s"]
        return "," in s or ":" in s or not s.strip().lstrip("-").isdigit()

    def impl(self, case):
        if "limit" in case:
            old = sys.get_int_max_str_digits()
            sys.set_int_max_str_digits(case["limit"])
            try:
                return self._impl(case)
            finally:
                sys.set_int_max_str_digits(old)
        return self._impl(case)

    def _impl(self, case):
        try:
            r = IntRangeExpr.from_str(case["s"])
        except BaseException as e:  # noqa: BLE001
            return ["raise", exn_family(e)] if "huge" not in case else ["family", exn_family(e)]
        if "huge" in case:
            return ["family", "accepted"]
        vals = list(r)
        # the set the expression denotes, asked the other way round: `v in r` for every value and its neighbours
        valset = set(vals)
        probes = sorted(valset | {v + d for v in vals[:300] for d in (-1, 1)})[:900]
        try:
            wrong = [v for v in probes if (v in r) != (v in valset)]
        except BaseException as e:  # noqa: BLE001
            wrong = ["raise", type(e).__name__]
        if wrong:
            return ["ok", vals, ["`in` disagrees with iteration for", wrong[:10]]]
        return ["ok", vals]

    def requests(self, case):
        if "huge" in case:
            return []
        return [["from_str", False, False, core.cps(case["s"]), []]]

    def model_obs(self, case, replies):
        if "huge" in case:
            return ["family", case["huge"]]
        r = replies[0]
        if r[0] == "raise":
            return ["raise", model_family(r[1])]
        if r[0] == "ok":
            return ["ok", r[1][0]]
        return ["driver", r]

    def classify_case(self, case, obs):
        ks = [obs[0] if obs[0] == "ok" else "raise:" + obs[1]]
        if obs[0] == "ok":
            ks.append(f"ok_elements={min(case['s'].count(',') + 1, 6)}")
        return ks

    def spec_obs(self, case):
        drv = core.Driver(self.component)
        replies, _ = drv.ask([["spec", core.cps(case["s"])]], self.prelude())
        r = replies[0]
        if r == "none" or (isinstance(r, list) and r[0] == "raise"):
            return ["rejected (ExpressionError expected)"]
        return ["accepted; sorted values", r[1]]

    def shrink_candidates(self, case):
        if "huge" in case:
            return          # never hand a 2**63-value expression to the enumerating model
        s = case["s"]
        parts = s.split(",")
        if len(parts) > 1:
            for i in range(len(parts)):
                yield {"s": ",".join(parts[:i] + parts[i + 1:])}
        for i in range(len(s)):
            t = s[:i] + s[i + 1:]
            if t == cap_digits(t):
                yield {"s": t}


PROP = C08()

if __name__ == "__main__":
    sys.exit(core.main(PROP, sys.argv[1:]))
