(* ParamSpaceSpec.v — specification of property C07, written from the property text.

   The denotation of a combination tree is a list of task parameter sets:
     leaf               one binding per value of the range, in range order;
     '*'  (Prod)        row-major Cartesian product, right-most operand varies fastest;
     '(a, b, ...)'      element-wise union of equal-length operands;
   a missing combination is the product of all parameters in declaration order, and a step
   without a parameter space has exactly one, empty, task parameter set.
   [denote] is executable and is extracted as the spec oracle of the harness. *)
From Coq Require Import List NArith ZArith Bool.
Import ListNotations.
Require Import OJD.Base OJD.ParamSpace.

(* two dicts are the same task parameter set when every name reads the same *)
Definition env_equiv (a b : env) : Prop := forall n, lookup n a = lookup n b.
Infix "≈" := env_equiv (at level 70, no associativity).

(* leaf names, left to right *)
Fixpoint names (t : node) : list str :=
  match t with
  | Leaf n _ _ => [n]
  | Prod cs => flat_map names cs
  | Assoc cs => flat_map names cs
  end.

(* d x acc: every element of d paired with every element of acc, acc varies fastest *)
Definition cross (d acc : list env) : list env :=
  flat_map (fun a => map (fun b => a ++ b) acc) d.

Definition prodL (ds : list (list env)) : list env := fold_right cross [[]] ds.

(* element i is the union of the i-th elements of every operand *)
Definition zipL (ds : list (list env)) : list env :=
  map (fun i => concat (map (fun d => nth i d []) ds)) (seq 0 (length (hd [] ds))).

Fixpoint denote (t : node) : list env :=
  match t with
  | Leaf n ty vs => map (fun v => [(n, (ty, v))]) vs
  | Prod cs => prodL (map denote cs)
  | Assoc cs => zipL (map denote cs)
  end.

(* well-formed: every leaf range is non-empty, every operator has an operand (the grammar
   gives two or more), association operands have equally many elements *)
Inductive wfnode : node -> Prop :=
| WfLeaf n ty vs : vs <> [] -> wfnode (Leaf n ty vs)
| WfProd cs : cs <> [] -> Forall wfnode cs -> wfnode (Prod cs)
| WfAssoc c cs :
    Forall wfnode (c :: cs) ->
    Forall (fun c' => length (denote c') = length (denote c)) cs ->
    wfnode (Assoc (c :: cs)).

(* valid: additionally every parameter is named once *)
Definition valid (t : node) : Prop := NoDup (names t) /\ wfnode t.

(* the leaves of a tree *)
Fixpoint leaves (t : node) : list param :=
  match t with
  | Leaf n ty vs => [(n, ty, vs)]
  | Prod cs => flat_map leaves cs
  | Assoc cs => flat_map leaves cs
  end.

(* "maps every declared parameter to one value of its range with the declared type" *)
Definition well_typed (t : node) (e : env) : Prop :=
  map fst e = names t /\
  forall n ty vs, In (n, ty, vs) (leaves t) -> exists v, In v vs /\ lookup n e = Some (ty, v).

(* missing combination: all parameters, declaration order, as one product *)
Definition leaf_of (p : param) : node := Leaf (fst (fst p)) (snd (fst p)) (snd p).
Definition default_denote (ps : list param) : list env := prodL (map (fun p => denote (leaf_of p)) ps).

(* no parameter space *)
Definition none_denote : list env := [[]].
