(* FormatStrProofs.v — the scanner/parser model of FormatStr.v meets the declarative
   specification of FormatStrSpec.v, for all strings. *)
From Coq Require Import List NArith Bool Arith Lia.
Import ListNotations.
Require Import OJD.Base OJD.Lexer OJD.Generated OJD.FormatStr OJD.FormatStrSpec.

(* ------------------------------------------------------------------ lists *)

Lemma skipn_app_len : forall (A : Type) (p t : list A), skipn (length p) (p ++ t) = t.
Proof. induction p as [|x p IH]; intros t; simpl; auto. Qed.

Lemma firstn_app_len : forall (A : Type) (m r : list A), firstn (length m) (m ++ r) = m.
Proof. induction m as [|x m IH]; intros r; simpl; [reflexivity| now rewrite IH]. Qed.

Lemma slice_at : forall (p m r : str) a b,
  a = length p -> b = length p + length m -> slice (p ++ m ++ r) a b = m.
Proof.
  intros p m r a b -> ->. unfold slice.
  replace (length p + length m - length p) with (length m) by lia.
  rewrite skipn_app_len. apply firstn_app_len.
Qed.

Lemma app_split_le : forall (A : Type) (l a x y : list A),
  l ++ x = a ++ y -> length l <= length a -> exists a', a = l ++ a' /\ x = a' ++ y.
Proof.
  induction l as [|c l IH]; intros a x y H Hl; simpl in *.
  - exists a. auto.
  - destruct a as [|d a]; simpl in *; [lia|].
    injection H as -> H. destruct (IH a x y H) as [a' [-> ->]]; [lia|].
    exists a'. auto.
Qed.

(* ------------------------------------------------------------------ NoSub *)

Lemma NoSub_tail : forall p c m, NoSub p (c :: m) -> NoSub p m.
Proof. intros p c m H a b E. apply (H (c :: a) b). now rewrite E. Qed.

Lemma NoSub_app_l : forall p u v, NoSub p (u ++ v) -> NoSub p u.
Proof. intros p u v H a b E. apply (H a (b ++ v)). rewrite E. now rewrite <- !app_assoc. Qed.

Lemma NoSub_nil : forall x, NoSub [x; x] [].
Proof. intros x a b E. destruct a; discriminate. Qed.

Lemma NoSub_single : forall x y, NoSub [x; x] [y].
Proof. intros x y a b E. apply (f_equal (@length N)) in E. rewrite !app_length in E. simpl in E. lia. Qed.

Lemma NoSub_cons_ne : forall x y m, y <> x -> NoSub [x; x] m -> NoSub [x; x] (y :: m).
Proof.
  intros x y m Hy H a b E. destruct a as [|c a]; simpl in E.
  - injection E as E _. contradiction.
  - injection E as _ E. exact (H a b E).
Qed.

Lemma NoSub_notin_snoc : forall x m, ~ In x m -> NoSub [x; x] (m ++ [x]).
Proof.
  intros x m. induction m as [|c m IH]; intros Hn; simpl.
  - apply NoSub_single.
  - intros a b E. destruct a as [|d a]; simpl in E.
    + injection E as E _. apply Hn. now left.
    + injection E as _ E. apply (IH (fun h => Hn (or_intror h)) a b E).
Qed.

Lemma NoSub_join : forall x y l m,
  NoSub [x; x] l -> y <> x -> NoSub [x; x] (y :: m) -> NoSub [x; x] (l ++ y :: m).
Proof.
  intros x y l m. induction l as [|c l IH]; intros Hl Hy Hm; simpl; [exact Hm|].
  intros a b E. destruct a as [|d a]; simpl in E.
  - injection E as Ec E. destruct l as [|z l]; simpl in E.
    + injection E as E _. contradiction.
    + injection E as Ez _. subst. apply (Hl [] l). reflexivity.
  - injection E as _ E. apply (IH (NoSub_tail _ _ _ Hl) Hy Hm a b E).
Qed.

(* ------------------------------------------------------------------ find *)

Lemma is_prefix_dbl : forall x t, is_prefix [x; x] t = true <-> exists r, t = x :: x :: r.
Proof.
  intros x t. split.
  - destruct t as [|a [|b r]]; simpl; try discriminate.
    + rewrite andb_false_r. discriminate.
    + intros H. apply andb_true_iff in H as [H1 H2]. apply andb_true_iff in H2 as [H2 _].
      apply N.eqb_eq in H1, H2. subst. now exists r.
  - intros [r ->]. simpl. now rewrite N.eqb_refl.
Qed.

Lemma find_from_none : forall x t i, find_from [x; x] t i = None -> NoSub [x; x] t.
Proof.
  intros x t. induction t as [|c r IH]; intros i H.
  - apply NoSub_nil.
  - cbn [find_from] in H. destruct (is_prefix [x; x] (c :: r)) eqn:P; [discriminate|].
    intros a b E. destruct a as [|d a]; simpl in E.
    + assert (is_prefix [x; x] (c :: r) = true) by (apply is_prefix_dbl; now exists b).
      congruence.
    + injection E as _ E. exact (IH _ H a b E).
Qed.

Lemma find_from_nosub : forall x t i, NoSub [x; x] t -> find_from [x; x] t i = None.
Proof.
  intros x t. induction t as [|c r IH]; intros i H.
  - reflexivity.
  - cbn [find_from]. destruct (is_prefix [x; x] (c :: r)) eqn:P.
    + apply is_prefix_dbl in P as [b P]. exfalso. apply (H [] b). exact P.
    + apply IH. eapply NoSub_tail; eauto.
Qed.

Lemma find_from_some : forall x t i k, find_from [x; x] t i = Some k ->
  exists l r, t = l ++ [x; x] ++ r /\ k = i + length l /\ NoSub [x; x] (l ++ [x]).
Proof.
  intros x t. induction t as [|c r IH]; intros i k H.
  - discriminate.
  - cbn [find_from] in H. destruct (is_prefix [x; x] (c :: r)) eqn:P.
    + injection H as <-. apply is_prefix_dbl in P as [b P].
      exists [], b. repeat split; auto. simpl. apply NoSub_single.
    + destruct (IH _ _ H) as [l [r' [E [K NS]]]].
      exists (c :: l), r'. repeat split.
      * simpl. now rewrite E.
      * simpl. lia.
      * intros a b E2. destruct a as [|d a]; simpl in E2.
        -- injection E2 as Ec E2. subst c.
           assert (is_prefix [x; x] (x :: r) = true).
           { apply is_prefix_dbl. subst r. destruct l as [|z l]; simpl in *.
             - eexists; reflexivity.
             - injection E2 as -> _. eexists; reflexivity. }
           congruence.
        -- injection E2 as _ E2. exact (NS a b E2).
Qed.

Lemma find_from_first : forall x l r i,
  NoSub [x; x] (l ++ [x]) -> find_from [x; x] (l ++ [x; x] ++ r) i = Some (i + length l).
Proof.
  intros x l. induction l as [|c l IH]; intros r i H.
  - simpl. rewrite N.eqb_refl. simpl. f_equal. lia.
  - change ((c :: l) ++ [x; x] ++ r) with (c :: (l ++ [x; x] ++ r)).
    cbn [find_from]. destruct (is_prefix [x; x] (c :: l ++ [x; x] ++ r)) eqn:P.
    + exfalso. apply is_prefix_dbl in P as [b P]. injection P as -> P.
      destruct l as [|z l]; simpl in *.
      * apply (H [] []). reflexivity.
      * injection P as -> _. apply (H [] (l ++ [x])). reflexivity.
    + change ((c :: l) ++ [x]) with (c :: (l ++ [x])) in H.
      rewrite (IH r (S i) (NoSub_tail _ _ _ H)). f_equal. simpl. lia.
Qed.

Lemma find_app : forall sub p t, find sub (p ++ t) (length p) = find_from sub t (length p).
Proof.
  intros. unfold find. rewrite skipn_app_len.
  destruct (length (p ++ t) <? length p) eqn:E; [|reflexivity].
  apply Nat.ltb_lt in E. rewrite app_length in E. lia.
Qed.

(* ------------------------------------------------------------------ lexer + parser *)

Lemma cclass_eqb_eq : forall a b, cclass_eqb a b = true <-> a = b.
Proof. intros a b. split; [destruct a, b; simpl; intros; congruence| intros ->; destruct b; reflexivity]. Qed.

Section LexFacts.
  Variable classify : N -> cclass.
  Notation isb := (is_blank classify).
  Notation isw := (is_word classify).
  Notation isd := (is_dot classify).
  Notation isn := (is_nstart classify).
  Notation lexg := (lex_go classify).

  Definition sup (t : tok) : bool := supported fs_token_kinds t.

  (* the next character, if any, cannot continue an identifier *)
  Definition nws (r : str) : Prop := match r with [] => True | c :: _ => isw c = false end.

  Lemma cons_toks_ok : forall pre m ts, cons_toks pre m = Ok ts -> exists ts0, m = Ok ts0 /\ ts = pre ++ ts0.
  Proof. intros pre [ts0|e] ts H; simpl in H; [injection H as <-; eauto | discriminate]. Qed.

  Lemma cons_toks_raise : forall pre m x, cons_toks pre m = Raise x -> m = Raise x.
  Proof. intros pre [ts0|e] x H; simpl in H; [discriminate | congruence]. Qed.

  Lemma lex_none_cons : forall c r,
    lexg LNone (c :: r) =
    match classify c with
    | CSpace => lexg LNone r
    | CNameStart => lexg (LName [c]) r
    | CDigit => lexg (LInt (c - 48)) r
    | CUDigit | COther => Raise TokenError
    | cl => match punct cl with
            | Some t => cons_toks [t] (lexg LNone r)
            | None => Raise TokenError
            end
    end.
  Proof. intros. cbn [lex_go]. destruct (classify c); reflexivity. Qed.

  Lemma lex_name_cons : forall acc c r,
    lexg (LName acc) (c :: r) =
    if isw c then lexg (LName (c :: acc)) r
    else cons_toks [TName (rev acc)] (lexg LNone (c :: r)).
  Proof. intros. cbn [lex_go flush]. unfold is_word, rev'. rewrite <- rev_alt. destruct (classify c); reflexivity. Qed.

  Lemma lex_int_cons : forall v c r,
    lexg (LInt v) (c :: r) =
    match classify c with
    | CDigit => lexg (LInt (10 * v + (c - 48))) r
    | _ => cons_toks [TPosInt v] (lexg LNone (c :: r))
    end.
  Proof. intros. cbn [lex_go flush]. destruct (classify c); reflexivity. Qed.

  Lemma isb_class : forall c, isb c = true -> classify c = CSpace.
  Proof. intros c H. now apply cclass_eqb_eq. Qed.
  Lemma isd_class : forall c, isd c = true -> classify c = CDot.
  Proof. intros c H. now apply cclass_eqb_eq. Qed.
  Lemma isn_class : forall c, isn c = true -> classify c = CNameStart.
  Proof. intros c H. now apply cclass_eqb_eq. Qed.

  Lemma isb_not_word : forall c, isb c = true -> isw c = false.
  Proof. intros c H. unfold is_word. now rewrite (isb_class _ H). Qed.
  Lemma isd_not_word : forall c, isd c = true -> isw c = false.
  Proof. intros c H. unfold is_word. now rewrite (isd_class _ H). Qed.
  Lemma isn_word : forall c, isn c = true -> isw c = true.
  Proof. intros c H. unfold is_word. now rewrite (isn_class _ H). Qed.
  Lemma isw_not_blank : forall c, isw c = true -> isb c = false.
  Proof. intros c. unfold is_word, is_blank. destruct (classify c); simpl; congruence. Qed.
  Lemma isw_not_dot : forall c, isw c = true -> isd c = false.
  Proof. intros c. unfold is_word, is_dot. destruct (classify c); simpl; congruence. Qed.

  (* ---- forward: text of the right shape lexes to the expected tokens ---- *)

  Lemma lex_blanks : forall b r, blanks classify b -> lexg LNone (b ++ r) = lexg LNone r.
  Proof.
    induction b as [|c b IH]; intros r H; [reflexivity|].
    unfold blanks in H. simpl in H. apply andb_true_iff in H as [Hc Hb].
    simpl app. rewrite lex_none_cons, (isb_class _ Hc). now apply IH.
  Qed.

  Lemma lex_word_run : forall w acc r, forallb isw w = true -> nws r ->
    lexg (LName acc) (w ++ r) = cons_toks [TName (rev acc ++ w)] (lexg LNone r).
  Proof.
    induction w as [|c w IH]; intros acc r Hw Hr.
    - rewrite app_nil_r. simpl app. destruct r as [|c r].
      + cbn [lex_go flush cons_toks app]. unfold rev'. now rewrite <- rev_alt.
      + simpl in Hr. now rewrite lex_name_cons, Hr.
    - simpl in Hw. apply andb_true_iff in Hw as [Hc Hw].
      simpl app. rewrite lex_name_cons, Hc, (IH (c :: acc) r Hw Hr).
      simpl rev. now rewrite <- app_assoc.
  Qed.

  Lemma lex_ident : forall w r, ident classify w -> nws r ->
    lexg LNone (w ++ r) = cons_toks [TName w] (lexg LNone r).
  Proof.
    intros [|c w] r H Hr; [destruct H|]. destruct H as [Hc Hw].
    simpl app. rewrite lex_none_cons, (isn_class _ Hc).
    now rewrite (lex_word_run w [c] r Hw Hr).
  Qed.

  Lemma lex_dot : forall d r, isd d = true -> lexg LNone (d :: r) = cons_toks [TDot] (lexg LNone r).
  Proof. intros d r H. now rewrite lex_none_cons, (isd_class _ H). Qed.

  Definition tail_toks (ns : list str) : list tok := flat_map (fun w => [TDot; TName w]) ns.

  Lemma blanks_nws : forall b r, blanks classify b -> nws r -> nws (b ++ r).
  Proof. intros [|c b] r H Hr; [exact Hr|]. unfold blanks in H. simpl in H.
    apply andb_true_iff in H as [Hc _]. simpl. now apply isb_not_word. Qed.

  Lemma DTail_nws : forall r, DTail classify r -> nws r.
  Proof.
    intros r H. destruct H as [b Hb | b1 d b2 w r Hb1 Hd Hb2 Hw Ht].
    - rewrite <- (app_nil_r b). now apply blanks_nws.
    - apply blanks_nws; [exact Hb1|]. simpl. now apply isd_not_word.
  Qed.

  Lemma norm_app : forall a b, norm classify (a ++ b) = norm classify a ++ norm classify b.
  Proof. intros. unfold norm. now rewrite filter_app, map_app. Qed.

  Lemma norm_blanks : forall b, blanks classify b -> norm classify b = [].
  Proof.
    induction b as [|c b IH]; intros H; [reflexivity|]. unfold blanks in H. simpl in H.
    apply andb_true_iff in H as [Hc Hb]. unfold norm. simpl. rewrite Hc. simpl. now apply IH.
  Qed.

  Lemma norm_words : forall w, forallb isw w = true -> norm classify w = w.
  Proof.
    induction w as [|c w IH]; intros H; [reflexivity|]. simpl in H.
    apply andb_true_iff in H as [Hc Hw]. unfold norm. simpl.
    rewrite (isw_not_blank _ Hc). simpl. rewrite (isw_not_dot _ Hc). f_equal. now apply IH.
  Qed.

  Lemma ident_words : forall w, ident classify w -> forallb isw w = true.
  Proof. intros [|c w] H; [destruct H|]. destruct H as [Hc Hw]. simpl. now rewrite (isn_word _ Hc). Qed.

  Lemma norm_ident : forall w, ident classify w -> norm classify w = w.
  Proof. intros w H. apply norm_words. now apply ident_words. Qed.

  Lemma norm_dot : forall d, isd d = true -> norm classify [d] = [dotc].
  Proof.
    intros d H. unfold norm. simpl.
    assert (isb d = false) as ->.
    { unfold is_blank. rewrite (isd_class _ H). reflexivity. }
    simpl. now rewrite H.
  Qed.

  Lemma lex_tail : forall r, DTail classify r ->
    exists ns, lexg LNone r = Ok (tail_toks ns) /\ norm classify r = flat_map (fun w => dotc :: w) ns.
  Proof.
    intros r H. induction H as [b Hb | b1 d b2 w r Hb1 Hd Hb2 Hw Ht [ns [IH1 IH2]]].
    - exists []. split.
      + rewrite <- (app_nil_r b). now rewrite lex_blanks.
      + now apply norm_blanks.
    - exists (w :: ns). split.
      + rewrite lex_blanks by exact Hb1. simpl app. rewrite lex_dot by exact Hd.
        rewrite lex_blanks by exact Hb2. rewrite lex_ident; [|exact Hw|now apply DTail_nws].
        rewrite IH1. reflexivity.
      + rewrite !norm_app, (norm_blanks _ Hb1), (norm_blanks _ Hb2), (norm_dot _ Hd), (norm_ident _ Hw), IH2.
        reflexivity.
  Qed.

  Lemma match_rest_tail : forall ns acc, match_rest acc (tail_toks ns) = Ok (rev acc ++ ns, []).
  Proof.
    induction ns as [|n ns IH]; intros acc.
    - simpl. now rewrite app_nil_r.
    - simpl. rewrite IH. simpl. now rewrite <- app_assoc.
  Qed.

  Lemma sup_tail : forall ns, forallb sup (tail_toks ns) = true.
  Proof. induction ns as [|n ns IH]; [reflexivity|]. simpl. exact IH. Qed.

  Lemma interp_complete : forall e, DName classify e -> interp_expr classify e = Ok (norm classify e).
  Proof.
    intros e [b [w [r [Hb [Hw [Ht ->]]]]]].
    destruct (lex_tail r Ht) as [ns [L Nr]].
    unfold interp_expr, lex_for, lex.
    rewrite lex_blanks by exact Hb. rewrite lex_ident; [|exact Hw|now apply DTail_nws].
    rewrite L. cbn [cons_toks app bind].
    change (forallb (supported fs_token_kinds) (TName w :: tail_toks ns)) with (forallb sup (tail_toks ns)).
    rewrite sup_tail. cbn [parse_expr bind]. rewrite match_rest_tail. cbn [bind rev app].
    rewrite !norm_app, (norm_blanks _ Hb), (norm_ident _ Hw), Nr. reflexivity.
  Qed.

  (* ---- backward: what a successful tokenisation says about the text ---- *)

  Inductive Toks : str -> list tok -> Prop :=
  | Tk_end : forall b, blanks classify b -> Toks b []
  | Tk_dot : forall b d r ts, blanks classify b -> isd d = true -> Toks r ts ->
      Toks (b ++ d :: r) (TDot :: ts)
  | Tk_name : forall b w r ts, blanks classify b -> ident classify w -> nws r -> Toks r ts ->
      Toks (b ++ w ++ r) (TName w :: ts).

  Lemma blanks_cons : forall c b, isb c = true -> blanks classify b -> blanks classify (c :: b).
  Proof. intros c b Hc Hb. unfold blanks in *. simpl. now rewrite Hc. Qed.

  Lemma Toks_blank : forall c r ts, isb c = true -> Toks r ts -> Toks (c :: r) ts.
  Proof.
    intros c r ts Hc H. destruct H as [b Hb | b d r ts Hb Hd Ht | b w r ts Hb Hw Hn Ht].
    - apply Tk_end. now apply blanks_cons.
    - change (c :: b ++ d :: r) with ((c :: b) ++ d :: r). apply Tk_dot; auto using blanks_cons.
    - change (c :: b ++ w ++ r) with ((c :: b) ++ w ++ r). apply Tk_name; auto using blanks_cons.
  Qed.

  Lemma blanks_nil : blanks classify [].
  Proof. reflexivity. Qed.

  Definition lex_inv_stmt (st : lstate) (e : str) (ts : list tok) : Prop :=
    match st with
    | LNone => Toks e ts
    | LName acc => exists w r ts', e = w ++ r /\ forallb isw w = true /\ nws r /\
                                   ts = TName (rev acc ++ w) :: ts' /\ Toks r ts'
    | LInt _ => False
    end.

  Lemma lex_inv : forall e st ts, lexg st e = Ok ts -> forallb sup ts = true -> lex_inv_stmt st e ts.
  Proof.
    induction e as [|c r IH]; intros st ts H S.
    - simpl in H. injection H as <-. destruct st as [|acc|v]; simpl.
      + apply Tk_end. apply blanks_nil.
      + exists [], [], []. rewrite (app_nil_r (rev acc)). unfold rev'. rewrite <- rev_alt. repeat split. apply Tk_end. apply blanks_nil.
      + simpl in S. discriminate.
    - assert (HN : forall ts, lexg LNone (c :: r) = Ok ts -> forallb sup ts = true -> Toks (c :: r) ts).
      { clear H S ts. intros ts H S. rewrite lex_none_cons in H.
        destruct (classify c) eqn:C; try discriminate; cbn [punct] in H.
        - apply Toks_blank; [unfold is_blank; now rewrite C|]. exact (IH LNone ts H S).
        - destruct (IH (LName [c]) ts H S) as [w [r' [ts' [-> [Hw [Hn [-> Ht]]]]]]].
          simpl in S.
          change (c :: w ++ r') with ([] ++ (c :: w) ++ r'). simpl rev. simpl app at 3.
          apply Tk_name; auto using blanks_nil. split; [unfold is_nstart; now rewrite C|exact Hw].
        - destruct (IH (LInt (c - 48)) ts H S).
        - apply cons_toks_ok in H as [ts0 [H ->]]. simpl in S.
          change (c :: r) with ([] ++ c :: r). apply Tk_dot; auto using blanks_nil.
          + unfold is_dot. now rewrite C.
          + exact (IH LNone ts0 H S).
        - apply cons_toks_ok in H as [ts0 [H ->]]. simpl in S. discriminate.
        - apply cons_toks_ok in H as [ts0 [H ->]]. simpl in S. discriminate.
        - apply cons_toks_ok in H as [ts0 [H ->]]. simpl in S. discriminate.
        - apply cons_toks_ok in H as [ts0 [H ->]]. simpl in S. discriminate.
        - apply cons_toks_ok in H as [ts0 [H ->]]. simpl in S. discriminate.
        - apply cons_toks_ok in H as [ts0 [H ->]]. simpl in S. discriminate. }
      destruct st as [|acc|v]; simpl.
      + exact (HN ts H S).
      + rewrite lex_name_cons in H. destruct (isw c) eqn:W.
        * destruct (IH (LName (c :: acc)) ts H S) as [w [r' [ts' [-> [Hw [Hn [-> Ht]]]]]]].
          exists (c :: w), r', ts'. repeat split; auto.
          -- simpl. now rewrite W.
          -- simpl rev. now rewrite <- app_assoc.
        * apply cons_toks_ok in H as [ts0 [H ->]]. simpl in S.
          exists [], (c :: r), ts0. rewrite app_nil_r. repeat split; auto.
      + rewrite lex_int_cons in H.
        destruct (classify c) eqn:C;
          try (apply cons_toks_ok in H as [ts0 [H ->]]; simpl in S; discriminate).
        exact (IH _ ts H S).
  Qed.

  Lemma lex_raise : forall e st x, lexg st e = Raise x -> x = TokenError.
  Proof.
    induction e as [|c r IH]; intros st x H.
    - simpl in H. discriminate.
    - assert (HN : forall x, lexg LNone (c :: r) = Raise x -> x = TokenError).
      { clear H x. intros x H. rewrite lex_none_cons in H.
        destruct (classify c) eqn:C; cbn [punct] in H;
          try (injection H as <-; reflexivity);
          try (apply cons_toks_raise in H); eauto. }
      destruct st as [|acc|v].
      + eauto.
      + rewrite lex_name_cons in H. destruct (isw c); [eauto|]. apply cons_toks_raise in H. eauto.
      + rewrite lex_int_cons in H.
        destruct (classify c); try (apply cons_toks_raise in H); eauto.
  Qed.

  Lemma match_rest_sound : forall n ts, length ts <= n -> forall r acc names,
    Toks r ts -> match_rest acc ts = Ok (names, []) -> DTail classify r.
  Proof.
    induction n as [|n IH]; intros ts Hl r acc names HT HM.
    - destruct ts; [|simpl in Hl; lia]. inversion HT; subst. now apply DT_end.
    - destruct ts as [|t ts].
      + inversion HT; subst. now apply DT_end.
      + destruct t; simpl in HM; try discriminate.
        destruct ts as [|t2 ts]; [discriminate|].
        destruct t2; try discriminate.
        inversion HT as [| b d r1 ts1 Hb Hd HT1 |]; subst.
        inversion HT1 as [| | b2 w r2 ts2 Hb2 Hw Hn HT2]; subst.
        change (b ++ d :: b2 ++ s ++ r2) with (b ++ [d] ++ b2 ++ s ++ r2).
        apply DT_dot; auto.
        apply (IH ts) with (acc := s :: acc) (names := names); auto. simpl in Hl. lia.
  Qed.

  Lemma match_rest_raise : forall n ts, length ts <= n -> forall acc x,
    match_rest acc ts = Raise x -> is_expression_error x = true.
  Proof.
    induction n as [|n IH]; intros ts Hl acc x H.
    - destruct ts; [discriminate|simpl in Hl; lia].
    - destruct ts as [|t ts]; [discriminate|].
      destruct t; simpl in H; try discriminate.
      destruct ts as [|t2 ts]; [injection H as <-; reflexivity|].
      destruct t2; try (injection H as <-; reflexivity).
      apply (IH ts) with (acc := s :: acc); auto. simpl in Hl. lia.
  Qed.

  Lemma interp_sound : forall e name, interp_expr classify e = Ok name -> DName classify e.
  Proof.
    intros e name H. unfold interp_expr, lex_for, lex in H.
    destruct (lexg LNone e) as [ts|x] eqn:L; [|discriminate]. cbn [bind] in H.
    destruct (forallb (supported fs_token_kinds) ts) eqn:S; [|discriminate]. cbn [bind] in H.
    pose proof (lex_inv e LNone ts L S) as HT. simpl in HT.
    destruct ts as [|t ts]; [discriminate|].
    destruct t; simpl in H; try discriminate.
    destruct (match_rest [s] ts) as [[names rest]|x] eqn:M; [|discriminate]. cbn [bind] in H.
    destruct rest; [|discriminate].
    inversion HT as [| | b w r ts2 Hb Hw Hn HT2]; subst.
    exists b, s, r. repeat split; auto.
    eapply match_rest_sound; eauto.
  Qed.

  Lemma interp_iff : forall e name,
    interp_expr classify e = Ok name <-> DName classify e /\ name = norm classify e.
  Proof.
    intros e name. split.
    - intros H. pose proof (interp_sound _ _ H) as D. split; [exact D|].
      rewrite (interp_complete _ D) in H. now injection H.
    - intros [D ->]. now apply interp_complete.
  Qed.

  Lemma interp_raise : forall e x, interp_expr classify e = Raise x -> is_expression_error x = true.
  Proof.
    intros e x H. unfold interp_expr, lex_for, lex in H.
    destruct (lexg LNone e) as [ts|y] eqn:L.
    - cbn [bind] in H. destruct (forallb (supported fs_token_kinds) ts); cbn [bind] in H.
      + destruct ts as [|t ts]; [injection H as <-; reflexivity|].
        destruct t; simpl in H; try (injection H as <-; reflexivity).
        destruct (match_rest [s] ts) as [[names rest]|y] eqn:M; cbn [bind] in H.
        * destruct rest; [discriminate|]. injection H as <-. reflexivity.
        * injection H as <-. eapply match_rest_raise; eauto.
      + injection H as <-. reflexivity.
    - cbn [bind] in H. injection H as <-. now rewrite (lex_raise _ _ _ L).
  Qed.

  (* every character of a dotted name is a blank, an identifier character or a dot *)
  Definition okchar (c : N) : bool := isb c || isw c || isd c.

  Lemma blanks_ok : forall b, blanks classify b -> forallb okchar b = true.
  Proof.
    induction b as [|c b IH]; intros H; [reflexivity|]. unfold blanks in H. simpl in H.
    apply andb_true_iff in H as [Hc Hb]. simpl. unfold okchar at 1. rewrite Hc. simpl. now apply IH.
  Qed.

  Lemma words_ok : forall w, forallb isw w = true -> forallb okchar w = true.
  Proof.
    induction w as [|c w IH]; intros H; [reflexivity|]. simpl in H.
    apply andb_true_iff in H as [Hc Hw]. simpl. unfold okchar at 1. rewrite Hc, orb_true_r. simpl. now apply IH.
  Qed.

  Lemma DTail_ok : forall r, DTail classify r -> forallb okchar r = true.
  Proof.
    intros r H. induction H as [b Hb | b1 d b2 w r Hb1 Hd Hb2 Hw Ht IH].
    - now apply blanks_ok.
    - rewrite !forallb_app, (blanks_ok _ Hb1), (blanks_ok _ Hb2), (words_ok _ (ident_words _ Hw)), IH.
      simpl. unfold okchar. rewrite Hd, !orb_true_r. reflexivity.
  Qed.

  Lemma DName_ok : forall e, DName classify e -> forallb okchar e = true.
  Proof.
    intros e [b [w [r [Hb [Hw [Ht ->]]]]]].
    now rewrite !forallb_app, (blanks_ok _ Hb), (words_ok _ (ident_words _ Hw)), (DTail_ok _ Ht).
  Qed.
End LexFacts.

(* ------------------------------------------------------------------ ascii_ok *)

Lemma ascii_ok_class : forall classify, ascii_ok classify = true ->
  forall k : nat, k < 128 -> classify (N.of_nat k) = ascii_class (N.of_nat k).
Proof.
  intros classify H k Hk. unfold ascii_ok in H. rewrite forallb_forall in H.
  apply cclass_eqb_eq. apply H. unfold ascii_codes. apply in_map. apply in_seq. lia.
Qed.

Lemma ascii_ok_braces : forall classify, ascii_ok classify = true ->
  classify lbrace = COther /\ classify rbrace = COther.
Proof.
  intros classify H. split.
  - change lbrace with (N.of_nat 123). rewrite (ascii_ok_class _ H) by lia. reflexivity.
  - change rbrace with (N.of_nat 125). rewrite (ascii_ok_class _ H) by lia. reflexivity.
Qed.

Lemma DName_no_brace : forall classify, ascii_ok classify = true ->
  forall e, DName classify e -> ~ In lbrace e /\ ~ In rbrace e.
Proof.
  intros classify H e D. destruct (ascii_ok_braces _ H) as [HL HR].
  pose proof (DName_ok _ _ D) as OK. rewrite forallb_forall in OK.
  split; intros I; apply OK in I; unfold okchar, is_blank, is_word, is_dot in I;
    [rewrite HL in I | rewrite HR in I]; discriminate.
Qed.

(* ------------------------------------------------------------------ scanner = Decomp *)

Section Scan.
  Variable classify : N -> cclass.
  Hypothesis AOK : ascii_ok classify = true.

  Lemma length_open2 : length open2 = 2. Proof. reflexivity. Qed.
  Lemma length_close2 : length close2 = 2. Proof. reflexivity. Qed.

  Lemma find_open_first : forall l r i, NoSub open2 (l ++ [lbrace]) ->
    find_from open2 (l ++ open2 ++ r) i = Some (i + length l).
  Proof. intros l r i. exact (find_from_first lbrace l r i). Qed.
  Lemma find_close_first : forall l r i, NoSub close2 (l ++ [rbrace]) ->
    find_from close2 (l ++ close2 ++ r) i = Some (i + length l).
  Proof. intros l r i. exact (find_from_first rbrace l r i). Qed.

  Lemma scan_unfold : forall f p t,
    scan classify (S f) (p ++ t) (length p) =
    match t with
    | [] => Ok []
    | _ :: _ =>
      match find_from open2 t (length p), find_from close2 t (length p) with
      | None, None => Ok [ILit t]
      | Some _, None => Raise FormatStringError
      | None, Some _ => Raise FormatStringError
      | Some bs, Some ee =>
        if ee <? bs then Raise FormatStringError
        else
          let text := slice (p ++ t) (bs + 2) ee in
          match interp_expr classify text with
          | Raise e => if is_expression_error e then Raise FormatStringError else Raise e
          | Ok name =>
            do rest <- scan classify f (p ++ t) (ee + 2);
            Ok (ILit (slice (p ++ t) (length p) bs) :: IExpr bs (ee + 2) text name :: rest)
          end
      end
    end.
  Proof.
    intros f p t. cbn [scan]. rewrite !find_app, skipn_app_len.
    destruct t as [|c t].
    - rewrite app_nil_r. now rewrite Nat.leb_refl.
    - replace (length (p ++ c :: t) <=? length p) with false.
      2:{ symmetry. apply Nat.leb_gt. rewrite app_length. simpl. lia. }
      rewrite length_open2, length_close2. reflexivity.
  Qed.

  (* one full iteration on a string whose next reference is known *)
  Lemma scan_step : forall f p l tx r,
    NoSub open2 (l ++ [lbrace]) -> NoSub close2 ((l ++ open2 ++ tx) ++ [rbrace]) ->
    scan classify (S f) (p ++ l ++ open2 ++ tx ++ close2 ++ r) (length p) =
    match interp_expr classify tx with
    | Raise e => if is_expression_error e then Raise FormatStringError else Raise e
    | Ok name =>
      do rest <- scan classify f ((p ++ l ++ open2 ++ tx ++ close2) ++ r)
                      (length (p ++ l ++ open2 ++ tx ++ close2));
      Ok (ILit l :: IExpr (length p + length l)
                          (length p + length l + length open2 + length tx + length close2)
                          tx name :: rest)
    end.
  Proof.
    intros f p l tx r HO HC. rewrite scan_unfold.
    destruct (l ++ open2 ++ tx ++ close2 ++ r) as [|c0 t0] eqn:Et.
    { exfalso. apply (f_equal (@length N)) in Et. rewrite !app_length in Et. simpl in Et. lia. }
    rewrite <- Et. clear c0 t0 Et.
    rewrite (find_open_first l (tx ++ close2 ++ r) (length p) HO).
    replace (l ++ open2 ++ tx ++ close2 ++ r) with ((l ++ open2 ++ tx) ++ close2 ++ r) at 1
      by (now rewrite <- !app_assoc).
    rewrite (find_close_first (l ++ open2 ++ tx) r (length p) HC).
    replace (length p + length (l ++ open2 ++ tx) <? length p + length l) with false.
    2:{ symmetry. apply Nat.ltb_ge. rewrite !app_length. lia. }
    cbv zeta.
    replace (slice (p ++ l ++ open2 ++ tx ++ close2 ++ r) (length p + length l + 2)
                   (length p + length (l ++ open2 ++ tx))) with tx.
    2:{ symmetry. replace (p ++ l ++ open2 ++ tx ++ close2 ++ r)
          with ((p ++ l ++ open2) ++ tx ++ (close2 ++ r)) by (now rewrite <- !app_assoc).
        apply slice_at; rewrite !app_length; rewrite ?length_open2; lia. }
    destruct (interp_expr classify tx) as [name|e]; [|reflexivity].
    replace (slice (p ++ l ++ open2 ++ tx ++ close2 ++ r) (length p) (length p + length l)) with l.
    2:{ symmetry. apply slice_at; lia. }
    replace ((p ++ l ++ open2 ++ tx ++ close2) ++ r) with (p ++ l ++ open2 ++ tx ++ close2 ++ r)
      by (now rewrite <- !app_assoc).
    replace (length (p ++ l ++ open2 ++ tx ++ close2)) with (length p + length (l ++ open2 ++ tx) + 2)
      by (rewrite !app_length; rewrite ?length_open2, ?length_close2; lia).
    replace (length p + length l + length open2 + length tx + length close2)
      with (length p + length (l ++ open2 ++ tx) + 2)
      by (rewrite !app_length; rewrite ?length_open2, ?length_close2; lia).
    reflexivity.
  Qed.

  Lemma close_nosub : forall l e,
    NoSub close2 l -> DName classify e -> NoSub close2 ((l ++ open2 ++ e) ++ [rbrace]).
  Proof.
    intros l e Hl D. destruct (DName_no_brace _ AOK _ D) as [_ HR].
    replace ((l ++ open2 ++ e) ++ [rbrace]) with (l ++ lbrace :: (lbrace :: e ++ [rbrace]))
      by (unfold open2; simpl; now rewrite <- !app_assoc).
    unfold close2. apply NoSub_join; [exact Hl|discriminate|].
    apply NoSub_cons_ne; [discriminate|]. apply NoSub_cons_ne; [discriminate|].
    now apply NoSub_notin_snoc.
  Qed.

  (* (A) a decomposition is what the scanner computes *)
  Lemma scan_complete : forall t segs last, Decomp classify t segs last ->
    forall f p, length t < f ->
    scan classify f (p ++ t) (length p) = Ok (items_of classify (length p) segs last).
  Proof.
    intros t segs last D. induction D as [l HO HC | l e rest segs last HC HO HD D IH]; intros f p Hf.
    - destruct f as [|f]; [lia|]. rewrite scan_unfold. destruct l as [|c l]; [reflexivity|].
      unfold open2, close2 in *. rewrite (find_from_nosub _ _ _ HO), (find_from_nosub _ _ _ HC). reflexivity.
    - destruct f as [|f]; [lia|].
      rewrite scan_step; [|exact HO|now apply close_nosub].
      rewrite (interp_complete _ _ HD).
      rewrite IH.
      2:{ rewrite !app_length, length_open2 in Hf. lia. }
      cbn [bind items_of]. repeat f_equal; rewrite !app_length; lia.
  Qed.

  (* (B) + (C) whatever the scanner returns is a decomposition; it fails only with
     FormatStringError (in particular the fuel is never exhausted) *)
  Lemma scan_sound : forall f p t, length t < f ->
    match scan classify f (p ++ t) (length p) with
    | Ok its => exists segs last, Decomp classify t segs last /\ its = items_of classify (length p) segs last
    | Raise e => e = FormatStringError
    end.
  Proof.
    induction f as [|f IH]; intros p t Hf; [lia|].
    destruct t as [|c0 t0] eqn:Et.
    { rewrite scan_unfold. exists [], []. split; [|reflexivity].
      apply D_last; apply NoSub_nil. }
    rewrite <- Et in *. assert (Hne : t <> []) by (rewrite Et; discriminate). clear c0 t0 Et.
    destruct (find_from open2 t (length p)) as [bs|] eqn:FO;
      destruct (find_from close2 t (length p)) as [ee|] eqn:FC.
    - destruct (ee <? bs) eqn:Lt.
      + rewrite scan_unfold. destruct t; [congruence|]. rewrite FO, FC, Lt. reflexivity.
      + apply Nat.ltb_ge in Lt.
        apply find_from_some in FO as [l [r1 [E1 [K1 NO]]]].
        apply find_from_some in FC as [a [r2 [E2 [K2 NC]]]].
        assert (La : length l <= length a) by lia.
        rewrite E1 in E2. destruct (app_split_le _ _ _ _ _ E2 La) as [a' [Ea Er]].
        destruct a' as [|x1 a']; [discriminate|]. injection Er as Ex1 Er.
        destruct a' as [|x2 tx]; [simpl in Er; injection Er as Er _; subst; discriminate|].
        injection Er as Ex2 Er. simpl in Er.
        subst a r1. subst x1 x2.
        assert (Et : t = l ++ open2 ++ tx ++ close2 ++ r2) by (rewrite E1; reflexivity).
        change (l ++ lbrace :: lbrace :: tx) with (l ++ open2 ++ tx) in NC.
        rewrite Et. rewrite scan_step; [|exact NO|exact NC].
        destruct (interp_expr classify tx) as [name|e] eqn:I.
        * apply interp_iff in I as [HD ->].
          specialize (IH (p ++ l ++ open2 ++ tx ++ close2) r2).
          destruct (scan classify f ((p ++ l ++ open2 ++ tx ++ close2) ++ r2)
                         (length (p ++ l ++ open2 ++ tx ++ close2))) as [rest|e].
          -- destruct IH as [segs [last [D ->]]].
             { rewrite Et in Hf. rewrite !app_length, length_open2 in Hf. lia. }
             cbn [bind]. exists ((l, tx) :: segs), last. split.
             ++ apply D_seg; auto. apply NoSub_app_l with (v := open2 ++ tx ++ [rbrace]).
                now rewrite <- !app_assoc in NC.
             ++ cbn [items_of]. repeat f_equal; rewrite !app_length; lia.
          -- cbn [bind]. apply IH. rewrite Et in Hf. rewrite !app_length, length_open2 in Hf. lia.
        * now rewrite (interp_raise _ _ _ I).
    - rewrite scan_unfold. destruct t; [congruence|]. rewrite FO, FC. reflexivity.
    - rewrite scan_unfold. destruct t; [congruence|]. rewrite FO, FC. reflexivity.
    - rewrite scan_unfold. destruct t as [|c t']; [congruence|]. rewrite FO, FC.
      exists [], (c :: t'). split; [|reflexivity].
      apply D_last; [exact (find_from_none _ _ _ FO)|exact (find_from_none _ _ _ FC)].
  Qed.
End Scan.

(* ------------------------------------------------------------------ symbol tables *)

Lemma lookup_dom : forall sigma n, lookup sigma n = None <-> mem_str n (dom sigma) = false.
Proof.
  induction sigma as [|[k v] sigma IH]; intros n; simpl.
  - tauto.
  - destruct (str_eqb n k); simpl; [split; discriminate | apply IH].
Qed.

(* names referenced by a format string, in order *)
Definition names (f : fstr) : list str := map (fun x => fst (fst x)) (expressions f).

(* ------------------------------------------------------------------ main theorems *)

Section Main.
  Variable classify : N -> cclass.
  Hypothesis AOK : ascii_ok classify = true.

  Notation Dec := (Decomp classify).
  Notation itemsOf := (items_of classify).

  Theorem mk_value_iff : forall s f,
    mk classify s = Ok f <->
    exists segs last, Dec s segs last /\ f = mkF s (itemsOf 0 segs last).
  Proof.
    intros s f. unfold mk. split.
    - intros H. pose proof (scan_sound classify (S (length s)) [] s (Nat.lt_succ_diag_r _)) as SS.
      change (scan classify (S (length s)) ([] ++ s) (length (@nil N))) with (scan classify (S (length s)) s 0) in SS.
      destruct (scan classify (S (length s)) s 0) as [its|e]; [|discriminate].
      cbn [bind] in H. injection H as <-. destruct SS as [segs [last [D ->]]]. eauto.
    - intros [segs [last [D ->]]].
      pose proof (scan_complete classify AOK s segs last D (S (length s)) [] (Nat.lt_succ_diag_r _)) as SC.
      change (scan classify (S (length s)) ([] ++ s) (length (@nil N))) with (scan classify (S (length s)) s 0) in SC.
      rewrite SC. reflexivity.
  Qed.

  Theorem mk_accept_iff : forall s,
    (exists f, mk classify s = Ok f) <-> (exists segs last, Dec s segs last).
  Proof.
    intros s. split.
    - intros [f H]. apply mk_value_iff in H as [segs [last [D _]]]. eauto.
    - intros [segs [last D]]. eexists. apply mk_value_iff. eauto.
  Qed.

  Theorem mk_errors : forall s e, mk classify s = Raise e -> e = FormatStringError.
  Proof.
    intros s e H. unfold mk in H.
    pose proof (scan_sound classify (S (length s)) [] s (Nat.lt_succ_diag_r _)) as SS.
    change (scan classify (S (length s)) ([] ++ s) (length (@nil N))) with (scan classify (S (length s)) s 0) in SS.
    destruct (scan classify (S (length s)) s 0) as [its|x]; [discriminate|].
    cbn [bind] in H. congruence.
  Qed.

  Lemma items_of_inj : forall segs1 segs2 off last1 last2,
    itemsOf off segs1 last1 = itemsOf off segs2 last2 -> segs1 = segs2 /\ last1 = last2.
  Proof.
    induction segs1 as [|[l1 e1] segs1 IH]; intros [|[l2 e2] segs2] off last1 last2 H.
    - simpl in H. destruct last1, last2; try discriminate; auto. injection H as -> ->. auto.
    - simpl in H. destruct last1; discriminate.
    - simpl in H. destruct last2; discriminate.
    - cbn [items_of] in H. injection H as -> _ _ -> _ H.
      destruct (IH _ _ _ _ H) as [-> ->]. auto.
  Qed.

  Theorem decomp_unique : forall s segs1 last1 segs2 last2,
    Dec s segs1 last1 -> Dec s segs2 last2 -> segs1 = segs2 /\ last1 = last2.
  Proof.
    intros s segs1 last1 segs2 last2 D1 D2.
    assert (H1 : mk classify s = Ok (mkF s (itemsOf 0 segs1 last1))) by (apply mk_value_iff; eauto).
    assert (H2 : mk classify s = Ok (mkF s (itemsOf 0 segs2 last2))) by (apply mk_value_iff; eauto).
    rewrite H1 in H2. injection H2 as H2. now apply items_of_inj in H2.
  Qed.

  Lemma decomp_concat : forall s segs last, Dec s segs last ->
    forall off, concat (map piece_text (itemsOf off segs last)) = s.
  Proof.
    intros s segs last D. induction D as [l HO HC | l e rest segs last HC HO HD D IH]; intros off.
    - simpl. destruct l; [reflexivity|]. simpl. now rewrite app_nil_r.
    - cbn [items_of map concat piece_text]. rewrite IH. now rewrite <- !app_assoc.
  Qed.

  Theorem mk_eq : forall s f, mk classify s = Ok f ->
    orig f = s /\ concat (map piece_text (items f)) = s.
  Proof.
    intros s f H. apply mk_value_iff in H as [segs [last [D ->]]]. split; [reflexivity|].
    simpl. now apply decomp_concat.
  Qed.

  Lemma expressions_items_of : forall s segs last off,
    expressions (mkF s (itemsOf off segs last)) = spec_exprs classify off segs.
  Proof.
    intros s segs last. unfold expressions. simpl.
    induction segs as [|[l e] segs IH]; intros off.
    - simpl. destruct last; reflexivity.
    - cbn [items_of flat_map spec_exprs app]. now rewrite IH.
  Qed.

  (* the positions computed by the specification are the true spans *)
  Lemma spec_spans : forall s segs last, Dec s segs last -> forall p,
    Forall2 (fun le x => fst (fst x) = norm classify (snd le) /\
                         slice (p ++ s) (snd (fst x)) (snd x) = open2 ++ snd le ++ close2)
            segs (spec_exprs classify (length p) segs).
  Proof.
    intros s segs last D. induction D as [l HO HC | l e rest segs last HC HO HD D IH]; intros p.
    - constructor.
    - cbn [spec_exprs]. constructor.
      + cbn [fst snd]. split; [reflexivity|].
        replace (p ++ l ++ open2 ++ e ++ close2 ++ rest) with ((p ++ l) ++ (open2 ++ e ++ close2) ++ rest)
          by (now rewrite <- !app_assoc).
        apply slice_at; rewrite !app_length; lia.
      + specialize (IH (p ++ l ++ open2 ++ e ++ close2)).
        replace ((p ++ l ++ open2 ++ e ++ close2) ++ rest) with (p ++ l ++ open2 ++ e ++ close2 ++ rest) in IH
          by (now rewrite <- !app_assoc).
        replace (length (p ++ l ++ open2 ++ e ++ close2))
          with (length p + length l + length open2 + length e + length close2) in IH
          by (rewrite !app_length; lia).
        exact IH.
  Qed.

  Theorem mk_spans : forall s f, mk classify s = Ok f ->
    exists segs last, Dec s segs last /\
      expressions f = spec_exprs classify 0 segs /\
      Forall2 (fun le x => fst (fst x) = norm classify (snd le) /\
                           slice s (snd (fst x)) (snd x) = open2 ++ snd le ++ close2)
              segs (expressions f).
  Proof.
    intros s f H. apply mk_value_iff in H as [segs [last [D ->]]].
    exists segs, last. split; [exact D|]. rewrite expressions_items_of. split; [reflexivity|].
    exact (spec_spans s segs last D []).
  Qed.

  Lemma names_items_of : forall s segs last off,
    names (mkF s (itemsOf off segs last)) = refs classify segs.
  Proof.
    intros s segs last off. unfold names. rewrite expressions_items_of. revert off.
    induction segs as [|[l e] segs IH]; intros off; [reflexivity|].
    cbn [spec_exprs map refs]. f_equal. apply IH.
  Qed.

  Lemma resolve_items_of : forall sigma s segs last off,
    resolve sigma (mkF s (itemsOf off segs last)) =
    match spec_resolve classify sigma segs last with
    | Some r => Ok r
    | None => Raise FormatStringError
    end.
  Proof.
    intros sigma s segs last. unfold resolve. simpl.
    induction segs as [|[l e] segs IH]; intros off.
    - simpl. destruct last; [reflexivity|]. simpl. now rewrite app_nil_r.
    - cbn [items_of resolve_items spec_resolve]. rewrite IH.
      unfold expr_evaluate, node_evaluate.
      destruct (lookup sigma (norm classify e)) as [v|]; [|reflexivity].
      destruct (spec_resolve classify sigma segs last); reflexivity.
  Qed.

  Theorem mk_resolve : forall s f segs last sigma, mk classify s = Ok f -> Dec s segs last ->
    resolve sigma f = match spec_resolve classify sigma segs last with
                      | Some r => Ok r
                      | None => Raise FormatStringError
                      end.
  Proof.
    intros s f segs last sigma H D. apply mk_value_iff in H as [segs' [last' [D' ->]]].
    destruct (decomp_unique _ _ _ _ _ D D') as [-> ->]. apply resolve_items_of.
  Qed.

  Lemma spec_resolve_none : forall sigma segs last,
    spec_resolve classify sigma segs last = None <->
    exists n, In n (refs classify segs) /\ lookup sigma n = None.
  Proof.
    intros sigma segs last. induction segs as [|[l e] segs IH].
    - simpl. split; [discriminate|]. intros [n [[] _]].
    - cbn [spec_resolve refs map snd]. destruct (lookup sigma (norm classify e)) as [v|] eqn:L.
      + destruct (spec_resolve classify sigma segs last) as [t|].
        * split; [discriminate|]. intros [n [[<-|I] Hn]]; [congruence|].
          destruct IH as [_ IH]. discriminate IH. eauto.
        * split; [|reflexivity]. intros _. destruct IH as [IH _].
          destruct (IH eq_refl) as [n [I Hn]]. exists n. split; [now right|exact Hn].
      + split; [|reflexivity]. intros _. exists (norm classify e). split; [now left|exact L].
  Qed.

  Theorem mk_resolve_bound : forall s f segs last sigma, mk classify s = Ok f -> Dec s segs last ->
    (forall n, In n (refs classify segs) -> lookup sigma n <> None) ->
    exists r, spec_resolve classify sigma segs last = Some r /\ resolve sigma f = Ok r.
  Proof.
    intros s f segs last sigma H D B. rewrite (mk_resolve _ _ _ _ sigma H D).
    destruct (spec_resolve classify sigma segs last) as [r|] eqn:R; [eauto|].
    apply spec_resolve_none in R as [n [I Hn]]. exfalso. exact (B n I Hn).
  Qed.

  Lemma validate_refs_nonempty : forall symbols f,
    validate_refs symbols f <> [] <-> exists n, In n (names f) /\ mem_str n symbols = false.
  Proof.
    intros symbols f. unfold validate_refs, names, node_validate.
    induction (expressions f) as [|[[n a] b] l IH].
    - simpl. split; [congruence|]. intros [n [[] _]].
    - cbn [flat_map map fst]. destruct (mem_str n symbols) eqn:M.
      + simpl app. rewrite IH. split.
        * intros [m [I Hm]]. exists m. split; [now right|exact Hm].
        * intros [m [[<-|I] Hm]]; [congruence|eauto].
      + split; [|discriminate]. intros _. exists n. split; [now left|exact M].
  Qed.

  Theorem mk_resolve_fail_iff : forall s f sigma, mk classify s = Ok f ->
    (resolve sigma f = Raise FormatStringError <-> exists n, In n (names f) /\ lookup sigma n = None) /\
    ((exists n, In n (names f) /\ lookup sigma n = None) <-> validate_refs (dom sigma) f <> []) /\
    (forall e, resolve sigma f = Raise e -> e = FormatStringError).
  Proof.
    intros s f sigma H. apply mk_value_iff in H as [segs [last [D ->]]].
    rewrite resolve_items_of, names_items_of. repeat split.
    - intros R. apply (spec_resolve_none sigma segs last). destruct (spec_resolve classify sigma segs last); [discriminate|reflexivity].
    - intros E. apply (spec_resolve_none sigma segs last) in E. now rewrite E.
    - intros [n [I Hn]]. apply validate_refs_nonempty. rewrite names_items_of.
      exists n. split; [exact I|now apply lookup_dom].
    - intros V. apply validate_refs_nonempty in V as [n [I Hn]]. rewrite names_items_of in I.
      exists n. split; [exact I|now apply lookup_dom].
    - intros e R. destruct (spec_resolve classify sigma segs last); [discriminate|congruence].
  Qed.
End Main.

(* ------------------------------------------------------------------ sanity of the specification *)

(* every reference text of a decomposition is free of braces: its "}}" is the next one *)
Lemma decomp_refs_brace_free : forall classify, ascii_ok classify = true ->
  forall s segs last, Decomp classify s segs last ->
  Forall (fun le => ~ In lbrace (snd le) /\ ~ In rbrace (snd le)) segs.
Proof.
  intros classify AOK s segs last D.
  induction D as [l HO HC | l e rest segs last HC HO HD D IH]; constructor; auto.
  simpl. now apply (DName_no_brace classify AOK).
Qed.

(* when '.' is the only character of the lexer's dot class (true of the real lexer, whose DOT
   pattern is the literal "\."), the normalised name is the text with blanks removed *)
Lemma norm_blanks_removed : forall classify,
  (forall c, is_dot classify c = true -> c = dotc) ->
  forall e, norm classify e = filter (fun c => negb (is_blank classify c)) e.
Proof.
  intros classify Hd e. unfold norm.
  induction (filter (fun c => negb (is_blank classify c)) e) as [|c l IH]; [reflexivity|].
  simpl. rewrite IH. destruct (is_dot classify c) eqn:E; [|reflexivity]. now rewrite (Hd c E).
Qed.
