(* Conform.v — C09 on the whole pipeline: the READERS of a Job instance.  Definitions only.

   Written from the property text ("every job parameter value in a Job returned by create_job, and every
   task parameter value enumerated for its steps") and the schema of the job-side classes
   (Generated.schema: Job, JobParameter, Step, StepParameterSpace, RangeListTaskParameterDefinition,
   IntRangeListTaskParameterDefinition, FloatRangeListTaskParameterDefinition,
   RangeExpressionTaskParameterDefinition), not from the code of create_job:

     Job.parameters                         : None | { name : JobParameter { type, value, ... } }
     Job.steps[i].parameterSpace            : None | StepParameterSpace { taskParameterDefinitions, ... }
     StepParameterSpace.taskParameterDefinitions : { name : definition }
     definition.type                        : the declared type
     definition.range                       : a list of items  -> the items are the values
                                              a range string   -> the values are str(i) for the integers i
                                                                  IntRangeExpr.from_str(range) enumerates
                                                                  (RangeExpr.v / GlueProofs.range_values)

   This is what harness/c09.py reads off the real Job (job.parameters.items(): p.type.value, p.value;
   StepParameterSpaceIterator over st.parameterSpace: pv.type.value, pv.value).

   The readers are total functions with empty defaults; [job_wf] states that none of the defaults is ever
   used on a Job (every place the readers look at holds a value of the shape they expect), so that
   "for all (n, ty, v) in the reader's list" quantifies over EVERY value of the Job. *)
From Coq Require Import List NArith ZArith Bool String.
Import ListNotations.
Require Import OJD.Base OJD.Lexer OJD.Json OJD.Schema OJD.CreateJob OJD.RangeExpr OJD.Validators OJD.GlueProofs.
Local Open Scope string_scope.
Local Open Scope list_scope.

Definition dict_entries (v : mval) : list (str * mval) := match v with MDict l => l | _ => [] end.

(* (name, declared type, value) of every job parameter of the Job *)
Definition job_parameters_of (job : mval) : list (str * str * str) :=
  map (fun kv => (fst kv,
                  mstr (mfield "type" (model_fields (snd kv))),
                  mstr (mfield "value" (model_fields (snd kv)))))
      (dict_entries (mfield "parameters" (model_fields job))).

Definition is_mstr (v : mval) : bool := match v with MStr _ => true | _ => false end.

Definition range_list_class (c : string) : bool :=
  String.eqb c "IntRangeListTaskParameterDefinition" || String.eqb c "FloatRangeListTaskParameterDefinition"
  || String.eqb c "RangeListTaskParameterDefinition".

Section Readers.
  Variable classify : N -> cclass.

  (* the values one task parameter definition enumerates *)
  Definition def_values (d : mval) : list str :=
    match mfield "range" (model_fields d) with
    | MList items => map mstr items
    | MStr r | MFmt r =>
      match RangeExpr.from_str false false classify r with
      | Ok e => range_values e
      | Raise _ => []
      end
    | _ => []
    end.

  (* (step name, task parameter name, declared type, value) for every value of every task parameter of a step *)
  Definition step_task_values (st : mval) : list (str * str * str * str) :=
    flat_map (fun kv =>
                map (fun v => (mstr (mfield "name" (model_fields st)), fst kv,
                               mstr (mfield "type" (model_fields (snd kv))), v))
                    (def_values (snd kv)))
             (dict_entries (mfield "taskParameterDefinitions"
                                   (model_fields (mfield "parameterSpace" (model_fields st))))).

  Definition task_values_of (job : mval) : list (str * str * str * str) :=
    flat_map step_task_values (mitems (mfield "steps" (model_fields job))).

  (* ---------------- the readers lose nothing ---------------- *)
  Definition param_wf (p : mval) : bool :=
    match p with
    | MModel c fs => String.eqb c "JobParameter" && is_mstr (mfield "type" fs) && is_mstr (mfield "value" fs)
    | _ => false
    end.

  Definition def_wf (d : mval) : bool :=
    match d with
    | MModel c fs =>
      is_mstr (mfield "type" fs) &&
      match mfield "range" fs with
      | MList items => range_list_class c && forallb is_mstr items
      | MStr r => String.eqb c "RangeExpressionTaskParameterDefinition" && range_expr_ok classify r
      | _ => false
      end
    | _ => false
    end.

  Definition space_wf (ps : mval) : bool :=
    match ps with
    | MNone => true
    | MModel c fs =>
      String.eqb c "StepParameterSpace" &&
      match mfield "taskParameterDefinitions" fs with
      | MDict d => forallb (fun kv => def_wf (snd kv)) d
      | _ => false
      end
    | _ => false
    end.

  Definition step_wf (st : mval) : bool :=
    match st with
    | MModel c fs => String.eqb c "Step" && is_mstr (mfield "name" fs) && space_wf (mfield "parameterSpace" fs)
    | _ => false
    end.

  Definition job_wf (job : mval) : bool :=
    match job with
    | MModel c fs =>
      String.eqb c "Job" &&
      match mfield "steps" fs with MList l => forallb step_wf l | _ => false end &&
      match mfield "parameters" fs with
      | MNone => true
      | MDict d => forallb (fun kv => param_wf (snd kv)) d
      | _ => false
      end
    | _ => false
    end.
End Readers.
