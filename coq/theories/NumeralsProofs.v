(* NumeralsProofs.v — the executable comparison of Numerals.v is exact rational comparison. *)
From Coq Require Import ZArith QArith Qpower Lia List Bool.
Require Import OJD.Base OJD.Numerals OJD.NumeralsSpec.
Import ListNotations.

Lemma ten_neq0 : ~ inject_Z 10 == 0.
Proof. intro H. discriminate H. Qed.

Lemma ten_pow_pos : forall k : Z, 0 < (inject_Z 10) ^ k.
Proof. intro k. apply Qpower_0_lt. reflexivity. Qed.

(* scaling a number to any exponent k below its own *)
Lemma Qnum_scaled : forall a k, (k <= expo a)%Z ->
  Qnum a == inject_Z (mant a * 10 ^ (expo a - k)) * (inject_Z 10) ^ k.
Proof.
  intros a k Hk. unfold Qnum.
  rewrite inject_Z_mult.
  rewrite Zpower_Qpower by lia.
  rewrite <- Qmult_assoc.
  rewrite <- Qpower_plus by exact ten_neq0.
  replace (expo a - k + k)%Z with (expo a) by lia.
  reflexivity.
Qed.

Lemma num_cmp_spec : forall a b, num_cmp a b = (Qnum a ?= Qnum b).
Proof.
  intros a b. unfold num_cmp.
  set (k := Z.min (expo a) (expo b)).
  assert (Ha : (k <= expo a)%Z) by (unfold k; lia).
  assert (Hb : (k <= expo b)%Z) by (unfold k; lia).
  set (A := (mant a * 10 ^ (expo a - k))%Z).
  set (B := (mant b * 10 ^ (expo b - k))%Z).
  pose proof (Qnum_scaled a k Ha) as Ea. pose proof (Qnum_scaled b k Hb) as Eb.
  fold A in Ea. fold B in Eb.
  pose proof (ten_pow_pos k) as Hp.
  destruct (Z.compare_spec A B) as [E|L|G].
  - symmetry. apply Qeq_alt. rewrite Ea, Eb, E. reflexivity.
  - symmetry. apply Qlt_alt. rewrite Ea, Eb. apply Qmult_lt_r; [exact Hp|].
    rewrite <- Zlt_Qlt. exact L.
  - symmetry. apply Qgt_alt. rewrite Ea, Eb. apply Qmult_lt_r; [exact Hp|].
    rewrite <- Zlt_Qlt. exact G.
Qed.

Lemma num_ltb_spec : forall a b, num_ltb a b = true <-> num_lt a b.
Proof.
  intros a b. unfold num_ltb, num_lt. rewrite num_cmp_spec, Qlt_alt.
  destruct (Qnum a ?= Qnum b); split; intro H; try reflexivity; try discriminate.
Qed.

Lemma num_ltb_false : forall a b, num_ltb a b = false <-> num_le b a.
Proof.
  intros a b. unfold num_ltb, num_le. rewrite num_cmp_spec.
  rewrite Qle_alt. rewrite <- (Qcompare_antisym (Qnum a) (Qnum b)).
  destruct (Qnum a ?= Qnum b); cbn; split; intro H; try reflexivity; try discriminate; try (exfalso; apply H; reflexivity).
Qed.

Lemma num_leb_spec : forall a b, num_leb a b = true <-> num_le a b.
Proof.
  intros a b. unfold num_leb, num_le. rewrite num_cmp_spec, Qle_alt.
  destruct (Qnum a ?= Qnum b); split; intro H; try reflexivity; try discriminate; try (exfalso; apply H; reflexivity).
Qed.

Lemma num_eqb_spec : forall a b, num_eqb a b = true <-> num_eq a b.
Proof.
  intros a b. unfold num_eqb, num_eq. rewrite num_cmp_spec, Qeq_alt.
  destruct (Qnum a ?= Qnum b); split; intro H; try reflexivity; try discriminate.
Qed.

Lemma mem_num_spec : forall x l, mem_num x l = true <-> exists y, In y l /\ num_eq x y.
Proof.
  intros x l. induction l as [|y ys IH]; cbn [mem_num].
  - split; [discriminate|]. intros [y [[] _]].
  - rewrite orb_true_iff, IH, num_eqb_spec. split.
    + intros [H|[z [Hz Hq]]]; [exists y|exists z]; split; auto; [left|right]; auto.
    + intros [z [[->|Hz] Hq]]; [left|right]; auto. exists z; auto.
Qed.

(* order facts used by the merge proofs *)
Lemma num_le_refl : forall a, num_le a a.
Proof. intro a. unfold num_le. apply Qle_refl. Qed.

Lemma num_le_trans : forall a b c, num_le a b -> num_le b c -> num_le a c.
Proof. unfold num_le. intros a b c. apply Qle_trans. Qed.

Lemma num_le_total : forall a b, num_le a b \/ num_le b a.
Proof.
  unfold num_le. intros a b. destruct (Qlt_le_dec (Qnum a) (Qnum b)) as [H|H]; [left; apply Qlt_le_weak|right]; exact H.
Qed.

Lemma num_eq_le : forall a b, num_eq a b -> num_le a b.
Proof. unfold num_eq, num_le. intros a b H. rewrite H. apply Qle_refl. Qed.

Lemma num_eq_sym : forall a b, num_eq a b -> num_eq b a.
Proof. unfold num_eq. intros a b H. symmetry. exact H. Qed.

Lemma num_eq_trans : forall a b c, num_eq a b -> num_eq b c -> num_eq a c.
Proof. unfold num_eq. intros a b c H1 H2. rewrite H1. exact H2. Qed.

Lemma num_le_eq_l : forall a a' b, num_eq a a' -> num_le a b -> num_le a' b.
Proof. unfold num_eq, num_le. intros a a' b H. rewrite H. auto. Qed.

Lemma num_le_eq_r : forall a b b', num_eq b b' -> num_le a b -> num_le a b'.
Proof. unfold num_eq, num_le. intros a b b' H. rewrite H. auto. Qed.

Lemma num_le_antisym : forall a b, num_le a b -> num_le b a -> num_eq a b.
Proof. unfold num_le, num_eq. intros a b. apply Qle_antisym. Qed.

Lemma num_max_spec : forall a b c, num_le (num_max a b) c <-> num_le a c /\ num_le b c.
Proof.
  intros a b c. unfold num_max. destruct (num_ltb a b) eqn:E.
  - apply num_ltb_spec in E. split.
    + intro H. split; [|exact H]. apply num_le_trans with b; [|exact H]. unfold num_le, num_lt in *. apply Qlt_le_weak. exact E.
    + intros [_ H]. exact H.
  - apply num_ltb_false in E. split.
    + intro H. split; [exact H|]. apply num_le_trans with a; assumption.
    + intros [H _]. exact H.
Qed.

Lemma num_min_spec : forall a b c, num_le c (num_min a b) <-> num_le c a /\ num_le c b.
Proof.
  intros a b c. unfold num_min. destruct (num_ltb b a) eqn:E.
  - apply num_ltb_spec in E. split.
    + intro H. split; [|exact H]. apply num_le_trans with b; [exact H|]. unfold num_le, num_lt in *. apply Qlt_le_weak. exact E.
    + intros [_ H]. exact H.
  - apply num_ltb_false in E. split.
    + intro H. split; [exact H|]. apply num_le_trans with a; assumption.
    + intros [H _]. exact H.
Qed.

(* ---------- every number has a numeral: printing, and parsing it back ----------
   (used to exhibit witnesses of satisfiability; proof-side only, never extracted) *)

Local Open Scope Z_scope.

Definition val (acc : Z) (s : str) : Z := fold_left (fun a c => a * 10 + digit_val c) s acc.

Fixpoint digits_fuel (fuel : nat) (n : Z) (acc : str) : str :=
  match fuel with
  | O => acc
  | S f =>
    let acc' := (Z.to_N (n mod 10) + 48)%N :: acc in
    if n <? 10 then acc' else digits_fuel f (n / 10) acc'
  end.

Definition print_nonneg (n : Z) : str := digits_fuel (S (Z.to_nat n)) n [].
Definition print_Z (z : Z) : str := if z <? 0 then 45%N :: print_nonneg (- z) else print_nonneg z.
(* <mantissa>e<exponent> *)
Definition print_num (x : num) : str := print_Z (mant x) ++ 101%N :: print_Z (expo x).

Definition digitP (c : N) : Prop := is_digit c = true.

Lemma digit_char : forall d, 0 <= d < 10 ->
  digitP (Z.to_N d + 48)%N /\ digit_val (Z.to_N d + 48)%N = d.
Proof.
  intros d H. unfold digitP, is_digit, digit_val. split.
  - apply andb_true_iff. split; apply N.leb_le; lia.
  - lia.
Qed.

Lemma val_app : forall a x y, val a (x ++ y) = val (val a x) y.
Proof. intros a x y. unfold val. apply fold_left_app. Qed.

Ltac Zify.zify_post_hook ::= Z.to_euclidean_division_equations.

Lemma digits_fuel_spec : forall fuel n acc, 0 <= n -> (Z.to_nat n < fuel)%nat ->
  exists ds, digits_fuel fuel n acc = ds ++ acc /\ ds <> [] /\ Forall digitP ds /\
             forall a0, val a0 ds = a0 * 10 ^ Z.of_nat (length ds) + n.
Proof.
  induction fuel as [|f IH]; intros n acc Hn Hf; [lia|].
  cbn [digits_fuel].
  assert (Hd : 0 <= n mod 10 < 10) by (apply Z.mod_pos_bound; lia).
  destruct (digit_char (n mod 10) Hd) as [Dc Dv].
  destruct (n <? 10) eqn:E.
  - apply Z.ltb_lt in E. exists [(Z.to_N (n mod 10) + 48)%N]. split; [reflexivity|]. split; [discriminate|].
    split; [constructor; [exact Dc|constructor]|].
    intro a0. unfold val. cbn [fold_left length]. rewrite Dv.
    change (Z.of_nat 1) with 1. rewrite Z.pow_1_r. rewrite Z.mod_small by lia. reflexivity.
  - apply Z.ltb_ge in E.
    assert (H1 : 0 <= n / 10) by (apply Z.div_pos; lia).
    assert (H2 : (Z.to_nat (n / 10) < f)%nat) by lia.
    destruct (IH (n / 10) ((Z.to_N (n mod 10) + 48)%N :: acc) H1 H2) as [ds [Eq [Ne [Fd Hv]]]].
    exists (ds ++ [(Z.to_N (n mod 10) + 48)%N]). split; [rewrite Eq, <- app_assoc; reflexivity|].
    split; [destruct ds; discriminate|].
    split; [apply Forall_app; split; [exact Fd|constructor; [exact Dc|constructor]]|].
    intro a0. rewrite val_app, Hv. unfold val at 1. cbn [fold_left]. rewrite Dv.
    rewrite app_length. cbn [length]. rewrite Nat2Z.inj_add. change (Z.of_nat 1) with 1.
    rewrite Z.pow_add_r by lia. rewrite Z.pow_1_r.
    set (p := 10 ^ Z.of_nat (length ds)). lia.
Qed.

Lemma print_nonneg_spec : forall n, 0 <= n ->
  print_nonneg n <> [] /\ Forall digitP (print_nonneg n) /\
  forall a0, val a0 (print_nonneg n) = a0 * 10 ^ Z.of_nat (length (print_nonneg n)) + n.
Proof.
  intros n Hn. unfold print_nonneg.
  destruct (digits_fuel_spec (S (Z.to_nat n)) n [] Hn ltac:(lia)) as [ds [Eq [Ne [Fd Hv]]]].
  rewrite app_nil_r in Eq. rewrite Eq. auto.
Qed.

Lemma take_digits_run : forall ds acc k rest,
  Forall digitP ds -> match rest with [] => True | c :: _ => is_digit c = false end ->
  take_digits acc k (ds ++ rest) = (val acc ds, k + Z.of_nat (length ds), rest).
Proof.
  induction ds as [|c r IH]; intros acc k rest Fd Hr.
  - cbn [app length val fold_left]. unfold val. cbn [fold_left]. rewrite Z.add_0_r.
    destruct rest as [|c r]; [reflexivity|]. cbn [take_digits]. rewrite Hr. reflexivity.
  - inversion Fd as [|x l Hc Fr]; subst. cbn [app take_digits]. unfold digitP in Hc. rewrite Hc.
    rewrite IH by assumption. unfold val. cbn [fold_left length]. f_equal. f_equal. lia.
Qed.

Lemma int_digits_run : forall ds acc prev,
  Forall digitP ds -> (ds <> [] \/ prev = true) -> int_digits acc prev ds = Some (val acc ds).
Proof.
  induction ds as [|c r IH]; intros acc prev Fd H.
  - destruct H as [H| ->]; [contradiction|]. reflexivity.
  - inversion Fd as [|x l Hc Fr]; subst. cbn [int_digits]. unfold digitP in Hc. rewrite Hc.
    rewrite IH; [reflexivity|exact Fr|right; reflexivity].
Qed.

Lemma drop_while_id : forall p s, (forall c, In c s -> p c = false) -> drop_while p s = s.
Proof.
  intros p [|c r] H; [reflexivity|]. cbn [drop_while]. rewrite (H c (or_introl eq_refl)). reflexivity.
Qed.

Lemma strip_id : forall p s, (forall c, In c s -> p c = false) -> strip p s = s.
Proof.
  intros p s H. unfold strip. rewrite (drop_while_id p s H).
  rewrite drop_while_id; [apply rev_involutive|]. intros c Hc. apply H. apply in_rev. exact Hc.
Qed.

Lemma filter_id : forall {A} (f : A -> bool) s, (forall c, In c s -> f c = true) -> filter f s = s.
Proof.
  intros A f s. induction s as [|c r IH]; intro H; [reflexivity|]. cbn [filter].
  rewrite (H c (or_introl eq_refl)). f_equal. apply IH. intros x Hx. apply H. right. exact Hx.
Qed.

Lemma digit_cases : forall c, digitP c -> In c [48; 49; 50; 51; 52; 53; 54; 55; 56; 57]%N.
Proof.
  intros c H. unfold digitP, is_digit in H. apply andb_true_iff in H. destruct H as [H1 H2].
  apply N.leb_le in H1. apply N.leb_le in H2. cbn [In].
  assert (K : (c = 48 \/ c = 49 \/ c = 50 \/ c = 51 \/ c = 52 \/ c = 53 \/ c = 54 \/ c = 55 \/ c = 56 \/ c = 57)%N) by lia.
  intuition auto.
Qed.

(* the characters numerals are made of are neither blanks nor underscores, and are not signs
   (for digits) *)
Definition plain (c : N) : Prop := int_space c = false /\ dec_space c = false /\ negb (c =? 95)%N = true.

Lemma plain_digit : forall c, digitP c -> plain c /\ (c =? 43)%N = false /\ (c =? 45)%N = false.
Proof.
  intros c H. apply digit_cases in H. cbn [In] in H.
  repeat (destruct H as [<-|H]; [repeat split; reflexivity|]). destruct H.
Qed.

Lemma plain_minus : plain 45%N.
Proof. repeat split; reflexivity. Qed.
Lemma plain_e : plain 101%N.
Proof. repeat split; reflexivity. Qed.

Lemma print_Z_shape : forall z, exists ds,
  ds <> [] /\ Forall digitP ds /\ (forall a0, val a0 ds = a0 * 10 ^ Z.of_nat (length ds) + Z.abs z) /\
  print_Z z = if z <? 0 then 45%N :: ds else ds.
Proof.
  intro z. unfold print_Z. destruct (z <? 0) eqn:E.
  - apply Z.ltb_lt in E. destruct (print_nonneg_spec (- z) ltac:(lia)) as [Ne [Fd Hv]].
    exists (print_nonneg (- z)). repeat split; auto. intro a0. rewrite Hv. lia.
  - apply Z.ltb_ge in E. destruct (print_nonneg_spec z E) as [Ne [Fd Hv]].
    exists (print_nonneg z). repeat split; auto. intro a0. rewrite Hv. lia.
Qed.

Lemma print_Z_plain : forall z c, In c (print_Z z) -> plain c.
Proof.
  intros z c H. destruct (print_Z_shape z) as [ds [_ [Fd [_ Eq]]]]. rewrite Eq in H.
  rewrite Forall_forall in Fd.
  destruct (z <? 0); [destruct H as [<-|H]; [exact plain_minus|]|]; apply plain_digit; apply Fd; exact H.
Qed.

Lemma split_sign_print : forall z rest, exists ds,
  ds <> [] /\ Forall digitP ds /\ (forall a0, val a0 ds = a0 * 10 ^ Z.of_nat (length ds) + Z.abs z) /\
  split_sign (print_Z z ++ rest) = (z <? 0, ds ++ rest).
Proof.
  intros z rest. destruct (print_Z_shape z) as [ds [Ne [Fd [Hv Eq]]]]. exists ds.
  repeat split; auto. rewrite Eq. destruct (z <? 0).
  - reflexivity.
  - destruct ds as [|c r]; [contradiction|]. inversion Fd as [|x l Hc Fr]; subst.
    destruct (plain_digit c Hc) as [_ [E1 E2]]. cbn [app split_sign]. rewrite E1, E2. reflexivity.
Qed.

Theorem parse_int_print : forall z, parse_int (print_Z z) = Some z.
Proof.
  intro z. unfold parse_int.
  rewrite strip_id by (intros c Hc; apply (print_Z_plain z c Hc)).
  destruct (split_sign_print z []) as [ds [Ne [Fd [Hv Eq]]]]. rewrite !app_nil_r in Eq. rewrite Eq.
  rewrite int_digits_run; [|exact Fd|left; exact Ne]. rewrite Hv.
  destruct (z <? 0) eqn:E; [apply Z.ltb_lt in E|apply Z.ltb_ge in E]; f_equal; lia.
Qed.

Lemma head_digit_not_special : forall c t, digitP c ->
  let l := map lower (c :: t) in
  str_eqb l s_inf = false /\ str_eqb l s_infinity = false /\
  is_prefix s_nan l = false /\ is_prefix s_snan l = false.
Proof.
  intros c t H. apply digit_cases in H. cbn [In] in H.
  repeat (destruct H as [<-|H]; [repeat split; reflexivity|]). destruct H.
Qed.

Theorem parse_dec_print : forall x, parse_dec (print_num x) = Some (Fin (mant x) (expo x)).
Proof.
  intros [m e]. unfold print_num. cbn [mant expo]. unfold parse_dec.
  assert (Pl : forall c, In c (print_Z m ++ 101%N :: print_Z e) -> plain c).
  { intros c Hc. apply in_app_or in Hc. destruct Hc as [Hc|[<-|Hc]];
      [eapply print_Z_plain; eauto|exact plain_e|eapply print_Z_plain; eauto]. }
  rewrite strip_id by (intros c Hc; apply (Pl c Hc)).
  rewrite filter_id by (intros c Hc; apply (Pl c Hc)).
  destruct (split_sign_print m (101%N :: print_Z e)) as [dm [Nm [Fm [Vm Em]]]]. rewrite Em.
  unfold parse_unsigned. cbn zeta.
  destruct dm as [|c r]; [contradiction|].
  assert (Hc : digitP c) by (inversion Fm; assumption).
  pose proof (head_digit_not_special c (r ++ 101%N :: print_Z e) Hc) as HS. cbn zeta in HS.
  change ((c :: r) ++ 101%N :: print_Z e) with (c :: (r ++ 101%N :: print_Z e)).
  destruct HS as [S1 [S2 [S3 S4]]]. rewrite S1, S2, S3, S4. cbn [orb].
  change (c :: (r ++ 101%N :: print_Z e)) with ((c :: r) ++ 101%N :: print_Z e).
  rewrite (take_digits_run (c :: r) 0 0 (101%N :: print_Z e) Fm eq_refl).
  set (dm := c :: r) in *.
  cbn [take_fraction]. change (101 =? 46)%N with false. cbn iota.
  assert (Ln : (0 + Z.of_nat (length dm) + 0 =? 0) = false).
  { apply Z.eqb_neq. unfold dm. cbn [length]. lia. }
  rewrite Ln. cbn [take_exponent]. change ((101 =? 101)%N || (101 =? 69)%N) with true. cbn iota.
  destruct (split_sign_print e []) as [de [Ne [Fe [Ve Ee]]]]. rewrite !app_nil_r in Ee. rewrite Ee.
  pose proof (take_digits_run de 0 0 [] Fe I) as TD. rewrite app_nil_r in TD. rewrite TD.
  assert (Le : (0 + Z.of_nat (length de) =? 0) = false).
  { apply Z.eqb_neq. destruct de; [contradiction|]. cbn [length]. lia. }
  rewrite Le. cbn [is_nil negb orb]. rewrite Vm, Ve. f_equal. f_equal.
  - destruct (m <? 0) eqn:E; [apply Z.ltb_lt in E|apply Z.ltb_ge in E]; lia.
  - destruct (e <? 0) eqn:E; [apply Z.ltb_lt in E|apply Z.ltb_ge in E]; lia.
Qed.
