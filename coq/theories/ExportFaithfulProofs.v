(* ExportFaithfulProofs.v — C17 "faithful": the export of a decoded document is the document, up to numeric
   formatting ([jequiv], ExportFaithful.v).  For ALL documents / fuels / character tables / validators.

     scalar_body_faithful     every scalar kind coerces without loss: what it stores, printed again, reads as the
                              value it was given (lax int of 30.0 / "30" / true, lax str of 12 / true, Decimal of
                              1.5 / "1e3" / 2, float of 2 / true, ...)
     faithful_generic         any schema whose classes forbid unknown keys and have distinct names and aliases:
                              parse_kind / parse_cls f .. v = Ok x  ->  jequiv v (exp x)
     faithful_any             the live schema: every class of the module, as parse_any / export compute it
   Lemmas only; the property theorems are in props/C17xf.v. *)
From Coq Require Import List NArith ZArith Bool String Lia Arith.
Import ListNotations.
Require Import OJD.Base OJD.Lexer OJD.Json OJD.Schema OJD.Generated OJD.Charsets OJD.Numerals OJD.NumPrint
               OJD.CreateJob OJD.Parse OJD.Validators OJD.Accept OJD.Export OJD.NumRoundtrip OJD.ExportProofs
               OJD.ExportFaithful OJD.ExportFaithfulNum.
Local Open Scope string_scope.
Local Open Scope list_scope.

(* what the proof needs of a schema: every class forbids unknown keys, and its attribute names and its input
   names (aliases) are pairwise distinct *)
Definition faithful_cls_ok (k : cls) : bool :=
  c_extra_forbid k && nodup_sb (map f_name (c_fields k)) && nodup_sb (map f_alias (c_fields k)).

Definition faithful_schema_ok (SC : schema_t) : bool := forallb (fun ck => faithful_cls_ok (snd ck)) SC.

(* ------------------------------------------------------------------------------------------ *)
(* 0. small facts about [jequiv] and [jlook]                                                  *)

Lemma jequiv_null_l : forall b, jequiv JNull b -> b = JNull.
Proof.
  intros b H. inversion H as [| | | | |a0 b0 x y Ha Hb Hxy Hbs E1 E2| |]; subst; try reflexivity.
  discriminate Ha.
Qed.

Lemma je_same_num : forall a x, as_num a = Some x -> bool_vs_str a a = false -> jequiv a a.
Proof. intros a x Ha Hb. eapply JE_num; [exact Ha|exact Ha|apply num_eqb_refl|exact Hb]. Qed.

Lemma json_null_dec : forall j : json, j = JNull \/ j <> JNull.
Proof. intros j. destruct j; try (right; discriminate). left. reflexivity. Qed.

Lemma jlook_some : forall k ms v, assoc k ms = Some v -> v <> JNull -> jlook k ms = Some v.
Proof. intros k ms v H Hn. unfold jlook. rewrite H. destruct v; try reflexivity. contradiction. Qed.

Lemma jlook_absent : forall k (ms : list (str * json)), assoc k ms = None -> jlook k ms = None.
Proof. intros k ms H. unfold jlook. rewrite H. reflexivity. Qed.

Lemma jlook_null : forall k ms, assoc k ms = Some JNull -> jlook k ms = None.
Proof. intros k ms H. unfold jlook. rewrite H. reflexivity. Qed.

(* the mapping clause, key by key *)
Lemma je_obj_cases : forall ms ms',
  (forall key, (jlook key ms = None /\ jlook key ms' = None)
               \/ (exists v v', jlook key ms = Some v /\ jlook key ms' = Some v' /\ jequiv v v')) ->
  jequiv (JObj ms) (JObj ms').
Proof.
  intros ms ms' H. apply JE_obj.
  - intros key. destruct (H key) as [[A B]|[v0 [v0' [A [B _]]]]]; rewrite A, B; split; intros E; try reflexivity; discriminate E.
  - intros key v v' Hv Hv'. destruct (H key) as [[A B]|[v0 [v0' [A [B C]]]]].
    + rewrite A in Hv. discriminate Hv.
    + rewrite A in Hv. rewrite B in Hv'. inversion Hv. inversion Hv'. subst. exact C.
Qed.

Lemma assoc_in_key : forall (A : Type) k (l : list (str * A)) v, assoc k l = Some v -> In (k, v) l.
Proof.
  induction l as [|[k' v'] r IH]; intros v H; [discriminate|].
  cbn [assoc] in H. destruct (str_eqb k k') eqn:E.
  - inversion H. subst v'. apply str_eqb_true2 in E. subst k'. left. reflexivity.
  - right. apply IH. exact H.
Qed.

(* two association lists with the same keys in the same order, related member by member *)
Lemma assoc_lockstep : forall (R : json -> json -> Prop) (l l' : list (str * json)),
  Forall2 (fun a b => fst a = fst b /\ R (snd a) (snd b)) l l' ->
  forall key, match assoc key l, assoc key l' with
              | Some v, Some v' => R v v'
              | None, None => True
              | _, _ => False
              end.
Proof.
  intros R l l' H key. induction H as [|[k v] [k' v'] l l' Hab _ IH]; [exact I|].
  cbn [fst snd] in Hab. destruct Hab as [E HR]. subst k'. cbn [assoc].
  destruct (str_eqb key k); [exact HR|exact IH].
Qed.

Lemma in_combine_exists : forall (A B : Type) (l : list A) (l' : list B) a,
  List.length l = List.length l' -> In a l -> exists b, In (a, b) (combine l l').
Proof.
  induction l as [|x l IH]; intros l' a Hlen Hin; [destruct Hin|].
  destruct l' as [|y l']; [discriminate|]. cbn [combine]. destruct Hin as [Hin|Hin].
  - subst x. exists y. left. reflexivity.
  - cbn [List.length] in Hlen. destruct (IH l' a) as [b Hb]; [lia|exact Hin|]. exists b. right. exact Hb.
Qed.

(* ------------------------------------------------------------------------------------------ *)
(* 1. scalars: every coercion is lossless                                                      *)

Section Scalars.
  Variable SC : schema_t.
  Variable classify : N -> cclass.
  Notation EXP := (exp SC).

  Lemma exp_scalar : forall x, sval x = true -> EXP x = to_object SC 2 x.
  Proof. intros x H. destruct x; try discriminate; reflexivity. Qed.

  Theorem scalar_body_faithful : forall k v x,
    scalar_body classify k v = Ok x -> jequiv v (EXP x).
  Proof.
    intros k v x H.
    destruct k as [lit|members|strict minl maxl cs|fc minl maxl cs|strict|strict ge le gt|gt| | | |];
      cbn [scalar_body] in H; unfold reject, unsupported in *; try discriminate.
    - (* literal *)
      destruct v; try discriminate. destruct (str_eqb s $lit); [|discriminate]. inversion H. apply JE_str.
    - (* enum *)
      destruct v; try discriminate. destruct (existsb _ members); [|discriminate]. inversion H. apply JE_str.
    - (* str *)
      destruct v as [|b|z|dm de|s| |]; try discriminate.
      + destruct strict; [discriminate|]. apply check_str_ok in H. subst x.
        destruct b; [exact (JE_bool_str true)|exact (JE_bool_str false)].
      + destruct strict; [discriminate|]. apply check_str_ok in H. subst x.
        change (EXP (MStr (print_Z z))) with (JStr (print_Z z)).
        eapply JE_num; [reflexivity| |apply num_eqb_refl|reflexivity].
        cbn [as_num]. rewrite parse_dec_print_Z. reflexivity.
      + destruct strict; discriminate.
      + apply check_str_ok in H. subst x. apply JE_str.
    - (* format string *)
      destruct v; try discriminate. destruct (len_ok minl maxl s && cs_ok cs s && fs_ok classify s); [|discriminate].
      inversion H. apply JE_str.
    - (* bool *)
      destruct v; try (destruct strict; discriminate). inversion H. apply JE_bool.
    - (* int *)
      assert (Hfin : forall z, (if zopt_ok ge le gt z then Ok (MInt z) else Raise ValueError) = Ok x -> x = MInt z).
      { intros z Hz. destruct (zopt_ok ge le gt z); [|discriminate]. inversion Hz. reflexivity. }
      destruct v as [|b|z|dm de|s| |]; try discriminate.
      + destruct strict; [discriminate|]. apply Hfin in H. subst x.
        eapply JE_num; [reflexivity|reflexivity|apply num_eqb_refl|reflexivity].
      + apply Hfin in H. subst x. eapply je_same_num; reflexivity.
      + destruct strict; [discriminate|]. destruct (dec_integral dm de) eqn:Ei; [|discriminate].
        apply Hfin in H. subst x.
        eapply JE_num; [reflexivity|reflexivity|apply trunc_dec_same_value; exact Ei|reflexivity].
      + destruct strict; [discriminate|]. destruct (parse_int s) as [z|] eqn:Ep; [|discriminate].
        apply Hfin in H. subst x.
        eapply JE_num; [|reflexivity|apply num_eqb_refl|reflexivity].
        cbn [as_num]. rewrite (parse_int_parse_dec _ _ Ep). reflexivity.
    - (* float *)
      assert (Hfin : forall m e,
                 match gt with
                 | Some b => if num_ltb (num_of_Z b) (mkNum m e) then Ok (MFloat m e) else Raise ValueError
                 | None => Ok (MFloat m e)
                 end = Ok x -> x = MFloat m e).
      { intros m e Hz. destruct gt as [b|]; [destruct (num_ltb _ _); [|discriminate]|]; inversion Hz; reflexivity. }
      destruct v as [|b|z|dm de|s| |]; try discriminate; apply Hfin in H; subst x.
      + eapply JE_num; [reflexivity|reflexivity|apply num_eqb_refl|reflexivity].
      + eapply JE_num; [reflexivity|reflexivity|apply num_eqb_refl|reflexivity].
      + eapply je_same_num; reflexivity.
    - (* Decimal *)
      destruct v as [|b|z|dm de|s| |]; try discriminate.
      + inversion H. change (EXP (MDec z 0)) with (JStr (print_dec z 0)).
        eapply JE_num; [reflexivity| |apply num_eqb_refl|reflexivity].
        cbn [as_num]. rewrite parse_dec_print_dec. reflexivity.
      + inversion H. change (EXP (MDec dm de)) with (JStr (print_dec dm de)).
        eapply JE_num; [reflexivity| |apply num_eqb_refl|reflexivity].
        cbn [as_num]. rewrite parse_dec_print_dec. reflexivity.
      + destruct (parse_dec s) as [[m e| |]|] eqn:Ep; try discriminate. inversion H.
        change (EXP (MDec m e)) with (JStr (print_dec m e)).
        eapply JE_num; [| |apply num_eqb_refl|reflexivity].
        * cbn [as_num]. rewrite Ep. reflexivity.
        * cbn [as_num]. rewrite parse_dec_print_dec. reflexivity.
  Qed.
End Scalars.

(* ------------------------------------------------------------------------------------------ *)
(* 2. one step of the induction                                                                 *)

Section FStep.
  Variable SC : schema_t.
  Variable classify : N -> cclass.
  Variable pre : string -> json -> bool.
  Variable post : string -> json -> list (string * mval) -> bool.
  Hypothesis Hsc : faithful_schema_ok SC = true.

  Notation EXP := (exp SC).

  Variable pk : kind -> json -> outcome mval.
  Variable pc : string -> json -> outcome mval.
  Hypothesis NNk : forall k v x, pk k v = Ok x -> no_none_items x = true.
  Hypothesis IHk : forall k v x, pk k v = Ok x -> jequiv v (EXP x).
  Hypothesis IHc : forall c v x, pc c v = Ok x -> jequiv v (EXP x).

  Lemma list_value_f : forall minl maxl k v x,
    list_value pk minl maxl k v = Ok x -> jequiv v (EXP x).
  Proof.
    intros minl maxl k v x H. unfold list_value in H. destruct v as [| | | | |items|]; try discriminate.
    destruct (len_ok_n minl maxl (List.length items)); [|discriminate].
    destruct (mapM (pk k) items) as [l'|] eqn:E; [|discriminate]. cbn [bind] in H. inversion H. subst x.
    apply mapM_Forall2 in E. rewrite exp_list. apply JE_arr.
    clear H. induction E as [|a b l l' Hab _ IH]; [constructor|].
    cbn [map]. constructor; [eapply IHk; eassumption|exact IH].
  Qed.

  Lemma try_alts_f : forall alts v x,
    try_alts pk alts v = Ok x -> jequiv v (EXP x).
  Proof.
    induction alts as [|a r IH]; intros v x H; [discriminate|].
    cbn [try_alts] in H. destruct (alt_value pk a v) as [y|e] eqn:E.
    - inversion H. subst y. destruct a; cbn [alt_value] in E; [eapply IHk|eapply list_value_f]; eassumption.
    - destruct e; try discriminate; eapply IH; eassumption.
  Qed.

  Lemma kind_body_f : forall k v x,
    kind_body classify pk pc k v = Ok x -> jequiv v (EXP x).
  Proof.
    intros k v x H. destruct k; try (eapply scalar_body_faithful; exact H).
    - eapply IHc; eassumption.
    - cbn [kind_body] in H. unfold disc_value in H. destruct v; try discriminate.
      destruct (assoc $key members) as [[| | | |s| |]|]; try discriminate.
      destruct (List.find _ mapping) as [[t c]|]; [|discriminate]. eapply IHc; eassumption.
    - eapply try_alts_f; eassumption.
  Qed.

  Lemma dict_value_f : forall kk k v x,
    dict_value pk kk k v = Ok x -> jequiv v (EXP x).
  Proof.
    intros kk k v x H. unfold dict_value in H.
    destruct v as [| | | | | |members]; try discriminate.
    - destruct (mapM (dict_member pk kk k) members) as [l'|] eqn:E; [|discriminate]. cbn [bind] in H.
      inversion H. subst x. clear H. apply mapM_Forall2 in E.
      assert (Hm : Forall2 (fun a b => fst a = fst b /\ mnone (snd b) = false /\ jequiv (snd a) (EXP (snd b))) members l').
      { induction E as [|a b l l' Hab _ IH]; [constructor|].
        constructor; [|exact IH].
        unfold dict_member in Hab. destruct (pk kk (JStr (fst a))) as [w|]; [|discriminate]. cbn [bind] in Hab.
        destruct (pk k (snd a)) as [y|] eqn:Ey; [|discriminate]. cbn [bind] in Hab. inversion Hab. subst b.
        cbn [fst snd] in *. split; [reflexivity|]. split; [apply nn_not_none; eapply NNk; exact Ey|].
        eapply IHk; eassumption. }
      rewrite exp_dict.
      2:{ intros kv Hkv. destruct (Forall2_in_r _ _ _ _ _ _ Hm Hkv) as [a [_ [_ [Hnn _]]]]. exact Hnn. }
      apply je_obj_cases. intros key.
      assert (Hl : Forall2 (fun a b => fst a = fst b /\ (snd a <> JNull /\ snd b <> JNull /\ jequiv (snd a) (snd b)))
                           members (map (fun kv : str * mval => (fst kv, EXP (snd kv))) l')).
      { clear - Hm. induction Hm as [|a b l l' [E1 [E2 E3]] _ IH]; [constructor|].
        cbn [map]. constructor; [|exact IH]. cbn [fst snd]. split; [exact E1|].
        assert (Hb : EXP (snd b) <> JNull) by (apply exp_not_null; exact E2).
        split; [|split; [exact Hb|exact E3]].
        intros En. rewrite En in E3. apply jequiv_null_l in E3. contradiction. }
      pose proof (assoc_lockstep (fun v v' => v <> JNull /\ v' <> JNull /\ jequiv v v') _ _ Hl key) as Hk. cbv beta in Hk.
      destruct (assoc key members) as [v|] eqn:Ea;
        destruct (assoc key (map (fun kv : str * mval => (fst kv, EXP (snd kv))) l')) as [v'|] eqn:Ea';
        try contradiction.
      + destruct Hk as [H1 [H2 H3]]. right. exists v, v'.
        split; [apply jlook_some; assumption|]. split; [apply jlook_some; assumption|exact H3].
      + left. split; apply jlook_absent; assumption.
  Qed.

  Lemma shape_value_f : forall fl raw x,
    shape_value pk fl raw = Ok x -> jequiv raw (EXP x).
  Proof.
    intros fl raw x H. unfold shape_value in H.
    destruct (f_shape fl); [eapply IHk|eapply list_value_f|eapply dict_value_f]; eassumption.
  Qed.

  Lemma cls_ok_f : forall c k, lookup_cls SC c = Some k ->
    c_extra_forbid k = true /\ NoDup (map f_name (c_fields k)) /\ NoDup (map f_alias (c_fields k)).
  Proof.
    intros c k Hl. apply lookup_cls_in in Hl. unfold faithful_schema_ok in Hsc. rewrite forallb_forall in Hsc.
    specialize (Hsc _ Hl). cbn [snd] in Hsc. unfold faithful_cls_ok in Hsc.
    apply andb_true_iff in Hsc. destruct Hsc as [H12 H3]. apply andb_true_iff in H12. destruct H12 as [H1 H2].
    split; [exact H1|]. split; apply nodup_sb_NoDup; assumption.
  Qed.

  Lemma field_value_null : forall fl y, field_value pk fl JNull = Ok y -> y = MNone.
  Proof.
    intros fl y H. unfold field_value in H. destruct (f_required fl); [discriminate|]. inversion H. reflexivity.
  Qed.

  Lemma cls_body_f : forall c v x,
    cls_body SC pre post pk c v = Ok x -> jequiv v (EXP x).
  Proof.
    intros c v x H.
    destruct (cls_body_inv _ _ _ _ c v x H) as [k [ms [vals [Hl [Ev [_ [Hex [Hf [Ex _]]]]]]]]].
    destruct (cls_ok_f c k Hl) as [Hforbid [Hn1 Hn2]].
    assert (Hlen : List.length vals = List.length (c_fields k)) by (symmetry; eapply Forall2_length'; exact Hf).
    subst v. subst x. rewrite (exp_model SC c k vals Hl Hn1 Hlen).
    set (ms' := emit EXP (combine (c_fields k) vals)).
    assert (Hal : NoDup (map (fun p : field * mval => f_alias (fst p)) (combine (c_fields k) vals))).
    { rewrite <- (map_map fst f_alias). rewrite map_fst_combine by exact Hlen. exact Hn2. }
    apply je_obj_cases. intros key.
    destruct (existsb (fun fl => str_eqb key $(f_alias fl)) (c_fields k)) eqn:Ex.
    - (* the key names a field *)
      apply existsb_exists in Ex. destruct Ex as [fl [Hfl Ek]]. apply str_eqb_true2 in Ek. subst key.
      destruct (in_combine_exists _ _ _ vals fl (eq_sym Hlen) Hfl) as [y Hy].
      pose proof (Forall2_combine_in _ _ _ _ _ _ _ Hf Hy) as Hfv. cbn beta in Hfv.
      pose proof (assoc_emit EXP _ fl y Hal Hy) as Hout. fold ms' in Hout.
      assert (Hnull : forall raw, raw = JNull -> field_value pk fl raw = Ok y ->
                                  jlook $(f_alias fl) ms' = None).
      { intros raw Er Hv. subst raw. apply field_value_null in Hv. subst y.
        cbn [present option_map] in Hout. apply jlook_absent. exact Hout. }
      unfold raw_of in Hfv. destruct (assoc $(f_alias fl) ms) as [raw|] eqn:Ea.
      + destruct (json_null_dec raw) as [Er|Er].
        * left. split; [subst raw; apply jlook_null; exact Ea|eapply Hnull; eassumption].
        * right. rewrite (field_value_nonnull pk fl raw Er) in Hfv.
          assert (Hnn : mnone y = false) by (apply nn_not_none; eapply shape_value_nn; eassumption).
          assert (Hp : present y = Some y) by (destruct y; try reflexivity; discriminate).
          rewrite Hp in Hout. cbn [option_map] in Hout.
          exists raw, (EXP y). split; [apply jlook_some; assumption|].
          split; [apply jlook_some; [exact Hout|apply exp_not_null; exact Hnn]|].
          eapply shape_value_f. exact Hfv.
      + left. split; [apply jlook_absent; exact Ea|eapply Hnull; [reflexivity|exact Hfv]].
    - (* the key names no field: it is in neither document *)
      left. split; apply jlook_absent.
      + destruct (assoc key ms) as [v|] eqn:Ea; [|reflexivity]. exfalso.
        apply assoc_in_key in Ea. unfold extra_ok in Hex. rewrite Hforbid in Hex. cbn [andb] in Hex.
        rewrite negb_involutive in Hex. rewrite forallb_forall in Hex. specialize (Hex _ Ea). cbn [fst] in Hex.
        rewrite Hex in Ex. discriminate.
      + destruct (assoc key ms') as [v'|] eqn:Ea; [|reflexivity]. exfalso.
        apply assoc_in_key in Ea. destruct (emit_keys _ _ _ Ea) as [[fl y] [Hp Hk]]. cbn [fst] in Hk.
        assert (Et : existsb (fun fl => str_eqb key $(f_alias fl)) (c_fields k) = true).
        { apply existsb_exists. exists fl. split; [apply in_combine_l in Hp; exact Hp|].
          rewrite Hk. apply str_eqb_refl2. }
        rewrite Et in Ex. discriminate.
  Qed.
End FStep.

(* ------------------------------------------------------------------------------------------ *)
(* 3. the induction                                                                             *)

Section FMain.
  Variable SC : schema_t.
  Variable classify : N -> cclass.
  Variable pre : string -> json -> bool.
  Variable post : string -> json -> list (string * mval) -> bool.
  Hypothesis Hsc : faithful_schema_ok SC = true.

  Notation PK := (parse_kind SC classify pre post).
  Notation PC := (parse_cls SC classify pre post).
  Notation EXP := (exp SC).

  Theorem faithful_generic : forall f,
    (forall k v x, PK f k v = Ok x -> jequiv v (EXP x))
    /\ (forall c v x, PC f c v = Ok x -> jequiv v (EXP x)).
  Proof.
    induction f as [|f [IHk IHc]]; [split; intros; discriminate|].
    destruct (parse_nn SC classify pre post f) as [NNk _].
    split.
    - intros k v x H. rewrite parse_kind_S in H. eapply kind_body_f; eassumption.
    - intros c v x H. rewrite parse_cls_S in H. eapply cls_body_f; eassumption.
  Qed.
End FMain.

(* ------------------------------------------------------------------------------------------ *)
(* 4. the live schema                                                                           *)

Lemma generated_faithful_ok : faithful_schema_ok Generated.schema = true.
Proof. vm_compute. reflexivity. Qed.

(* ------------------------------------------------------------------------------------------ *)
(* 5. as [parse_any] / [export] compute it                                                      *)

Lemma export_exp : forall v, export v = exp Generated.schema v.
Proof. intros v. unfold export. apply to_object_exp. lia. Qed.

(* every class of the module *)
Theorem faithful_any : forall classify root j v,
  parse_any classify root j = Ok v -> jequiv j (export v).
Proof.
  intros classify root j v H. unfold parse_any in H. rewrite export_exp.
  destruct (faithful_generic Generated.schema classify (pre_full classify (parse_fuel j)) (post_hook classify)
                             generated_faithful_ok (parse_fuel j)) as [_ Hc].
  eapply Hc; eassumption.
Qed.
