(* CombSpec.v — declarative specification of combination expressions (C14), written from the
   property text:

     "A combination string over identifiers, '*', ',', parentheses and blanks is accepted by
      template validation exactly when it derives from
          expr := elem ('*' elem)* ;  elem := identifier | '(' expr (',' expr)+ ')',
      is at most 1280 characters long and names each declared task parameter once; printing a
      parsed tree and parsing it again gives the same tree.  A Job is created only if, after
      range substitution, all operands of every association have the same number of values."

   No parser, no fuel, no lookahead here. *)
From Coq Require Import List NArith ZArith Bool Permutation.
Import ListNotations.
Require Import OJD.Base OJD.Lexer OJD.Comb.

(* ---------- the grammar, producing the tree the expression denotes ---------- *)

(* expr := elem ('*' elem)*          one elem: that elem's tree; several: Prod of all of them
   elem := identifier | '(' expr (',' expr)+ ')'                           Assoc of >= 2 exprs
   StarTail  = ('*' elem)*   and   CommaTail = (',' expr)*   with the list of their trees *)
Inductive Expr : list tok -> ctree -> Prop :=
| Ex_elem ts t :
    Elem ts t -> Expr ts t
| Ex_prod ts t rest c cs :
    Elem ts t -> StarTail rest (c :: cs) -> Expr (ts ++ rest) (Prod (t :: c :: cs))
with Elem : list tok -> ctree -> Prop :=
| El_id s :
    Elem [TName s] (Id s)
| El_assoc ts t rest c cs :
    Expr ts t -> CommaTail rest (c :: cs) ->
    Elem (TLParen :: ts ++ rest ++ [TRParen]) (Assoc (t :: c :: cs))
with StarTail : list tok -> list ctree -> Prop :=
| St_nil : StarTail [] []
| St_cons ts t rest cs :
    Elem ts t -> StarTail rest cs -> StarTail (TStar :: ts ++ rest) (t :: cs)
with CommaTail : list tok -> list ctree -> Prop :=
| Ct_nil : CommaTail [] []
| Ct_cons ts t rest cs :
    Expr ts t -> CommaTail rest cs -> CommaTail (TComma :: ts ++ rest) (t :: cs).

Scheme Expr_mind := Minimality for Expr Sort Prop
  with Elem_mind := Minimality for Elem Sort Prop
  with StarTail_mind := Minimality for StarTail Sort Prop
  with CommaTail_mind := Minimality for CommaTail Sort Prop.
Combined Scheme grammar_mutind from Expr_mind, Elem_mind, StarTail_mind, CommaTail_mind.

(* ---------- canonical trees: the trees that are the tree of some expression ---------- *)

Definition is_elem_tree (t : ctree) : Prop :=
  match t with Prod _ => False | _ => True end.

(* a product has at least two factors, none of them itself a product;
   an association has at least two operands *)
Inductive Canonical : ctree -> Prop :=
| Can_id s : Canonical (Id s)
| Can_prod cs :
    2 <= length cs -> Forall Canonical cs -> Forall is_elem_tree cs -> Canonical (Prod cs)
| Can_assoc cs :
    2 <= length cs -> Forall Canonical cs -> Canonical (Assoc cs).

(* ---------- the character set and length bound of the field ---------- *)

Local Open Scope N_scope.
Definition CombChar (c : N) : Prop :=
  (65 <= c <= 90) \/ (97 <= c <= 122) \/ (48 <= c <= 57) \/
  c = 95 (* _ *) \/ c = 42 (* * *) \/ c = 40 (* ( *) \/ c = 41 (* ) *) \/ c = 44 (* , *) \/
  c = 32 (* plain space *).
Local Close Scope N_scope.

(* identifiers, '*', ',', parentheses and blanks — at least one character *)
Definition charset (s : str) : Prop := s <> [] /\ Forall CombChar s.

Definition max_len : nat := 1280.

(* ---------- "names each declared task parameter once" ---------- *)

Definition each_once (params : list str) (t : ctree) : Prop :=
  Permutation (collect_ids t) params.

(* ---------- sizes ---------- *)

(* number of values of the sub-space denoted by t, given the number of values of each task
   parameter: a product multiplies, an association (zip) has the length of its operands *)
Fixpoint tree_len (lens : str -> option N) (t : ctree) : N :=
  match t with
  | Id s => match lens s with Some n => n | None => 0%N end
  | Prod cs => fold_right N.mul 1%N (map (tree_len lens) cs)
  | Assoc cs => match cs with [] => 0%N | c :: _ => tree_len lens c end
  end.

(* all operands of every association have the same number of values *)
Inductive assoc_balanced (lens : str -> option N) : ctree -> Prop :=
| AB_id s : assoc_balanced lens (Id s)
| AB_prod cs : Forall (assoc_balanced lens) cs -> assoc_balanced lens (Prod cs)
| AB_assoc c cs :
    Forall (assoc_balanced lens) (c :: cs) ->
    Forall (fun d => tree_len lens d = tree_len lens c) cs ->
    assoc_balanced lens (Assoc (c :: cs)).

(* every identifier of the tree has a range *)
Definition covered (lens : str -> option N) (t : ctree) : Prop :=
  forall s, In s (collect_ids t) -> lens s <> None.

(* The executable oracle for this specification is the model itself: [Comb.parse],
   [Comb.template_check false] and [Comb.dims] are proved equal to the statements above in
   CombProofs.v (C14_grammar, C14_template_accept, C14_dims), for all inputs. *)
