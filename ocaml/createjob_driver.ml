(* createjob_driver.ml — serves the extracted job-creation model (C05) and its spec oracle. *)
open Sx
open Model
open Conv
open Convjson

let table : (int, cclass) Hashtbl.t = Hashtbl.create 64
let class_of_name = function
  | "space" -> CSpace | "namestart" -> CNameStart | "digit" -> CDigit | "udigit" -> CUDigit
  | "dot" -> CDot | "star" -> CStar | "lparen" -> CLParen | "rparen" -> CRParen
  | "comma" -> CComma | "hyphen" -> CHyphen | "colon" -> CColon | "other" -> COther
  | s -> failwith ("class " ^ s)
let classify (c : n) : cclass =
  let i = match c with N0 -> 0 | Npos p -> (match int_of_pos p with Some v -> v | None -> -1) in
  match Hashtbl.find_opt table i with
  | Some cl -> cl
  | None -> if i >= 0 && i < 128 then ascii_class c else COther

(* none | (b true) | (i z) | (d m e) | (s cp..) | (f cp..) | (l v..) | (m (k v)..) | (M Class (field v)..) *)
let rec mval_of_sx (x : Sx.t) : mval =
  match x with
  | A "none" -> MNone
  | L [A "b"; b] -> MBool (bool_of_sx b)
  | L [A "i"; z] -> MInt (z_of_sx z)
  | L [A "d"; m; e] -> MDec (z_of_sx m, z_of_sx e)
  | L (A "s" :: cps) -> MStr (List.map n_of_sx cps)
  | L (A "f" :: cps) -> MFmt (List.map n_of_sx cps)
  | L (A "l" :: items) -> MList (List.map mval_of_sx items)
  | L (A "m" :: members) -> MDict (List.map (function L [k; v] -> (str_of_sx k, mval_of_sx v) | _ -> failwith "dict member") members)
  | L (A "M" :: A cls :: fields) ->
    MModel (coqstr cls, List.map (function L [A f; v] -> (coqstr f, mval_of_sx v) | _ -> failwith "model field") fields)
  | _ -> failwith "mval_of_sx"

let vals_of_sx x = list_of_sx (function L [n; t; v] -> ((str_of_sx n, str_of_sx t), str_of_sx v) | _ -> failwith "vals") x

let handle (req : Sx.t) : Sx.t =
  match req with
  | L (A "table" :: entries) ->
    Hashtbl.reset table;
    List.iter (function L [A cp; A cl] -> Hashtbl.replace table (int_of_string cp) (class_of_name cl) | _ -> failwith "table") entries;
    L [A "table-ok"; sx_of_bool (ascii_ok classify)]
  | L [A "create"; vals; t] -> sx_of_outcome sx_of_json (model_create classify (vals_of_sx vals) (mval_of_sx t))
  | L [A "spec"; vals; j] -> sx_of_outcome sx_of_json (spec_create classify (vals_of_sx vals) (json_of_sx j))
  | L [A "print_dec"; m; e] -> sx_of_str (print_dec (z_of_sx m) (z_of_sx e))
  | _ -> failwith "unknown-request"

let () = serve handle
