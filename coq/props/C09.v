(* props/C09.v — parameter values in a Job carry their declared type.

   Predicates: Glue.v ([conforms_job], [conforms_task]: INT = Python int() numeral, FLOAT = finite
   Decimal numeral, STRING / PATH task values at most 1024 characters).
   Models the theorems are stated against: JobParams.v ([check_constraints] = _check_constraints of
   the four Job*ParameterDefinition classes, called by create_job on every value), Validators.v
   ([post_hook] of the job-side target classes Int/FloatRangeListTaskParameterDefinition), Parse.v
   on Generated.schema (structural kind of RangeListTaskParameterDefinition.range), RangeExpr.v
   ([elems] = the integers of an IntRangeExpr) and NumPrint.v ([print_Z] = str(int)).
   Proofs: GlueProofs.v. *)
From Coq Require Import List NArith ZArith Bool String.
Import ListNotations.
Require Import OJD.Base OJD.Lexer OJD.Json OJD.Schema OJD.Generated OJD.Charsets OJD.Numerals OJD.NumPrint
               OJD.CreateJob OJD.Parse OJD.Validators OJD.JobParams OJD.JobParamsSpec OJD.RangeExpr
               OJD.Glue OJD.GlueProofs.
Local Open Scope string_scope.

(* job parameter values: a value that passes _check_constraints has the declared type.  No premise
   on the definition (in particular: a FLOAT definition WITHOUT bounds rejects NaN / Infinity). *)
Theorem C09_job_params : forall d v,
  check_constraints false d v = Ok tt -> conforms_job (ptype_text (ptyp d)) v = true.
Proof. exact check_conforms_job. Qed.
Print Assumptions C09_job_params.

(* the same from C10's declarative side: "the value satisfies its definition" includes the type *)
Theorem C09_job_params_sat : forall d v, sat d v -> conforms_job (ptype_text (ptyp d)) v = true.
Proof. exact sat_conforms_job. Qed.
Print Assumptions C09_job_params_sat.

(* job-side range lists of INT / FLOAT task parameters (values AFTER substitution of references):
   the target class's validator accepts only conforming items *)
Theorem C09_range_list_int : forall classify raw fs,
  post_hook classify "IntRangeListTaskParameterDefinition" raw fs = true ->
  forall it, In it (mitems (fget "range" fs)) -> conforms_task $"INT" (mstr it) = true.
Proof. exact post_int_range_list. Qed.
Print Assumptions C09_range_list_int.

Theorem C09_range_list_float : forall classify raw fs,
  post_hook classify "FloatRangeListTaskParameterDefinition" raw fs = true ->
  forall it, In it (mitems (fget "range" fs)) -> conforms_task $"FLOAT" (mstr it) = true.
Proof. exact post_float_range_list. Qed.
Print Assumptions C09_range_list_float.

(* STRING / PATH: the target class RangeListTaskParameterDefinition has, in the live schema, the
   item kind [range_item_kind] = lax constr(max_length=1024) ... *)
Theorem C09_range_list_kind :
  match lookup_cls Generated.schema "RangeListTaskParameterDefinition" with
  | Some c => map (fun fl => (f_name fl, f_shape fl, f_kind fl)) (c_fields c)
  | None => []
  end
  = [("type", Single, KEnum ["INT"; "FLOAT"; "STRING"; "PATH"]);
     ("range", ListOf None None, KStr false (Some 0%N) (Some 1024%N) CS_any)].
Proof. exact range_list_kind. Qed.
Print Assumptions C09_range_list_kind.

(* ... and every item that kind accepts (for any schema, hooks, fuel and raw value) is stored as a
   string of at most 1024 characters *)
Theorem C09_range_list_string : forall SC classify pre post fuel raw m,
  parse_kind SC classify pre post fuel (KStr false (Some 0%N) (Some 1024%N) CS_any) raw = Ok m ->
  exists t, m = MStr t /\ conforms_task $"STRING" t = true /\ conforms_task $"PATH" t = true.
Proof. exact range_item_len. Qed.
Print Assumptions C09_range_list_string.

(* range expressions: every enumerated value is str(z) for an integer z of the expression, and
   str(z) is an integer numeral, for every z *)
Theorem C09_range_expr : forall e v, In v (range_values e) ->
  (exists z, In z (elems e) /\ v = print_Z z) /\ conforms_task $"INT" v = true.
Proof. exact range_values_conform. Qed.
Print Assumptions C09_range_expr.

Theorem C09_print_Z_numeral : forall z, is_int_numeral (print_Z z) = true.
Proof. exact print_Z_int_numeral. Qed.
Print Assumptions C09_print_Z_numeral.

(* literal int / Decimal items of a range list are stored job-side as str(int) / str(Decimal):
   these conform as well *)
Theorem C09_literal_items :
  (forall z, conforms_task $"INT" (mstr (coerce_range_item (MInt z))) = true) /\
  (forall m e, conforms_task $"FLOAT" (mstr (coerce_range_item (MDec m e))) = true).
Proof. exact coerce_item_conforms. Qed.
Print Assumptions C09_literal_items.

(* C09_end_to_end (every value of every enumerated task parameter set of a created Job conforms)
   is the composition C05 (the job-side range is the resolved template range) + the three
   theorems above (each target class validates its items; create_job_verdict = Ok true requires
   every node to pass its own class, Export.nodes_ok) + C07_typed (the iterator hands out exactly
   the leaf's values).  It is not restated as one Coq theorem: the composition is checked by the
   correspondence harness c09.py on created Jobs. *)

(* ------------------------------------------------------------------ non-vacuity *)
Local Open Scope N_scope.
Definition nP : str := [80].
Definition d_flt : pdef := mkDef nP FLOAT None None None None None None None None None.
Definition d_int : pdef := mkDef nP INT (Some (mkNum 0 0)) None None None None None None None None.

(* hypotheses met; and the historical counterexamples (FLOAT without constraints given "NaN" /
   "Infinity") are rejected by today's check *)
Example C09_job_params_nonvacuous :
  check_constraints false d_flt [49; 46; 53] = Ok tt /\                 (* "1.5" *)
  check_constraints false d_int [32; 55; 32] = Ok tt /\                 (* " 7 " *)
  check_constraints false d_flt [78; 97; 78] = Raise ValueError /\      (* "NaN" *)
  check_constraints false d_flt [73;110;102;105;110;105;116;121] = Raise ValueError /\  (* "Infinity" *)
  conforms_job $"FLOAT" [78; 97; 78] = false /\
  conforms_job $"INT" [49; 46; 53] = false.
Proof. vm_compute. repeat split. Qed.

Example C09_range_list_nonvacuous :
  post_hook ascii_class "IntRangeListTaskParameterDefinition" JNull
            [("type", MStr $"INT"); ("range", MList [MStr [49]; MStr [45; 50]])] = true /\
  post_hook ascii_class "IntRangeListTaskParameterDefinition" JNull
            [("type", MStr $"INT"); ("range", MList [MStr [97; 98; 99]])] = false /\
  post_hook ascii_class "FloatRangeListTaskParameterDefinition" JNull
            [("type", MStr $"FLOAT"); ("range", MList [MStr [49; 46; 53]])] = true /\
  post_hook ascii_class "FloatRangeListTaskParameterDefinition" JNull
            [("type", MStr $"FLOAT"); ("range", MList [MStr [78; 97; 78]])] = false.
Proof. vm_compute. repeat split. Qed.

Example C09_range_list_string_nonvacuous :
  parse_kind Generated.schema ascii_class (fun _ _ => true) (fun _ _ _ => true) 1
             (KStr false (Some 0) (Some 1024) CS_any) (JStr [120; 121]) = Ok (MStr [120; 121]) /\
  parse_kind Generated.schema ascii_class (fun _ _ => true) (fun _ _ _ => true) 1
             (KStr false (Some 0) (Some 1024) CS_any) (JStr (repeat 120 1025)) = Raise ValueError.
Proof. vm_compute. split; reflexivity. Qed.

Example C09_range_expr_nonvacuous :
  exists e, from_str false false ascii_class [49; 45; 53; 58; 50] = Ok e /\     (* "1-5:2" *)
            range_values e = [[49]; [51]; [53]].
Proof. eexists. split; vm_compute; reflexivity. Qed.
