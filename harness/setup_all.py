"""Build everything every registered check needs (MANIFEST.setup_cmd)."""
import importlib
import sys
from pathlib import Path

sys.path.insert(0, str(Path(__file__).resolve().parent))
import core  # noqa: E402


def main():
    rc = 0
    mods = sorted(p.stem for p in Path(__file__).resolve().parent.glob("c[0-9][0-9].py"))
    with core.build_lock():
        ok, log = core.regen()
        if not ok:
            print("regen failed:\n" + log)
            return 1
        core.ensure_makefile()
        r, out = core.sh(f"timeout 3400 make -j{core.NPROC} 2>&1 | tail -40", cwd=core.COQ, timeout=3500)
        print(out[-3000:])
        if "Error" in out:
            rc = 1
    seen = set()
    for m in mods:
        mod = importlib.import_module(m)
        prop = mod.PROP
        key = (prop.component, prop.extract_file)
        if not prop.component or key in seen:
            continue
        seen.add(key)
        with core.build_lock():
            ok, log = core.build_driver(prop.component, prop.extract_file)
        print(f"driver {prop.component}: {'ok' if ok else 'FAILED'}")
        if not ok:
            print(log[-2000:])
            rc = 1
    return rc


if __name__ == "__main__":
    sys.exit(main())
