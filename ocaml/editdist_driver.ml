(* editdist_driver.ml — serves the extracted edit-distance / suggestion model (C20).
   requests (one per line)                         replies
     (dist a b oracle?)     a b : code point lists   ((ok d)|(raise X)  d'|none)   model, spec oracle lev
     (closest (s ...) m oracle?)                     ((ok (d (t ...)))|(raise X)  (d' (t' ...))|none)   model, oracle
     (validate (s ...) m)                            (ok none) | (ok (some (t ...))) | (raise X)
     (threshold)                                     n                                              *)
open Sx
open Model
open Conv

let sx_of_strs (l : n list list) : Sx.t = sx_of_list sx_of_str l
let strs_of_sx (x : Sx.t) : n list list = list_of_sx str_of_sx x

let handle (req : Sx.t) : Sx.t =
  match req with
  | L [A "dist"; a; b; o] ->
    let a = str_of_sx a and b = str_of_sx b in
    let m = sx_of_outcome sx_of_nat (edit_distance a b) in
    let s = if bool_of_sx o then sx_of_nat (lev a b) else A "none" in
    L [m; s]
  | L [A "closest"; syms; m; o] ->
    let syms = strs_of_sx syms and m = str_of_sx m in
    let pair (d, t) = L [sx_of_nat d; sx_of_strs t] in
    L [sx_of_outcome pair (closest syms m); if bool_of_sx o then pair (nearest_oracle syms m) else A "none"]
  | L [A "validate"; syms; m] ->
    let syms = strs_of_sx syms and m = str_of_sx m in
    sx_of_outcome (sx_of_opt sx_of_strs) (validate_symbol_refs syms m)
  | L [A "threshold"] -> sx_of_nat max_match_distance
  | _ -> failwith "unknown-request"

let () = serve handle
