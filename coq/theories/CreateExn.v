(* CreateExn.v — lemmas behind props/C06.v, part 2: which exceptions can leave the create_job model
   (CreateJob.inst + Export.nodes_ok / create_job_verdict), and when KeyError can. *)
From Coq Require Import List NArith ZArith Bool String Lia.
Import ListNotations.
Require Import OJD.Base OJD.Lexer OJD.Json OJD.Schema OJD.Generated OJD.FormatStr OJD.FormatStrProofs
               OJD.CreateJob OJD.CreateJobProofs OJD.Parse OJD.Validators OJD.Accept OJD.Export
               OJD.GlueLib OJD.GlueProofs OJD.ParseOutcomes.
Local Open Scope string_scope.
Local Open Scope list_scope.

(* FormatString(s).resolve(symtab): FormatStringError or nothing — for any class table *)
Lemma fs_resolve_only_fse : forall classify sigma s e,
  Export.fs_resolve classify sigma s = Raise e -> e = FormatStringError.
Proof.
  intros classify sigma s e H. unfold Export.fs_resolve in H.
  destruct (mk classify s) as [f|e0] eqn:Hm.
  - unfold resolve in H. eapply resolve_items_errors. exact H.
  - injection H as <-. eapply mk_errors. exact Hm.
Qed.

(* names of the job parameter definitions of an instance tree: the models whose creation metadata
   adds {"value": symtab["RawParam.<name>"]} *)
Fixpoint adds_names (SC : schema_t) (v : mval) : list str :=
  match v with
  | MList l => flat_map (adds_names SC) l
  | MDict l => flat_map (fun kv => adds_names SC (snd kv)) l
  | MModel c fs =>
    (if j_adds_value (jcm_of SC c) then match mfield "name" fs with MStr n => [n] | _ => [] end else [])
    ++ flat_map (fun kv => adds_names SC (snd kv)) fs
  | _ => []
  end.

Lemma direct_adds : forall SC x y n, In y (direct x) -> In n (adds_names SC y) -> In n (adds_names SC x).
Proof.
  intros SC x y n H Hn. destruct x; simpl in H;
    try (destruct H as [H|[]]; subst; exact Hn).
  - simpl. apply in_flat_map. exists y. split; assumption.
  - simpl. apply in_map_iff in H. destruct H as [kv [E H]]. subst y.
    apply in_flat_map. exists kv. split; assumption.
Qed.

Section Raise.
  Variable resolve : symtab -> str -> outcome str.
  Variable sigma : symtab.
  Variable rec : mval -> outcome mval.
  Variable j : jcm.

  Definition key_exn (e : exn) : Prop := e = TypeError \/ e = AttributeError.

  Lemma key_of_raise : forall v kf e, key_of v kf = Raise e -> key_exn e.
  Proof.
    intros v kf e H. unfold key_of in H. destruct v as [ | | | | | | | | |c fields]; try (injection H as <-; right; reflexivity).
    destruct (mfield kf fields); try discriminate H; injection H as <-; left; reflexivity.
  Qed.

  Lemma inst_item_raise : forall fn x e, inst_item resolve sigma rec j fn x = Raise e ->
    rec x = Raise e \/ exists s, resolve sigma s = Raise e.
  Proof.
    intros fn x e H. unfold inst_item in H. destruct x as [ | | | | | |s| | |c fields]; try discriminate H.
    - destruct (mem_s fn (j_resolve j)); [|discriminate H].
      destruct (resolve sigma s) as [r|e'] eqn:Er; cbn [bind] in H; [discriminate H|].
      injection H as <-. right. exists s. exact Er.
    - left. exact H.
  Qed.

  Lemma inst_member_raise : forall kv e, inst_member resolve sigma rec j kv = Raise e ->
    rec (snd kv) = Raise e \/ exists s, resolve sigma s = Raise e.
  Proof.
    intros kv e H. unfold inst_member in H.
    destruct (snd kv) as [ | | | | | |s| | |cls fields] eqn:Es; cbn [bind] in H; try discriminate H.
    - destruct (existsb _ (j_resolve j)); cbn [bind] in H; [|discriminate H].
      destruct (resolve sigma s) as [r|e'] eqn:Er; cbn [bind] in H; [discriminate H|].
      injection H as <-. right. exists s. exact Er.
    - destruct (rec (MModel cls fields)) as [y|e'] eqn:Er; cbn [bind] in H; [discriminate H|].
      injection H as <-. left. reflexivity.
  Qed.

  Lemma reshape_fold_raise : forall fn kf items acc e,
    fold_left (reshape_step resolve sigma rec j fn kf) items acc = Raise e ->
    acc = Raise e \/
    exists item, In item items /\ (key_of item kf = Raise e \/ inst_item resolve sigma rec j fn item = Raise e).
  Proof.
    intros fn kf items. induction items as [|it r IH]; intros acc e H; [left; exact H|].
    cbn [fold_left] in H. apply IH in H. destruct H as [H|[item [Hin Hx]]].
    - unfold reshape_step in H. destruct acc as [a|e0]; cbn [bind] in H.
      + right. exists it. split; [left; reflexivity|].
        destruct (key_of it kf) as [k|e1]; cbn [bind] in H.
        * destruct (inst_item resolve sigma rec j fn it) as [y|e2]; cbn [bind] in H; [discriminate H|].
          right. injection H as <-. reflexivity.
        * left. injection H as <-. reflexivity.
      + left. exact H.
    - right. exists item. split; [right; exact Hin|exact Hx].
  Qed.

  (* where a TypeError / AttributeError of a reshape key comes from *)
  Definition key_fail (fn : string) (x : mval) (e : exn) : Prop :=
    exists items kf item, x = MList items /\ lookup_s fn (j_reshape j) = Some kf /\ In item items /\
                          key_of item kf = Raise e.

  Lemma inst_val_raise : forall fn x e, inst_val resolve sigma rec j fn x = Raise e ->
    (exists y, In y (direct x) /\ rec y = Raise e) \/ (exists s, resolve sigma s = Raise e) \/ key_fail fn x e.
  Proof.
    intros fn x e H. unfold inst_val in H.
    assert (K : inst_item resolve sigma rec j fn x = Raise e -> direct x = [x] ->
                (exists y, In y (direct x) /\ rec y = Raise e) \/ (exists s, resolve sigma s = Raise e) \/ key_fail fn x e).
    { intros Hi Hd. apply inst_item_raise in Hi. destruct Hi as [Hi|Hi].
      - left. exists x. split; [rewrite Hd; left; reflexivity|exact Hi].
      - right. left. exact Hi. }
    destruct x as [ | | | | | | |l|l|c fields]; try (apply K; [exact H|reflexivity]).
    - destruct (lookup_s fn (j_reshape j)) as [kf|] eqn:Ek.
      + destruct (fold_left _ l (Ok [])) as [d|e'] eqn:Ef; cbn [bind] in H; [discriminate H|].
        injection H as <-. apply reshape_fold_raise in Ef.
        destruct Ef as [Ef|[item [Hin [Hk|Hi]]]]; [discriminate Ef| |].
        * right. right. exists l, kf, item. repeat split; assumption.
        * apply inst_item_raise in Hi. destruct Hi as [Hi|Hi].
          -- left. exists item. split; [exact Hin|exact Hi].
          -- right. left. exact Hi.
      + destruct (mapM _ l) as [l'|e'] eqn:Em; cbn [bind] in H; [discriminate H|].
        injection H as <-. apply mapM_raise in Em. destruct Em as [y [Hin Hi]].
        apply inst_item_raise in Hi. destruct Hi as [Hi|Hi].
        * left. exists y. split; [exact Hin|exact Hi].
        * right. left. exact Hi.
    - destruct (mapM _ l) as [l'|e'] eqn:Em; cbn [bind] in H; [discriminate H|].
      injection H as <-. apply mapM_raise in Em. destruct Em as [kv [Hin Hi]].
      apply inst_member_raise in Hi. destruct Hi as [Hi|Hi].
      + left. exists (snd kv). split; [cbn [direct]; apply in_map; exact Hin|exact Hi].
      + right. left. exact Hi.
  Qed.

  Lemma key_fail_exn : forall fn x e, key_fail fn x e -> key_exn e.
  Proof. intros fn x e [items [kf [item [_ [_ [_ Hk]]]]]]. eapply key_of_raise. exact Hk. Qed.

  Lemma add_value_raise : forall fields fs e, add_value sigma j fields fs = Raise e ->
    (e = AttributeError /\ j_adds_value j = true /\ forall n, mfield "name" fields <> MStr n) \/
    (e = KeyError /\ j_adds_value j = true /\
     exists n, mfield "name" fields = MStr n /\ st_lookup sigma ($"RawParam." ++ n) = None).
  Proof.
    intros fields fs e H. unfold add_value in H.
    destruct (j_adds_value j); [|discriminate H].
    destruct (mfield "name" fields) eqn:En;
      try (injection H as <-; left; split; [reflexivity|]; split; [reflexivity|]; intros n E; discriminate E).
    destruct (st_lookup sigma ($"RawParam." ++ s)) eqn:El; [discriminate H|].
    injection H as <-. right. split; [reflexivity|]. split; [reflexivity|]. exists s. split; [reflexivity|exact El].
  Qed.

  (* provenance of a raise of instantiate_model on one node *)
  Lemma inst_model_raise_fine : forall c fields e, inst_model resolve sigma rec j c fields = Raise e ->
    (exists fv y, In fv fields /\ In y (direct (snd fv)) /\ rec y = Raise e)
    \/ (exists s, resolve sigma s = Raise e)
    \/ (exists fv, In fv fields /\ key_fail (fst fv) (snd fv) e)
    \/ (e = AttributeError /\ j_adds_value j = true /\ forall n, mfield "name" fields <> MStr n)
    \/ (e = KeyError /\ j_adds_value j = true /\
        exists n, mfield "name" fields = MStr n /\ st_lookup sigma ($"RawParam." ++ n) = None).
  Proof.
    intros c fields e H. unfold inst_model in H.
    destruct (mapM (inst_field resolve sigma rec j) fields) as [fs|e'] eqn:Em; cbn [bind] in H.
    - destruct (add_value sigma j fields (List.concat fs)) as [fs'|e''] eqn:Ea; cbn [bind] in H; [discriminate H|].
      injection H as <-. apply add_value_raise in Ea. destruct Ea as [Ea|Ea].
      + right. right. right. left. exact Ea.
      + right. right. right. right. exact Ea.
    - injection H as <-. apply mapM_raise in Em. destruct Em as [[fn x] [Hin Hi]].
      unfold inst_field in Hi. destruct (mem_s fn (j_exclude j)); [discriminate Hi|].
      destruct (inst_val resolve sigma rec j fn x) as [y|e1] eqn:Ev; cbn [bind] in Hi; [discriminate Hi|].
      injection Hi as <-. apply inst_val_raise in Ev. destruct Ev as [[y [Hy Hr]]|[Hs|Hk]].
      + left. exists (fn, x), y. split; [exact Hin|]. split; [exact Hy|exact Hr].
      + right. left. exact Hs.
      + right. right. left. exists (fn, x). split; [exact Hin|exact Hk].
  Qed.

  Lemma inst_model_raise : forall c fields e, inst_model resolve sigma rec j c fields = Raise e ->
    (exists fv y, In fv fields /\ In y (direct (snd fv)) /\ rec y = Raise e)
    \/ (exists s, resolve sigma s = Raise e)
    \/ key_exn e
    \/ (e = KeyError /\ j_adds_value j = true /\
        exists n, mfield "name" fields = MStr n /\ st_lookup sigma ($"RawParam." ++ n) = None).
  Proof.
    intros c fields e H. apply inst_model_raise_fine in H.
    destruct H as [H|[H|[[fv [_ Hk]]|[[-> _]|H]]]].
    - left. exact H.
    - right. left. exact H.
    - right. right. left. eapply key_fail_exn. exact Hk.
    - right. right. left. right. reflexivity.
    - right. right. right. exact H.
  Qed.
End Raise.

(* the five exception families that can leave [inst] *)
Definition inst_exn (e : exn) : Prop :=
  e = FormatStringError \/ e = KeyError \/ e = TypeError \/ e = AttributeError \/ e = RuntimeError.

Theorem inst_raises : forall SC resolve sigma,
  (forall s e, resolve sigma s = Raise e -> e = FormatStringError) ->
  forall fuel v e, inst SC resolve sigma fuel v = Raise e -> inst_exn e.
Proof.
  intros SC resolve sigma Hres. induction fuel as [|f IH]; intros v e H.
  - rewrite inst_O in H. injection H as <-. unfold inst_exn. tauto.
  - rewrite inst_S in H. destruct v; try discriminate H.
    apply inst_model_raise in H. destruct H as [[fv [y [_ [_ Hr]]]]|[[s Hs]|[[ -> | -> ]|[ -> _]]]].
    + eapply IH. exact Hr.
    + apply Hres in Hs. subst e. unfold inst_exn. tauto.
    + unfold inst_exn. tauto.
    + unfold inst_exn. tauto.
    + unfold inst_exn. tauto.
Qed.

(* KeyError: only the lookup symtab["RawParam.<name>"] of a job parameter definition *)
Theorem inst_keyerror : forall SC resolve sigma,
  (forall s e, resolve sigma s = Raise e -> e = FormatStringError) ->
  forall fuel v, inst SC resolve sigma fuel v = Raise KeyError ->
  exists n, In n (adds_names SC v) /\ st_lookup sigma ($"RawParam." ++ n) = None.
Proof.
  intros SC resolve sigma Hres. induction fuel as [|f IH]; intros v H.
  - rewrite inst_O in H. discriminate H.
  - rewrite inst_S in H. destruct v as [ | | | | | | | | |c fields]; try discriminate H.
    apply inst_model_raise in H. destruct H as [[fv [y [Hfv [Hy Hr]]]]|[[s Hs]|[[E|E]|[_ [Ha [n [Hn Hl]]]]]]].
    + destruct (IH y Hr) as [n [Hn Hl]]. exists n. split; [|exact Hl].
      cbn [adds_names]. apply in_or_app. right. apply in_flat_map. exists fv. split; [exact Hfv|].
      eapply direct_adds; eassumption.
    + apply Hres in Hs. discriminate Hs.
    + discriminate E.
    + discriminate E.
    + exists n. split; [|exact Hl]. cbn [adds_names]. apply in_or_app. left. rewrite Ha, Hn. left. reflexivity.
Qed.

Lemma first_named_some : forall n vals, In n (map v_name vals) -> first_named n vals <> None.
Proof.
  intros n vals Hin Hn. unfold first_named in Hn. apply in_map_iff in Hin. destruct Hin as [e [<- He]].
  pose proof (find_none _ _ Hn e He) as E. cbv beta in E. rewrite gl_str_eqb_refl in E. discriminate E.
Qed.

(* with values for every job parameter of the template, no KeyError *)
Theorem inst_no_keyerror : forall SC resolve vals,
  (forall s e, resolve (symtab_of vals) s = Raise e -> e = FormatStringError) ->
  forall fuel v, (forall n, In n (adds_names SC v) -> In n (map v_name vals)) ->
  inst SC resolve (symtab_of vals) fuel v <> Raise KeyError.
Proof.
  intros SC resolve vals Hres fuel v Hc H.
  destruct (inst_keyerror SC resolve (symtab_of vals) Hres fuel v H) as [n [Hn Hl]].
  change (str_of_string "RawParam.") with p_raw in Hl. rewrite symtab_raw in Hl.
  specialize (Hc n Hn). apply first_named_some in Hc. destruct (first_named n vals); [discriminate Hl|contradiction].
Qed.

(* ------------------------------------------------------------------ nodes_ok / create_job_verdict *)

Lemma all_fold_raise : forall (F : mval -> outcome bool) l acc e,
  fold_left (fun (acc : outcome bool) x => do a <- acc; if a then F x else Ok false) l acc = Raise e ->
  acc = Raise e \/ exists x, In x l /\ F x = Raise e.
Proof.
  intros F l. induction l as [|y r IH]; intros acc e H; [left; exact H|].
  cbn [fold_left] in H. apply IH in H. destruct H as [H|[x [Hx Hf]]].
  - destruct acc as [a|e0]; cbn [bind] in H; [|left; exact H].
    destruct a; [|discriminate H]. right. exists y. split; [left; reflexivity|exact H].
  - right. exists x. split; [right; exact Hx|exact Hf].
Qed.

Theorem nodes_ok_raises : forall classify fuel v e, nodes_ok classify fuel v = Raise e -> e = RuntimeError.
Proof.
  intros classify. induction fuel as [|f IH]; intros v e H; [injection H as <-; reflexivity|].
  cbn [nodes_ok] in H.
  assert (A : forall l, fold_left (fun (acc : outcome bool) x => do a <- acc; if a then nodes_ok classify f x else Ok false)
                                  l (Ok true) = Raise e -> e = RuntimeError).
  { intros l Hl. apply all_fold_raise in Hl. destruct Hl as [Hl|[x [_ Hx]]]; [discriminate Hl|]. eapply IH. exact Hx. }
  destruct v as [ | | | | | | |l|l|cls fields]; try discriminate H.
  - apply A in H. exact H.
  - apply A in H. exact H.
  - destruct (fold_left _ (map snd fields) (Ok true)) as [below|e'] eqn:Eb; cbn [bind] in H.
    + destruct below; [|discriminate H].
      destruct (parse_any classify cls (export (MModel cls fields))) as [m|e1] eqn:Ep; [discriminate H|].
      apply parse_any_outcomes in Ep. destruct Ep as [ -> | -> ]; [discriminate H|].
      injection H as <-. reflexivity.
    + injection H as <-. apply A in Eb. exact Eb.
Qed.

Theorem create_job_verdict_raises : forall classify vals t e,
  create_job_verdict classify vals t = Raise e ->
  e <> FormatStringError /\
  (e = KeyError \/ e = TypeError \/ e = AttributeError \/ e = RuntimeError) /\
  (e = KeyError -> exists n, In n (adds_names Generated.schema t) /\ ~ In n (map v_name vals)).
Proof.
  intros classify vals t e H. unfold create_job_verdict in H.
  assert (Hres : forall s e', Export.fs_resolve classify (symtab_of vals) s = Raise e' -> e' = FormatStringError).
  { intros s e'. apply fs_resolve_only_fse. }
  destruct (inst Generated.schema (Export.fs_resolve classify) (symtab_of vals) (S (mval_depth t)) t) as [job|e0] eqn:Ei.
  - apply nodes_ok_raises in H. subst e. split; [discriminate|]. split; [tauto|]. discriminate.
  - pose proof (inst_raises _ _ _ Hres _ _ _ Ei) as He0.
    assert (E : e0 = e /\ e0 <> FormatStringError).
    { destruct e0; try (injection H as <-; split; [reflexivity|discriminate]). discriminate H. }
    destruct E as [<- Hne]. split; [exact Hne|]. split.
    + unfold inst_exn in He0. tauto.
    + intros ->. destruct (inst_keyerror _ _ _ Hres _ _ Ei) as [n [Hn Hl]].
      exists n. split; [exact Hn|]. intros Hin.
      change (str_of_string "RawParam.") with p_raw in Hl. rewrite symtab_raw in Hl.
      apply first_named_some in Hin. destruct (first_named n vals); [discriminate Hl|contradiction].
Qed.

(* the classes whose creation adds a value: the four job parameter definition classes *)
Definition adds_value_classes (s : schema_t) : list string :=
  flat_map (fun nc => if j_adds_value (c_jcm (snd nc)) then [fst nc] else []) s.

Lemma adds_value_classes_ok :
  adds_value_classes Generated.schema =
  ["JobStringParameterDefinition"; "JobPathParameterDefinition"; "JobIntParameterDefinition"; "JobFloatParameterDefinition"].
Proof. vm_compute. reflexivity. Qed.

(* the classes with a reshape (list -> dict keyed by a field): where TypeError / AttributeError of
   key_of could arise; the key field is the constr "name" of a model, always a string *)
Definition reshape_table (s : schema_t) : list (string * list (string * string)) :=
  flat_map (fun nc => match j_reshape (c_jcm (snd nc)) with [] => [] | l => [(fst nc, l)] end) s.

Lemma reshape_table_ok :
  reshape_table Generated.schema =
  [("StepParameterSpaceDefinition", [("taskParameterDefinitions", "name")]);
   ("JobTemplate", [("parameterDefinitions", "name")])].
Proof. vm_compute. reflexivity. Qed.
