"""C10 — job parameter preprocessing applies the definitions exactly.

Implementation: decode_job_template(minimal template carrying the parameterDefinitions) then
preprocess_job_parameters(job_template=..., job_parameter_values={name: str}, job_template_dir,
current_working_dir=/c).  Model: extracted `preprocess` of coq/theories/JobParams.v applied to
the DECODED definitions.  Observable: ("ok", sorted [(name, type, value)]) or ("raise", class).
Definitions the decoder rejects are out of scope (counted as `skip`).

A second stream ("num" cases) ties coq/theories/Numerals.v to Python's own int()/Decimal();
a disagreement there is reported as a HARNESS ERROR (the numeral model is wrong), never as a
violation of the property.
"""
import itertools
import random
import sys
from pathlib import Path

sys.path.insert(0, str(Path(__file__).resolve().parent))
import core  # noqa: E402
import jobparams_common as jc  # noqa: E402

from openjd.model import preprocess_job_parameters  # noqa: E402

# ---------------------------------------------------------------- pools
INT_BOUNDS = [None, -2, 0, 3]
INT_ALLOWED = [None, [0], [-2, 3], [1, 7, 0]]
INT_DEFAULTS = [None, 0, 3, -5]
INT_PROBES = ["-3", "-2", "-1", "0", "1", "2", "3", "4", "7", "-5", "5", "-0", "+3", " 3 ", "00", "0_0", "1_0", "3.0", "1e2",
              "", "abc", "NaN", "Infinity", "0x3", "3 3", "\x1f3", "\xa03", "9" * 40, "-" + "9" * 40, "--2", "+-2", "_3", "3_"]

FLOAT_BOUNDS = [None, -2, 0, 3, "0.0", "-2.5", "3e0", 0.5]
FLOAT_ALLOWED = [None, [0], ["-2.5", 3], ["1.50", "1e2", "0.0"]]
FLOAT_DEFAULTS = [None, 0, "3.0", "-2.5", "-0.0", "1E+2"]
FLOAT_PROBES = ["-3", "-2.51", "-2.5", "-2.50", "-2.49", "-2", "-1", "-0.001", "0", "-0", "0.0", "0e5", "0.001", "1e-1", "0.5", ".5",
                "0.50", "0.49", "0.51", "1.5", "15e-1", "2.999", "3", "3.0", "30e-1", "3.00001", "4", "100", "1e2", "1E+2", "1_00",
                "NaN", "nan", "sNaN", "Infinity", "-inf", "+Inf", "NaN3", "1_0", " 5 ", "\x1c3\x1f", "+3", "", "abc", "1e", ".", "1.2.3",
                "9" * 40, "0." + "0" * 30 + "1", "-0." + "0" * 30 + "1", "1e400", "-1e400", "1e-400", "3" + "0" * 30 + "e-30"]

LEN_BOUNDS = [None, 1, 3]
STR_ALLOWED = [None, ["ab"], ["a", "abc"], ["", "abcd"]]
STR_DEFAULTS = [None, "", "a", "abc", "abcd"]
STR_PROBES = ["", "a", "ab", "abc", "abcd", "abcde", "é", "ééé", " ", "a b", "ab\n", "AB", "\x00", "𝔘𝔘𝔘", "x" * 1025]

PATH_ALLOWED = [None, ["/ab"], ["a", "/c/a", ""], ["/t/a", "/abcd"], ["/ab/", "/a//b", "/a/./b"]]
PATH_DEFAULTS = [None, "", "a", "abc", "/ab"]
PATH_PROBES = ["", "a", "ab", "abc", "/", "/a", "/ab", "/abc", "/abcd", "/c/a", "/t/a", "x" * 1020, "/" + "x" * 1030,
               # absolute values in a spelling pathlib would rewrite: they are returned (and measured, and looked up) as given
               "/ab/", "/a//b", "/a/./b", "//ab", "/ab/.", "/a/", "/./a"]

EXTRA_NAMES = ["Q", "p", "P2", "é", ""]


def mkdef(name, ty, lo=None, hi=None, allowed=None, default=None, extra=None):
    d = {"name": name, "type": ty}
    numeric = ty in ("INT", "FLOAT")
    if lo is not None:
        d["minValue" if numeric else "minLength"] = lo
    if hi is not None:
        d["maxValue" if numeric else "maxLength"] = hi
    if allowed is not None:
        d["allowedValues"] = allowed
    if default is not None:
        d["default"] = default
    if extra:
        d.update(extra)
    return d


POOLS = {
    "INT": (INT_BOUNDS, INT_ALLOWED, INT_DEFAULTS, INT_PROBES),
    "FLOAT": (FLOAT_BOUNDS, FLOAT_ALLOWED, FLOAT_DEFAULTS, FLOAT_PROBES),
    "STRING": (LEN_BOUNDS, STR_ALLOWED, STR_DEFAULTS, STR_PROBES),
    "PATH": (LEN_BOUNDS, PATH_ALLOWED, PATH_DEFAULTS, PATH_PROBES),
}


def sweep_defs(ty):
    bounds, allowed, defaults, _ = POOLS[ty]
    for lo, hi, al, df in itertools.product(bounds, bounds, allowed, defaults):
        yield mkdef("P", ty, lo, hi, al, df)


def case(defs, vals, dir_="/t"):
    # job_parameter_values is a dict: one value per name (the last one given wins here)
    return {"kind": "pre", "defs": defs, "vals": [[k, v] for k, v in dict(vals).items()], "dir": dir_}


def rand_ui(rng, ty):
    """user-interface hints: irrelevant to preprocessing, whichever template they come from (a definition whose own
    control and constraints do not fit together is filtered out by the callers that redraw until the decoder accepts)"""
    ctl = {"INT": ["SPIN_BOX", "DROPDOWN_LIST", "HIDDEN"], "FLOAT": ["SPIN_BOX", "DROPDOWN_LIST", "HIDDEN"],
           "STRING": ["LINE_EDIT", "MULTILINE_EDIT", "DROPDOWN_LIST", "CHECK_BOX", "HIDDEN"],
           "PATH": ["CHOOSE_INPUT_FILE", "CHOOSE_OUTPUT_FILE", "CHOOSE_DIRECTORY", "DROPDOWN_LIST", "HIDDEN"]}[ty]
    ui = {"control": rng.choice(ctl)}
    if rng.random() < 0.3:
        ui["label"] = "L"
    if rng.random() < 0.2:
        ui["groupLabel"] = "G"
    if ui["control"] in ("CHOOSE_INPUT_FILE", "CHOOSE_OUTPUT_FILE") and rng.random() < 0.6:
        if rng.random() < 0.7:
            ui["fileFilters"] = [{"label": "Text", "patterns": ["*.txt", "*.md"]}]
        if rng.random() < 0.5:
            ui["fileFilterDefault"] = {"label": "All", "patterns": ["*.*"]}
    return ui


def rand_def(rng, name):
    ty = rng.choice(["INT", "FLOAT", "STRING", "PATH"])
    bounds, allowed, defaults, _ = POOLS[ty]
    pick = lambda pool: rng.choice(pool) if rng.random() < 0.5 else None  # noqa: E731
    extra = {}
    if ty == "PATH":
        if rng.random() < 0.3:
            extra["objectType"] = rng.choice(["FILE", "DIRECTORY"])
        if rng.random() < 0.3:
            extra["dataFlow"] = rng.choice(["NONE", "IN", "OUT", "INOUT"])
    if rng.random() < 0.2:
        extra["description"] = "d"
    if rng.random() < 0.3:
        extra["userInterface"] = rand_ui(rng, ty)
    return mkdef(name, ty, pick(bounds), pick(bounds), pick(allowed), pick(defaults), extra)


def rand_case(rng):
    names = rng.sample(["A", "B", "C", "D", "P", "p", "A_1"], rng.randint(1, 4))
    defs = [rand_def(rng, n) for n in names]
    vals = []
    for d in defs:
        if rng.random() < 0.65:
            probes = POOLS[d["type"]][3]
            if rng.random() < 0.1:
                probes = POOLS[rng.choice(["INT", "FLOAT", "STRING"])][3]
            v = rng.choice(probes)
            if d["type"] in ("INT", "FLOAT") and rng.random() < 0.25:
                v = jc.rand_numeral(rng)
                if not jc.small_exponent(v):
                    v = "1"
            if d["type"] == "PATH" and v not in PATH_PROBES:
                v = rng.choice(PATH_PROBES)
            vals.append((d["name"], v))
    if rng.random() < 0.15:
        vals.append((rng.choice(EXTRA_NAMES), rng.choice(["", "1", "x"])))
    rng.shuffle(vals)
    return case(defs, vals, "/t" if rng.random() < 0.97 else rng.choice(["t", "", "."]))


CORPUS = [
    # the historical truthiness defect (fixed by 5aa47df): a bound of zero was skipped
    case([mkdef("P", "INT", lo=0)], [("P", "-5")]),
    case([mkdef("P", "INT", hi=0)], [("P", "5")]),
    case([mkdef("P", "FLOAT", lo=0)], [("P", "-5")]),
    case([mkdef("P", "FLOAT", hi=0)], [("P", "5")]),
    case([mkdef("P", "FLOAT", lo="0.0")], [("P", "-0.001")]),
    case([mkdef("P", "FLOAT", hi="0E+3")], [("P", "1e-9")]),
    # non-finite FLOAT values (fixed by 55960a3)
    case([mkdef("P", "FLOAT")], [("P", "NaN")]),
    case([mkdef("P", "FLOAT")], [("P", "Infinity")]),
    case([mkdef("P", "FLOAT", lo=1)], [("P", "NaN")]),
    case([mkdef("P", "FLOAT", allowed=[1])], [("P", "sNaN")]),
    case([mkdef("P", "FLOAT", lo=1)], [("P", "sNaN")]),
    # numeric membership of allowedValues
    case([mkdef("P", "FLOAT", allowed=[1])], [("P", "1.0")]),
    case([mkdef("P", "FLOAT", allowed=["1.50"])], [("P", "15e-1")]),
    case([mkdef("P", "INT", allowed=[10])], [("P", "1_0")]),
    case([mkdef("P", "INT", allowed=[10])], [("P", " +10 ")]),
    # no definitions at all
    case(None, []), case(None, [("X", "1")]),
    # missing / extra / both, several errors at once
    case([mkdef("P", "INT")], []), case([mkdef("P", "INT", default=1)], []),
    case([mkdef("P", "INT")], [("Q", "1")]), case([mkdef("P", "INT", lo=3)], [("Q", "1"), ("P", "0")]),
    case([mkdef("A", "INT"), mkdef("B", "STRING", lo=3, default="abc"), mkdef("C", "PATH", default="a")], [("A", "x")]),
    # PATH: constraints are checked on the joined value
    case([mkdef("P", "PATH", allowed=["a"], default="a")], []),
    case([mkdef("P", "PATH", allowed=["a"])], [("P", "a")]),
    case([mkdef("P", "PATH", hi=3)], [("P", "a")]),
    case([mkdef("P", "PATH", default="/ab")], []),
    case([mkdef("P", "PATH", default="")], []),
    case([mkdef("P", "PATH", default="a")], [], "t"),
    case([mkdef("P", "INT", default=1)], [], "t"),
    case(None, [], "t"),
]


class C10(core.PropBase):
    id = "C10"
    component = "jobparams"
    extract_file = "ExtractJobParams.v"
    chunk_size = 300
    theorem_for_mismatch = "C10_iff / C10_result / C10_error (model = implementation correspondence)"
    assumptions = [
        "definitions enter the model as DECODED by decode_job_template (coercions of the decoder are C01's); the default enters as the text str(param.default)",
        "value strings of INT/FLOAT parameters are drawn from the numeral domain of Numerals.v (every Unicode decimal digit is read as Python reads it; < 4300 digits, decimal exponents of at most 3 digits); Numerals.v is compared with Python's int()/Decimal() on every run",
        "PATH strings are '', absolute or plain relative names; joining is concatenation with /c or /t there (checked against pathlib for every string used); the general case is C11",
        "CPython 3.12 / libmpdec as installed",
    ]
    trusted_extra = ["Python int(), decimal.Decimal(), str() of int and Decimal (library behaviour; Numerals.v is differential-tested against the first two)"]

    # ---- cases
    def corpus_cases(self):
        return list(CORPUS) + [{"kind": "num", "s": s} for s in jc.NUMERAL_CORPUS]

    def cases(self, tier, seed):
        rng = random.Random(seed * 1000003 + 10)
        thorough = tier == "thorough"
        # 1. single-definition sweep: every constraint subset x every probe, + missing, + extra
        for ty in ("INT", "FLOAT", "STRING", "PATH"):
            probes = POOLS[ty][3]
            for d in sweep_defs(ty):
                if jc.decoded("job", [d]) is None:
                    yield case([d], [])            # counted as skip
                    continue
                yield case([d], [])
                yield case([d], [("Q", "1")])
                for v in probes:
                    if thorough or ty != "FLOAT" or rng.random() < 0.5:
                        yield case([d], [("P", v)])
                yield case([d], [("P", rng.choice(probes)), (rng.choice(EXTRA_NAMES), "x")])
        # 1b. long strings against large length bounds (the small sweep stops at 3): lengths at / around each bound
        for ty in ("STRING", "PATH"):
            for bound in (64, 127, 128, 129, 255, 256, 1000, 1024):
                for which in ("hi", "lo", "both"):
                    d = mkdef("P", ty, bound if which != "hi" else None, bound if which != "lo" else None)
                    if jc.decoded("job", [d]) is None:
                        continue
                    for n in (bound - 1, bound, bound + 1, bound + 64, 2 * bound + 1):
                        if n > 1024:
                            continue
                        v = ("/" + "y" * (n - 1)) if ty == "PATH" else "y" * n
                        yield case([d], [("P", v)])
        # 2. random multi-parameter cases
        for _ in range(150000 if thorough else 25000):
            yield rand_case(rng)
        # 3. numeral model vs Python
        for _ in range(400000 if thorough else 60000):
            s = jc.rand_numeral(rng)
            if jc.in_numeral_domain(s):
                yield {"kind": "num", "s": s}

    def rule(self, tier):
        return ("corpus (historical failing inputs first); single-definition sweep: type x min x max x allowedValues x default over "
                "INT bounds {-2,0,3}, FLOAT bounds {-2,0,3,'0.0','-2.5','3e0',0.5}, lengths {1,3} (and 64..1024 with values one below / at / above the bound), every decodable combination x "
                "every probe value of the type (on/inside/outside each bound, alternative spellings, non-numerals, non-finite), missing, extra"
                + (" (all)" if tier == "thorough" else " (FLOAT probes sampled 50%)")
                + "; random 1-4 parameter definition sets with supplied/missing/extra values and relative template dir; "
                "numeral stream: structured random strings compared between Numerals.v and Python int()/Decimal(). "
                "distinct = by case; non-trivial = definitions accepted by the decoder")

    def samples(self, tier, seed):
        rng = random.Random(seed)
        return CORPUS[:5] + [rand_case(rng) for _ in range(5)] + [{"kind": "num", "s": jc.rand_numeral(rng)} for _ in range(2)]

    def nontrivial(self, case):
        return case["kind"] == "num" or jc.decoded("job", case["defs"]) is not None

    # ---- implementation
    def impl(self, case):
        if case["kind"] == "num":
            return [jc.py_int(case["s"]), jc.py_dec(case["s"])]
        jt = jc.decoded("job", case["defs"])
        if jt is None:
            return ["skip"]
        try:
            r = preprocess_job_parameters(
                job_template=jt,
                job_parameter_values={k: v for k, v in case["vals"]},
                job_template_dir=Path(case["dir"]),
                current_working_dir=Path("/c"),
            )
        except BaseException as e:  # noqa: BLE001
            return ["raise", type(e).__name__]
        return ["ok", sorted([n, pv.type.value, pv.value] for n, pv in r.items())]

    # ---- model
    def requests(self, case):
        if case["kind"] == "num":
            return [["int", core.cps(case["s"])], ["dec", core.cps(case["s"])]]
        jt = jc.decoded("job", case["defs"])
        if jt is None:
            return []
        pds = jt.parameterDefinitions or []
        supplied = dict((k, v) for k, v in case["vals"])
        for p in pds:
            ty = p.type.value
            if ty in ("INT", "FLOAT") and p.name in supplied and not jc.small_exponent(supplied[p.name]):
                raise AssertionError(f"value outside the numeral domain: {supplied[p.name]!r}")
            if ty == "PATH":
                if p.name in supplied:
                    jc.check_path_claim(supplied[p.name], False)
                elif p.default is not None:
                    jc.check_path_claim(str(p.default), True)
        return [["pre", False, Path(case["dir"]).is_absolute(), [jc.def_sx(p) for p in pds],
                 [[core.cps(k), core.cps(v)] for k, v in case["vals"]]]]

    def model_obs(self, case, replies):
        if case["kind"] == "num":
            return [jc.model_int(replies[0]), jc.model_dec(replies[1])]
        if not replies:
            return ["skip"]
        r = replies[0]
        if r[0] == "raise":
            return ["raise", r[1]]
        if r[0] == "ok":
            return ["ok", sorted([core.uncps(n), t, core.uncps(v)] for n, t, v in r[1])]
        return ["driver", r]

    def spec_obs(self, case):
        """the model is proved equal to the specification (C10_iff); also shown: the model with
        the historical truthiness tests switched on (documentation only)"""
        if case.get("kind") != "pre":
            return None
        reqs = self.requests(case)
        if not reqs:
            return ["skip"]
        pinned = [list(reqs[0])]
        pinned[0][1] = True
        drv = core.Driver(self.component)
        replies, _ = drv.ask(reqs + pinned)
        return {"model = spec (C10_iff)": self.model_obs(case, replies[:1]),
                "model with pinned_truthiness (finding fixed by 5aa47df)": self.model_obs(case, replies[1:])}

    def run_chunk(self, chunk):
        res = super().run_chunk(chunk)
        bad = [m for m in res.get("mismatches", []) if m["case"].get("kind") == "num"]
        if bad:
            return {"error": "HARNESS: Numerals.v disagrees with Python int()/Decimal() (numeral model wrong, not a property violation): %r" % (bad[0],),
                    "n": 0, "mismatches": [], "stats": {}, "hashes": []}
        return res

    def classify_case(self, case, obs):
        if case["kind"] == "num":
            return ["num", "num:int=" + ("some" if obs[0] != "none" else "none"), "num:dec=" + (obs[1] if isinstance(obs[1], str) else obs[1][0])]
        if obs[0] == "skip":
            return ["skip(decoder rejects definitions)"]
        ks = ["pre", obs[0] if obs[0] == "ok" else "raise:" + obs[1]]
        names = {d["name"] for d in (case["defs"] or [])}
        sup = {k for k, _ in case["vals"]}
        ks.append("ndefs=%d" % len(names))
        if sup - names:
            ks.append("has-extra")
        if any(d["name"] not in sup and "default" not in d for d in (case["defs"] or [])):
            ks.append("has-missing")
        if any(d["name"] not in sup and "default" in d for d in (case["defs"] or [])):
            ks.append("uses-default")
        for d in (case["defs"] or []):
            ks.append("type=" + d["type"])
        return ks

    def shrink_candidates(self, case):
        if case["kind"] != "pre" or not case["defs"]:
            return
        defs, vals = case["defs"], case["vals"]
        for i in range(len(defs)):
            if len(defs) > 1:
                yield dict(case, defs=defs[:i] + defs[i + 1:])
        for i in range(len(vals)):
            yield dict(case, vals=vals[:i] + vals[i + 1:])
        for i, d in enumerate(defs):
            for k in list(d):
                if k not in ("name", "type"):
                    d2 = {a: b for a, b in d.items() if a != k}
                    yield dict(case, defs=defs[:i] + [d2] + defs[i + 1:])


PROP = C10()

if __name__ == "__main__":
    # second stream: ONE Coq function for preprocess_job_parameters on RAW documents, client and server mode
    # (PreprocessFull.v; props/C10x.v), fed only documents, values, directories and mode
    import c10full  # noqa: E402  (imports this module's generators: attach it here, not at import time)
    PROP.also = [c10full.PROP]
    sys.exit(core.main(PROP, sys.argv[1:]))
