(* PreprocessFull.v — ONE function for openjd.model.preprocess_job_parameters
   (src/openjd/model/_create_job.py) on RAW documents, in client and in server mode, composed from the
   models of its parts.  Definitions only.

     preprocess_job_parameters(job_template=, job_parameter_values=, job_template_dir=,
                               current_working_dir=, allow_job_template_dir_walk_up=, environment_templates=)
       0. (caller) decode_job_template / decode_environment_template on the documents (Accept.decode_job /
          decode_env); the revision tests at the top of the function cannot fail on decoded 2023-09 templates;
       1. merge_job_parameter_definitions: the definitions of the environment templates (in the order
          given) then of the job template, grouped by name in order of first occurrence, every group merged
          by merge_job_parameter_definitions_for_one — ALSO a group of one definition —
          (CreateJobFull.defs_of_template, CreateJobFull.merge_definitions = Merge.merge per group); a
          CompatibilityError is re-raised as ValueError at once ("no point in continuing");
       2. extra names; `if parameterDefinitions:` _collect_defaults_2023_09 + _check_2023_09 with the
          ValueErrors collected; missing names; ValueError if any message was collected
          (JobParams.preprocess), where, as the code says,
            - the test that precedes the loop:  not allow_walk_up and not job_template_dir.is_absolute()
              -> ValueError                                        [dir_ok := negb (Paths.dir_check dir walkup)]
            - a SUPPLIED non-empty relative PATH value becomes str(current_working_dir / value)
                                                                   [path_in := Paths.path_supplied cwd]
            - a non-empty PATH DEFAULT: absolute -> ValueError unless walk-up is allowed (then verbatim);
              relative and job_template_dir absolute -> Path(normpath(job_template_dir / default)), which
              must be relative to job_template_dir unless walk-up is allowed; relative and the directory
              relative (only possible with walk-up allowed) -> verbatim
                                                                   [path_default := Paths.default_body dir walkup]
          and the constraints are checked on the STORED (joined) strings.

   The two modes ([pmode]):
     Client : the three arguments are the caller's (job_template_dir, current_working_dir, walk-up flag);
     Server : the call create_job makes — Path() for both directories and walk-up allowed; the three
              arguments of [preprocess_docs] are ignored.

   A pathlib Path argument is its raw string (see Paths.v); Path() is "".

   Inputs of [preprocess_docs]: the class table, the mode, the two directory strings, the flag, the RAW
   environment template documents, the RAW job template document, the caller's values (name, text) —
   nothing computed by the implementation.  Result: outer Raise = a template is not accepted (the function
   is never reached); inner = the returned dict as an association list in definition order
   (name, (type, value)) or the exception that leaves preprocess_job_parameters. *)
From Coq Require Import List NArith ZArith Bool String.
Import ListNotations.
Require Import OJD.Base OJD.Lexer OJD.Json OJD.Schema OJD.Generated OJD.Numerals OJD.CreateJob OJD.Parse OJD.Validators
               OJD.Accept OJD.JobParams OJD.Merge OJD.Paths OJD.CreateJobFull.
Local Open Scope list_scope.

Inductive pmode : Type := Client | Server.

(* the three path arguments as the function body sees them *)
Definition eff_dir (m : pmode) (template_dir : str) : str := match m with Client => template_dir | Server => [] end.
Definition eff_cwd (m : pmode) (cwd : str) : str := match m with Client => cwd | Server => [] end.
Definition eff_walk (m : pmode) (walk_up : bool) : bool := match m with Client => walk_up | Server => true end.

(* step 2 on the merged definitions *)
Definition preprocess_defs (dir cwd : str) (walkup : bool) (defs : list pdef) (vals : list (str * str))
  : outcome (list (str * (ptype * str))) :=
  preprocess false (negb (dir_check dir walkup)) (path_supplied cwd) (default_body dir walkup) defs vals.

(* every definition that takes part, in merge order: environment templates first, job template last *)
Definition source_defs (envs : list mval) (t : mval) : outcome (list pdef) :=
  do ed <- mapM defs_of_template envs;
  do jd <- defs_of_template t;
  Ok (List.concat ed ++ jd).

(* step 1: parameterDefinitions = merge_job_parameter_definitions(job_template=, environment_templates=) *)
Definition merged_defs (envs : list mval) (t : mval) : outcome (list pdef) :=
  do ed <- mapM defs_of_template envs;
  do jd <- defs_of_template t;
  merge_definitions ed jd.

(* the function on DECODED templates *)
Definition preprocess_templates (m : pmode) (template_dir cwd : str) (walk_up : bool)
           (envs : list mval) (t : mval) (vals : list (str * str)) : outcome (list (str * (ptype * str))) :=
  match merged_defs envs t with
  | Ok defs => preprocess_defs (eff_dir m template_dir) (eff_cwd m cwd) (eff_walk m walk_up) defs vals
  | Raise CompatibilityError => Raise ValueError             (* except CompatibilityError as e: raise ValueError(str(e)) *)
  | Raise e => Raise e
  end.

Section Full.
  Variable classify : N -> cclass.

  (* from the raw documents *)
  Definition preprocess_docs (m : pmode) (template_dir cwd : str) (walk_up : bool)
             (env_docs : list json) (doc : json) (vals : list (str * str))
    : outcome (outcome (list (str * (ptype * str)))) :=
    do t <- decode_job classify doc;
    do envs <- mapM (decode_env classify) env_docs;
    Ok (preprocess_templates m template_dir cwd walk_up envs t vals).

  (* the definitions the call works on, from the raw documents (vocabulary of the theorems) *)
  Definition docs_sources (env_docs : list json) (doc : json) : outcome (list pdef) :=
    do t <- decode_job classify doc;
    do envs <- mapM (decode_env classify) env_docs;
    source_defs envs t.

  Definition docs_merged (env_docs : list json) (doc : json) : outcome (list pdef) :=
    do t <- decode_job classify doc;
    do envs <- mapM (decode_env classify) env_docs;
    merged_defs envs t.
End Full.

(* (name, ParameterValue.type.value, ParameterValue.value) in dict order: the observable of the check *)
Definition triples (r : list (str * (ptype * str))) : list (str * str * str) := pvals_of r.
