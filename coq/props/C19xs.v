(* props/C19xs.v — C19, renaming of STEPS and ENVIRONMENTS (to be merged into props/C19.v next to
   props/C19x.v, which has the renaming theorem for parameters / task parameters / embedded files).

   Steps and environments are not referenced from format strings.  Their names matter to:
     * their own rule (Generated.schema: StepTemplate.name, StepDependency.dependsOn, Environment.name are
       constr(min_length=1, max_length=64) without control characters) = [name_fine];
     * the validators: unique step names, dependsOn names an existing step, no self dependency, no
       duplicate dependency, no dependency cycle, unique environment names inside jobEnvironments /
       inside one step's stepEnvironments, step-environment names differ from job-environment names.

   [rename_steps_envs rho_s rho_e j]  maps steps[i].name and every steps[i].dependencies[k].dependsOn
       through rho_s, jobEnvironments[i].name and steps[i].stepEnvironments[k].name through rho_e
       (the same function renames an exported Job, which has the same members);
   [rename_env_name rho_e j]          maps environment.name of an environment template through rho_e;
   [mrename_job] / [mrename_env_template] are the same renamings on decoded models and on Job instances.
   Only string values at those places are touched.

   Side conditions, as boolean functions of the name:
     * [rho] respects the names' own rule, [name_fine (rho n) = name_fine n] — implied by the pair "a fine name
       stays fine, a name that breaks its rule is left alone" (C19_fine_conditions; C19_rename_steps is stated
       with that pair);
     * [rho] is injective — needed ON THE STRINGS OF THE DOCUMENT only ([InjOn rho (jstrings j)]), which is what a
       renaming "names of the document -> fresh names, everything else unchanged" satisfies (such a map is not
       injective on all strings).  The [_on] theorems are the general ones; the others are their corollaries
       for globally injective maps.

   RESULTS (stronger than the verdict):
     decoding COMMUTES with the renaming (same exception, or the accepted model is the renamed model);
     create_job of the renamed template returns the renamed Job (same exception otherwise), also end to end on
     documents (decode, create, export).
   Proofs: theories/RenameStepsProofs.v (decoding), theories/RenameStepsJob.v (create_job). *)
From Coq Require Import List NArith ZArith Bool String.
Import ListNotations.
Require Import OJD.Base OJD.Lexer OJD.Json OJD.Schema OJD.Generated OJD.FsRefs OJD.CreateJob
               OJD.Parse OJD.Validators OJD.Accept OJD.ScopeWalk OJD.ScopeSpec
               OJD.Export OJD.CreateJobFull OJD.RenameProofs OJD.RenameSteps OJD.RenameStepsProofs OJD.RenameStepsJob.
Local Open Scope string_scope.
Local Open Scope list_scope.

Definition injective (rho : str -> str) : Prop := forall a b, rho a = rho b -> a = b.

(* ================================================================== decoding *)

(* THE THEOREM: decoding a job template commutes with the renaming; injectivity on the document's strings *)
Theorem C19_rename_steps_decode_on : forall classify (rho_s rho_e : str -> str) j,
  InjOn rho_s (jstrings j) -> InjOn rho_e (jstrings j) ->
  (forall n, name_fine (rho_s n) = name_fine n) ->
  (forall n, name_fine (rho_e n) = name_fine n) ->
  decode_job classify (rename_steps_envs rho_s rho_e j)
  = omap (mrename_job rho_s rho_e) (decode_job classify j).
Proof. intros classify rho_s rho_e j Is Ie Fs Fe. apply decode_job_rs_on; assumption. Qed.
Print Assumptions C19_rename_steps_decode_on.

(* ... for globally injective renamings *)
Theorem C19_rename_steps_decode : forall classify (rho_s rho_e : str -> str) j,
  injective rho_s -> injective rho_e ->
  (forall n, name_fine (rho_s n) = name_fine n) ->
  (forall n, name_fine (rho_e n) = name_fine n) ->
  decode_job classify (rename_steps_envs rho_s rho_e j)
  = omap (mrename_job rho_s rho_e) (decode_job classify j).
Proof. intros classify rho_s rho_e j Hs He Fs Fe. apply decode_job_rs; assumption. Qed.
Print Assumptions C19_rename_steps_decode.

(* decoding an environment template commutes with renaming its environment (one name: no injectivity needed) *)
Theorem C19_rename_env_decode : forall classify (rho_e : str -> str) j,
  (forall n, name_fine (rho_e n) = name_fine n) ->
  decode_env classify (rename_env_name rho_e j)
  = omap (mrename_env_template rho_e) (decode_env classify j).
Proof. intros classify rho_e j Fe. apply decode_env_rs. exact Fe. Qed.
Print Assumptions C19_rename_env_decode.

(* "a fine name stays fine, a name that breaks its own rule is left alone" gives the condition used above *)
Theorem C19_fine_conditions : forall rho : str -> str,
  (forall n, name_fine n = true -> name_fine (rho n) = true) ->
  (forall n, name_fine n = false -> rho n = n) ->
  forall n, name_fine (rho n) = name_fine n.
Proof.
  intros rho H1 H2 n. destruct (name_fine n) eqn:E; [exact (H1 n E)|]. rewrite (H2 n E). exact E.
Qed.
Print Assumptions C19_fine_conditions.

(* the verdict, in the form of the task *)
Theorem C19_rename_steps : forall classify (rho_s rho_e : str -> str) j,
  injective rho_s -> injective rho_e ->
  (forall n, name_fine n = true -> name_fine (rho_s n) = true) ->
  (forall n, name_fine n = true -> name_fine (rho_e n) = true) ->
  (forall n, name_fine n = false -> rho_s n = n) ->
  (forall n, name_fine n = false -> rho_e n = n) ->
  is_ok (decode_job classify (rename_steps_envs rho_s rho_e j)) = is_ok (decode_job classify j) /\
  is_ok (decode_env classify (rename_env_name rho_e j)) = is_ok (decode_env classify j).
Proof.
  intros classify rho_s rho_e j Hs He F1s F1e F2s F2e.
  pose proof (C19_fine_conditions rho_s F1s F2s) as Fs. pose proof (C19_fine_conditions rho_e F1e F2e) as Fe.
  rewrite (C19_rename_steps_decode classify rho_s rho_e j Hs He Fs Fe), (C19_rename_env_decode classify rho_e j Fe).
  split; apply is_ok_omap.
Qed.
Print Assumptions C19_rename_steps.

(* the verdict, injectivity on the document only *)
Theorem C19_rename_steps_on : forall classify (rho_s rho_e : str -> str) j,
  InjOn rho_s (jstrings j) -> InjOn rho_e (jstrings j) ->
  (forall n, name_fine (rho_s n) = name_fine n) ->
  (forall n, name_fine (rho_e n) = name_fine n) ->
  is_ok (decode_job classify (rename_steps_envs rho_s rho_e j)) = is_ok (decode_job classify j).
Proof.
  intros classify rho_s rho_e j Is Ie Fs Fe.
  rewrite (C19_rename_steps_decode_on classify rho_s rho_e j Is Ie Fs Fe). apply is_ok_omap.
Qed.
Print Assumptions C19_rename_steps_on.

(* ... and the exception, when there is one, is the same *)
Theorem C19_rename_steps_exn : forall classify (rho_s rho_e : str -> str) j e,
  InjOn rho_s (jstrings j) -> InjOn rho_e (jstrings j) ->
  (forall n, name_fine (rho_s n) = name_fine n) ->
  (forall n, name_fine (rho_e n) = name_fine n) ->
  (decode_job classify (rename_steps_envs rho_s rho_e j) = Raise e <-> decode_job classify j = Raise e).
Proof.
  intros classify rho_s rho_e j e Is Ie Fs Fe.
  rewrite (C19_rename_steps_decode_on classify rho_s rho_e j Is Ie Fs Fe).
  destruct (decode_job classify j) as [t|e']; cbn [omap]; split; intros H; try discriminate H; exact H.
Qed.
Print Assumptions C19_rename_steps_exn.

(* ================================================================== create_job *)

(* the Job created from the renamed template is the renamed Job (same exception otherwise).  [t] is any decoded
   job template, [envs] the decoded environment templates, [vals] the caller's values.  No injectivity: the
   target classes Job / Step have no uniqueness validators *)
Theorem C19_rename_steps_create_job : forall classify (rho_s rho_e : str -> str) j envs t vals,
  (forall n, name_fine (rho_s n) = name_fine n) ->
  (forall n, name_fine (rho_e n) = name_fine n) ->
  decode_job classify j = Ok t ->
  create_job_full classify envs (mrename_job rho_s rho_e t) vals
  = omap (mrename_job rho_s rho_e) (create_job_full classify envs t vals).
Proof. intros classify rho_s rho_e j envs t vals Fs Fe H. exact (create_job_full_rs classify rho_s rho_e Fs Fe j envs t vals H). Qed.
Print Assumptions C19_rename_steps_create_job.

(* end to end, on documents: decode_job_template, decode_environment_template, create_job, model_to_object.
   The exported Job of the renamed template is the renamed exported Job; an outer Raise (a template is not
   accepted) and an inner Raise (create_job fails) are the same on both sides *)
Theorem C19_rename_steps_create_job_docs_on : forall classify (rho_s rho_e : str -> str) env_docs doc vals,
  InjOn rho_s (jstrings doc) -> InjOn rho_e (jstrings doc) ->
  (forall n, name_fine (rho_s n) = name_fine n) ->
  (forall n, name_fine (rho_e n) = name_fine n) ->
  create_job_docs classify env_docs (rename_steps_envs rho_s rho_e doc) vals
  = omap (omap (rename_steps_envs rho_s rho_e)) (create_job_docs classify env_docs doc vals).
Proof. intros classify rho_s rho_e env_docs doc vals Is Ie Fs Fe. apply create_job_docs_rs_on; assumption. Qed.
Print Assumptions C19_rename_steps_create_job_docs_on.

Theorem C19_rename_steps_create_job_docs : forall classify (rho_s rho_e : str -> str) env_docs doc vals,
  injective rho_s -> injective rho_e ->
  (forall n, name_fine (rho_s n) = name_fine n) ->
  (forall n, name_fine (rho_e n) = name_fine n) ->
  create_job_docs classify env_docs (rename_steps_envs rho_s rho_e doc) vals
  = omap (omap (rename_steps_envs rho_s rho_e)) (create_job_docs classify env_docs doc vals).
Proof. intros classify rho_s rho_e env_docs doc vals Hs He Fs Fe. apply create_job_docs_rs; assumption. Qed.
Print Assumptions C19_rename_steps_create_job_docs.

(* the names of the environments of the environment templates given to create_job play no role *)
Theorem C19_rename_env_templates_create_job : forall classify (rho : str -> str) envs t vals,
  create_job_full classify (map (mrename_env_template rho) envs) t vals = create_job_full classify envs t vals.
Proof. exact create_job_full_envt. Qed.
Print Assumptions C19_rename_env_templates_create_job.

(* ================================================================== the ingredients *)

(* the reference walk does not read step / environment names: the error list is EQUAL (no side condition) *)
Theorem C19_rename_steps_walk : forall (rho_s rho_e : str -> str) refs j,
  prevalidate Generated.schema refs "JobTemplate" (rename_steps_envs rho_s rho_e j)
  = prevalidate Generated.schema refs "JobTemplate" j /\
  prevalidate Generated.schema refs "EnvironmentTemplate" (rename_env_name rho_e j)
  = prevalidate Generated.schema refs "EnvironmentTemplate" j.
Proof. intros rho_s rho_e refs j. split; [apply prevalidate_job_rs|apply prevalidate_envt_rs]. Qed.
Print Assumptions C19_rename_steps_walk.

(* [step_shaped Ps Pe st]: st.name, every st.dependencies[k].dependsOn (resp. st.stepEnvironments[k].name) is a
   string that satisfies Ps (resp. Pe) — true of every StepTemplate instance the parser returns, with
   Ps = Pe = "occurs in the document".
   The dependency graph is built on step INDICES: it is literally the same graph after the renaming, so the
   cycle check needs no relabelling argument *)
Theorem C19_rename_steps_graph : forall (rho_s rho_e : str -> str) (Ps Pe : str -> Prop) steps,
  (forall a b, Ps a -> Ps b -> rho_s a = rho_s b -> a = b) ->
  Forall (step_shaped Ps Pe) (mitems steps) ->
  dep_job (on_mlist (mr_step rho_s rho_e) steps) = dep_job steps.
Proof. intros rho_s rho_e Ps Pe steps Hs H. exact (dep_job_ren rho_s rho_e Ps Pe Hs steps H). Qed.
Print Assumptions C19_rename_steps_graph.

(* the root validator of JobTemplate on the renamed raw document and the renamed fields *)
Theorem C19_rename_steps_root_validator : forall classify (rho_s rho_e : str -> str) (Ps Pe : str -> Prop) raw fs,
  (forall a b, Ps a -> Ps b -> rho_s a = rho_s b -> a = b) ->
  (forall a b, Pe a -> Pe b -> rho_e a = rho_e b -> a = b) ->
  Forall (step_shaped Ps Pe) (mitems (fget "steps" fs)) ->
  Forall (has_mstr Pe "name") (mitems (fget "jobEnvironments" fs)) ->
  job_template_ok classify (rename_steps_envs rho_s rho_e raw) (mapf (mr_job_g rho_s rho_e) fs)
  = job_template_ok classify raw fs.
Proof. intros classify rho_s rho_e Ps Pe raw fs Hs He H1 H2. exact (job_template_ok_ren rho_s rho_e Ps Pe Hs He classify raw fs H1 H2). Qed.
Print Assumptions C19_rename_steps_root_validator.

(* the structural layer of ANY schema, one object: parse_cls commutes with a member-wise renaming as soon
   as the value parser of every field commutes on the member the object has and the class's validators agree *)
Theorem C19_parse_cls_members : forall SC classify pre post f c c0 (h : str -> json -> json) (g : string -> mval -> mval) ms,
  lookup_cls SC c = Some c0 ->
  pre c (JObj (ren_members h ms)) = pre c (JObj ms) ->
  (forall fl, In fl (c_fields c0) -> h (str_of_string (f_alias fl)) JNull = JNull) ->
  (forall fl, In fl (c_fields c0) ->
     AcceptMono.parse_value (parse_kind SC classify pre post f) fl (h (str_of_string (f_alias fl)) (AcceptMono.field_raw ms fl))
     = omap (g (f_name fl)) (AcceptMono.parse_value (parse_kind SC classify pre post f) fl (AcceptMono.field_raw ms fl))) ->
  (forall fs, mapM (AcceptMono.parse_field (parse_kind SC classify pre post f) ms) (c_fields c0) = Ok fs ->
     post c (JObj (ren_members h ms)) (mapf g fs) = post c (JObj ms) fs) ->
  parse_cls SC classify pre post (S f) c (JObj (ren_members h ms))
  = omap (on_fields g) (parse_cls SC classify pre post (S f) c (JObj ms)).
Proof. exact pc_members. Qed.
Print Assumptions C19_parse_cls_members.

(* ================================================================== non-vacuity *)
Definition jsx (x : string) : json := JStr (str_of_string x).
Definition jox (l : list (string * json)) : json := JObj (map (fun kv => (str_of_string (fst kv), snd kv)) l).

(* rho_s = [rho_rev], "spell the name backwards" (injective, keeps length and characters, changes the sort
   order); rho_e = [rho_swap a b], exchange two names; [rho_tbl], a finite table extended by the identity
   (RenameStepsProofs.v) *)
Definition rho_e_ex : str -> str := rho_swap $"JobEnv" $"Warm".

Example rho_e_ex_inj : injective rho_e_ex.
Proof. intros a b. apply rho_swap_inj. Qed.

Example rho_e_ex_fine : forall n, name_fine (rho_e_ex n) = name_fine n.
Proof. apply rho_swap_fine. vm_compute. reflexivity. Qed.

(* a step: name, dependencies, step environments *)
Definition ex_step (name : string) (deps : list string) (envs : list string) : json :=
  jox ([("name", jsx name);
        ("script", jox [("actions", jox [("onRun", jox [("command", jsx "run")])])])]
       ++ (match deps with [] => [] | _ => [("dependencies", JArr (map (fun d => jox [("dependsOn", jsx d)]) deps))] end)
       ++ (match envs with [] => [] | _ => [("stepEnvironments",
                                            JArr (map (fun e => jox [("name", jsx e); ("variables", jox [("V", jsx "1")])]) envs))] end)).

(* three steps; the dependencies are listed out of order (the first step depends on the two that follow);
   a job environment and step environments.  Step names Az < Bx < Cy; spelled backwards: xB < yC < zA *)
Definition ex_tmpl (last_deps : list string) : json :=
  jox [("specificationVersion", jsx "jobtemplate-2023-09");
       ("name", jsx "Job");
       ("jobEnvironments", JArr [jox [("name", jsx "JobEnv"); ("variables", jox [("V", jsx "1")])]]);
       ("steps", JArr [ex_step "Cy" ["Bx"; "Az"] ["Warm"; "Cold"];
                       ex_step "Az" [] [];
                       ex_step "Bx" last_deps ["Warm"]])].

Definition ex_good : json := ex_tmpl ["Az"].
Definition ex_dup : json := ex_tmpl ["Az"; "Az"].          (* duplicate dependency *)
Definition ex_cycle : json := ex_tmpl ["Cy"].               (* Cy -> Bx -> Cy *)
Definition ex_unknown : json := ex_tmpl ["Nope"].           (* dependsOn an unknown step *)

Definition step_names (j : json) : list json :=
  match jget "steps" j with JArr l => map (jget "name") l | _ => [] end.

Example C19_rename_steps_nonvacuous :
  (* the hypotheses hold ... *)
  injective rho_rev /\ injective rho_e_ex /\
  (forall n, name_fine (rho_rev n) = name_fine n) /\ (forall n, name_fine (rho_e_ex n) = name_fine n) /\
  (* ... the renaming changes the document: the step names, in document order, and their sort order ... *)
  step_names ex_good = [jsx "Cy"; jsx "Az"; jsx "Bx"] /\
  step_names (rename_steps_envs rho_rev rho_e_ex ex_good) = [jsx "yC"; jsx "zA"; jsx "xB"] /\
  jget "dependencies" (match jget "steps" (rename_steps_envs rho_rev rho_e_ex ex_good) with JArr (s :: _) => s | _ => JNull end)
  = JArr [jox [("dependsOn", jsx "xB")]; jox [("dependsOn", jsx "zA")]] /\
  jget "jobEnvironments" (rename_steps_envs rho_rev rho_e_ex ex_good)
  = JArr [jox [("name", jsx "Warm"); ("variables", jox [("V", jsx "1")])]] /\
  (* ... accepted before and after ... *)
  is_ok (decode_job ascii_class ex_good) = true /\
  is_ok (decode_job ascii_class (rename_steps_envs rho_rev rho_e_ex ex_good)) = true /\
  (* ... and each of the three name-based rejections is a rejection before and after *)
  decode_job ascii_class ex_dup = Raise ValueError /\
  decode_job ascii_class (rename_steps_envs rho_rev rho_e_ex ex_dup) = Raise ValueError /\
  decode_job ascii_class ex_cycle = Raise ValueError /\
  decode_job ascii_class (rename_steps_envs rho_rev rho_e_ex ex_cycle) = Raise ValueError /\
  decode_job ascii_class ex_unknown = Raise ValueError /\
  decode_job ascii_class (rename_steps_envs rho_rev rho_e_ex ex_unknown) = Raise ValueError.
Proof.
  split; [exact rho_rev_inj|]. split; [exact rho_e_ex_inj|]. split; [exact rho_rev_fine|].
  split; [exact rho_e_ex_fine|].
  repeat split; vm_compute; reflexivity.
Qed.

(* the conclusion on this instance, obtained FROM the theorem: the accepted model of the renamed document is
   the renamed model *)
Example C19_rename_steps_instance :
  decode_job ascii_class (rename_steps_envs rho_rev rho_e_ex ex_good)
  = omap (mrename_job rho_rev rho_e_ex) (decode_job ascii_class ex_good) /\
  is_ok (decode_job ascii_class (rename_steps_envs rho_rev rho_e_ex ex_dup)) = false.
Proof.
  split.
  - apply C19_rename_steps_decode; [exact rho_rev_inj|exact rho_e_ex_inj|exact rho_rev_fine|exact rho_e_ex_fine].
  - rewrite (C19_rename_steps_decode ascii_class rho_rev rho_e_ex ex_dup rho_rev_inj rho_e_ex_inj rho_rev_fine
               rho_e_ex_fine).
    rewrite is_ok_omap. vm_compute. reflexivity.
Qed.

(* the [_on] theorems: a harness-style renaming "the names of the document onto fresh names, identity elsewhere".
   It is NOT injective (Step_1 and Az have the same image) but it is injective on the strings of the document *)
Definition rho_fresh : str -> str := rho_tbl [($"Az", $"Step_1"); ($"Bx", $"Step_2"); ($"Cy", $"Step_0")].
Definition rho_fresh_e : str -> str := rho_tbl [($"JobEnv", $"Env_9"); ($"Warm", $"Env_1"); ($"Cold", $"Env_0")].

Example C19_rename_steps_on_nonvacuous :
  ~ injective rho_fresh /\
  InjOn rho_fresh (jstrings ex_good) /\ InjOn rho_fresh_e (jstrings ex_good) /\
  (forall n, name_fine (rho_fresh n) = name_fine n) /\ (forall n, name_fine (rho_fresh_e n) = name_fine n) /\
  step_names (rename_steps_envs rho_fresh rho_fresh_e ex_good) = [jsx "Step_0"; jsx "Step_1"; jsx "Step_2"] /\
  is_ok (decode_job ascii_class ex_good) = true /\
  is_ok (decode_job ascii_class (rename_steps_envs rho_fresh rho_fresh_e ex_good)) = true.
Proof.
  split; [intros H; specialize (H $"Az" $"Step_1" eq_refl); discriminate H|].
  split; [apply inj_onb_sound; vm_compute; reflexivity|].
  split; [apply inj_onb_sound; vm_compute; reflexivity|].
  split; [apply rho_tbl_fine; vm_compute; reflexivity|].
  split; [apply rho_tbl_fine; vm_compute; reflexivity|].
  split; [vm_compute; reflexivity|]. split; [vm_compute; reflexivity|].
  rewrite (C19_rename_steps_on ascii_class rho_fresh rho_fresh_e ex_good).
  - vm_compute. reflexivity.
  - apply inj_onb_sound. vm_compute. reflexivity.
  - apply inj_onb_sound. vm_compute. reflexivity.
  - apply rho_tbl_fine. vm_compute. reflexivity.
  - apply rho_tbl_fine. vm_compute. reflexivity.
Qed.

(* environment template *)
Definition ex_envt : json :=
  jox [("specificationVersion", jsx "environment-2023-09");
       ("environment", jox [("name", jsx "JobEnv"); ("variables", jox [("V", jsx "1")])])].

Example C19_rename_env_nonvacuous :
  jget "name" (jget "environment" (rename_env_name rho_e_ex ex_envt)) = jsx "Warm" /\
  is_ok (decode_env ascii_class ex_envt) = true /\
  is_ok (decode_env ascii_class (rename_env_name rho_e_ex ex_envt)) = true.
Proof. repeat split; vm_compute; reflexivity. Qed.

(* create_job on the example: a Job is produced; the Job of the renamed template is the renamed Job *)
Example C19_rename_steps_create_job_nonvacuous :
  (exists job, create_job_docs ascii_class [] ex_good [] = Ok (Ok job) /\
               step_names job = [jsx "Cy"; jsx "Az"; jsx "Bx"] /\
               create_job_docs ascii_class [] (rename_steps_envs rho_rev rho_e_ex ex_good) []
               = Ok (Ok (rename_steps_envs rho_rev rho_e_ex job)) /\
               step_names (rename_steps_envs rho_rev rho_e_ex job) = [jsx "yC"; jsx "zA"; jsx "xB"]).
Proof.
  destruct (create_job_docs ascii_class [] ex_good []) as [[job|e]|e] eqn:E; try (vm_compute in E; discriminate E).
  exists job. split; [reflexivity|].
  pose proof (C19_rename_steps_create_job_docs ascii_class rho_rev rho_e_ex [] ex_good []
                rho_rev_inj rho_e_ex_inj rho_rev_fine rho_e_ex_fine) as H.
  rewrite E in H. cbn [omap] in H.
  vm_compute in E. injection E as <-.
  split; [vm_compute; reflexivity|]. split; [exact H|vm_compute; reflexivity].
Qed.

(* the side conditions are not decorative.  Injectivity: mapping two step names to one turns an accepted
   template into a rejected one *)
Example C19_rename_steps_noninjective_counterexample :
  let rho0 : str -> str := fun _ => $"S" in
  (forall n, name_fine n = true -> name_fine (rho0 n) = true) /\
  is_ok (decode_job ascii_class ex_good) = true /\
  is_ok (decode_job ascii_class (rename_steps_envs rho0 (fun s => s) ex_good)) = false.
Proof. cbv zeta. split; [intros n _; vm_compute; reflexivity|]. split; vm_compute; reflexivity. Qed.

(* the names' own rule: an injective renaming that makes a name too long (65 characters) turns acceptance
   into rejection *)
Definition pad64 : str := repeat 95%N 64.
Example C19_rename_steps_unfine_counterexample :
  let rho1 : str -> str := fun s => s ++ pad64 in
  injective rho1 /\
  is_ok (decode_job ascii_class ex_good) = true /\
  is_ok (decode_job ascii_class (rename_steps_envs rho1 (fun s => s) ex_good)) = false.
Proof.
  cbv zeta. split; [intros a b H; exact (app_inv_tail _ _ _ H)|]. split; vm_compute; reflexivity.
Qed.
