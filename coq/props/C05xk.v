(* props/C05xk.v — C05_exact up to member ORDER with no premise on the two Jobs.

   props/C05x.v proves, for an accepted job-template document j (decode_job = Ok t) with distinct_keys j,
   lax_ints_native j, canonical_numbers j, that the model's Job and the specification's Job
   (expected_job, CreateJobSpec.v) are [json_equiv]; and [json_perm] (equal up to the order of object members:
   scalars equal, arrays pointwise, objects a permutation of members) under three extra premises on the two Job
   VALUES.  Here the three premises are theorems:

     C05xk_model_job_distinct_keys   every object of the model's Job has pairwise distinct keys
     C05xk_spec_job_distinct_keys    ... of the specification's Job ...
     C05xk_spec_job_no_null          no object of the specification's Job has a null member

   each from [decode_job classify j = Ok t] and [distinct_keys j] alone (any [resolve], any values / symbol
   table), and therefore

     C05_exact_perm_unconditional    (hypotheses of C05_exact_full) ->
                                     exists job', expected_job ... j = Ok job' /\ json_perm job job'. *)
From Coq Require Import List NArith ZArith Bool String.
Import ListNotations.
Require Import OJD.Base OJD.Lexer OJD.Json OJD.Schema OJD.Generated OJD.CreateJob OJD.CreateJobSpec OJD.Accept OJD.Export
               OJD.NoMissingVar OJD.JsonEquiv OJD.CreateJobExactCarried OJD.CreateJobExactSpace OJD.CreateJobExactHost
               OJD.CreateJobExact OJD.CreateJobExactKeys.
Require Import OJDProps.C05x.
Local Open Scope string_scope.
Local Open Scope list_scope.

Theorem C05xk_model_job_distinct_keys : forall classify resolve j t vals job,
  decode_job classify j = Ok t -> distinct_keys j = true ->
  create_job_object Generated.schema resolve vals t = Ok job -> distinct_keys job = true.
Proof. exact CreateJobExactKeys.model_job_dk. Qed.
Print Assumptions C05xk_model_job_distinct_keys.

Theorem C05xk_spec_job_distinct_keys : forall classify resolve sigma j t job',
  decode_job classify j = Ok t -> distinct_keys j = true ->
  expected_job resolve sigma j = Ok job' -> distinct_keys job' = true.
Proof. exact CreateJobExactKeys.spec_job_dk. Qed.
Print Assumptions C05xk_spec_job_distinct_keys.

Theorem C05xk_spec_job_no_null : forall classify resolve sigma j t job',
  decode_job classify j = Ok t -> distinct_keys j = true ->
  expected_job resolve sigma j = Ok job' -> no_null_members job' = true.
Proof. exact CreateJobExactKeys.spec_job_nnm. Qed.
Print Assumptions C05xk_spec_job_no_null.

(* model Job = specification Job up to the order of object members *)
Theorem C05_exact_perm_unconditional : forall classify j t vals job,
  ascii_ok classify = true ->
  decode_job classify j = Ok t ->
  distinct_keys j = true -> lax_ints_native j = true -> canonical_numbers j = true ->
  create_job_object Generated.schema (fs_resolve classify) vals t = Ok job ->
  exists job', expected_job (fs_resolve classify) (symtab_of vals) j = Ok job' /\ json_perm job job'.
Proof. exact CreateJobExactKeys.C05_exact_perm_unconditional. Qed.
Print Assumptions C05_exact_perm_unconditional.

(* templates whose steps have neither parameterSpace nor hostRequirements: any [resolve], any [classify] *)
Theorem C05_exact_perm_partial_1 : forall classify resolve j t vals job,
  decode_job classify j = Ok t ->
  distinct_keys j = true -> lax_ints_native j = true -> plain_steps j = true ->
  create_job_object Generated.schema resolve vals t = Ok job ->
  exists job', expected_job resolve (symtab_of vals) j = Ok job' /\ json_perm job job'.
Proof. exact CreateJobExactKeys.C05_exact_plain_perm. Qed.
Print Assumptions C05_exact_perm_partial_1.

(* ================================================================== non-vacuity *)
(* the example document of props/C05x.v (two steps, parameter space, host requirements, environments, explicit
   nulls, members out of schema order) meets every hypothesis; the conclusions are obtained from the theorems *)
Example C05xk_nonvacuous :
  ascii_ok ascii_class = true /\
  decode_job ascii_class ex_doc = Ok ex_t /\
  distinct_keys ex_doc = true /\ lax_ints_native ex_doc = true /\ canonical_numbers ex_doc = true /\
  create_job_object Generated.schema (fs_resolve ascii_class) ex_vals ex_t = Ok ex_model_job /\
  expected_job (fs_resolve ascii_class) (symtab_of ex_vals) ex_doc = Ok ex_spec_job.
Proof. repeat split; vm_compute; reflexivity. Qed.

Example C05xk_example :
  distinct_keys ex_model_job = true /\ distinct_keys ex_spec_job = true /\ no_null_members ex_spec_job = true /\
  json_perm ex_model_job ex_spec_job.
Proof.
  destruct C05xk_nonvacuous as [Ha [Hd [K1 [K2 [K3 [Hm Hs]]]]]].
  split; [exact (C05xk_model_job_distinct_keys _ _ _ _ _ _ Hd K1 Hm)|].
  split; [exact (C05xk_spec_job_distinct_keys _ _ _ _ _ _ Hd K1 Hs)|].
  split; [exact (C05xk_spec_job_no_null _ _ _ _ _ _ Hd K1 Hs)|].
  destruct (C05_exact_perm_unconditional _ _ _ _ _ Ha Hd K1 K2 K3 Hm) as [job' [Hs' Hp]].
  rewrite Hs in Hs'. injection Hs' as <-. exact Hp.
Qed.

(* the premise [distinct_keys j] cannot be dropped from C05xk_model_job_distinct_keys: the acceptance model reads an
   environment's "variables" member by member (a Python dict cannot hold a key twice, so no parsed document is
   like this), and the model's Job repeats the key *)
Definition ex_dupvars : json :=
  JObj [($"specificationVersion", JStr $"jobtemplate-2023-09"); ($"name", JStr $"n");
        ($"steps", JArr [JObj [($"name", JStr $"a");
                               ($"script", JObj [($"actions", JObj [($"onRun", JObj [($"command", JStr $"c")])])])]]);
        ($"jobEnvironments", JArr [JObj [($"name", JStr $"e");
                                         ($"variables", JObj [($"V", JStr $"1"); ($"V", JStr $"2")])]])].

Example C05xk_distinct_keys_needed :
  distinct_keys ex_dupvars = false /\
  exists t job, decode_job ascii_class ex_dupvars = Ok t /\
                create_job_object Generated.schema (fs_resolve ascii_class) [] t = Ok job /\ distinct_keys job = false.
Proof.
  split; [vm_compute; reflexivity|].
  eexists. eexists. split; [vm_compute; reflexivity|]. split; vm_compute; reflexivity.
Qed.
