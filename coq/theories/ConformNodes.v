(* ConformNodes.v — what [Export.nodes_ok] = Ok true says about the nodes of the tree:

     nodes_ok_all   : every model node (c, fs) of the tree was accepted by its own class c
                      (parse_any c (export (MModel c fs)) = Ok _);
   and what that acceptance means for the four job-side task-parameter classes, on nodes of the shape
   ConformInst.jdef (type + a range of str items / a range string):

     range_list_accepted  : Int/Float/RangeListTaskParameterDefinition — every item has at most 1024
                            characters and the class's own validator (Validators.post_hook) holds of the
                            SAME items (the structural layer stores a str item as it is);
     range_expr_accepted  : RangeExpressionTaskParameterDefinition — the range string is a range expression
                            (Validators.range_expr_ok). *)
From Coq Require Import List NArith ZArith Bool String Lia.
Import ListNotations.
Require Import OJD.Base OJD.Lexer OJD.Json OJD.Schema OJD.Generated OJD.Charsets OJD.Numerals OJD.NumPrint
               OJD.FormatStr OJD.CreateJob OJD.CreateJobProofs OJD.Parse OJD.Validators OJD.Accept OJD.AcceptMono
               OJD.Export OJD.CreateJobExactLib OJD.WellKeyed OJD.GlueProofs OJD.ConformLib.
Local Open Scope string_scope.
Local Open Scope list_scope.

Notation G := Generated.schema.

(* ------------------------------------------------------------------ every node passed its class *)
Theorem nodes_ok_all : forall classify F v, nodes_ok classify F v = Ok true ->
  forall c fs, In (c, fs) (nodes v) -> exists y, parse_any classify c (export (MModel c fs)) = Ok y.
Proof.
  intros classify. induction F as [|f IH]; intros v H c fs Hin; [discriminate H|].
  cbn [nodes_ok] in H.
  assert (A : forall l, fold_left (fun (acc : outcome bool) x => do a <- acc; if a then nodes_ok classify f x else Ok false)
                                  l (Ok true) = Ok true ->
                        forall x, In x l -> In (c, fs) (nodes x) ->
                        exists y, parse_any classify c (export (MModel c fs)) = Ok y).
  { intros l Hl x Hx Hn. apply cf_all_fold_true in Hl. destruct Hl as [_ Hl]. exact (IH x (Hl x Hx) c fs Hn). }
  destruct v as [ | | | | | | |l|l|cls fields]; try (exfalso; exact Hin).
  - cbn [nodes] in Hin. apply in_flat_map in Hin. destruct Hin as [x [Hx Hn]]. exact (A l H x Hx Hn).
  - cbn [nodes] in Hin. apply in_flat_map in Hin. destruct Hin as [kv [Hkv Hn]].
    apply (A (map snd l) H (snd kv)); [apply in_map; exact Hkv|exact Hn].
  - destruct (fold_left _ (map snd fields) (Ok true)) as [below|e'] eqn:Eb; cbn [bind] in H; [|discriminate H].
    destruct below; [|discriminate H].
    cbn [nodes] in Hin. destruct Hin as [E|Hin].
    + injection E as <- <-.
      destruct (parse_any classify cls (export (MModel cls fields))) as [m|e1]; [exists m; reflexivity|].
      destruct e1; discriminate H.
    + apply in_flat_map in Hin. destruct Hin as [kv [Hkv Hn]].
      apply (A (map snd fields) Eb (snd kv)); [apply in_map; exact Hkv|exact Hn].
Qed.

(* ------------------------------------------------------------------ the structural layer on str items *)
Section Items.
  Variable classify : N -> cclass.
  Variable pre : string -> json -> bool.
  Variable post : string -> json -> list (string * mval) -> bool.
  Notation pk := (parse_kind G classify pre post).

  Lemma kstr_items : forall f lo cs ss l',
    mapM (pk f (KStr false lo (Some 1024%N) cs)) (map JStr ss) = Ok l' ->
    l' = map MStr ss /\ Forall (fun s => (N.of_nat (List.length s) <= 1024)%N) ss.
  Proof.
    intros f lo cs. induction ss as [|s r IH]; intros l' H.
    - injection H as <-. split; [reflexivity|constructor].
    - cbn [map] in H. apply cf_mapM_cons in H. destruct H as [y [ys [Hy [Hr ->]]]].
      destruct (IH ys Hr) as [-> Hl].
      destruct f as [|f]; [discriminate Hy|]. rewrite parse_kind_S in Hy. cbn [parse_scalar] in Hy.
      apply check_str_len in Hy. destruct Hy as [-> Hs]. split; [reflexivity|]. constructor; assumption.
  Qed.
End Items.

Definition range_list_classes : list string :=
  ["IntRangeListTaskParameterDefinition"; "FloatRangeListTaskParameterDefinition"; "RangeListTaskParameterDefinition"].

Lemma parse_fuel_SS : forall j, exists k, parse_fuel j = S (S k).
Proof. intros j. unfold parse_fuel. exists (6 * json_depth j + 10). lia. Qed.

Lemma export_tobj : forall v, export v = tobj G v.
Proof. intros v. unfold export. apply to_object_tobj. lia. Qed.

Theorem range_list_accepted : forall classify c ty ss y, In c range_list_classes ->
  parse_any classify c (export (MModel c [("type", MStr ty); ("range", MList (map MStr ss))])) = Ok y ->
  Forall (fun s => (N.of_nat (List.length s) <= 1024)%N) ss /\
  exists raw x1, post_hook classify c raw [("type", x1); ("range", MList (map MStr ss))] = true.
Proof.
  intros classify c ty ss y Hc H. rewrite export_tobj in H.
  assert (E : tobj G (MModel c [("type", MStr ty); ("range", MList (map MStr ss))])
              = JObj [($"type", JStr ty); ($"range", JArr (map JStr ss))]).
  { unfold range_list_classes in Hc. destruct Hc as [<-|[<-|[<-|[]]]];
      cbn [tobj flat_map snd fst app]; rewrite map_map; cbn [tobj]; reflexivity. }
  rewrite E in H. clear E. unfold parse_any in H.
  destruct (parse_fuel_SS (JObj [($"type", JStr ty); ($"range", JArr (map JStr ss))])) as [k Ek].
  rewrite Ek in H. rewrite parse_cls_S in H.
  unfold range_list_classes in Hc.
  destruct Hc as [<-|[<-|[<-|[]]]];
    (match type of H with context [lookup_cls G ?cc] => destruct (lookup_cls G cc) as [c0|] eqn:El; [|discriminate H] end;
     vm_compute in El; injection El as <-;
     match type of H with context [negb ?b] => destruct (negb b); [discriminate H|] end;
     match type of H with context [extra_bad ?a ?b] => destruct (extra_bad a b); [discriminate H|] end;
     cbn [c_fields] in H;
     match type of H with context [mapM ?g ?l] => destruct (mapM g l) as [fields|e] eqn:Em; cbn [bind] in H; [|discriminate H] end;
     match type of H with context [post_hook ?a ?b ?r ?d] => destruct (post_hook a b r d) eqn:Ep; [|discriminate H] end;
     apply cf_mapM_cons in Em; destruct Em as [y1 [r1 [H1 [Em ->]]]];
     apply cf_mapM_cons in Em; destruct Em as [y2 [r2 [H2 [Em ->]]]];
     injection Em as <-;
     unfold parse_field in H1, H2;
     match type of H1 with bind ?x _ = _ => destruct x as [x1|e1]; cbn [bind] in H1; [|discriminate H1] end;
     injection H1 as <-;
     change (field_raw [($"type", JStr ty); ($"range", JArr (map JStr ss))]
                       (mkField "range" "range" true (ListOf None None) (KStr false (Some 0%N) (Some 1024%N) CS_any)))
       with (JArr (map JStr ss)) in H2;
     cbn [parse_value f_shape f_kind f_name list_items] in H2;
     match type of H2 with context [len_ok_n ?a ?b ?n] => change (len_ok_n a b n) with true in H2 end; cbv iota in H2;
     match type of H2 with context [mapM ?g ?l] => destruct (mapM g l) as [l'|e2] eqn:Ei; cbn [bind] in H2; [|discriminate H2] end;
     injection H2 as <-;
     apply kstr_items in Ei; destruct Ei as [-> Hlen];
     split; [exact Hlen|]; eexists; exists x1; exact Ep).
Qed.

Theorem range_expr_accepted : forall classify ty r y,
  parse_any classify "RangeExpressionTaskParameterDefinition"
            (export (MModel "RangeExpressionTaskParameterDefinition" [("type", MStr ty); ("range", MStr r)])) = Ok y ->
  range_expr_ok classify r = true.
Proof.
  intros classify ty r y H. rewrite export_tobj in H.
  change (tobj G (MModel "RangeExpressionTaskParameterDefinition" [("type", MStr ty); ("range", MStr r)]))
    with (JObj [($"type", JStr ty); ($"range", JStr r)]) in H.
  unfold parse_any in H.
  destruct (parse_fuel_SS (JObj [($"type", JStr ty); ($"range", JStr r)])) as [k Ek].
  rewrite Ek in H. rewrite parse_cls_S in H.
  match type of H with context [lookup_cls G ?cc] => destruct (lookup_cls G cc) as [c0|] eqn:El; [|discriminate H] end.
  vm_compute in El. injection El as <-.
  match type of H with context [negb ?b] => destruct (negb b); [discriminate H|] end.
  match type of H with context [extra_bad ?a ?b] => destruct (extra_bad a b); [discriminate H|] end.
  cbn [c_fields] in H.
  match type of H with context [mapM ?g ?l] => destruct (mapM g l) as [fields|e] eqn:Em; cbn [bind] in H; [|discriminate H] end.
  match type of H with context [post_hook ?a ?b ?r ?d] => destruct (post_hook a b r d) eqn:Ep; [|discriminate H] end.
  apply cf_mapM_cons in Em. destruct Em as [y1 [r1 [H1 [Em ->]]]].
  apply cf_mapM_cons in Em. destruct Em as [y2 [r2 [H2 [Em ->]]]].
  injection Em as <-.
  unfold parse_field in H1, H2.
  match type of H1 with bind ?x _ = _ => destruct x as [x1|e1]; cbn [bind] in H1; [|discriminate H1] end.
  injection H1 as <-.
  change (field_raw [($"type", JStr ty); ($"range", JStr r)]
                    (mkField "range" "range" true Single (KFormat "RangeString" (Some 1%N) None CS_any)))
    with (JStr r) in H2.
  cbn [parse_value f_shape f_kind f_name] in H2. rewrite parse_kind_S in H2. cbn [parse_scalar] in H2.
  match type of H2 with context [if ?b then _ else _] => destruct b; cbn [bind] in H2; [|discriminate H2] end.
  injection H2 as <-.
  exact Ep.
Qed.
