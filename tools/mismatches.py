"""Development helper: run a property's cases and print distinct mismatch kinds without shrinking.
usage: PYTHONPATH=/repo/src:/verif/harness python tools/mismatches.py c03 [tier] [seed]"""
import collections, importlib, json, sys
sys.path.insert(0, "/verif/harness")
import core
mod = importlib.import_module(sys.argv[1])
P = mod.PROP
tier = sys.argv[2] if len(sys.argv) > 2 else "quick"
seed = int(sys.argv[3]) if len(sys.argv) > 3 else 0
core.NPROC = 8
corpus = P.corpus_cases() if hasattr(P, "corpus_cases") else []
def allc():
    yield from corpus
    yield from P.cases(tier, seed)
tot, stats, hashes, mism, errs = core.run_parallel(P, allc(), chunk_size=getattr(P, "chunk_size", 400), max_mismatch=2000)
print("cases", tot, "mismatches", len(mism), "errors", len(errs))
print(dict(stats))
seen = collections.Counter()
for m in mism:
    i, mo = m["impl"], m["model"]
    if isinstance(mo, dict) and isinstance(i, dict):
        d = tuple(k for k in set(i) | set(mo) if i.get(k) != mo.get(k))
    else:
        d = ("whole",)
    key = (m["case"].get("tag"), d)
    seen[key] += 1
    if seen[key] <= 2:
        print("----", key)
        print("impl ", json.dumps(i, default=str)[:700])
        print("model", json.dumps(mo, default=str)[:700])
        print("case ", json.dumps(m["case"], default=str)[:int(sys.argv[4]) if len(sys.argv) > 4 else 300])
print(seen)
if errs:
    print(errs[0][-1500:])
