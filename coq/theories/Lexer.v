(* Lexer.v — model of src/openjd/model/_tokenstream.py (TokenStream.__init__ + Lexer.lex).

   Python: expr = re.sub(r"\s+", " ", expr).strip(); then lexer_matcher.finditer, an
   alternation tried in the order NAME . * ( ) , POSINT - : NONVALID at each position,
   the single blank being skipped, NONVALID or an unsupported kind => TokenError.

   The Unicode-dependent classes \s \w \d are NOT transcribed: the model is parametrised by
   [classify], and every theorem assumes only [ascii_ok classify = true] (the class of the 128
   ASCII characters), which the harness checks on every run against Python's own `re`. *)
From Coq Require Import List NArith ZArith Bool.
Import ListNotations.
Require Import OJD.Base.

Inductive cclass : Type :=
| CSpace      (* \s *)
| CNameStart  (* [^\d\W] *)
| CDigit      (* [0-9] *)
| CUDigit     (* \d but not [0-9]: may continue a NAME, cannot start any token *)
| CDot | CStar | CLParen | CRParen | CComma | CHyphen | CColon
| COther.

Definition cclass_eqb (a b : cclass) : bool :=
  match a, b with
  | CSpace, CSpace | CNameStart, CNameStart | CDigit, CDigit | CUDigit, CUDigit
  | CDot, CDot | CStar, CStar | CLParen, CLParen | CRParen, CRParen | CComma, CComma
  | CHyphen, CHyphen | CColon, CColon | COther, COther => true
  | _, _ => false
  end.

Local Open Scope N_scope.

Definition ascii_class (c : N) : cclass :=
  if ((9 <=? c) && (c <=? 13)) || ((28 <=? c) && (c <=? 32)) then CSpace
  else if ((65 <=? c) && (c <=? 90)) || ((97 <=? c) && (c <=? 122)) || (c =? 95) then CNameStart
  else if (48 <=? c) && (c <=? 57) then CDigit
  else if c =? 46 then CDot
  else if c =? 42 then CStar
  else if c =? 40 then CLParen
  else if c =? 41 then CRParen
  else if c =? 44 then CComma
  else if c =? 45 then CHyphen
  else if c =? 58 then CColon
  else COther.

Definition ascii_codes : list N := map N.of_nat (seq 0 128).

Definition ascii_ok (classify : N -> cclass) : bool :=
  forallb (fun c => cclass_eqb (classify c) (ascii_class c)) ascii_codes.

Inductive tok : Type :=
| TName (s : str)
| TDot | TStar | TLParen | TRParen | TComma
| TPosInt (v : N)
| THyphen | TColon.

Inductive tokkind : Type :=
| NAME | DOT | STAR | LPAREN | RPAREN | COMMA | POSINT | HYPHEN | COLON.

Definition tokkind_eqb (a b : tokkind) : bool :=
  match a, b with
  | NAME, NAME | DOT, DOT | STAR, STAR | LPAREN, LPAREN | RPAREN, RPAREN | COMMA, COMMA
  | POSINT, POSINT | HYPHEN, HYPHEN | COLON, COLON => true
  | _, _ => false
  end.

Definition kind_of (t : tok) : tokkind :=
  match t with
  | TName _ => NAME | TDot => DOT | TStar => STAR | TLParen => LPAREN | TRParen => RPAREN
  | TComma => COMMA | TPosInt _ => POSINT | THyphen => HYPHEN | TColon => COLON
  end.

Section Lex.
  Variable classify : N -> cclass.

  (* pending multi-character token *)
  Inductive lstate : Type :=
  | LNone
  | LName (acc_rev : str)
  | LInt (v : N).

  Definition flush (st : lstate) : list tok :=
    match st with
    | LNone => []
    | LName acc => [TName (rev' acc)]      (* rev' = rev (List.rev_alt), linear: a name may be 10^5 characters long *)
    | LInt v => [TPosInt v]
    end.

  Definition cons_toks (pre : list tok) (m : outcome (list tok)) : outcome (list tok) :=
    match m with Ok ts => Ok (pre ++ ts) | Raise e => Raise e end.

  Definition punct (cl : cclass) : option tok :=
    match cl with
    | CDot => Some TDot | CStar => Some TStar | CLParen => Some TLParen
    | CRParen => Some TRParen | CComma => Some TComma | CHyphen => Some THyphen
    | CColon => Some TColon | _ => None
    end.

  Fixpoint lex_go (st : lstate) (s : str) : outcome (list tok) :=
    match s with
    | [] => Ok (flush st)
    | c :: rest =>
      let cl := classify c in
      (* [c] begins a fresh token (or is skipped).  A thunk: the extracted OCaml is strict, and
         an eagerly evaluated [start] lexes the remainder twice per character of a long token. *)
      let start := fun (_ : unit) =>
        match cl with
        | CSpace => lex_go LNone rest
        | CNameStart => lex_go (LName [c]) rest
        | CDigit => lex_go (LInt (c - 48)) rest
        | CUDigit | COther => Raise TokenError
        | _ => match punct cl with
               | Some t => cons_toks [t] (lex_go LNone rest)
               | None => Raise TokenError
               end
        end in
      match st with
      | LName acc =>
        match cl with
        | CNameStart | CDigit | CUDigit => lex_go (LName (c :: acc)) rest
        | _ => cons_toks (flush st) (start tt)
        end
      | LInt v =>
        match cl with
        | CDigit => lex_go (LInt (10 * v + (c - 48))) rest
        | _ => cons_toks (flush st) (start tt)
        end
      | LNone => start tt
      end
    end.

  Definition lex (s : str) : outcome (list tok) := lex_go LNone s.

  (* Lexer.lex: a token whose kind is not in the calling parser's table => TokenError *)
  Definition supported (kinds : list tokkind) (t : tok) : bool :=
    existsb (tokkind_eqb (kind_of t)) kinds.

  Definition lex_for (kinds : list tokkind) (s : str) : outcome (list tok) :=
    do ts <- lex s;
    if forallb (supported kinds) ts then Ok ts else Raise TokenError.
End Lex.
