"""C07 (vast) — len() and obj[i] of parameter spaces with 2**53 .. 2**63 task parameter sets, against the
EXTRACTED and PROVED index arithmetic over a tree of LENGTHS.

Nothing can be enumerated in such a space and the value-list model (coq/theories/ParamSpace.v) cannot hold its
ranges.  The Coq functions `ParamSpaceIdx.llen` / `ParamSpaceIdx.lindex` take only the combination tree with the
NAME and LENGTH of every leaf and return len() and, for obj[i], the position selected in every leaf's range (or the
exception); props/C07xv.v proves, for every tree and every index, that this is ParamSpace.node_len / ParamSpace.getitem
with the values forgotten (C07xv_len, C07xv_getitem_all_trees, C07xv_getitem, C07xv_valid) and gives the closed
form of pure products (C07xv_product, C07xv_radix).  This module replaces the arithmetic oracle `vast_expected`
that harness/c07.py used to carry in Python.

Implementation side (c07.vast_observe for products, `observe` below for nested trees): a one-step job template whose
parameters are range expressions "a-b" (step 1) is decoded and instantiated through the public API and
StepParameterSpaceIterator is built on the Job's parameter space; observed: len(space) and space[i] at boundary /
2**53-neighbourhood / random indices.  Model side: component "pspaceidx" (coq/extract/ExtractParamSpaceIdx.v,
ocaml/pspaceidx_driver.ml), integers in arbitrary precision on the wire; this harness adds each leaf's range start
to the returned position and prints it the way the implementation prints an INT value (str of the int).

Attached to ./check C07 by adding, in harness/c07.py's __main__ block,
    import c07vast; PROP.also = [c07vast.PROP]
Stand-alone (vast stream only; evidence goes to evidence/C07.json as for ./check C07):
    cd <verif> && VERIF_JOBS=6 PYTHONHASHSEED=0 PYTHONPATH=/repo/src /venv/bin/python harness/c07vast.py quick
"""
import random
import sys
from pathlib import Path

sys.path.insert(0, str(Path(__file__).resolve().parent))
import core  # noqa: E402
import c07 as C07M  # noqa: E402

from openjd.model import StepParameterSpaceIterator  # noqa: E402

FACTORS = [3, 7, 10 ** 3, 10 ** 7, 2 ** 20 + 1, 3 * 10 ** 9]
TARGETS = [2 ** 53 + 1, 2 ** 54, 2 ** 56 + 12345, 2 ** 60, 2 ** 62, 3 * 10 ** 16, 9 * 10 ** 18]


def tree_of(case):
    """the combination tree of a vast case in c07's form; a case without "tree" is the product of its names"""
    t = case.get("tree")
    if t is None:
        return ["prod", [["id", nm] for nm in case["names"]]]
    return t


def ltree_sx(t, lens):
    if t[0] == "id":
        return ["leaf", core.cps(t[1]), lens[t[1]]]
    return [t[0]] + [ltree_sx(k, lens) for k in t[1]]


def tree_len(t, lens):
    """len() of a balanced tree, in exact arithmetic — used by the GENERATOR only, to pick indices and to keep
    the space inside 2**53 .. 2**63; never compared with anything"""
    if t[0] == "id":
        return lens[t[1]]
    if t[0] == "assoc":
        return tree_len(t[1][0], lens)
    n = 1
    for k in t[1]:
        n *= tree_len(k, lens)
    return n


def index_set(total, rng):
    return sorted({0, 1, -1, -2, total - 1, total - 2, total // 2, total // 3, 2 ** 53, 2 ** 53 + 1, 2 ** 53 + 2, -(2 ** 53) - 1,
                   total, -total, -total - 1, total + 5}
                  | {rng.randrange(total) for _ in range(6)} | {total - 1 - rng.randrange(min(total, 10 ** 6)) for _ in range(6)}
                  | {-1 - rng.randrange(total) for _ in range(3)})


def nested_cases(n, rng):
    """balanced trees with associations whose len() lies in 2**53 .. 2**63"""
    A, B, C, D = (["id", nm] for nm in C07M.NAMES[:4])
    made = 0
    while made < n:
        target = rng.choice(TARGETS)
        x = rng.choice(FACTORS)
        y = max(2, target // x)
        w = rng.choice([2, 3, 5, 1000])
        z = max(2, target // (x * w))
        shape, lens = rng.choice([
            (["prod", [A, ["assoc", [B, C]]]], [x, y, y]),
            (["prod", [["assoc", [A, B]], C]], [x, x, y]),
            (["prod", [["assoc", [A, B]], C]], [y, y, x]),
            (["assoc", [["prod", [A, B]], C]], [x, y, x * y]),
            (["assoc", [C, ["prod", [A, B]]]], [y, x, x * y]),
            (["assoc", [["prod", [A, B]], ["prod", [C, D]]]], [x, y, y, x]),
            (["prod", [A, ["assoc", [B, C]], D]], [x, z, z, w]),
            (["prod", [["assoc", [A, B]], ["assoc", [C, D]]]], [x, x, y, y]),
            (["prod", [["assoc", [A, ["prod", [B, C]]]], D]], [x * w, x, w, z]),
        ])
        names = C07M.leaf_names(shape)
        # the lens above are listed in the order A, B, C, D
        by_name = dict(zip(C07M.NAMES[:4], lens))
        lens = [by_name[nm] for nm in names]
        total = tree_len(shape, dict(zip(names, lens)))
        if not (2 ** 53 < total < 2 ** 63):
            continue
        made += 1
        starts = [rng.choice([1, 0, -5, 1000, -(2 ** 40)]) for _ in names]
        yield {"kind": "vast", "names": names, "starts": starts, "lens": lens, "idx": index_set(total, rng),
               "explicit": True, "tree": shape, "comb_text": C07M.comb_text(shape, rng)}


def observe(case):
    """the implementation on a vast case (c07.vast_observe for the pure products it generates)"""
    if case.get("tree") is None:
        return C07M.vast_observe(case)
    params = [{"name": nm, "type": "INT", "range": f"{st}-{st + ln - 1}"} for nm, st, ln in zip(case["names"], case["starts"], case["lens"])]
    c = {"kind": "space", "params": params, "comb_text": case["comb_text"]}
    sp = StepParameterSpaceIterator(space=C07M.build_space(c))
    try:
        n = len(sp)
    except BaseException as e:  # noqa: BLE001
        n = "len-raised:" + type(e).__name__
    out = []
    for i in case["idx"]:
        try:
            out.append([i, C07M.canon_env(sp[i])])
        except IndexError:
            out.append([i, "IndexError"])
        except BaseException as e:  # noqa: BLE001
            out.append([i, "raised:" + type(e).__name__])
    return ["vast", n, out]


def de_reply(case, reply):
    """reply of (lindex <ltree> (<i> ...)) -> the observable of `observe`"""
    start = dict(zip(case["names"], case["starts"]))
    ln, items = reply
    n = ln[1] if ln[0] == "ok" else "len-raised:" + str(ln[1])
    out = []
    for i, it in zip(case["idx"], items):
        if it[0] == "ok":
            vals = {}
            for name, pos in it[1]:
                nm = core.uncps(name)
                vals[nm] = start[nm] + pos          # ranges are "a-b" with step 1: value = a + position
            out.append([i, sorted([nm, "INT", str(v)] for nm, v in vals.items())])
        elif it[1] == "IndexError":
            out.append([i, "IndexError"])
        else:
            out.append([i, "raised:" + str(it[1])])
    return ["vast", n, out]


class C07Vast(core.PropBase):
    id = "C07"
    component = "pspaceidx"
    extract_file = "ExtractParamSpaceIdx.v"
    uses_table = False
    chunk_size = 20
    theorem_for_mismatch = ("C07xv_len / C07xv_getitem / C07xv_valid / C07xv_product (extracted ParamSpaceIdx.llen / lindex "
                            "= implementation, on spaces of 2**53 .. 2**63 task parameter sets)")
    assumptions = [
        "every parameter is an INT range expression 'a-b' (step 1): its k-th value is a + k, printed with str (C08/C13 own range expressions)",
        "len(space) < 2**63 (CPython's len() raises OverflowError beyond sys.maxsize; outside the model)",
    ]

    def cases(self, tier, seed):
        rng = random.Random(seed * 7919 + 11)
        thorough = tier == "thorough"
        yield from C07M.vast_cases(400 if thorough else 40, rng)
        yield from nested_cases(400 if thorough else 40, rng)

    def corpus_cases(self):
        A, B, C = (["id", nm] for nm in C07M.NAMES[:3])
        rng = random.Random(7)
        out = []
        # the example of props/C07xv.v (C07xv_vast_nonvacuous): 1048577 * 3000000000 * 367 sets
        lens = [2 ** 20 + 1, 3 * 10 ** 9, 367]
        total = lens[0] * lens[1] * lens[2]
        out.append({"kind": "vast", "names": C07M.NAMES[:3], "starts": [1, 0, -5], "lens": lens,
                    "idx": sorted(set(index_set(total, rng)) | {2 ** 60, -7}), "explicit": True})
        # C07xv_vast_nested_nonvacuous: A * (B, C), 2**30 * 2**31 sets
        t = ["prod", [A, ["assoc", [B, C]]]]
        out.append({"kind": "vast", "names": C07M.NAMES[:3], "starts": [0, 1, -5], "lens": [2 ** 30, 2 ** 31, 2 ** 31],
                    "idx": sorted(set(index_set(2 ** 61, rng)) | {2 ** 60 + 12345}), "explicit": True, "tree": t,
                    "comb_text": C07M.comb_text(t)})
        return out

    def nontrivial(self, case):
        return True

    def impl(self, case):
        return observe(case)

    def requests(self, case):
        lens = dict(zip(case["names"], case["lens"]))
        return [["lindex", ltree_sx(tree_of(case), lens), list(case["idx"])]]

    def model_obs(self, case, replies):
        return de_reply(case, replies[0])

    def spec_obs(self, case):
        return ["C07xv_valid: for -len <= i < len the positions select the (i mod len)-th set of the denotation, IndexError outside; "
                "C07xv_product: for pure products they are the mixed-radix digits of i mod len, right-most operand fastest"]

    def classify_case(self, case, obs):
        return ["vast", "vast:len>2^53", "vast:nested" if case.get("tree") is not None else "vast:product"]

    def shrink_candidates(self, case):
        for i in range(len(case["idx"])):
            if len(case["idx"]) > 1:
                yield dict(case, idx=case["idx"][:i] + case["idx"][i + 1:])


PROP = C07Vast()

if __name__ == "__main__":
    sys.exit(core.main(PROP, sys.argv[1:]))
