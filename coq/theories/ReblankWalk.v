(* ReblankWalk.v — C19, blanks inside '{{ }}', lifted to the reference walker: a document whose
   format strings are re-blanked gets the SAME list of reference errors (an error carries its
   location and the referenced name, not the quoted text).

   The walker reads a string at a format-string site only through its front end
   [refs : str -> option (list str)]; RenameProofs.v already proves that the walk commutes with a
   rewriting [rs] of the format-string sites together with a renaming [rho] of the declared names.
   Here [rho] is the identity, and [fs_refs classify (rs s) = fs_refs classify s] comes from
   ReblankProofs.v. *)
From Coq Require Import List NArith ZArith Bool String.
Import ListNotations.
Require Import OJD.Base OJD.Lexer OJD.Json OJD.Schema OJD.Generated OJD.FormatStr OJD.FsRefs
               OJD.ScopeWalk OJD.ScopeSpec OJD.RenameProofs OJD.Reblank OJD.ReblankProofs OJD.ReblankCanon.
Local Open Scope string_scope.
Local Open Scope list_scope.

Definition idn (x : str) : str := x.

(* the document with every format-string site mapped through [rs]; declared names (job parameters,
   task parameters, embedded files) and everything else untouched *)
Definition reblank_job (rs : str -> str) : json -> json := rename_job idn rs.
Definition reblank_env_template (rs : str -> str) : json -> json := rename_env_template idn rs.

Lemma rename_sym_idn : forall n, rename_sym idn n = n.
Proof.
  intros n. unfold rename_sym. destruct (split_pfx n) as [[p x]|] eqn:E; [|reflexivity].
  unfold split_pfx in E. apply split_in_some in E as [_ ->]. reflexivity.
Qed.

Lemma rename_err_idn : forall e, rename_err idn e = e.
Proof. intros [l n|]; [|reflexivity]. cbn [rename_err]. now rewrite rename_sym_idn. Qed.

Lemma map_idn : forall (A : Type) (f : A -> A), (forall a, f a = a) -> forall l, map f l = l.
Proof. intros A f H l. induction l as [|a l IH]; [reflexivity|]. cbn [map]. now rewrite H, IH. Qed.

Lemma ren_name_idn : forall v, ren_name idn v = v.
Proof. intros [| | | |s| |]; try reflexivity. destruct s; reflexivity. Qed.

(* the walk depends on the strings at format-string sites only through the front end *)
Theorem walker_front_end : forall (rs : str -> str) (refs refs' : str -> option (list str)) (j : json),
  (forall s, In s (jstrings j) -> refs' (rs s) = refs s) ->
  prevalidate Generated.schema refs' "JobTemplate" (reblank_job rs j)
  = prevalidate Generated.schema refs "JobTemplate" j /\
  prevalidate Generated.schema refs' "EnvironmentTemplate" (reblank_env_template rs j)
  = prevalidate Generated.schema refs "EnvironmentTemplate" j.
Proof.
  intros rs refs refs' j H.
  assert (H' : forall s, In s (jstrings j) -> refs' (rs s) = option_map (map (rename_sym idn)) (refs s)).
  { intros s Hs. rewrite (H s Hs). destruct (refs s) as [l|]; [|reflexivity].
    cbn [option_map]. now rewrite (map_idn _ _ rename_sym_idn). }
  destruct (rename_walker idn rs refs refs' j (fun a b E => E)
              (fun c r (E : idn (c :: r) = []) => @nil_cons _ c r (eq_sym E)) H') as [HJ HE].
  unfold reblank_job, reblank_env_template. rewrite HJ, HE.
  now rewrite !(map_idn _ _ rename_err_idn).
Qed.

Theorem reblank_walker : forall classify, ascii_ok classify = true ->
  forall (rs : str -> str) (j : json),
  (forall s, In s (jstrings j) -> reblank classify s (rs s)) ->
  prevalidate Generated.schema (fs_refs classify) "JobTemplate" (reblank_job rs j)
  = prevalidate Generated.schema (fs_refs classify) "JobTemplate" j /\
  prevalidate Generated.schema (fs_refs classify) "EnvironmentTemplate" (reblank_env_template rs j)
  = prevalidate Generated.schema (fs_refs classify) "EnvironmentTemplate" j.
Proof.
  intros classify AOK rs j H. apply walker_front_end.
  intros s Hs. symmetry. apply (reblank_refs classify AOK). exact (H s Hs).
Qed.

(* an instance without hypotheses: strip every blank inside every '{{ }}' of the document *)
Theorem reblank_walker_canon : forall classify, ascii_ok classify = true -> forall j : json,
  prevalidate Generated.schema (fs_refs classify) "JobTemplate" (reblank_job (canon classify) j)
  = prevalidate Generated.schema (fs_refs classify) "JobTemplate" j /\
  prevalidate Generated.schema (fs_refs classify) "EnvironmentTemplate" (reblank_env_template (canon classify) j)
  = prevalidate Generated.schema (fs_refs classify) "EnvironmentTemplate" j.
Proof.
  intros classify AOK j. apply (reblank_walker classify AOK).
  intros s _. apply (reblank_canon classify AOK).
Qed.
