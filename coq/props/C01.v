(* props/C01.v — Accepted templates are well-formed (validation soundness).

   decode_job / decode_env (Accept.v) = version dispatch + the structural layer Parse.v driven by
   the LIVE table Generated.schema + the validators of Validators.v as coded.

   1. C01_table: the live table is below the FROZEN 2023-09 table spec_schema in the order of
      SchemaOrder.v ("accepts no more"); C01_order_sound says what the order means (for ALL
      kinds, any hooks, any fuel); C01_structural is the consequence for documents.  A limit
      loosened in the code breaks C01_table and leaves C02_table alone.
   2. One theorem per validator: the validator as coded accepts only what its declarative rule
      (WF.v, written from the property text / DESIGN Appendix C) allows.  These carry the content.
   3. C01_sound: an accepted document is well-formed: it parses under the frozen table and the
      rule of every visited object holds (WF.WFdoc).  Given 1 and 2 this step is by construction
      (same structural engine on both sides; the engine is validated against pydantic by the
      correspondence check, not verified). *)
From Coq Require Import List NArith ZArith Bool String Permutation.
Import ListNotations.
Require Import OJD.Base OJD.Lexer OJD.Json OJD.Schema OJD.Generated OJD.SchemaSpec OJD.SchemaOrder
               OJD.Charsets OJD.Numerals OJD.FsRefs OJD.CreateJob OJD.RangeExpr OJD.Comb OJD.ScopeWalk
               OJD.DepGraph OJD.DepGraphSpec OJD.Parse OJD.Validators OJD.Accept
               OJD.WF OJD.AcceptMono OJD.AcceptRules OJD.AcceptCap OJD.AcceptDeps OJD.AcceptProofs OJD.AcceptSound.
Local Open Scope string_scope.
Local Open Scope list_scope.
Require Import OJDProps.C01rules.

(* The table-dependent half of C01 (the validator theorems are in props/C01rules.v, shared with C02):
   a LOOSENED limit / kind / required flag in the code breaks exactly these obligations. *)
Theorem C01_table : schema_le Generated.schema spec_schema = true.
Proof. exact table_le_code_spec. Qed.
Print Assumptions C01_table.

(* Every validator the frozen table lists for a class is still attached to that class, under the same name and
   mode (":pre", ":each"): a rule that is REMOVED from the code breaks this obligation even before an input that
   needs it is generated.  (New validators are allowed: the repairs of 0.4 added several.) *)
Definition validators_present (live spec : schema_t) : bool :=
  forallb (fun nc => match lookup_cls live (fst nc) with
                     | Some c => forallb (fun v => existsb (String.eqb v) (c_validators c)) (c_validators (snd nc))
                     | None => false
                     end) spec.

Theorem C01_validators_present : validators_present Generated.schema spec_schema = true.
Proof. vm_compute. reflexivity. Qed.
Print Assumptions C01_validators_present.

Example C01_validators_present_nonvacuous :
  exists c, lookup_cls spec_schema "StepTemplate" = Some c /\ c_validators c <> [].
Proof. eexists. split; [vm_compute; reflexivity|discriminate]. Qed.

Theorem C01_structural : forall classify j v,
  decode_job classify j = Ok v -> decode_job_on spec_schema classify j = Ok v.
Proof. exact structural_code_spec. Qed.
Print Assumptions C01_structural.

Theorem C01_structural_env : forall classify j v,
  decode_env classify j = Ok v -> decode_env_on spec_schema classify j = Ok v.
Proof. exact structural_env_code_spec. Qed.
Print Assumptions C01_structural_env.

Theorem C01_sound : forall classify j v,
  decode_job classify j = Ok v -> WFdoc classify "JobTemplate" j.
Proof. exact job_sound. Qed.
Print Assumptions C01_sound.

Theorem C01_sound_env : forall classify j v,
  decode_env classify j = Ok v -> WFdoc classify "EnvironmentTemplate" j.
Proof. exact env_sound. Qed.
Print Assumptions C01_sound_env.

(* a document that breaks a rule at any visited object is rejected (contrapositive of soundness) *)
Theorem C01_flip : forall classify j,
  ~ WFdoc classify "JobTemplate" j -> forall v, decode_job classify j <> Ok v.
Proof. exact job_flip. Qed.
Print Assumptions C01_flip.

Theorem C01_flip_env : forall classify j,
  ~ WFdoc classify "EnvironmentTemplate" j -> forall v, decode_env classify j <> Ok v.
Proof. exact env_flip. Qed.
Print Assumptions C01_flip_env.

(* the order really separates limits: a dependency name limit of 65 / an INT range list of 2000 items is
   refused by C01_table, 63 / 1000 pass it *)
(* the table comparison sees a loosened limit only here (dependsOn 64 -> 65 characters; INT
   range list 1024 -> 2000 items, a NON-LAST union alternative), and does not see a tightened one *)
Example C01_table_nonvacuous :
  dep_len 64 Generated.schema = Generated.schema /\
  int_range_len 1024 Generated.schema = Generated.schema /\
  schema_le (dep_len 65 Generated.schema) spec_schema = false /\
  schema_le (dep_len 63 Generated.schema) spec_schema = true /\
  schema_le (int_range_len 2000 Generated.schema) spec_schema = false /\
  schema_le (int_range_len 1000 Generated.schema) spec_schema = true.
Proof. vm_compute. repeat split. Qed.
