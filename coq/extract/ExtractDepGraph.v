(* Extraction of the dependency-graph model and its spec oracle (C15).  ExtrOcamlBasic only. *)
From Coq Require Import Extraction ExtrOcamlBasic List NArith.
Require Import OJD.Base OJD.DepGraph OJD.DepGraphSpec.
Extraction Language OCaml.
Extraction "Model.ml"
  exn_eqb build in_edges out_edges max_indegree max_outdegree topo topo_job nname
  dup_step_names dup_deps self_dep unknown_dep has_cycle
  stable_order names deps_of
  sumZ (* conv.ml needs the Z datatype in every Model *).
