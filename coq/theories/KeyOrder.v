(* KeyOrder.v — lemmas behind props/C19.v (key order): all access to an object of a document is by
   key lookup, and iteration is over the MODEL's field list, so permuting the members of an object
   with distinct keys changes nothing. *)
From Coq Require Import List NArith ZArith Bool String Lia Permutation.
Import ListNotations.
Require Import OJD.Base OJD.Lexer OJD.Json OJD.Schema OJD.Generated OJD.Charsets OJD.FormatStr OJD.FsRefs
               OJD.CreateJob OJD.Parse OJD.Validators OJD.Accept OJD.AcceptMono OJD.ScopeWalk OJD.ScopeSpec
               OJD.ScopeProofs OJD.GlueLib.
Local Open Scope string_scope.
Local Open Scope list_scope.

(* ------------------------------------------------------------------ assoc / jget *)

Theorem assoc_perm : forall (A : Type) (ms ms' : list (str * A)),
  NoDup (map fst ms) -> Permutation ms ms' -> forall k, assoc k ms = assoc k ms'.
Proof.
  intros A ms ms' Hnd Hp. induction Hp as [|[kx x] l l' Hp IH|[kx x] [ky y] l|l l' l'' Hp1 IH1 Hp2 IH2]; intros k.
  - reflexivity.
  - cbn [assoc]. destruct (str_eqb k kx); [reflexivity|]. apply IH.
    cbn [map fst] in Hnd. inversion Hnd. assumption.
  - cbn [assoc]. destruct (str_eqb k kx) eqn:Ex; destruct (str_eqb k ky) eqn:Ey; try reflexivity.
    apply gl_str_eqb_eq in Ex. apply gl_str_eqb_eq in Ey. subst kx ky.
    cbn [map fst] in Hnd. inversion Hnd as [|? ? Hnot _]. exfalso. apply Hnot. left. reflexivity.
  - rewrite IH1 by exact Hnd. apply IH2.
    apply (Permutation_NoDup (Permutation_map fst Hp1)). exact Hnd.
Qed.

Theorem jget_perm : forall ms ms', NoDup (map fst ms) -> Permutation ms ms' ->
  forall name, jget name (JObj ms) = jget name (JObj ms').
Proof. intros ms ms' Hnd Hp name. cbn [jget]. rewrite (assoc_perm _ ms ms' Hnd Hp). reflexivity. Qed.

Lemma forallb_perm : forall (A : Type) (p : A -> bool) l l', Permutation l l' -> forallb p l = forallb p l'.
Proof.
  intros A p l l' Hp. induction Hp as [|x l l' Hp IH|x y l|l l' l'' Hp1 IH1 Hp2 IH2].
  - reflexivity.
  - cbn [forallb]. rewrite IH. reflexivity.
  - cbn [forallb]. destruct (p x), (p y); reflexivity.
  - rewrite IH1. exact IH2.
Qed.

Lemma depth_perm : forall ms ms' : list (str * json), Permutation ms ms' ->
  fold_right (fun kv acc => Nat.max (json_depth (snd kv)) acc) O ms
  = fold_right (fun kv acc => Nat.max (json_depth (snd kv)) acc) O ms'.
Proof.
  intros ms ms' Hp. induction Hp as [|x l l' Hp IH|x y l|l l' l'' Hp1 IH1 Hp2 IH2].
  - reflexivity.
  - cbn [fold_right]. rewrite IH. reflexivity.
  - cbn [fold_right]. lia.
  - rewrite IH1. exact IH2.
Qed.

Lemma json_depth_perm : forall ms ms', Permutation ms ms' -> json_depth (JObj ms) = json_depth (JObj ms').
Proof. intros ms ms' Hp. cbn [json_depth]. rewrite (depth_perm ms ms' Hp). reflexivity. Qed.

(* ------------------------------------------------------------------ the structural layer *)
Section Parse.
  Variable SC : schema_t.
  Variable classify : N -> cclass.
  Variable pre : string -> json -> bool.
  Variable post : string -> json -> list (string * mval) -> bool.
  Notation pk := (parse_kind SC classify pre post).
  Notation pc := (parse_cls SC classify pre post).

  Variables ms ms' : list (str * json).
  Hypothesis Hnd : NoDup (map fst ms).
  Hypothesis Hp : Permutation ms ms'.

  Lemma field_raw_perm : forall fl, field_raw ms fl = field_raw ms' fl.
  Proof. intros fl. unfold field_raw. rewrite (assoc_perm _ ms ms' Hnd Hp). reflexivity. Qed.

  Lemma extra_bad_perm : forall c0, extra_bad c0 ms = extra_bad c0 ms'.
  Proof. intros c0. unfold extra_bad. rewrite (forallb_perm _ _ ms ms' Hp). reflexivity. Qed.

  (* one class: exact equality of the outcome (accepted value included), for any schema, fuel and
     hooks that do not distinguish the two raw objects at this class *)
  Theorem parse_cls_perm : forall fuel c,
    pre c (JObj ms) = pre c (JObj ms') ->
    (forall fs, post c (JObj ms) fs = post c (JObj ms') fs) ->
    pc fuel c (JObj ms) = pc fuel c (JObj ms').
  Proof.
    intros fuel c Hpre Hpost. destruct fuel as [|f]; [reflexivity|].
    rewrite !parse_cls_S. destruct (lookup_cls SC c) as [c0|]; [|reflexivity].
    rewrite Hpre. rewrite (extra_bad_perm c0).
    assert (E : mapM (parse_field (pk f) ms) (c_fields c0) = mapM (parse_field (pk f) ms') (c_fields c0)).
    { apply AcceptMono.mapM_ext. intros fl _. unfold parse_field. rewrite field_raw_perm. reflexivity. }
    rewrite E. destruct (negb (pre c (JObj ms'))); [reflexivity|].
    destruct (extra_bad c0 ms'); [reflexivity|].
    destruct (mapM (parse_field (pk f) ms') (c_fields c0)) as [fields|e]; cbn [bind]; [|reflexivity].
    rewrite Hpost. reflexivity.
  Qed.

  (* any kind (discriminated unions read the discriminator by key; general unions try their
     alternatives on the same value), when the hooks agree at every class *)
  Theorem parse_kind_perm :
    (forall c, pre c (JObj ms) = pre c (JObj ms')) ->
    (forall c fs, post c (JObj ms) fs = post c (JObj ms') fs) ->
    forall fuel k, pk fuel k (JObj ms) = pk fuel k (JObj ms').
  Proof.
    intros Hpre Hpost. induction fuel as [|f IH]; intros k; [reflexivity|].
    rewrite !parse_kind_S.
    destruct k as [lit|members|strict lo hi cs|c lo hi cs|strict|strict ge le gt|gt| |c|key mp|alts];
      try reflexivity.
    - apply parse_cls_perm; [apply Hpre|apply Hpost].
    - unfold disc_res. rewrite (assoc_perm _ ms ms' Hnd Hp).
      destruct (assoc (str_of_string key) ms') as [[| | | |s| |]|]; try reflexivity.
      destruct (List.find _ mp) as [[k' c']|]; [|reflexivity].
      apply parse_cls_perm; [apply Hpre|apply Hpost].
    - induction alts as [|a r IHa]; [reflexivity|].
      rewrite !try_alts_cons. rewrite IHa.
      assert (E : alt_res (pk f) a (JObj ms) = alt_res (pk f) a (JObj ms')).
      { destruct a as [k'|lo hi k']; cbn [alt_res list_items]; [apply IH|reflexivity]. }
      rewrite E. reflexivity.
  Qed.
End Parse.

(* ------------------------------------------------------------------ the repo-side hooks *)

(* pre validators read the raw object only through dict.get *)
Lemma pre_hook_jget : forall c raw raw',
  (forall name, jget name raw = jget name raw') -> pre_hook c raw = pre_hook c raw'.
Proof. intros c raw raw' H. unfold pre_hook. rewrite !H. reflexivity. Qed.

(* post validators of every class except the two template roots do not read the raw object at all *)
Lemma post_hook_raw_free : forall classify c raw raw' fs,
  c <> "JobTemplate" -> c <> "EnvironmentTemplate" ->
  post_hook classify c raw fs = post_hook classify c raw' fs.
Proof.
  intros classify c raw raw' fs H1 H2. unfold post_hook.
  destruct (String.eqb c "JobTemplate") eqn:E1; [apply String.eqb_eq in E1; contradiction|].
  destruct (String.eqb c "EnvironmentTemplate") eqn:E2; [apply String.eqb_eq in E2; contradiction|].
  repeat match goal with
         | |- (if ?b then _ else _) = _ => destruct b; [reflexivity|]
         end.
  reflexivity.
Qed.

(* the roots run the C03 walker on the raw document; by C03_exact it is the specification, which
   reads the root object through dict.get only *)
Lemma spec_job_jget : forall refs j j',
  (forall name, jget name j = jget name j') -> spec_job_template refs j = spec_job_template refs j'.
Proof. intros refs j j' H. unfold spec_job_template. rewrite !H. reflexivity. Qed.

Lemma spec_env_jget : forall refs j j',
  (forall name, jget name j = jget name j') -> spec_env_template refs j = spec_env_template refs j'.
Proof. intros refs j j' H. unfold spec_env_template. rewrite !H. reflexivity. Qed.

Lemma post_hook_jget : forall classify c raw raw' fs,
  (forall name, jget name raw = jget name raw') ->
  post_hook classify c raw fs = post_hook classify c raw' fs.
Proof.
  intros classify c raw raw' fs H.
  destruct (String.eqb c "JobTemplate") eqn:E1.
  { apply String.eqb_eq in E1. subst c.
    change (job_template_ok classify raw fs = job_template_ok classify raw' fs).
    unfold job_template_ok. rewrite !exact_job. rewrite (spec_job_jget _ raw raw' H). reflexivity. }
  destruct (String.eqb c "EnvironmentTemplate") eqn:E2.
  { apply String.eqb_eq in E2. subst c.
    change (unique_names (fget "parameterDefinitions" fs)
            && (match prevalidate Generated.schema (fs_refs classify) "EnvironmentTemplate" raw with [] => true | _ => false end)
            = unique_names (fget "parameterDefinitions" fs)
            && (match prevalidate Generated.schema (fs_refs classify) "EnvironmentTemplate" raw' with [] => true | _ => false end)).
    rewrite !exact_env. rewrite (spec_env_jget _ raw raw' H). reflexivity. }
  apply post_hook_raw_free.
  - intros ->. discriminate E1.
  - intros ->. discriminate E2.
Qed.

Theorem hooks_key_order : forall classify ms ms', NoDup (map fst ms) -> Permutation ms ms' ->
  forall c, pre_hook c (JObj ms) = pre_hook c (JObj ms') /\
            forall fs, post_hook classify c (JObj ms) fs = post_hook classify c (JObj ms') fs.
Proof.
  intros classify ms ms' Hnd Hp c. split.
  - apply pre_hook_jget. apply jget_perm; assumption.
  - intros fs. apply post_hook_jget. apply jget_perm; assumption.
Qed.

(* ------------------------------------------------------------------ the verdict functions *)

Theorem parse_template_perm : forall classify root ms ms', NoDup (map fst ms) -> Permutation ms ms' ->
  parse_template classify root (JObj ms) = parse_template classify root (JObj ms').
Proof.
  intros classify root ms ms' Hnd Hp. unfold parse_template, parse_root, parse_fuel.
  rewrite (json_depth_perm ms ms' Hp).
  apply parse_cls_perm; try assumption.
  - apply (hooks_key_order classify ms ms' Hnd Hp root).
  - apply (hooks_key_order classify ms ms' Hnd Hp root).
Qed.

Theorem decode_job_perm : forall classify ms ms', NoDup (map fst ms) -> Permutation ms ms' ->
  decode_job classify (JObj ms) = decode_job classify (JObj ms').
Proof.
  intros classify ms ms' Hnd Hp. unfold decode_job, version_ok.
  rewrite (jget_perm ms ms' Hnd Hp). rewrite (parse_template_perm classify _ ms ms' Hnd Hp). reflexivity.
Qed.

Theorem decode_env_perm : forall classify ms ms', NoDup (map fst ms) -> Permutation ms ms' ->
  decode_env classify (JObj ms) = decode_env classify (JObj ms').
Proof.
  intros classify ms ms' Hnd Hp. unfold decode_env, version_ok.
  rewrite (jget_perm ms ms' Hnd Hp). rewrite (parse_template_perm classify _ ms ms' Hnd Hp). reflexivity.
Qed.

(* a nested object anywhere in a template, at any class and kind, with the real hooks *)
Theorem parse_kind_real_perm : forall classify ms ms', NoDup (map fst ms) -> Permutation ms ms' ->
  forall SC fuel k,
  parse_kind SC classify pre_hook (post_hook classify) fuel k (JObj ms)
  = parse_kind SC classify pre_hook (post_hook classify) fuel k (JObj ms').
Proof.
  intros classify ms ms' Hnd Hp SC fuel k. apply parse_kind_perm; try assumption.
  - intros c. apply (hooks_key_order classify ms ms' Hnd Hp c).
  - intros c. apply (hooks_key_order classify ms ms' Hnd Hp c).
Qed.

(* the C03 walker itself, on the root object *)
Theorem prevalidate_perm : forall refs ms ms', NoDup (map fst ms) -> Permutation ms ms' ->
  prevalidate Generated.schema refs "JobTemplate" (JObj ms) = prevalidate Generated.schema refs "JobTemplate" (JObj ms') /\
  prevalidate Generated.schema refs "EnvironmentTemplate" (JObj ms)
  = prevalidate Generated.schema refs "EnvironmentTemplate" (JObj ms').
Proof.
  intros refs ms ms' Hnd Hp. rewrite !exact_job, !exact_env. split.
  - apply spec_job_jget. apply jget_perm; assumption.
  - apply spec_env_jget. apply jget_perm; assumption.
Qed.
