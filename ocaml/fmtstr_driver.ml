(* fmtstr_driver.ml — serves the extracted format-string model (C16).
   request:  (fs <s> (<symtab> ...))   with <symtab> = ((<name> <value>) ...), strings as
             code-point lists
   reply:    (raise <exn>)
          |  (ok <orig> ((<name> <start> <end>) ...) <pieces-concatenated>
                 ((<resolve outcome> (<names failing validate_refs (dom symtab)> ...)) ...)) *)
open Sx
open Model
open Conv

let table : (int, cclass) Hashtbl.t = Hashtbl.create 64

let class_of_name = function
  | "space" -> CSpace | "namestart" -> CNameStart | "digit" -> CDigit | "udigit" -> CUDigit
  | "dot" -> CDot | "star" -> CStar | "lparen" -> CLParen | "rparen" -> CRParen
  | "comma" -> CComma | "hyphen" -> CHyphen | "colon" -> CColon | "other" -> COther
  | s -> failwith ("class " ^ s)

let classify (c : n) : cclass =
  let i = match c with N0 -> 0 | Npos p -> (match int_of_pos p with Some v -> v | None -> -1) in
  match Hashtbl.find_opt table i with
  | Some cl -> cl
  | None -> if i >= 0 && i < 128 then ascii_class c else COther

let symtab_of_sx (x : Sx.t) : (n list * n list) list =
  list_of_sx (function L [k; v] -> (str_of_sx k, str_of_sx v) | _ -> failwith "symtab") x

let handle (req : Sx.t) : Sx.t =
  match req with
  | L (A "table" :: entries) ->
    Hashtbl.reset table;
    List.iter (function L [A cp; A cl] -> Hashtbl.replace table (int_of_string cp) (class_of_name cl) | _ -> failwith "table") entries;
    L [A "table-ok"; sx_of_bool (ascii_ok classify)]
  | L [A "fs"; s; tabs] ->
    let s = str_of_sx s in
    (match mk classify s with
     | Raise x -> L [A "raise"; A (exn_name x)]
     | Ok f ->
       let exprs = sx_of_list (fun ((nm, a), b) -> L [sx_of_str nm; sx_of_nat a; sx_of_nat b]) (expressions f) in
       let pieces = List.concat (List.map piece_text (items f)) in
       let per_tab t =
         let sigma = symtab_of_sx t in
         L [ sx_of_outcome sx_of_str (resolve sigma f);
             sx_of_list sx_of_str (validate_refs (dom sigma) f) ] in
       L [A "ok"; sx_of_str (orig f); exprs; sx_of_str pieces; sx_of_list per_tab (match tabs with L l -> l | _ -> failwith "tabs")])
  | _ -> failwith "unknown-request"

let () = serve handle
