# C04 probe: type confusion at every position of a rich template (single and pairs), random junk, meta-character strings.
import copy, itertools, random, sys, datetime
from openjd.model import decode_job_template, decode_environment_template, document_string_to_object, DocumentType, DecodeValidationError
src = open("/verif/notes/probes/p05_p17_p19_job.py").read().split("FS = re.compile")[0]
ns = {}; exec(src, ns)
doc = ns["template"]()
envdoc = {"specificationVersion": "environment-2023-09", "parameterDefinitions": copy.deepcopy(doc["parameterDefinitions"]), "environment": ns["env"]("E")}
JUNK = [None, True, 0, -1, 1.5, float("nan"), "", "x", "{{", "{{x}}", [], [None], [[1]], {}, {"x": 1}, {1: 2}, {None: None}, {1.5: [1]}, {"mode": 1}, {"type": []}, {"type": "INT"}, {"name": {}}, 10**30, datetime.date(2001, 1, 1)]
def paths(x, pre=()):
    yield pre
    if isinstance(x, dict):
        for k, v in x.items(): yield from paths(v, pre + (k,))
    elif isinstance(x, list):
        for i, v in enumerate(x): yield from paths(v, pre + (i,))
def put(d, path, val, as_key=False):
    cur = d
    for p in path[:-1]: cur = cur[p]
    if as_key:
        v = cur.pop(path[-1]); cur[val] = v
    else: cur[path[-1]] = val
def run(fn, d):
    snap = repr(d)
    try: fn(template=d); r = "model"
    except DecodeValidationError: r = "DVE"
    except RecursionError: r = "RecursionError"
    except Exception as e: r = "EXC:" + type(e).__name__ + ":" + str(e)[:60]
    if repr(d) != snap: r += "+MUTATED"
    return r
res = {}
def note(r, what):
    res.setdefault(r, []).append(what)
for fn, base in ((decode_job_template, doc), (decode_environment_template, envdoc)):
    P = [p for p in paths(base) if p]
    for p in P:
        for j in JUNK:
            d = copy.deepcopy(base); put(d, p, copy.deepcopy(j)); note(run(fn, d), (p, repr(j)))
        if isinstance(p[-1], str):
            for k in (1, None, 1.5, True, datetime.date(2001, 1, 1)):
                d = copy.deepcopy(base); put(d, p, k, as_key=True); note(run(fn, d), (p, "KEY", repr(k)))
    rnd = random.Random(1)
    for _ in range(4000):
        d = copy.deepcopy(base)
        for p in rnd.sample(P, 2):
            try: put(d, p, copy.deepcopy(rnd.choice(JUNK)))
            except (KeyError, IndexError, TypeError): pass
        note(run(fn, d), "pair")
for k, v in sorted(res.items(), key=lambda kv: -len(kv[1])): print(len(v), k, v[0] if not k in ("model", "DVE") else "")
# document strings
META = ['{', '}', '[', ']', ':', ',', '-', '"', "'", '#', '&', '*', '!', '|', '>', '%', '@', '`', '\t', '\n', ' ', 'a', '1', '?', '<', '~', '.']
out = {}
L = int(sys.argv[1]) if len(sys.argv) > 1 else 3
for n in range(0, L+1):
    for t in itertools.product(META, repeat=n):
        s = "".join(t)
        for ty in (DocumentType.JSON, DocumentType.YAML):
            try:
                r = document_string_to_object(document=s, document_type=ty); k = "dict" if isinstance(r, dict) else "NOT-DICT:" + type(r).__name__
            except DecodeValidationError: k = "DVE"
            except Exception as e: k = "EXC:" + type(e).__name__
            out.setdefault((ty.value, k), []).append(s)
for k, v in out.items(): print(k, len(v), repr(v[0]) if k[1] not in ("DVE",) else "")
