(* jobparams_driver.ml — serves the extracted job-parameter models (C10, C12).
   Integers travel as decimal atoms of any size in requests and as  b<bits> / -b<bits> / 0
   atoms in replies (the harness decodes them); strings are code-point lists. *)
open Sx
open Model
open Conv

let ten = z_of_int 10

(* decimal atom of any size -> Z (Horner with the extracted arithmetic) *)
let big_z_of_string (s : string) : z =
  let n = String.length s in
  if n = 0 then failwith "empty-int";
  let neg = s.[0] = '-' in
  let st = if neg || s.[0] = '+' then 1 else 0 in
  if st >= n then failwith "bad-int";
  let acc = ref Z0 in
  for i = st to n - 1 do
    let c = Char.code s.[i] - 48 in
    if c < 0 || c > 9 then failwith "bad-int";
    acc := Z.add (Z.mul !acc ten) (z_of_int c)
  done;
  if neg then Z.opp !acc else !acc

let bigz_of_sx = function A s -> big_z_of_string s | _ -> failwith "bigz_of_sx"

let rec bits_of_pos (p : positive) (acc : char list) : char list =
  match p with
  | XH -> '1' :: acc
  | XO q -> bits_of_pos q ('0' :: acc)
  | XI q -> bits_of_pos q ('1' :: acc)

let string_of_chars l = String.init (List.length l) (List.nth l)
let bits p = let b = Buffer.create 64 in List.iter (Buffer.add_char b) (bits_of_pos p []); Buffer.contents b

let sx_of_bigz = function
  | Z0 -> A "0"
  | Zpos p -> A ("b" ^ bits p)
  | Zneg p -> A ("-b" ^ bits p)

let num_of_sx = function
  | L [m; e] -> { mant = bigz_of_sx m; expo = bigz_of_sx e }
  | _ -> failwith "num_of_sx"

let ptype_of_sx = function
  | A "STRING" -> STRING | A "PATH" -> PATH | A "INT" -> INT | A "FLOAT" -> FLOAT
  | _ -> failwith "ptype"
let ptype_name = function STRING -> "STRING" | PATH -> "PATH" | INT -> "INT" | FLOAT -> "FLOAT"

let objtype_of_sx = function A "FILE" -> OT_FILE | A "DIRECTORY" -> OT_DIRECTORY | _ -> failwith "objtype"
let dataflow_of_sx = function
  | A "NONE" -> DF_NONE | A "IN" -> DF_IN | A "OUT" -> DF_OUT | A "INOUT" -> DF_INOUT
  | _ -> failwith "dataflow"

let def_of_sx = function
  | L [name; ty; mn; mx; an; als; mnl; mxl; df; ot; dfl] ->
    { pname = str_of_sx name; ptyp = ptype_of_sx ty;
      pminv = opt_of_sx num_of_sx mn; pmaxv = opt_of_sx num_of_sx mx;
      pallowed_n = opt_of_sx (list_of_sx num_of_sx) an;
      pallowed_s = opt_of_sx (list_of_sx str_of_sx) als;
      pminlen = opt_of_sx bigz_of_sx mnl; pmaxlen = opt_of_sx bigz_of_sx mxl;
      pdefault = opt_of_sx str_of_sx df;
      pobjtype = opt_of_sx objtype_of_sx ot; pdataflow = opt_of_sx dataflow_of_sx dfl }
  | _ -> failwith "def_of_sx"

let pair_of_sx = function L [k; v] -> (str_of_sx k, str_of_sx v) | _ -> failwith "pair"

let sx_of_entry (n, (t, v)) = L [sx_of_str n; A (ptype_name t); sx_of_str v]

let sx_of_num (x : num) = L [sx_of_bigz x.mant; sx_of_bigz x.expo]
let sx_of_def (d : pdef) : Sx.t =
  L [ sx_of_str d.pname; A (ptype_name d.ptyp);
      sx_of_opt sx_of_num d.pminv; sx_of_opt sx_of_num d.pmaxv;
      sx_of_opt (sx_of_list sx_of_num) d.pallowed_n; sx_of_opt (sx_of_list sx_of_str) d.pallowed_s;
      sx_of_opt sx_of_bigz d.pminlen; sx_of_opt sx_of_bigz d.pmaxlen;
      sx_of_opt sx_of_str d.pdefault;
      sx_of_opt (function OT_FILE -> A "FILE" | OT_DIRECTORY -> A "DIRECTORY") d.pobjtype;
      sx_of_opt (function DF_NONE -> A "NONE" | DF_IN -> A "IN" | DF_OUT -> A "OUT" | DF_INOUT -> A "INOUT") d.pdataflow ]

let sx_of_dec = function
  | None -> A "none"
  | Some (Fin (m, e)) -> L [A "fin"; sx_of_bigz m; sx_of_bigz e]
  | Some (Inf neg) -> L [A "inf"; sx_of_bool neg]
  | Some NaN -> A "nan"

let handle (req : Sx.t) : Sx.t =
  match req with
  | L [A "int"; s] ->
    (match parse_int (str_of_sx s) with None -> A "none" | Some z -> L [A "some"; sx_of_bigz z])
  | L [A "dec"; s] -> sx_of_dec (parse_dec (str_of_sx s))
  | L [A "cmp"; a; b] ->
    (match num_cmp (num_of_sx a) (num_of_sx b) with Eq -> A "eq" | Lt -> A "lt" | Gt -> A "gt")
  | L [A "check"; pinned; d; v] ->
    sx_of_outcome (fun () -> A "unit") (check_constraints (bool_of_sx pinned) (def_of_sx d) (str_of_sx v))
  | L [A "pre"; pinned; dir_ok; defs; vals] ->
    sx_of_outcome (sx_of_list sx_of_entry)
      (preprocess (bool_of_sx pinned) (bool_of_sx dir_ok) simple_path_in simple_path_default
         (list_of_sx def_of_sx defs) (list_of_sx pair_of_sx vals))
  | L [A "merge"; pinned; defs] ->
    sx_of_outcome sx_of_def (merge (bool_of_sx pinned) (list_of_sx def_of_sx defs))
  | L [A "prem"; dir_ok; defs; vals] ->
    sx_of_outcome (sx_of_list sx_of_entry)
      (preprocess_merged (bool_of_sx dir_ok) simple_path_in simple_path_default
         (list_of_sx def_of_sx defs) (list_of_sx pair_of_sx vals))
  | L [A "wfdefault"; d] ->
    (* the default text of a numeric definition parses as a finite number of its type *)
    let d = def_of_sx d in
    (match d.pdefault, d.ptyp with
     | Some txt, (INT | FLOAT) -> sx_of_bool (match default_num d.ptyp txt with Some _ -> true | None -> false)
     | _, _ -> sx_of_bool true)
  | _ -> failwith "unknown-request"

let () = serve handle
