(* CreateJobExact.v — C05_exact, end to end:

     for every job-template document the acceptance model accepts, the object form of the Job that the
     instantiation model builds from the decoded template is the document-level specification
     [expected_job], up to [json_equiv] (member order; explicit nulls = absent members).

   Hypotheses on the document (all boolean, all schema-independent):
     [keys_distinct j]      every object has pairwise distinct keys (true of any parsed JSON / YAML value;
                            only used inside scripts, environments and dependencies);
     [lax_ints_native j]    "timeout" / "notifyPeriodInSeconds" are given as integers;
     [canonical_numbers j]  numeric strings in INT / FLOAT range lists and in amount bounds are written the
                            way str() prints them. *)
From Coq Require Import List NArith ZArith Bool String Lia.
Import ListNotations.
Require Import OJD.Base OJD.Lexer OJD.Json OJD.Schema OJD.Generated OJD.Charsets OJD.Numerals OJD.NumPrint
               OJD.FormatStr OJD.CreateJob OJD.CreateJobProofs OJD.CreateJobSpec OJD.Parse OJD.Validators OJD.Accept
               OJD.Export OJD.ExportProofs OJD.AcceptMono OJD.DecodeInv OJD.JsonEquiv OJD.CreateJobExactLib
               OJD.CreateJobExactCarried OJD.CreateJobExactParams OJD.CreateJobExactSteps OJD.CreateJobExactSpace
               OJD.CreateJobExactHost.
Local Open Scope string_scope.
Local Open Scope list_scope.

(* ------------------------------------------------------------------ document conditions *)
Definition canonical_step (st : json) : bool :=
  canon_space (jget "parameterSpace" st) && canon_host (jget "hostRequirements" st).

Definition canonical_numbers (j : json) : bool := forallb canonical_step (items (jget "steps" j)).

(* templates whose steps have neither a parameter space nor host requirements *)
Definition plain_step (st : json) : bool := is_null (jget "parameterSpace" st) && is_null (jget "hostRequirements" st).
Definition plain_steps (j : json) : bool := forallb plain_step (items (jget "steps" j)).

(* templates whose steps have no host requirements *)
Definition no_host_steps (j : json) : bool := forallb (fun st => is_null (jget "hostRequirements" st)) (items (jget "steps" j)).

Lemma kd_jget : forall k j, keys_distinct j = true -> keys_distinct (jget k j) = true.
Proof.
  intros k j H. destruct j as [| | | | | |ms]; try reflexivity. cbn [jget].
  destruct (assoc (str_of_string k) ms) as [v|] eqn:E; [|reflexivity].
  apply assoc_some_in in E. exact (proj2 (kd_members ms H) _ _ E).
Qed.

Lemma kd_item : forall v it, keys_distinct v = true -> In it (items v) -> keys_distinct it = true.
Proof.
  intros v it H Hin. destruct v as [| | | | |l|]; try destruct Hin. cbn [keys_distinct] in H.
  rewrite forallb_forall in H. exact (H it Hin).
Qed.

Lemma lax_jget : forall k j, lax_ints_native j = true ->
  is_lax_key (str_of_string k) = false -> str_eqb (str_of_string k) $"variables" = false ->
  lax_ints_native (jget k j) = true.
Proof.
  intros k j H H1 H2. destruct j as [| | | | | |ms]; try reflexivity. cbn [jget].
  destruct (assoc (str_of_string k) ms) as [v|] eqn:E; [|reflexivity].
  apply assoc_some_in in E. exact (lax_member_sub ms _ v H E H1 H2).
Qed.

Lemma lax_item : forall v it, lax_ints_native v = true -> In it (items v) -> lax_ints_native it = true.
Proof.
  intros v it H Hin. destruct v as [| | | | |l|]; try destruct Hin. cbn [lax_ints_native] in H.
  rewrite forallb_forall in H. exact (H it Hin).
Qed.

Lemma carried_ok_jget : forall k j, keys_distinct j = true -> lax_ints_native j = true ->
  is_lax_key (str_of_string k) = false -> str_eqb (str_of_string k) $"variables" = false ->
  carried_ok (jget k j) = true.
Proof.
  intros k j Hd Hl H1 H2. unfold carried_ok. rewrite (lax_jget k j Hl H1 H2), (kd_jget k j Hd). reflexivity.
Qed.

(* ------------------------------------------------------------------ from the root lemma to create_job_object *)
Section Wrap.
  Variable classify : N -> cclass.
  Variable resolve : symtab -> str -> outcome str.
  Variable vals : list (str * str * str).
  Notation sigma := (symtab_of vals).
  Notation pk := (parse_kind G classify pre_hook (post_hook classify)).

  Variable Pps Phr : json -> Prop.
  Hypothesis Hps : forall f raw x F y, raw <> JNull -> Pps raw ->
    pk f (KModel "StepParameterSpaceDefinition") raw = Ok x -> mval_depth x < F -> inst G resolve sigma F x = Ok y ->
    exists s, param_space resolve sigma raw = Ok s /\ json_equiv (jobj G y) s /\ y <> MNone /\ s <> JNull.
  Hypothesis Hhr : forall f raw x F y, raw <> JNull -> Phr raw ->
    pk f (KModel "HostRequirementsTemplate") raw = Ok x -> mval_depth x < F -> inst G resolve sigma F x = Ok y ->
    exists s, host_req resolve sigma raw = Ok s /\ json_equiv (jobj G y) s /\ y <> MNone /\ s <> JNull.

  Theorem exact_wrap : forall j t job,
    decode_job classify j = Ok t -> doc_ok Pps Phr j ->
    create_job_object G resolve vals t = Ok job ->
    exists job', expected_job resolve sigma j = Ok job' /\ json_equiv job job'.
  Proof.
    intros j t job Hd Hok H. unfold create_job_object in H. cbv zeta in H.
    destruct (inst G resolve sigma (S (mval_depth t)) t) as [y|e] eqn:Ei; cbn [bind] in H; [|discriminate H].
    assert (E : job = to_object G (S (S (S (mval_depth t)))) (coerce_job (S (mval_depth t)) y))
      by (injection H; intros <-; reflexivity).
    rewrite E. clear E H. pose proof (inst_depth G resolve sigma _ _ _ Ei) as Hdy.
    rewrite to_object_coerce_jobj by lia.
    exact (root_equiv classify resolve sigma Pps Phr Hps Hhr j t (S (mval_depth t)) y Hd Hok (Nat.lt_succ_diag_r _) Ei).
  Qed.
End Wrap.

(* the document conditions give [doc_ok] *)
Lemma doc_ok_of : forall (Pps Phr : json -> Prop) j,
  keys_distinct j = true -> lax_ints_native j = true ->
  (forall st, In st (items (jget "steps" j)) ->
              (jget "parameterSpace" st <> JNull -> Pps (jget "parameterSpace" st)) /\
              (jget "hostRequirements" st <> JNull -> Phr (jget "hostRequirements" st))) ->
  doc_ok Pps Phr j.
Proof.
  intros Pps Phr j Hd Hl Hst. split.
  - apply carried_ok_jget; try assumption; reflexivity.
  - intros st Hin.
    assert (Hds : keys_distinct st = true) by (apply (kd_item (jget "steps" j)); [apply kd_jget; exact Hd|exact Hin]).
    assert (Hls : lax_ints_native st = true)
      by (apply (lax_item (jget "steps" j)); [apply lax_jget; [exact Hl|reflexivity|reflexivity]|exact Hin]).
    destruct (Hst st Hin) as [H1 H2].
    repeat split; try assumption; apply carried_ok_jget; try assumption; reflexivity.
Qed.

(* ------------------------------------------------------------------ the theorems *)

(* the whole 2023-09 job template schema *)
Theorem C05_exact_full : forall classify j t vals job,
  ascii_ok classify = true ->
  decode_job classify j = Ok t ->
  keys_distinct j = true -> lax_ints_native j = true -> canonical_numbers j = true ->
  create_job_object G (Export.fs_resolve classify) vals t = Ok job ->
  exists job', expected_job (Export.fs_resolve classify) (symtab_of vals) j = Ok job' /\ json_equiv job job'.
Proof.
  intros classify j t vals job Hascii Hdec Hd Hl Hc H.
  change (Export.fs_resolve classify) with (CreateJobProofs.fs_resolve classify) in *.
  apply (exact_wrap classify (CreateJobProofs.fs_resolve classify) vals
                    (fun ps => canon_space ps = true) (fun h => canon_host h = true)
                    (param_space_equiv classify Hascii (symtab_of vals))
                    (host_req_equiv classify Hascii (symtab_of vals)) j t job Hdec); [|exact H].
  apply doc_ok_of; try assumption. intros st Hin.
  unfold canonical_numbers in Hc. rewrite forallb_forall in Hc. specialize (Hc st Hin).
  unfold canonical_step in Hc. apply andb_true_iff in Hc. destruct Hc as [Hc1 Hc2]. split; intros _; assumption.
Qed.

(* templates without parameter spaces and host requirements: no condition on numerals, none on [classify] *)
Theorem C05_exact_plain : forall classify resolve j t vals job,
  decode_job classify j = Ok t ->
  keys_distinct j = true -> lax_ints_native j = true -> plain_steps j = true ->
  create_job_object G resolve vals t = Ok job ->
  exists job', expected_job resolve (symtab_of vals) j = Ok job' /\ json_equiv job job'.
Proof.
  intros classify resolve j t vals job Hdec Hd Hl Hp H.
  apply (exact_wrap classify resolve vals (fun _ => False) (fun _ => False)) with (j := j) (t := t); try assumption.
  - intros f raw x F y _ [].
  - intros f raw x F y _ [].
  - apply doc_ok_of; try assumption. intros st Hin.
    unfold plain_steps in Hp. rewrite forallb_forall in Hp. specialize (Hp st Hin).
    unfold plain_step in Hp. apply andb_true_iff in Hp. destruct Hp as [Hp1 Hp2].
    split; intros Hn; exfalso; apply Hn.
    + destruct (jget "parameterSpace" st); try discriminate Hp1. reflexivity.
    + destruct (jget "hostRequirements" st); try discriminate Hp2. reflexivity.
Qed.

(* templates without host requirements *)
Theorem C05_exact_space : forall classify j t vals job,
  ascii_ok classify = true ->
  decode_job classify j = Ok t ->
  keys_distinct j = true -> lax_ints_native j = true -> no_host_steps j = true ->
  forallb (fun st => canon_space (jget "parameterSpace" st)) (items (jget "steps" j)) = true ->
  create_job_object G (Export.fs_resolve classify) vals t = Ok job ->
  exists job', expected_job (Export.fs_resolve classify) (symtab_of vals) j = Ok job' /\ json_equiv job job'.
Proof.
  intros classify j t vals job Hascii Hdec Hd Hl Hn Hc H.
  change (Export.fs_resolve classify) with (CreateJobProofs.fs_resolve classify) in *.
  apply (exact_wrap classify (CreateJobProofs.fs_resolve classify) vals
                    (fun ps => canon_space ps = true) (fun _ => False)
                    (param_space_equiv classify Hascii (symtab_of vals))) with (j := j) (t := t); try assumption.
  - intros f raw x F y _ [].
  - apply doc_ok_of; try assumption. intros st Hin.
    unfold no_host_steps in Hn. rewrite forallb_forall in Hn, Hc. specialize (Hn st Hin). specialize (Hc st Hin).
    split; [intros _; exact Hc|]. intros Hnn. exfalso. apply Hnn.
    destruct (jget "hostRequirements" st); try discriminate Hn. reflexivity.
Qed.

(* ------------------------------------------------------------------ equality up to member order *)
Lemma create_job_object_nnm : forall resolve vals t job,
  create_job_object G resolve vals t = Ok job -> no_null_members job = true.
Proof.
  intros resolve vals t job H. unfold create_job_object in H. cbv zeta in H.
  destruct (inst G resolve (symtab_of vals) (S (mval_depth t)) t) as [y|e] eqn:Ei; cbn [bind] in H; [|discriminate H].
  assert (E : job = to_object G (S (S (S (mval_depth t)))) (coerce_job (S (mval_depth t)) y))
    by (injection H; intros <-; reflexivity).
  pose proof (inst_depth G resolve (symtab_of vals) _ _ _ Ei) as Hdy.
  rewrite E. rewrite to_object_coerce_jobj by lia. apply nnm_jobj.
Qed.

(* when both Jobs have pairwise distinct keys and the specification's has no null member (both are boolean
   functions of the two values), they are the same document up to the order of object members *)
Theorem C05_exact_perm : forall classify j t vals job job',
  ascii_ok classify = true ->
  decode_job classify j = Ok t ->
  keys_distinct j = true -> lax_ints_native j = true -> canonical_numbers j = true ->
  create_job_object G (Export.fs_resolve classify) vals t = Ok job ->
  expected_job (Export.fs_resolve classify) (symtab_of vals) j = Ok job' ->
  distinct_keys job = true -> distinct_keys job' = true -> no_null_members job' = true ->
  json_perm job job'.
Proof.
  intros classify j t vals job job' Hascii Hdec Hd Hl Hc H Hs D1 D2 N2.
  destruct (C05_exact_full classify j t vals job Hascii Hdec Hd Hl Hc H) as [s [Es He]].
  rewrite Hs in Es. injection Es as <-.
  apply json_equiv_perm; try assumption. exact (create_job_object_nnm _ _ _ _ H).
Qed.
