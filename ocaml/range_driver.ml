(* range_driver.ml — serves the extracted range-expression model (C08, C13). *)
open Sx
open Model
open Conv

let table : (int, cclass) Hashtbl.t = Hashtbl.create 64

let class_of_name = function
  | "space" -> CSpace | "namestart" -> CNameStart | "digit" -> CDigit | "udigit" -> CUDigit
  | "dot" -> CDot | "star" -> CStar | "lparen" -> CLParen | "rparen" -> CRParen
  | "comma" -> CComma | "hyphen" -> CHyphen | "colon" -> CColon | "other" -> COther
  | s -> failwith ("class " ^ s)

let classify (c : n) : cclass =
  let i = match c with N0 -> 0 | Npos p -> (match int_of_pos p with Some v -> v | None -> -1) in
  match Hashtbl.find_opt table i with
  | Some cl -> cl
  | None -> if i >= 0 && i < 128 then ascii_class c else COther

let sx_of_tok = function
  | TName s -> L [A "N"; sx_of_str s]
  | TDot -> A "D" | TStar -> A "S" | TLParen -> A "LP" | TRParen -> A "RP" | TComma -> A "M"
  | TPosInt v -> L [A "P"; sx_of_n v]
  | THyphen -> A "H" | TColon -> A "C"

let int_of_z = function
  | Z0 -> 0
  | Zpos p -> (match int_of_pos p with Some v -> v | None -> failwith "len too big")
  | Zneg p -> (match int_of_pos p with Some v -> - v | None -> failwith "len too big")

(* index list of a request: an explicit list, or the atom `auto` = -len-2 .. len+1 *)
let idx_of_sx (e : iexpr) = function
  | A "auto" -> let n = int_of_z (elen e) in List.init (2 * n + 4) (fun k -> z_of_int (k - n - 2))
  | x -> list_of_sx z_of_sx x

let describe pm (e : iexpr) (idx : z list) : Sx.t =
  let toks = expr_tokens e in
  let re = match parse_tokens pm false toks with
    | Ok e' -> L [A "ok"; sx_of_list sx_of_z (elems e')]
    | Raise x -> L [A "raise"; A (exn_name x)] in
  L [ sx_of_list sx_of_z (elems e);
      sx_of_z (elen e);
      sx_of_list (fun i -> sx_of_outcome sx_of_z (getitem e i)) idx;
      sx_of_list sx_of_tok toks;
      re ]

(* arbitrary-precision integers on the wire: b<binary digits> / b-<binary digits> (constructors only, no
   extracted arithmetic): the `big` request works on expressions whose length does not fit an OCaml int *)
let rec bits_of_pos (b : Buffer.t) (p : positive) : unit =
  match p with
  | XH -> Buffer.add_char b '1'
  | XO q -> bits_of_pos b q; Buffer.add_char b '0'
  | XI q -> bits_of_pos b q; Buffer.add_char b '1'
let sx_of_zb (z : z) : Sx.t =
  let b = Buffer.create 80 in
  (match z with
   | Z0 -> Buffer.add_string b "b0"
   | Zpos p -> Buffer.add_char b 'b'; bits_of_pos b p
   | Zneg p -> Buffer.add_string b "b-"; bits_of_pos b p);
  A (Buffer.contents b)
let zb_of_sx = function
  | A s when Stdlib.String.length s >= 2 && Stdlib.String.get s 0 = 'b' ->
    let neg = Stdlib.String.get s 1 = '-' in
    let start = if neg then 2 else 1 in
    let acc = ref None in
    Stdlib.String.iteri (fun i c ->
      if i >= start then
        match !acc, c with
        | None, '0' -> ()
        | None, '1' -> acc := Some XH
        | Some p, '0' -> acc := Some (XO p)
        | Some p, '1' -> acc := Some (XI p)
        | _ -> failwith "zb_of_sx") s;
    (match !acc with None -> Z0 | Some p -> if neg then Zneg p else Zpos p)
  | _ -> failwith "zb_of_sx"
let tok_of_sxb = function
  | A "H" -> THyphen | A "C" -> TColon | A "M" -> TComma
  | L [A "P"; v] -> (match zb_of_sx v with Z0 -> TPosInt N0 | Zpos p -> TPosInt (Npos p) | Zneg _ -> failwith "tok")
  | _ -> failwith "tok_of_sxb"
let sx_of_tokb = function
  | TPosInt N0 -> L [A "P"; A "b0"]
  | TPosInt (Npos p) -> L [A "P"; sx_of_zb (Zpos p)]
  | t -> sx_of_tok t
(* everything C13 observes that does not enumerate the values: length, r[i] at the given indices, the printed
   tokens, and the same two observations on the re-parsed print *)
let describe_big pm (e : iexpr) (idx : z list) : Sx.t =
  let toks = expr_tokens e in
  let obs e' = L [sx_of_zb (elen e'); sx_of_list (fun i -> sx_of_outcome sx_of_zb (getitem e' i)) idx] in
  let re = match parse_tokens pm false toks with
    | Ok e' -> L [A "ok"; obs e']
    | Raise x -> L [A "raise"; A (exn_name x)] in
  L [ obs e; sx_of_list sx_of_tokb toks; re ]

let handle (req : Sx.t) : Sx.t =
  match req with
  | L [A "big_str"; pm; pt; s; idx] ->
    let pm = bool_of_sx pm and pt = bool_of_sx pt in
    (match from_str pm pt classify (str_of_sx s) with
     | Ok e -> L [A "ok"; describe_big pm e (list_of_sx zb_of_sx idx)]
     | Raise x -> L [A "raise"; A (exn_name x)])
  | L [A "big"; pm; pt; toks; idx] ->
    let pm = bool_of_sx pm and pt = bool_of_sx pt in
    (match parse_tokens pm pt (list_of_sx tok_of_sxb toks) with
     | Ok e -> L [A "ok"; describe_big pm e (list_of_sx zb_of_sx idx)]
     | Raise x -> L [A "raise"; A (exn_name x)])
  | L (A "table" :: entries) ->
    Hashtbl.reset table;
    List.iter (function L [A cp; A cl] -> Hashtbl.replace table (int_of_string cp) (class_of_name cl) | _ -> failwith "table") entries;
    L [A "table-ok"; sx_of_bool (ascii_ok classify)]
  | L [A "from_str"; pm; pt; s; idx] ->
    let pm = bool_of_sx pm and pt = bool_of_sx pt in
    (match from_str pm pt classify (str_of_sx s) with
     | Ok e -> L [A "ok"; describe pm e (idx_of_sx e idx)]
     | Raise x -> L [A "raise"; A (exn_name x)])
  | L [A "from_list"; pm; pf; vs; idx] ->
    let pm = bool_of_sx pm and pf = bool_of_sx pf in
    (match from_list pm pf (list_of_sx z_of_sx vs) with
     | Ok e -> L [A "ok"; describe pm e (idx_of_sx e idx)]
     | Raise x -> L [A "raise"; A (exn_name x)])
  | L [A "spec"; s] ->
    (match lex_for classify range_kinds (str_of_sx s) with
     | Raise x -> L [A "raise"; A (exn_name x)]
     | Ok ts -> (match spec_from_tokens ts with
                 | None -> A "none"
                 | Some l -> L [A "some"; sx_of_list sx_of_z l]))
  | _ -> failwith "unknown-request"

let () = serve handle
