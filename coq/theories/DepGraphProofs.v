(* DepGraphProofs.v — C15: the model of _step_dependency_graph.py meets its specification. *)
From Coq Require Import List NArith Bool Arith Lia Permutation Sorted.
Require Import OJD.Base OJD.DepGraph OJD.DepGraphSpec.
Import ListNotations.

(* ------------------------------------------------------------------ basics *)
Lemma mem_In : forall x l, mem x l = true <-> In x l.
Proof.
  induction l as [|y t IH]; simpl.
  - split; [discriminate | tauto].
  - rewrite orb_true_iff, IH, N.eqb_eq. split; intros [H|H]; auto.
Qed.

Lemma mem_nIn : forall x l, mem x l = false <-> ~ In x l.
Proof.
  intros x l. rewrite <- mem_In. destruct (mem x l); split; congruence.
Qed.

Lemma mem_app : forall x a b, mem x (a ++ b) = mem x a || mem x b.
Proof. induction a as [|y t IH]; simpl; intros; [reflexivity|]. rewrite IH, orb_assoc. reflexivity. Qed.

Lemma mem_rev : forall x l, mem x (rev l) = mem x l.
Proof.
  intros x l. destruct (mem x l) eqn:E.
  - apply mem_In. rewrite <- in_rev. apply mem_In; assumption.
  - apply mem_nIn. rewrite <- in_rev. apply mem_nIn; assumption.
Qed.

(* ------------------------------------------------------------------ the constructor *)
Definition to_n (n : name) (e : edge) : bool := N.eqb (snd e) n.
Definition from_n (n : name) (e : edge) : bool := N.eqb (fst e) n.

(* the node the constructor ends up storing under [n] once the edges [E] have been added *)
Definition node_for (E : list edge) (n : name) : node :=
  mk_node n (filter (to_n n) E) (filter (from_n n) E).
Definition graph_of (ns : list name) (E : list edge) : graph := map (node_for E) ns.

Lemma graph_of_names : forall ns E, map nname (graph_of ns E) = ns.
Proof.
  intros ns E. unfold graph_of. rewrite map_map. simpl. apply map_id.
Qed.

Lemma dict_set_fresh : forall ns n,
  ~ In n ns -> dict_set (graph_of ns []) (mk_node n [] []) = graph_of (ns ++ [n]) [].
Proof.
  induction ns as [|x t IH]; simpl; intros n Hn; [reflexivity|].
  destruct (N.eqb_spec x n) as [->|Hne]; [tauto|].
  f_equal. apply IH. tauto.
Qed.

Lemma init_nodes_gen : forall (steps : job) ns,
  NoDup (ns ++ map fst steps) ->
  fold_left (fun g s => dict_set g (mk_node (fst s) [] [])) steps (graph_of ns [])
  = graph_of (ns ++ map fst steps) [].
Proof.
  induction steps as [|[n ds] t IH]; simpl; intros ns Hnd.
  - rewrite app_nil_r. reflexivity.
  - rewrite dict_set_fresh.
    + rewrite IH; rewrite <- app_assoc; simpl; [reflexivity | assumption].
    + apply NoDup_remove_2 in Hnd. intro H. apply Hnd. apply in_or_app. auto.
Qed.

Lemma init_nodes_eq : forall j, NoDup (names j) -> init_nodes j = graph_of (names j) [].
Proof.
  intros j H. unfold init_nodes. change (@nil node) with (graph_of [] []).
  rewrite init_nodes_gen; simpl; auto.
Qed.

Lemma get_node_graph_of : forall ns E n, In n ns -> get_node (graph_of ns E) n = Ok (node_for E n).
Proof.
  induction ns as [|x t IH]; simpl; intros E n Hin; [tauto|].
  destruct (N.eqb_spec x n) as [->|Hne]; [reflexivity|].
  apply IH. destruct Hin; congruence.
Qed.

Lemma get_node_graph_of_none : forall ns E n, ~ In n ns -> get_node (graph_of ns E) n = Raise KeyError.
Proof.
  induction ns as [|x t IH]; simpl; intros E n Hin; [reflexivity|].
  destruct (N.eqb_spec x n) as [->|Hne]; [tauto|].
  apply IH. tauto.
Qed.

Lemma add_edge_graph_of : forall ns E d o,
  In o ns -> add_edge (graph_of ns E) d o = Ok (graph_of ns (E ++ [(o, d)])).
Proof.
  intros ns E d o Ho. unfold add_edge. rewrite get_node_graph_of by assumption. simpl.
  f_equal. unfold append_out, append_in, graph_of. rewrite !map_map.
  apply map_ext. intro x. simpl.
  unfold node_for. rewrite !filter_app. simpl.
  change (to_n x (o, d)) with (N.eqb d x). change (from_n x (o, d)) with (N.eqb o x).
  rewrite (N.eqb_sym d x), (N.eqb_sym o x).
  destruct (N.eqb x d) eqn:E1; simpl; destruct (N.eqb x o) eqn:E2; simpl;
    rewrite ?app_nil_r; reflexivity.
Qed.

Lemma add_deps_graph_of : forall ds ns E n,
  incl ds ns ->
  add_deps (graph_of ns E) n ds = Ok (graph_of ns (E ++ map (fun d => (d, n)) ds)).
Proof.
  induction ds as [|d t IH]; simpl; intros ns E n Hin.
  - rewrite app_nil_r. reflexivity.
  - rewrite add_edge_graph_of by (apply Hin; simpl; auto). simpl.
    rewrite IH by (intros x Hx; apply Hin; simpl; auto).
    rewrite <- app_assoc. reflexivity.
Qed.

Lemma add_steps_graph_of : forall steps ns E,
  (forall n ds, In (n, ds) steps -> In n ns /\ incl ds ns) ->
  add_steps (graph_of ns E) steps = Ok (graph_of ns (E ++ all_edges steps)).
Proof.
  induction steps as [|[n ds] t IH]; simpl; intros ns E H.
  - rewrite app_nil_r. reflexivity.
  - destruct (H n ds (or_introl eq_refl)) as [Hn Hds].
    assert (Ht : forall n ds, In (n, ds) t -> In n ns /\ incl ds ns) by (intros; apply H; auto).
    destruct ds as [|d ds'].
    + simpl. apply IH. assumption.
    + rewrite get_node_graph_of by assumption. cbn [bind].
      rewrite add_deps_graph_of by assumption. cbn [bind].
      rewrite IH by assumption. rewrite <- app_assoc. reflexivity.
Qed.

Lemma in_names : forall j n ds, In (n, ds) j -> In n (names j).
Proof. intros j n ds H. unfold names. change n with (fst (n, ds)). apply in_map. assumption. Qed.

(* the constructor, in closed form, on its KeyError-free domain *)
Theorem build_eq : forall j, well_named j -> build j = Ok (graph_of (names j) (all_edges j)).
Proof.
  intros j [Hnd Hcl]. unfold build. rewrite init_nodes_eq by assumption.
  rewrite add_steps_graph_of; [reflexivity|].
  intros n ds Hin. split; [eapply in_names; eassumption|].
  intros d Hd. eapply Hcl; eassumption.
Qed.

Lemma filter_to_all_edges : forall j n,
  map fst (filter (to_n n) (all_edges j)) = deps_of j n.
Proof.
  induction j as [|[m ds] t IH]; intros n; simpl; [reflexivity|].
  rewrite filter_app, map_app, IH. f_equal.
  unfold to_n. destruct (N.eqb_spec m n) as [->|Hne].
  - induction ds as [|d ds' IHd]; simpl; [reflexivity|]. rewrite N.eqb_refl. simpl. f_equal. assumption.
  - induction ds as [|d ds' IHd]; simpl; [reflexivity|].
    destruct (N.eqb_spec m n); [congruence|]. assumption.
Qed.

Lemma filter_to_all_edges_pairs : forall j n,
  filter (to_n n) (all_edges j) = map (fun d => (d, n)) (deps_of j n).
Proof.
  induction j as [|[m ds] t IH]; intros n; simpl; [reflexivity|].
  rewrite filter_app, map_app, IH. f_equal.
  unfold to_n. destruct (N.eqb_spec m n) as [->|Hne].
  - induction ds as [|d ds' IHd]; simpl; [reflexivity|]. rewrite N.eqb_refl. simpl. f_equal. assumption.
  - induction ds as [|d ds' IHd]; simpl; [reflexivity|].
    destruct (N.eqb_spec m n); [congruence|]. assumption.
Qed.

Lemma deps_of_notin : forall j n, ~ In n (names j) -> deps_of j n = [].
Proof.
  induction j as [|[m ds] t IH]; intros n H; simpl in *; [reflexivity|].
  destruct (N.eqb_spec m n) as [->|Hne]; [tauto|]. simpl. apply IH. tauto.
Qed.

Lemma deps_of_unique : forall j n ds, NoDup (names j) -> In (n, ds) j -> deps_of j n = ds.
Proof.
  induction j as [|[m ds'] t IH]; intros n ds Hnd Hin; simpl in *; [tauto|].
  inversion Hnd as [|? ? Hm Ht]; subst.
  destruct Hin as [Heq|Hin].
  - inversion Heq; subst. rewrite N.eqb_refl. rewrite deps_of_notin by assumption. apply app_nil_r.
  - destruct (N.eqb_spec m n) as [->|Hne].
    + exfalso. apply Hm. eapply in_names; eassumption.
    + simpl. apply IH; assumption.
Qed.

Lemma depends_in_names : forall j a b, depends j a b -> In a (names j).
Proof.
  intros j a b H. destruct (in_dec N.eq_dec a (names j)) as [Hi|Hn]; [assumption|].
  unfold depends in H. rewrite deps_of_notin in H by assumption. destruct H.
Qed.

Lemma deps_of_closed : forall j n d, closed j -> In d (deps_of j n) -> In d (names j).
Proof.
  intros j n d Hcl H. unfold deps_of in H. apply in_flat_map in H. destruct H as [[m ds] [Hin Hd]].
  simpl in Hd. destruct (N.eqb m n); [|destruct Hd]. eapply Hcl; eassumption.
Qed.

Lemma in_all_edges : forall j o d, In (o, d) (all_edges j) <-> depends j d o.
Proof.
  intros j o d. unfold all_edges, depends, deps_of. rewrite !in_flat_map. split.
  - intros [[m ds] [Hin H]]. simpl in H. apply in_map_iff in H. destruct H as [x [Hx Hd]].
    inversion Hx; subst. exists (d, ds). split; [assumption|]. simpl. rewrite N.eqb_refl. assumption.
  - intros [[m ds] [Hin H]]. simpl in H. destruct (N.eqb_spec m d) as [->|Hne]; [|destruct H].
    exists (d, ds). split; [assumption|]. simpl. apply in_map_iff. exists o. auto.
Qed.

Lemma fold_max_spec : forall t x,
  In (fold_left Nat.max t x) (x :: t) /\ forall z, In z (x :: t) -> z <= fold_left Nat.max t x.
Proof.
  induction t as [|y t IH]; intros x; cbn [fold_left].
  - split; [left; reflexivity|]. intros z [Hz|[]]. subst. lia.
  - destruct (IH (Nat.max x y)) as [Hin Hle]. split.
    + destruct Hin as [Hin|Hin]; [|right; right; exact Hin].
      rewrite <- Hin.
      destruct (Nat.max_spec x y) as [[_ E]|[_ E]]; rewrite E; [right; left|left]; reflexivity.
    + assert (Hm : Nat.max x y <= fold_left Nat.max t (Nat.max x y)) by (apply Hle; left; reflexivity).
      intros z [Hz|[Hz|Hz]]; [subst z; lia | subst z; lia | apply Hle; right; exact Hz].
Qed.

Lemma py_max_spec : forall l m, py_max l = Ok m -> is_max m l.
Proof.
  intros l m. destruct l as [|x t]; cbn [py_max]; [discriminate|]. intro H.
  injection H as Hm. subst m. apply fold_max_spec.
Qed.

Lemma py_max_nonempty : forall l, l <> [] -> exists m, py_max l = Ok m.
Proof. intros [|x t] H; [congruence|]. simpl. eauto. Qed.

(* C15_edges *)
Theorem edges_exact : forall j, well_named j ->
  exists g, build j = Ok g /\
    map nname g = names j /\
    (forall n, In n (names j) ->
       in_edges g n = Ok (map (fun d => (d, n)) (deps_of j n)) /\
       out_edges g n = Ok (filter (fun e => N.eqb (fst e) n) (all_edges j))) /\
    (forall n, ~ In n (names j) -> in_edges g n = Raise KeyError /\ out_edges g n = Raise KeyError) /\
    (j = [] -> max_indegree g = Raise ValueError /\ max_outdegree g = Raise ValueError) /\
    (j <> [] -> exists mi mo,
       max_indegree g = Ok mi /\ max_outdegree g = Ok mo /\
       is_max mi (map (fun n => length (deps_of j n)) (names j)) /\
       is_max mo (map (fun n => length (filter (fun e => N.eqb (fst e) n) (all_edges j))) (names j))).
Proof.
  intros j Hw. exists (graph_of (names j) (all_edges j)).
  split; [apply build_eq; assumption|].
  split; [apply graph_of_names|].
  split.
  { intros n Hn. unfold in_edges, out_edges. rewrite get_node_graph_of by assumption. simpl.
    rewrite filter_to_all_edges_pairs. split; reflexivity. }
  split.
  { intros n Hn. unfold in_edges, out_edges. rewrite get_node_graph_of_none by assumption. simpl. auto. }
  assert (Hi : map (fun x => length (nin x)) (graph_of (names j) (all_edges j))
               = map (fun n => length (deps_of j n)) (names j)).
  { unfold graph_of. rewrite map_map. apply map_ext. intro n. simpl.
    rewrite filter_to_all_edges_pairs. apply map_length. }
  assert (Ho : map (fun x => length (nout x)) (graph_of (names j) (all_edges j))
               = map (fun n => length (filter (fun e => N.eqb (fst e) n) (all_edges j))) (names j)).
  { unfold graph_of. rewrite map_map. apply map_ext. intro n. reflexivity. }
  unfold max_indegree, max_outdegree. rewrite Hi, Ho. split.
  - intros ->. simpl. auto.
  - intros Hne.
    assert (Hn : names j <> []) by (destruct j; simpl; congruence).
    destruct (py_max_nonempty (map (fun n => length (deps_of j n)) (names j))) as [mi Hmi].
    { destruct (names j); simpl; congruence. }
    destruct (py_max_nonempty (map (fun n => length (filter (fun e => N.eqb (fst e) n) (all_edges j))) (names j))) as [mo Hmo].
    { destruct (names j); simpl; congruence. }
    exists mi, mo. repeat split; try assumption; try (apply py_max_spec; assumption).
Qed.

(* ------------------------------------------------------------------ sorting by template index *)
Definition idx (l : list name) (n : name) : nat :=
  match index_of n l with Some i => i | None => 0 end.

Lemma index_of_none : forall l n, index_of n l = None -> ~ In n l.
Proof.
  induction l as [|a l IH]; simpl; intros n H; [tauto|].
  destruct (N.eqb_spec a n) as [->|Hne]; [discriminate|].
  destruct (index_of n l) eqn:E; simpl in H; [discriminate|].
  intros [Ha|Hl]; [congruence|]. eapply IH; eauto.
Qed.

Lemma index_of_in : forall l n, In n l -> index_of n l = Some (idx l n).
Proof.
  intros l n H. unfold idx. destruct (index_of n l) eqn:E; [reflexivity|].
  exfalso. eapply index_of_none; eauto.
Qed.

Definition kf (ns : list name) (d : name) : nat * name := (idx ns d, d).

Lemma with_keys_ok : forall ns l, incl l ns -> with_keys ns l = Ok (map (kf ns) l).
Proof.
  intros ns. unfold with_keys. induction l as [|d t IH]; intros Hin; cbn [mapM map]; [reflexivity|].
  rewrite index_of_in by (apply Hin; left; reflexivity). cbn [bind].
  rewrite IH by (intros x Hx; apply Hin; right; exact Hx). reflexivity.
Qed.

Lemma insert_desc_perm : forall x l, Permutation (insert_desc x l) (x :: l).
Proof.
  induction l as [|y t IH]; cbn [insert_desc]; [reflexivity|].
  destruct (Nat.ltb (fst x) (fst y)); [|reflexivity].
  transitivity (y :: x :: t); [constructor; exact IH | apply perm_swap].
Qed.

Lemma sorted_desc_perm : forall l, Permutation (sorted_desc l) l.
Proof.
  induction l as [|x t IH]; cbn [sorted_desc fold_right]; [reflexivity|].
  fold (sorted_desc t). rewrite insert_desc_perm. constructor. exact IH.
Qed.

Lemma map_snd_kf : forall ns l, map snd (map (kf ns) l) = l.
Proof. intros. rewrite map_map. simpl. apply map_id. Qed.

Lemma sort_ok : forall ns l, incl l ns ->
  sort_by_index_desc ns l = Ok (map snd (sorted_desc (map (kf ns) l))).
Proof. intros ns l H. unfold sort_by_index_desc. rewrite with_keys_ok by assumption. reflexivity. Qed.

Lemma sort_perm : forall ns l, Permutation (map snd (sorted_desc (map (kf ns) l))) l.
Proof.
  intros ns l. rewrite <- (map_snd_kf ns l) at 2. apply Permutation_map. apply sorted_desc_perm.
Qed.

Lemma filter_length : forall (A : Type) (f : A -> bool) l, length (filter f l) <= length l.
Proof. induction l as [|x t IH]; simpl; [lia|]. destruct (f x); simpl; lia. Qed.

(* ------------------------------------------------------------------ paths *)
Lemma dpath_snoc : forall j a b c, dpath j a b -> depends j b c -> dpath j a c.
Proof.
  intros j a b c H. induction H as [a b Hab|a b c' Hab Hbc IH]; intro Hc.
  - eapply dpath_cons; [exact Hab|]. apply dpath_one. exact Hc.
  - eapply dpath_cons; [exact Hab|]. apply IH. exact Hc.
Qed.

(* ------------------------------------------------------------------ the sort loop *)
Section Topo.
Variable j : job.
Hypothesis Hwn : well_named j.

Local Notation ns := (names j).
Local Notation g := (graph_of (names j) (all_edges j)).
Local Notation dp := (deps_of j).

Lemma ns_nodup : NoDup ns. Proof. exact (proj1 Hwn). Qed.
Lemma dp_closed : forall n d, In d (dp n) -> In d ns.
Proof. intros n d H. eapply deps_of_closed; [exact (proj2 Hwn)|exact H]. Qed.

Definition is_open (S C : list name) (d : name) : bool := mem d S && negb (mem d C).

(* the dependencies pushed when [x] starts, in push order (highest template index first) *)
Definition pushed (C : list name) (x : name) : list name :=
  map snd (sorted_desc (map (kf ns) (filter (fun d => negb (mem d C)) (dp x)))).

Lemma pushed_in : forall C x d, In d (pushed C x) <-> In d (dp x) /\ ~ In d C.
Proof.
  intros C x d. unfold pushed. split.
  - intro H. apply (Permutation_in _ (sort_perm _ _)) in H. apply filter_In in H.
    destruct H as [H1 H2]. split; [exact H1|]. apply mem_nIn. apply negb_true_iff. exact H2.
  - intros [H1 H2]. apply (Permutation_in _ (Permutation_sym (sort_perm _ _))).
    apply filter_In. split; [exact H1|]. apply negb_true_iff. apply mem_nIn. exact H2.
Qed.

Lemma pushed_length : forall C x, length (pushed C x) <= length (dp x).
Proof.
  intros C x. unfold pushed. rewrite (Permutation_length (sort_perm _ _)). apply filter_length.
Qed.

Lemma push_deps_spec : forall S C l stk, incl l ns ->
  push_deps g S C l stk = if existsb (is_open S C) l then Raise ValueError else Ok (rev l ++ stk).
Proof.
  intros S C. induction l as [|d t IH]; intros stk Hin; cbn [push_deps existsb rev]; [reflexivity|].
  fold (is_open S C d). destruct (is_open S C d); cbn [orb]; [reflexivity|].
  rewrite get_node_graph_of by (apply Hin; left; reflexivity). cbn [bind].
  rewrite IH by (intros y Hy; apply Hin; right; exact Hy).
  rewrite <- app_assoc. reflexivity.
Qed.

Definition s_outer (s : tstate) (n : name) (p : list name) : tstate :=
  mk_tstate p [n] (started s) (completed s) (result s).
Definition s_pop (s : tstate) (rest : list name) : tstate :=
  mk_tstate (pending s) rest (started s) (completed s) (result s).
Definition s_complete (s : tstate) (x : name) : tstate :=
  mk_tstate (pending s) (stack s) (started s) (x :: completed s) (result s ++ [x]).
Definition s_start (s : tstate) (x : name) (rest : list name) : tstate :=
  mk_tstate (pending s) (rev (pushed (completed s) x) ++ x :: rest) (x :: started s) (completed s) (result s).

(* what one step does, case by case *)
Inductive step_case (s : tstate) : outcome (tstate + list name) -> Prop :=
| sc_done : stack s = [] -> pending s = [] -> step_case s (Ok (inr (result s)))
| sc_outer : forall n p, stack s = [] -> pending s = n :: p -> step_case s (Ok (inl (s_outer s n p)))
| sc_pop : forall x rest, stack s = x :: rest -> In x (completed s) ->
    step_case s (Ok (inl (s_pop s rest)))
| sc_complete : forall x rest, stack s = x :: rest -> ~ In x (completed s) -> In x (started s) ->
    step_case s (Ok (inl (s_complete s x)))
| sc_start : forall x rest, stack s = x :: rest -> ~ In x (completed s) -> ~ In x (started s) ->
    existsb (is_open (x :: started s) (completed s)) (pushed (completed s) x) = false ->
    step_case s (Ok (inl (s_start s x rest)))
| sc_raise : forall x rest, stack s = x :: rest -> ~ In x (completed s) -> ~ In x (started s) ->
    existsb (is_open (x :: started s) (completed s)) (pushed (completed s) x) = true ->
    step_case s (Raise ValueError).

Lemma step_cases : forall s, incl (stack s) ns -> step_case s (step g s).
Proof.
  intros s Hst. unfold step. destruct (stack s) as [|x rest] eqn:Ek.
  - destruct (pending s) as [|n p] eqn:Ep.
    + apply sc_done; assumption.
    + apply (sc_outer s n p); assumption.
  - destruct (mem x (completed s)) eqn:Ec.
    + apply (sc_pop s x rest); [assumption|]. apply mem_In. exact Ec.
    + apply mem_nIn in Ec. destruct (mem x (started s)) eqn:Es.
      * replace (mk_tstate (pending s) (x :: rest) (started s) (x :: completed s) (result s ++ [x]))
          with (s_complete s x) by (unfold s_complete; rewrite Ek; reflexivity).
        apply (sc_complete s x rest); [assumption|assumption|]. apply mem_In. exact Es.
      * apply mem_nIn in Es.
        assert (Hx : In x ns) by (apply Hst; left; reflexivity).
        unfold in_edges. rewrite get_node_graph_of by exact Hx. cbn [bind nin node_for].
        rewrite filter_to_all_edges.
        rewrite graph_of_names.
        rewrite sort_ok.
        2:{ intros d Hd. apply filter_In in Hd. eapply dp_closed. exact (proj1 Hd). }
        cbn [bind]. fold (pushed (completed s) x).
        rewrite push_deps_spec.
        2:{ intros d Hd. apply pushed_in in Hd. eapply dp_closed. exact (proj1 Hd). }
        destruct (existsb (is_open (x :: started s) (completed s)) (pushed (completed s) x)) eqn:Ee.
        -- cbn [bind]. apply (sc_raise s x rest); assumption.
        -- cbn [bind]. apply (sc_start s x rest); assumption.
Qed.


(* ---- the invariant of the loop *)
Record Inv (s : tstate) : Prop := {
  inv_stack : incl (stack s) ns;
  inv_pend : incl (pending s) ns;
  inv_cr : completed s = rev (result s);
  inv_nd : NoDup (result s);
  inv_cs : incl (completed s) (started s);
  inv_res : incl (result s) ns;
  inv_ord : forall c d, In c (result s) -> In d (dp c) -> before d c (result s);
  (* open = started and not completed.  Every open step sits on the stack; what is above its
     topmost occurrence are descendants of it, among them all of its dependencies that are
     not yet completed: the open steps form a dependency chain. *)
  inv_open : forall o, In o (started s) -> ~ In o (completed s) ->
    exists above below, stack s = above ++ o :: below /\ ~ In o above /\
      (forall d, In d (dp o) -> In d (completed s) \/ In d above) /\
      (forall y, In y above -> dpath j o y);
  inv_cover : forall n, In n ns -> In n (pending s) \/ In n (completed s) \/ In n (stack s)
}.

Lemma inv_init : Inv (init_state g).
Proof.
  unfold init_state. rewrite graph_of_names.
  constructor; cbn [stack pending started completed result].
  - intros x [].
  - apply incl_refl.
  - reflexivity.
  - constructor.
  - intros x [].
  - intros x [].
  - intros c d [].
  - intros o [].
  - intros n H. left. exact H.
Qed.

Lemma is_open_true : forall S C d, is_open S C d = true <-> In d S /\ ~ In d C.
Proof.
  intros S C d. unfold is_open. rewrite andb_true_iff, negb_true_iff, mem_In, mem_nIn. tauto.
Qed.

Lemma no_open_pushed : forall S C x d,
  existsb (is_open S C) (pushed C x) = false -> In d (pushed C x) -> In d S -> False.
Proof.
  intros S C x d He Hd HS.
  assert (Ht : existsb (is_open S C) (pushed C x) = true); [|congruence].
  apply existsb_exists. exists d. split; [exact Hd|].
  apply is_open_true. split; [exact HS|]. apply pushed_in in Hd. tauto.
Qed.

Lemma head_split : forall (x o : name) rest above below,
  x :: rest = above ++ o :: below -> x <> o ->
  exists above', above = x :: above' /\ rest = above' ++ o :: below.
Proof.
  intros x o rest above below H Hne. destruct above as [|a above'].
  - simpl in H. inversion H. congruence.
  - simpl in H. inversion H. subst. exists above'. auto.
Qed.

Lemma inv_pop : forall s x rest, Inv s -> stack s = x :: rest -> In x (completed s) -> Inv (s_pop s rest).
Proof.
  intros s x rest I Ek Hc. destruct I as [Ist Ipd Icr Ind Ics Irs Iord Iopen Icov].
  constructor; cbn [s_pop stack pending started completed result]; try assumption.
  - intros y Hy. apply Ist. rewrite Ek. right. exact Hy.
  - intros o Ho Hnc. destruct (Iopen o Ho Hnc) as [above [below [Hk [Hna [Hd Hp]]]]].
    rewrite Ek in Hk.
    destruct (head_split _ _ _ _ _ Hk) as [above' [Ha Hr]]; [intro; subst; tauto|]. subst above.
    exists above', below. split; [exact Hr|]. split; [intro; apply Hna; right; assumption|]. split.
    + intros d Hdd. destruct (Hd d Hdd) as [H|[H|H]]; [left; exact H| subst; left; exact Hc | right; exact H].
    + intros y Hy. apply Hp. right. exact Hy.
  - intros n Hn. destruct (Icov n Hn) as [H|[H|H]]; [auto|auto|].
    rewrite Ek in H. destruct H as [H|H]; [subst; auto|auto].
Qed.

Lemma before_app : forall d c l x, before d c l -> before d c (l ++ x).
Proof.
  intros d c l x [l1 [l2 [H1 H2]]]. exists l1, (l2 ++ x). split; [|exact H2].
  rewrite H1. rewrite <- app_assoc. reflexivity.
Qed.

Lemma inv_complete : forall s x rest, Inv s -> stack s = x :: rest ->
  ~ In x (completed s) -> In x (started s) -> Inv (s_complete s x).
Proof.
  intros s x rest I Ek Hnc Hs. destruct I as [Ist Ipd Icr Ind Ics Irs Iord Iopen Icov].
  assert (HxR : ~ In x (result s)) by (intro H; apply Hnc; rewrite Icr; apply in_rev in H; exact H).
  assert (Hxn : In x ns) by (apply Ist; rewrite Ek; left; reflexivity).
  constructor; cbn [s_complete stack pending started completed result]; try assumption.
  - rewrite rev_unit. f_equal. exact Icr.
  - apply (Permutation_NoDup (Permutation_cons_append (result s) x)). constructor; assumption.
  - intros y [Hy|Hy]; [subst; exact Hs | apply Ics; exact Hy].
  - intros y Hy. apply in_app_or in Hy. destruct Hy as [Hy|[Hy|[]]]; [apply Irs; exact Hy | subst; exact Hxn].
  - intros c d Hc Hd. apply in_app_or in Hc. destruct Hc as [Hc|[Hc|[]]].
    + apply before_app. apply Iord; assumption.
    + subst c. destruct (Iopen x Hs Hnc) as [above [below [Hk [Hna [Hdd _]]]]].
      rewrite Ek in Hk. destruct above as [|a above'].
      * exists (result s), []. split; [reflexivity|].
        destruct (Hdd d Hd) as [H|[]]. rewrite Icr in H. apply in_rev in H. exact H.
      * simpl in Hk. inversion Hk. subst a. exfalso. apply Hna. left. reflexivity.
  - intros o Ho Hno.
    assert (Hno' : ~ In o (completed s)) by (intro; apply Hno; right; assumption).
    destruct (Iopen o Ho Hno') as [above [below [Hk [Hna [Hd Hp]]]]].
    exists above, below. split; [exact Hk|]. split; [exact Hna|]. split; [|exact Hp].
    intros d Hdd. destruct (Hd d Hdd) as [H|H]; [left; right; exact H | right; exact H].
  - intros n Hn. destruct (Icov n Hn) as [H|[H|H]]; [auto| right; left; right; exact H |auto].
Qed.

Lemma inv_outer : forall s n p, Inv s -> stack s = [] -> pending s = n :: p -> Inv (s_outer s n p).
Proof.
  intros s n p I Ek Ep. destruct I as [Ist Ipd Icr Ind Ics Irs Iord Iopen Icov].
  constructor; cbn [s_outer stack pending started completed result]; try assumption.
  - intros y [Hy|[]]. subst. apply Ipd. rewrite Ep. left. reflexivity.
  - intros y Hy. apply Ipd. rewrite Ep. right. exact Hy.
  - intros o Ho Hno. destruct (Iopen o Ho Hno) as [above [below [Hk _]]].
    rewrite Ek in Hk. exfalso. eapply app_cons_not_nil. exact Hk.
  - intros m Hm. destruct (Icov m Hm) as [H|[H|H]].
    + rewrite Ep in H. destruct H as [H|H]; [subst; right; right; left; reflexivity | left; exact H].
    + auto.
    + rewrite Ek in H. destruct H.
Qed.

Lemma inv_start : forall s x rest, Inv s -> stack s = x :: rest ->
  ~ In x (completed s) -> ~ In x (started s) ->
  existsb (is_open (x :: started s) (completed s)) (pushed (completed s) x) = false ->
  Inv (s_start s x rest).
Proof.
  intros s x rest I Ek Hnc Hns He. destruct I as [Ist Ipd Icr Ind Ics Irs Iord Iopen Icov].
  assert (Hxn : In x ns) by (apply Ist; rewrite Ek; left; reflexivity).
  constructor; cbn [s_start stack pending started completed result]; try assumption.
  - intros y Hy. apply in_app_or in Hy. destruct Hy as [Hy|Hy].
    + apply in_rev in Hy. apply pushed_in in Hy. eapply dp_closed. exact (proj1 Hy).
    + apply Ist. rewrite Ek. exact Hy.
  - intros y Hy. right. apply Ics. exact Hy.
  - intros o Ho Hno. destruct (N.eq_dec o x) as [->|Hne].
    + exists (rev (pushed (completed s) x)), rest. split; [reflexivity|]. split; [|split].
      * intro H. apply in_rev in H. eapply no_open_pushed; [exact He|exact H|left; reflexivity].
      * intros d Hd. destruct (in_dec N.eq_dec d (completed s)) as [Hc|Hc]; [left; exact Hc|].
        right. apply -> in_rev. apply pushed_in. split; assumption.
      * intros y Hy. apply in_rev in Hy. apply pushed_in in Hy. apply dpath_one. exact (proj1 Hy).
    + destruct Ho as [Ho|Ho]; [congruence|].
      destruct (Iopen o Ho Hno) as [above [below [Hk [Hna [Hd Hp]]]]].
      rewrite Ek in Hk.
      destruct (head_split _ _ _ _ _ Hk) as [above' [Ha Hr]]; [congruence|].
      exists (rev (pushed (completed s) x) ++ above), below. split; [|split; [|split]].
      * rewrite Hk. rewrite <- app_assoc. reflexivity.
      * intro H. apply in_app_or in H. destruct H as [H|H]; [|tauto].
        apply in_rev in H. eapply no_open_pushed; [exact He|exact H|right; exact Ho].
      * intros d Hdd. destruct (Hd d Hdd) as [H|H]; [left; exact H | right; apply in_or_app; right; exact H].
      * intros y Hy. apply in_app_or in Hy. destruct Hy as [Hy|Hy]; [|apply Hp; exact Hy].
        apply in_rev in Hy. apply pushed_in in Hy.
        eapply dpath_snoc; [apply Hp; rewrite Ha; left; reflexivity | exact (proj1 Hy)].
  - intros n Hn. destruct (Icov n Hn) as [H|[H|H]]; [auto|auto|].
    right. right. apply in_or_app. right. rewrite <- Ek. exact H.
Qed.

(* a raise of ValueError exhibits a cycle *)
Lemma raise_cycle : forall s x rest, Inv s -> stack s = x :: rest ->
  ~ In x (started s) ->
  existsb (is_open (x :: started s) (completed s)) (pushed (completed s) x) = true ->
  exists n, dpath j n n.
Proof.
  intros s x rest I Ek Hns He. destruct I as [Ist Ipd Icr Ind Ics Irs Iord Iopen Icov].
  apply existsb_exists in He. destruct He as [d [Hd Ho]].
  apply is_open_true in Ho. destruct Ho as [Hs Hc].
  apply pushed_in in Hd. destruct Hd as [Hd _].
  destruct Hs as [Hs|Hs].
  - subst d. exists x. apply dpath_one. exact Hd.
  - destruct (Iopen d Hs Hc) as [above [below [Hk [Hna [_ Hp]]]]].
    rewrite Ek in Hk.
    destruct (head_split _ _ _ _ _ Hk) as [above' [Ha Hr]]; [intro; subst; tauto|].
    exists d. eapply dpath_snoc; [apply Hp; rewrite Ha; left; reflexivity | exact Hd].
Qed.

Lemma step_inv : forall s s', Inv s -> step g s = Ok (inl s') -> Inv s'.
Proof.
  intros s s' I H. pose proof (step_cases s (inv_stack s I)) as Hc. rewrite H in Hc.
  inversion Hc; subst.
  - eapply inv_outer; eassumption.
  - eapply inv_pop; eassumption.
  - eapply inv_complete; eassumption.
  - eapply inv_start; eassumption.
Qed.

Lemma step_raise : forall s e, Inv s -> step g s = Raise e -> e = ValueError /\ exists n, dpath j n n.
Proof.
  intros s e I H. pose proof (step_cases s (inv_stack s I)) as Hc. rewrite H in Hc.
  inversion Hc; subst. split; [reflexivity|]. eapply raise_cycle; eassumption.
Qed.


(* ---- termination: a potential that every step decreases *)
Definition Wl (l st : list name) : nat :=
  list_sum (map (fun n => if mem n st then 0 else 1 + length (dp n)) l).
Definition Ul (l c : list name) : nat := length (filter (fun n => negb (mem n c)) l).
Definition phi (s : tstate) : nat :=
  length (stack s) + 2 * length (pending s) + Wl ns (started s) + Ul ns (completed s).

Lemma Wl_mono : forall l x st, Wl l (x :: st) <= Wl l st.
Proof.
  unfold Wl. induction l as [|n l IH]; intros x st; simpl; [lia|].
  specialize (IH x st). simpl in IH. destruct (N.eqb n x); simpl; destruct (mem n st); lia.
Qed.

Lemma Wl_dec : forall l x st, In x l -> mem x st = false ->
  Wl l (x :: st) + 1 + length (dp x) <= Wl l st.
Proof.
  induction l as [|n l IH]; intros x st Hin Hm; [destruct Hin|].
  pose proof (Wl_mono l x st) as Hmono. unfold Wl in *. simpl. simpl in Hmono.
  destruct (N.eqb_spec n x) as [->|Hne].
  - simpl. rewrite Hm. lia.
  - destruct Hin as [Hin|Hin]; [congruence|].
    specialize (IH x st Hin Hm). simpl in IH. simpl. destruct (mem n st); lia.
Qed.

Lemma Ul_mono : forall l x c, Ul l (x :: c) <= Ul l c.
Proof.
  unfold Ul. induction l as [|n l IH]; intros x c; simpl; [lia|].
  specialize (IH x c). simpl in IH. destruct (N.eqb n x); simpl; destruct (mem n c); simpl; lia.
Qed.

Lemma Ul_dec : forall l x c, In x l -> mem x c = false -> Ul l (x :: c) + 1 <= Ul l c.
Proof.
  induction l as [|n l IH]; intros x c Hin Hm; [destruct Hin|].
  pose proof (Ul_mono l x c) as Hmono. unfold Ul in *. simpl. simpl in Hmono.
  destruct (N.eqb_spec n x) as [->|Hne].
  - simpl. rewrite Hm. simpl. lia.
  - destruct Hin as [Hin|Hin]; [congruence|].
    specialize (IH x c Hin Hm). simpl in IH. simpl. destruct (mem n c); simpl; lia.
Qed.

Lemma phi_dec : forall s s', Inv s -> step g s = Ok (inl s') -> phi s' < phi s.
Proof.
  intros s s' I H. pose proof (step_cases s (inv_stack s I)) as Hc. rewrite H in Hc.
  inversion Hc as [| n p Ek Ep | x rest Ek Hx | x rest Ek Hnc Hs | x rest Ek Hnc Hns He |]; subst;
    unfold phi; cbn [s_outer s_pop s_complete s_start stack pending started completed result].
  - rewrite Ek, Ep. simpl. lia.
  - rewrite Ek. simpl. lia.
  - assert (Hxn : In x ns) by (apply (inv_stack s I); rewrite Ek; left; reflexivity).
    pose proof (Ul_dec ns x (completed s) Hxn (proj2 (mem_nIn _ _) Hnc)). lia.
  - assert (Hxn : In x ns) by (apply (inv_stack s I); rewrite Ek; left; reflexivity).
    pose proof (Wl_dec ns x (started s) Hxn (proj2 (mem_nIn _ _) Hns)).
    pose proof (pushed_length (completed s) x).
    rewrite Ek, app_length, rev_length. simpl. lia.
Qed.

Lemma run_fuel : forall f s, Inv s -> phi s < f -> run g f s <> Raise RuntimeError.
Proof.
  induction f as [|f IH]; intros s I Hf; [lia|]. cbn [run].
  destruct (step g s) as [[s'|r]|e] eqn:E.
  - apply IH; [eapply step_inv; eassumption|]. pose proof (phi_dec s s' I E). lia.
  - discriminate.
  - destruct (step_raise s e I E) as [-> _]. discriminate.
Qed.

Lemma run_raise : forall f s e, Inv s -> run g f s = Raise e ->
  e = RuntimeError \/ (e = ValueError /\ exists n, dpath j n n).
Proof.
  induction f as [|f IH]; intros s e I H; cbn [run] in H.
  - left. congruence.
  - destruct (step g s) as [[s'|r]|e'] eqn:E.
    + eapply IH; [eapply step_inv; eassumption | exact H].
    + discriminate.
    + right. inversion H; subst. eapply step_raise; eassumption.
Qed.

Lemma run_ok : forall f s l, Inv s -> run g f s = Ok l ->
  Permutation l ns /\ forall n d, In d (dp n) -> before d n l.
Proof.
  induction f as [|f IH]; intros s l I H; cbn [run] in H; [discriminate|].
  destruct (step g s) as [[s'|r]|e'] eqn:E.
  - eapply IH; [eapply step_inv; eassumption | exact H].
  - inversion H; subst r. clear H.
    pose proof (step_cases s (inv_stack s I)) as Hc. rewrite E in Hc.
    inversion Hc as [Ek Ep Hr | | | | |]. clear Hc.
    destruct I as [Ist Ipd Icr Ind Ics Irs Iord Iopen Icov].
    assert (Hall : forall n, In n ns -> In n (result s)).
    { intros n Hn. destruct (Icov n Hn) as [Hp|[Hp|Hp]].
      - rewrite Ep in Hp. destruct Hp.
      - rewrite Icr in Hp. apply in_rev in Hp. exact Hp.
      - rewrite Ek in Hp. destruct Hp. }
    split.
    + apply NoDup_Permutation; [exact Ind | exact ns_nodup |].
      intro x. split; [apply Irs | apply Hall].
    + intros n d Hd. apply Iord; [|exact Hd]. apply Hall. eapply depends_in_names. exact Hd.
  - discriminate.
Qed.

(* ---- an order in which every dependency comes first exists only on acyclic Jobs *)
Lemma split_unique : forall (b : name) l1 l2 p q,
  NoDup (l1 ++ b :: l2) -> l1 ++ b :: l2 = p ++ b :: q -> l1 = p.
Proof.
  induction l1 as [|a l1 IH]; intros l2 p q Hnd Heq.
  - destruct p as [|b' p']; [reflexivity|]. simpl in Heq. inversion Heq; subst.
    inversion Hnd as [|? ? Hn _]; subst. exfalso. apply Hn. apply in_or_app. right. left. reflexivity.
  - destruct p as [|a' p'].
    + simpl in Heq. inversion Heq; subst.
      inversion Hnd as [|? ? Hn _]; subst. exfalso. apply Hn. apply in_or_app. right. left. reflexivity.
    + simpl in Heq. inversion Heq; subst. f_equal.
      inversion Hnd; subst. eapply IH; eassumption.
Qed.

Lemma before_trans : forall a b c l, NoDup l -> before a b l -> before b c l -> before a c l.
Proof.
  intros a b c l Hnd [l1 [l2 [E1 Ha]]] [m1 [m2 [E2 Hb]]].
  apply in_split in Hb. destruct Hb as [p [q Hm]]. subst m1.
  rewrite <- app_assoc in E2. simpl in E2.
  assert (l1 = p).
  { rewrite E1 in Hnd. eapply split_unique; [exact Hnd|]. rewrite <- E1. exact E2. }
  subst p. exists (l1 ++ b :: q), m2. split.
  - rewrite <- app_assoc. exact E2.
  - apply in_or_app. left. exact Ha.
Qed.

Lemma before_irrefl : forall a l, NoDup l -> ~ before a a l.
Proof.
  intros a l Hnd [l1 [l2 [E Ha]]]. subst l. apply NoDup_remove_2 in Hnd.
  apply Hnd. apply in_or_app. left. exact Ha.
Qed.

Lemma order_acyclic : forall l, NoDup l -> (forall n d, In d (dp n) -> before d n l) -> acyclic j.
Proof.
  intros l Hnd Hord.
  assert (Hp : forall n m, dpath j n m -> before m n l).
  { intros n m H. induction H as [a b Hab|a b c Hab Hbc IH].
    - apply Hord. exact Hab.
    - eapply before_trans; [exact Hnd | exact IH | apply Hord; exact Hab]. }
  intros n H. apply Hp in H. eapply before_irrefl; eassumption.
Qed.

(* ---- topo on the constructed graph *)
Lemma Wl_nil : forall l, Wl l [] = length l + list_sum (map (fun n => length (dp n)) l).
Proof. unfold Wl. induction l as [|n l IH]; simpl; [reflexivity|]. simpl in IH. rewrite IH. lia. Qed.

Lemma Ul_nil : forall l, Ul l [] = length l.
Proof. unfold Ul. induction l as [|n l IH]; [reflexivity|]. cbn [filter mem negb length]. f_equal. exact IH. Qed.

Lemma total_in_edges_g : total_in_edges g = list_sum (map (fun n => length (dp n)) ns).
Proof.
  unfold total_in_edges, graph_of. rewrite map_map. f_equal. apply map_ext. intro n. simpl.
  rewrite filter_to_all_edges_pairs. apply map_length.
Qed.

Lemma phi_init : phi (init_state g) < fuel_bound g.
Proof.
  unfold phi, fuel_bound, init_state. cbn [stack pending started completed].
  rewrite graph_of_names, Wl_nil, Ul_nil, total_in_edges_g.
  unfold graph_of. rewrite map_length. simpl. lia.
Qed.

Lemma topo_fuel : topo g <> Raise RuntimeError.
Proof. unfold topo. apply run_fuel; [apply inv_init | apply phi_init]. Qed.

Lemma topo_ok : forall l, topo g = Ok l ->
  Permutation l ns /\ forall n d, In d (dp n) -> before d n l.
Proof. intros l H. eapply run_ok; [apply inv_init | exact H]. Qed.

Lemma topo_ok_acyclic : forall l, topo g = Ok l -> acyclic j.
Proof.
  intros l H. destruct (topo_ok l H) as [Hp Ho].
  apply (order_acyclic l); [|exact Ho].
  apply (Permutation_NoDup (Permutation_sym Hp)). exact ns_nodup.
Qed.

Lemma topo_dichotomy :
  (exists l, topo g = Ok l) \/ (topo g = Raise ValueError /\ exists n, dpath j n n).
Proof.
  destruct (topo g) as [l|e] eqn:E; [left; eauto|]. right.
  destruct (run_raise _ _ _ inv_init E) as [->|[-> Hc]].
  - exfalso. apply topo_fuel. exact E.
  - auto.
Qed.

Lemma topo_valid : acyclic j ->
  exists l, topo g = Ok l /\ Permutation l ns /\ forall n d, In d (dp n) -> before d n l.
Proof.
  intro Ha. destruct topo_dichotomy as [[l Hl]|[_ [n Hn]]].
  - exists l. split; [exact Hl|]. apply topo_ok. exact Hl.
  - exfalso. exact (Ha n Hn).
Qed.

Lemma topo_cyclic : ~ acyclic j -> topo g = Raise ValueError.
Proof.
  intro Hna. destruct topo_dichotomy as [[l Hl]|[H _]]; [|exact H].
  exfalso. apply Hna. eapply topo_ok_acyclic. exact Hl.
Qed.


(* ------------------------------------------------------------------ stability *)
(* ---- spec-side facts about visit *)
Lemma fold_prefix_gen : forall (F : list name -> name -> list name),
  (forall R x, exists t, F R x = R ++ t) -> forall l R, exists t, fold_left F l R = R ++ t.
Proof.
  intros F HF. induction l as [|a l IH]; intros R; simpl.
  - exists []. rewrite app_nil_r. reflexivity.
  - destruct (HF R a) as [t1 E1]. destruct (IH (F R a)) as [t2 E2].
    exists (t1 ++ t2). rewrite E2, E1, app_assoc. reflexivity.
Qed.

Lemma visit_prefix : forall f R x, exists t, visit j f R x = R ++ t.
Proof.
  induction f as [|f IH]; intros R x; simpl.
  - exists []. rewrite app_nil_r. reflexivity.
  - destruct (mem x R).
    + exists []. rewrite app_nil_r. reflexivity.
    + destruct (fold_prefix_gen (visit j f) IH (filter (fun m => mem m (dp x)) ns) R) as [t E].
      exists (t ++ [x]). rewrite E, app_assoc. reflexivity.
Qed.

Lemma visit_incl : forall f R x y, In y R -> In y (visit j f R x).
Proof. intros f R x y H. destruct (visit_prefix f R x) as [t E]. rewrite E. apply in_or_app. left. exact H. Qed.

Lemma visit_placed : forall f R x, In x R -> visit j f R x = R.
Proof. intros f R x H. destruct f; simpl; [reflexivity|]. rewrite (proj2 (mem_In _ _) H). reflexivity. Qed.

Lemma visit_in : forall f R x, In x (visit j (S f) R x).
Proof.
  intros f R x. simpl. destruct (mem x R) eqn:E.
  - apply mem_In. exact E.
  - apply in_or_app. right. left. reflexivity.
Qed.

Lemma fold_visit_0 : forall l R, fold_left (visit j 0) l R = R.
Proof. induction l as [|a l IH]; intros R; simpl; [reflexivity|apply IH]. Qed.

Lemma fold_skip_placed : forall f p l R,
  (forall y, In y l -> p y = false -> In y R) ->
  fold_left (visit j f) (filter p l) R = fold_left (visit j f) l R.
Proof.
  intros f p. induction l as [|a l IH]; intros R H; simpl; [reflexivity|].
  destruct (p a) eqn:Ep; simpl.
  - apply IH. intros y Hy Hp. apply visit_incl. apply H; [right; exact Hy | exact Hp].
  - rewrite (visit_placed f R a) by (apply H; [left; reflexivity | exact Ep]).
    apply IH. intros y Hy Hp. apply H; [right; exact Hy | exact Hp].
Qed.

(* ---- the sort, on names *)
Fixpoint insert_n (l0 : list name) (x : name) (l : list name) : list name :=
  match l with
  | [] => [x]
  | y :: t => if Nat.ltb (idx l0 x) (idx l0 y) then y :: insert_n l0 x t else x :: l
  end.
Definition sorted_n (l0 l : list name) : list name := fold_right (insert_n l0) [] l.

Lemma insert_desc_kf : forall l0 x l,
  insert_desc (kf l0 x) (map (kf l0) l) = map (kf l0) (insert_n l0 x l).
Proof.
  intros l0 x. induction l as [|y t IH]; simpl; [reflexivity|].
  destruct (Nat.ltb (idx l0 x) (idx l0 y)); simpl; [rewrite IH|]; reflexivity.
Qed.

Lemma sorted_desc_kf : forall l0 l, sorted_desc (map (kf l0) l) = map (kf l0) (sorted_n l0 l).
Proof.
  intros l0. induction l as [|x t IH]; [reflexivity|].
  cbn [map sorted_desc sorted_n fold_right]. fold (sorted_desc (map (kf l0) t)). fold (sorted_n l0 t).
  rewrite IH. apply insert_desc_kf.
Qed.

Lemma pushed_sorted_n : forall C x,
  pushed C x = sorted_n ns (filter (fun d => negb (mem d C)) (dp x)).
Proof. intros C x. unfold pushed. rewrite sorted_desc_kf. apply map_snd_kf. Qed.

Lemma insert_n_in : forall l0 x l y, In y (insert_n l0 x l) <-> y = x \/ In y l.
Proof.
  intros l0 x. induction l as [|z t IH]; intros y; simpl.
  - split; [intros [H|[]]; auto | intros [H|[]]; auto].
  - destruct (Nat.ltb (idx l0 x) (idx l0 z)); simpl; [rewrite IH|]; split; intros H; intuition auto.
Qed.

Lemma insert_n_sorted : forall l0 x l,
  StronglySorted (fun a b => idx l0 b <= idx l0 a) l ->
  StronglySorted (fun a b => idx l0 b <= idx l0 a) (insert_n l0 x l).
Proof.
  intros l0 x. induction l as [|y t IH]; intros Hs; simpl.
  - constructor; constructor.
  - inversion Hs as [|? ? Hst Hf]; subst.
    destruct (Nat.ltb_spec (idx l0 x) (idx l0 y)) as [Hlt|Hge].
    + constructor; [apply IH; exact Hst|].
      apply Forall_forall. intros z Hz. apply insert_n_in in Hz. destruct Hz as [->|Hz]; [lia|].
      rewrite Forall_forall in Hf. apply Hf. exact Hz.
    + constructor; [exact Hs|]. constructor; [exact Hge|].
      rewrite Forall_forall in *. intros z Hz. specialize (Hf z Hz). lia.
Qed.

Lemma sorted_n_sorted : forall l0 l, StronglySorted (fun a b => idx l0 b <= idx l0 a) (sorted_n l0 l).
Proof.
  intros l0. induction l as [|x t IH]; simpl; [constructor|]. apply insert_n_sorted. exact IH.
Qed.

Lemma SS_app : forall (R : name -> name -> Prop) l1 l2,
  StronglySorted R l1 -> StronglySorted R l2 ->
  (forall a b, In a l1 -> In b l2 -> R a b) -> StronglySorted R (l1 ++ l2).
Proof.
  intros R. induction l1 as [|x t IH]; intros l2 H1 H2 H; simpl; [exact H2|].
  inversion H1 as [|? ? Hst Hf]; subst. constructor.
  - apply IH; [exact Hst|exact H2|]. intros a b Ha Hb. apply H; [right; exact Ha|exact Hb].
  - apply Forall_forall. intros z Hz. apply in_app_or in Hz. destruct Hz as [Hz|Hz].
    + rewrite Forall_forall in Hf. apply Hf. exact Hz.
    + apply H; [left; reflexivity | exact Hz].
Qed.

Lemma SS_rev : forall (R : name -> name -> Prop) l,
  StronglySorted R l -> StronglySorted (fun a b => R b a) (rev l).
Proof.
  intros R. induction l as [|x t IH]; intros H; simpl; [constructor|].
  inversion H as [|? ? Hst Hf]; subst. apply SS_app.
  - apply IH. exact Hst.
  - constructor; constructor.
  - intros a b Ha [Hb|[]]. subst b. apply in_rev in Ha. rewrite Forall_forall in Hf. apply Hf. exact Ha.
Qed.

Lemma SS_filter : forall (R : name -> name -> Prop) p l,
  StronglySorted R l -> StronglySorted R (filter p l).
Proof.
  intros R p. induction l as [|x t IH]; intros H; simpl; [constructor|].
  inversion H as [|? ? Hst Hf]; subst. destruct (p x).
  - constructor; [apply IH; exact Hst|]. apply Forall_forall. intros z Hz.
    apply filter_In in Hz. rewrite Forall_forall in Hf. apply Hf. exact (proj1 Hz).
  - apply IH. exact Hst.
Qed.

Lemma SS_impl_in : forall (R R' : name -> name -> Prop) l,
  (forall a b, In a l -> In b l -> R a b -> R' a b) -> StronglySorted R l -> StronglySorted R' l.
Proof.
  intros R R'. induction l as [|x t IH]; intros H Hs; [constructor|].
  inversion Hs as [|? ? Hst Hf]; subst. constructor.
  - apply IH; [|exact Hst]. intros a b Ha Hb. apply H; right; assumption.
  - rewrite Forall_forall in *. intros z Hz. apply H; [left; reflexivity | right; exact Hz | apply Hf; exact Hz].
Qed.

Lemma SS_unique : forall (R : name -> name -> Prop),
  (forall a b, R a b -> R b a -> False) ->
  forall l1 l2, StronglySorted R l1 -> StronglySorted R l2 ->
  (forall x, In x l1 <-> In x l2) -> l1 = l2.
Proof.
  intros R Hasym. induction l1 as [|a l1 IH]; intros l2 H1 H2 Heq.
  - destruct l2 as [|b l2]; [reflexivity|]. exfalso. apply (proj2 (Heq b)). left. reflexivity.
  - destruct l2 as [|b l2]; [exfalso; apply (proj1 (Heq a)); left; reflexivity|].
    inversion H1 as [|? ? Hs1 Hf1]; subst. inversion H2 as [|? ? Hs2 Hf2]; subst.
    rewrite Forall_forall in Hf1, Hf2.
    assert (Hab : a = b).
    { destruct (proj1 (Heq a) (or_introl eq_refl)) as [E|Ha]; [auto|].
      destruct (proj2 (Heq b) (or_introl eq_refl)) as [E|Hb]; [auto|].
      exfalso. exact (Hasym a b (Hf1 b Hb) (Hf2 a Ha)). }
    subst b. f_equal. apply IH; [exact Hs1|exact Hs2|].
    intro x. split; intro Hx.
    + destruct (proj1 (Heq x) (or_intror Hx)) as [E|H]; [|exact H].
      subst x. exfalso. exact (Hasym a a (Hf1 a Hx) (Hf1 a Hx)).
    + destruct (proj2 (Heq x) (or_intror Hx)) as [E|H]; [|exact H].
      subst x. exfalso. exact (Hasym a a (Hf2 a Hx) (Hf2 a Hx)).
Qed.

Lemma idx_head : forall a t, idx (a :: t) a = 0.
Proof. intros. unfold idx. simpl. rewrite N.eqb_refl. reflexivity. Qed.

Lemma idx_tail : forall a t y, y <> a -> In y t -> idx (a :: t) y = S (idx t y).
Proof.
  intros a t y Hne Hin. unfold idx at 1. simpl.
  destruct (N.eqb_spec a y) as [E|_]; [congruence|].
  rewrite (index_of_in t y Hin). reflexivity.
Qed.

Lemma idx_inj : forall l a b, NoDup l -> In a l -> In b l -> idx l a = idx l b -> a = b.
Proof.
  induction l as [|c t IH]; intros a b Hnd Ha Hb E; [destruct Ha|].
  inversion Hnd as [|? ? Hc Ht]; subst.
  destruct (N.eq_dec a c) as [->|Hac]; destruct (N.eq_dec b c) as [->|Hbc]; [reflexivity| | |].
  - destruct Hb as [Hb|Hb]; [congruence|]. rewrite idx_head, idx_tail in E by assumption. discriminate.
  - destruct Ha as [Ha|Ha]; [congruence|]. rewrite idx_head, idx_tail in E by assumption. discriminate.
  - destruct Ha as [Ha|Ha]; [congruence|]. destruct Hb as [Hb|Hb]; [congruence|].
    rewrite !idx_tail in E by assumption. apply IH; auto.
Qed.

Lemma idx_sorted : forall l, NoDup l -> StronglySorted (fun a b => idx l a < idx l b) l.
Proof.
  induction l as [|c t IH]; intros Hnd; [constructor|].
  inversion Hnd as [|? ? Hc Ht]; subst. constructor.
  - apply (SS_impl_in (fun a b => idx t a < idx t b)); [|apply IH; exact Ht].
    intros a b Ha Hb Hlt.
    rewrite !idx_tail; [lia| | | |]; try assumption; intro; subst; tauto.
  - apply Forall_forall. intros z Hz. rewrite idx_head, idx_tail; [lia| |exact Hz]. intro; subst; tauto.
Qed.

(* first occurrences only *)
Fixpoint dd (l : list name) : list name :=
  match l with [] => [] | a :: t => a :: filter (fun y => negb (N.eqb y a)) (dd t) end.

Lemma dd_in : forall l x, In x (dd l) <-> In x l.
Proof.
  induction l as [|a t IH]; intros x; simpl; [tauto|].
  rewrite filter_In, IH, negb_true_iff, N.eqb_neq. split.
  - intros [H|[H _]]; auto.
  - intros [H|H]; [auto|]. destruct (N.eq_dec x a); [auto|right; auto].
Qed.

Lemma dd_sorted : forall l, incl l ns ->
  StronglySorted (fun a b => idx ns a <= idx ns b) l ->
  StronglySorted (fun a b => idx ns a < idx ns b) (dd l).
Proof.
  induction l as [|a t IH]; intros Hin Hs; simpl; [constructor|].
  inversion Hs as [|? ? Hst Hf]; subst. constructor.
  - apply SS_filter. apply IH; [|exact Hst]. intros y Hy. apply Hin. right. exact Hy.
  - apply Forall_forall. intros z Hz. apply filter_In in Hz. destruct Hz as [Hz Hne].
    apply (proj1 (dd_in _ _)) in Hz. apply negb_true_iff in Hne. apply N.eqb_neq in Hne.
    rewrite Forall_forall in Hf. specialize (Hf z Hz).
    assert (idx ns a <> idx ns z); [|lia].
    intro E. apply Hne. symmetry. apply (idx_inj ns); [exact ns_nodup | | | exact E].
    + apply Hin. left. reflexivity.
    + apply Hin. right. exact Hz.
Qed.

Lemma dd_fold : forall f l R, fold_left (visit j f) (dd l) R = fold_left (visit j f) l R.
Proof.
  intros [|f].
  - intros. rewrite !fold_visit_0. reflexivity.
  - induction l as [|a t IH]; intros R; cbn [dd fold_left]; [reflexivity|].
    rewrite fold_skip_placed; [apply IH|].
    intros y _ Hy. apply negb_false_iff, N.eqb_eq in Hy. subst y. apply visit_in.
Qed.

Lemma filter_filter : forall (p q : name -> bool) l,
  filter p (filter q l) = filter (fun x => q x && p x) l.
Proof.
  intros p q. induction l as [|a t IH]; simpl; [reflexivity|].
  destruct (q a); simpl; [destruct (p a); simpl; rewrite IH; reflexivity | exact IH].
Qed.

(* visiting the pushed dependencies = visiting the dependencies in template order *)
Lemma fold_pushed : forall f C R x, (forall d, In d C <-> In d R) ->
  fold_left (visit j f) (rev (pushed C x)) R
  = fold_left (visit j f) (filter (fun m => mem m (dp x)) ns) R.
Proof.
  intros f C R x HCR.
  rewrite <- (fold_skip_placed f (fun m => negb (mem m C)) (filter (fun m => mem m (dp x)) ns) R).
  2:{ intros y _ Hy. apply negb_false_iff, mem_In in Hy. apply HCR. exact Hy. }
  rewrite filter_filter. rewrite <- dd_fold. f_equal.
  apply (SS_unique (fun a b => idx ns a < idx ns b)); [intros; lia | | |].
  - apply dd_sorted.
    + intros y Hy. apply in_rev in Hy. apply pushed_in in Hy. eapply dp_closed. exact (proj1 Hy).
    + rewrite pushed_sorted_n.
      apply (SS_rev (fun a b => idx ns b <= idx ns a)). apply sorted_n_sorted.
  - apply SS_filter. apply idx_sorted. exact ns_nodup.
  - intro y. rewrite dd_in, <- in_rev, pushed_in, filter_In, andb_true_iff, negb_true_iff, mem_In, mem_nIn.
    split; [|tauto]. intros [H1 H2]. split; [|tauto]. eapply dp_closed. exact H1.
Qed.


(* ---- big steps of the loop *)
Inductive reach : tstate -> tstate -> Prop :=
| reach_refl : forall s, reach s s
| reach_step : forall s s1 s2, step g s = Ok (inl s1) -> reach s1 s2 -> reach s s2.

Lemma reach_trans : forall a b c, reach a b -> reach b c -> reach a c.
Proof. intros a b c H. induction H; intro Hc; [exact Hc|]. eapply reach_step; [eassumption|auto]. Qed.

Lemma reach_one : forall s s1, step g s = Ok (inl s1) -> reach s s1.
Proof. intros. eapply reach_step; [eassumption|apply reach_refl]. Qed.

Lemma reach_inv : forall a b, reach a b -> Inv a -> Inv b.
Proof. intros a b H. induction H; intro I; [exact I|]. apply IHreach. eapply step_inv; eassumption. Qed.

Lemma reach_run : forall a b, reach a b -> forall f l, run g f a = Ok l -> exists f', run g f' b = Ok l.
Proof.
  intros a b H. induction H as [s|s s1 s2 Hs Hr IH]; intros f l Hrun; [eauto|].
  destruct f as [|f]; [discriminate|]. cbn [run] in Hrun. rewrite Hs in Hrun. eapply IH. exact Hrun.
Qed.

Lemma step_pop : forall s x rest, stack s = x :: rest -> In x (completed s) ->
  step g s = Ok (inl (s_pop s rest)).
Proof.
  intros s x rest Ek Hc. unfold step. rewrite Ek. rewrite (proj2 (mem_In _ _) Hc). reflexivity.
Qed.

Lemma step_complete : forall s x rest, stack s = x :: rest -> ~ In x (completed s) -> In x (started s) ->
  step g s = Ok (inl (s_complete s x)).
Proof.
  intros s x rest Ek Hc Hs. unfold step. rewrite Ek.
  rewrite (proj2 (mem_nIn _ _) Hc), (proj2 (mem_In _ _) Hs). unfold s_complete. rewrite Ek. reflexivity.
Qed.

Lemma step_start : forall s x rest, incl (stack s) ns -> stack s = x :: rest ->
  ~ In x (completed s) -> ~ In x (started s) ->
  existsb (is_open (x :: started s) (completed s)) (pushed (completed s) x) = false ->
  step g s = Ok (inl (s_start s x rest)).
Proof.
  intros s x rest Hst Ek Hc Hs He. pose proof (step_cases s Hst) as Hcase.
  remember (step g s) as r eqn:Er. clear Er.
  destruct Hcase as [Ek' Ep' | n p Ek' Ep' | x' rest' Ek' Hx' | x' rest' Ek' Hnc' Hs'
                    | x' rest' Ek' Hnc' Hns' He' | x' rest' Ek' Hnc' Hns' He'];
    rewrite Ek in Ek'; try discriminate; inversion Ek'; subst x' rest'.
  - tauto.
  - tauto.
  - reflexivity.
  - congruence.
Qed.

Definition same_open (a b : tstate) : Prop :=
  forall n, (In n (started a) /\ ~ In n (completed a)) <-> (In n (started b) /\ ~ In n (completed b)).

Lemma Ul_incl : forall l c c', incl c c' -> Ul l c' <= Ul l c.
Proof.
  unfold Ul. induction l as [|n l IH]; intros c c' H; simpl; [lia|].
  specialize (IH c c' H). destruct (mem n c) eqn:E.
  - rewrite (proj2 (mem_In _ _) (H n (proj1 (mem_In _ _) E))). simpl. exact IH.
  - destruct (mem n c'); simpl; lia.
Qed.

Lemma Ul_zero : forall l c, Ul l c = 0 -> forall n, In n l -> In n c.
Proof.
  unfold Ul. induction l as [|a l IH]; intros c H n Hn; [destruct Hn|]. simpl in H.
  destruct (mem a c) eqn:E; simpl in H; [|discriminate].
  destruct Hn as [->|Hn]; [apply mem_In; exact E | apply IH; assumption].
Qed.

Lemma Ul_le_length : forall l c, Ul l c <= length l.
Proof. intros. unfold Ul. apply filter_length. Qed.

Definition visit_run_stmt (f : nat) : Prop :=
  forall s x rest, Inv s -> stack s = x :: rest ->
    (In x (started s) -> In x (completed s)) -> Ul ns (started s) <= f ->
    exists s', reach s s' /\ stack s' = rest /\ pending s' = pending s /\
      result s' = visit j f (result s) x /\ same_open s s' /\ incl (started s) (started s').

Lemma fold_run : forall f, visit_run_stmt f ->
  forall l s x rest, Inv s -> stack s = l ++ x :: rest ->
    (forall y, In y l -> In y (started s) -> In y (completed s)) -> Ul ns (started s) <= f ->
    exists s', reach s s' /\ stack s' = x :: rest /\ pending s' = pending s /\
      result s' = fold_left (visit j f) l (result s) /\ same_open s s' /\ incl (started s) (started s').
Proof.
  intros f Hv. induction l as [|y l IH]; intros s x rest I Ek Hno Hf.
  - exists s. split; [apply reach_refl|]. split; [exact Ek|]. split; [reflexivity|].
    split; [reflexivity|]. split; [intro; tauto|apply incl_refl].
  - destruct (Hv s y (l ++ x :: rest) I Ek (Hno y (or_introl eq_refl)) Hf)
      as [s1 [Hr1 [Ek1 [Ep1 [Er1 [Ho1 Hi1]]]]]].
    assert (I1 : Inv s1) by (eapply reach_inv; eassumption).
    destruct (IH s1 x rest I1 Ek1) as [s2 [Hr2 [Ek2 [Ep2 [Er2 [Ho2 Hi2]]]]]].
    + intros z Hz Hs1. destruct (in_dec N.eq_dec z (completed s1)) as [Hc|Hc]; [exact Hc|].
      exfalso. destruct (proj2 (Ho1 z) (conj Hs1 Hc)) as [Hs Hnc].
      apply Hnc. apply Hno; [right; exact Hz | exact Hs].
    + pose proof (Ul_incl ns _ _ Hi1). lia.
    + exists s2. split; [eapply reach_trans; eassumption|]. split; [exact Ek2|].
      split; [congruence|]. split; [rewrite Er2, Er1; reflexivity|].
      split; [intro n; rewrite (Ho1 n); apply Ho2 | eapply incl_tran; eassumption].
Qed.

Lemma visit_run : acyclic j -> forall f, visit_run_stmt f.
Proof.
  intros Hac. induction f as [|f IH]; intros s x rest I Ek Hno Hf.
  - (* everything has been started, so [x] is completed *)
    assert (Hx : In x (completed s)).
    { apply Hno. apply (Ul_zero ns); [lia|]. apply (inv_stack s I). rewrite Ek. left. reflexivity. }
    exists (s_pop s rest). split; [apply reach_one; eapply step_pop; eassumption|].
    cbn [s_pop stack pending started completed result visit].
    repeat split; auto; try tauto. apply incl_refl.
  - destruct (in_dec N.eq_dec x (completed s)) as [Hx|Hx].
    + exists (s_pop s rest). split; [apply reach_one; eapply step_pop; eassumption|].
      cbn [s_pop stack pending started completed result].
      split; [reflexivity|]. split; [reflexivity|]. split.
      { symmetry. apply visit_placed. rewrite (inv_cr s I) in Hx. apply in_rev in Hx. exact Hx. }
      split; [intro; tauto | apply incl_refl].
    + assert (Hxs : ~ In x (started s)) by tauto.
      assert (Hxn : In x ns) by (apply (inv_stack s I); rewrite Ek; left; reflexivity).
      destruct (existsb (is_open (x :: started s) (completed s)) (pushed (completed s) x)) eqn:He.
      { exfalso. destruct (raise_cycle s x rest I Ek Hxs He) as [n Hn]. exact (Hac n Hn). }
      pose proof (step_start s x rest (inv_stack s I) Ek Hx Hxs He) as Hst1.
      set (s1 := s_start s x rest) in *.
      assert (I1 : Inv s1) by (eapply step_inv; eassumption).
      destruct (fold_run f IH (rev (pushed (completed s) x)) s1 x rest I1 eq_refl)
        as [s2 [Hr2 [Ek2 [Ep2 [Er2 [Ho2 Hi2]]]]]].
      { intros y Hy Hys. exfalso. apply in_rev in Hy. exact (no_open_pushed _ _ _ _ He Hy Hys). }
      { cbn [s1 s_start started].
        pose proof (Ul_dec ns x (started s) Hxn (proj2 (mem_nIn _ _) Hxs)). lia. }
      assert (I2 : Inv s2) by (eapply reach_inv; eassumption).
      destruct (proj1 (Ho2 x)) as [Hx2s Hx2c].
      { cbn [s1 s_start started completed]. split; [left; reflexivity | exact Hx]. }
      pose proof (step_complete s2 x rest Ek2 Hx2c Hx2s) as Hst3.
      set (s3 := s_complete s2 x) in *.
      assert (Hst4 : step g s3 = Ok (inl (s_pop s3 rest))).
      { apply (step_pop s3 x rest); cbn [s3 s_complete stack completed]; [exact Ek2 | left; reflexivity]. }
      exists (s_pop s3 rest).
      split.
      { eapply reach_step; [exact Hst1|]. eapply reach_trans; [exact Hr2|].
        eapply reach_step; [exact Hst3|]. apply reach_one. exact Hst4. }
      cbn [s_pop s3 s_complete stack pending started completed result].
      split; [reflexivity|]. split; [exact Ep2|]. split.
      { rewrite Er2. cbn [s1 s_start result visit].
        assert (HxR : mem x (result s) = false).
        { apply mem_nIn. intro H. apply Hx. rewrite (inv_cr s I). apply -> in_rev. exact H. }
        rewrite HxR. f_equal. apply fold_pushed.
        intro d. rewrite (inv_cr s I). symmetry. apply in_rev. }
      split.
      { intro n. specialize (Ho2 n). unfold s1, s_start in Ho2. cbn [started completed] in Ho2.
        unfold s_pop, s3, s_complete. cbn [started completed]. split.
        - intros [Hn Hc]. destruct (proj1 Ho2 (conj (or_intror Hn) Hc)) as [A B].
          split; [exact A|]. intros [E|E]; [subst n; tauto | tauto].
        - intros [Hn Hc]. destruct (proj2 Ho2) as [A B].
          { split; [exact Hn|]. intro E. apply Hc. right. exact E. }
          destruct A as [A|A]; [|tauto]. subst n. exfalso. apply Hc. left. reflexivity. }
      { intros y Hy. apply Hi2. cbn [s1 s_start started]. right. exact Hy. }
Qed.

Lemma outer_run : acyclic j -> forall f P s, Inv s -> stack s = [] -> pending s = P ->
  length ns <= f ->
  exists s', reach s s' /\ stack s' = [] /\ pending s' = [] /\
    result s' = fold_left (visit j f) P (result s).
Proof.
  intros Hac f. induction P as [|n P IH]; intros s I Ek Ep Hf.
  - exists s. split; [apply reach_refl|]. auto.
  - assert (Hs1 : step g s = Ok (inl (s_outer s n P))).
    { unfold step. rewrite Ek, Ep. reflexivity. }
    set (s1 := s_outer s n P) in *.
    assert (I1 : Inv s1) by (eapply step_inv; eassumption).
    destruct (visit_run Hac f s1 n [] I1 eq_refl) as [s2 [Hr2 [Ek2 [Ep2 [Er2 [Ho2 Hi2]]]]]].
    + cbn [s1 s_outer started completed]. intro Hn.
      destruct (in_dec N.eq_dec n (completed s)) as [Hc|Hc]; [exact Hc|]. exfalso.
      destruct (inv_open s I n Hn Hc) as [above [below [Hk _]]]. rewrite Ek in Hk.
      eapply app_cons_not_nil. exact Hk.
    + pose proof (Ul_le_length ns (started s1)). lia.
    + assert (I2 : Inv s2) by (eapply reach_inv; eassumption).
      destruct (IH s2 I2 Ek2 Ep2 Hf) as [s3 [Hr3 [Ek3 [Ep3 Er3]]]].
      exists s3. split; [eapply reach_step; [exact Hs1|]; eapply reach_trans; eassumption|].
      split; [exact Ek3|]. split; [exact Ep3|]. rewrite Er3, Er2. reflexivity.
Qed.

Lemma topo_stable_fuel : acyclic j -> forall f, length ns <= f -> topo g = Ok (stable_order_fuel j f).
Proof.
  intros Hac f Hf. destruct (topo_valid Hac) as [l [Hl _]]. rewrite Hl. f_equal.
  destruct (outer_run Hac f ns (init_state g) inv_init) as [s' [Hr [Ek [Ep Er]]]].
  - reflexivity.
  - unfold init_state. cbn [pending]. apply graph_of_names.
  - exact Hf.
  - unfold topo in Hl. destruct (reach_run _ _ Hr _ _ Hl) as [f' Hrun].
    destruct f' as [|f']; [discriminate|]. cbn [run] in Hrun.
    unfold step in Hrun. rewrite Ek, Ep in Hrun. inversion Hrun; subst l.
    rewrite Er. reflexivity.
Qed.

End Topo.

(* ------------------------------------------------------------------ main theorems, on [build j] *)
Lemma build_inv : forall j g, well_named j -> build j = Ok g -> g = graph_of (names j) (all_edges j).
Proof. intros j g Hw H. rewrite (build_eq j Hw) in H. inversion H. reflexivity. Qed.

Theorem fuel_suffices : forall j g, well_named j -> build j = Ok g -> topo g <> Raise RuntimeError.
Proof. intros j g Hw Hb. rewrite (build_inv j g Hw Hb). apply topo_fuel. exact Hw. Qed.

Theorem topo_valid_order : forall j g, well_named j -> build j = Ok g -> acyclic j ->
  exists l, topo g = Ok l /\ Permutation l (names j) /\
    forall n d, In d (deps_of j n) -> before d n l.
Proof. intros j g Hw Hb Ha. rewrite (build_inv j g Hw Hb). apply topo_valid; assumption. Qed.

Theorem topo_stable_order : forall j g, well_named j -> build j = Ok g -> acyclic j ->
  topo g = Ok (stable_order j).
Proof.
  intros j g Hw Hb Ha. rewrite (build_inv j g Hw Hb). unfold stable_order.
  apply topo_stable_fuel; [exact Hw | exact Ha |]. unfold names. rewrite map_length. lia.
Qed.

Theorem topo_cyclic_raises : forall j g, well_named j -> build j = Ok g -> ~ acyclic j ->
  topo g = Raise ValueError.
Proof. intros j g Hw Hb Ha. rewrite (build_inv j g Hw Hb). apply topo_cyclic; assumption. Qed.

(* the converse directions: what the outcome of topo says about the Job *)
Theorem topo_ok_iff_acyclic : forall j g, well_named j -> build j = Ok g ->
  ((exists l, topo g = Ok l) <-> acyclic j).
Proof.
  intros j g Hw Hb. split.
  - intros [l Hl]. rewrite (build_inv j g Hw Hb) in Hl. eapply topo_ok_acyclic; eassumption.
  - intro Ha. destruct (topo_valid_order j g Hw Hb Ha) as [l [Hl _]]. eauto.
Qed.

(* the recursion fuel of the specification is immaterial on acyclic Jobs *)
Theorem visit_fuel_irrelevant : forall j f, well_named j -> acyclic j -> length j <= f ->
  stable_order_fuel j f = stable_order j.
Proof.
  intros j f Hw Ha Hf.
  assert (H1 : topo (graph_of (names j) (all_edges j)) = Ok (stable_order_fuel j f)).
  { apply topo_stable_fuel; [exact Hw | exact Ha |]. unfold names. rewrite map_length. exact Hf. }
  assert (H2 : topo (graph_of (names j) (all_edges j)) = Ok (stable_order j)).
  { apply topo_stable_order; [exact Hw | apply build_eq; exact Hw | exact Ha]. }
  rewrite H1 in H2. inversion H2. reflexivity.
Qed.

(* the model's cycle test used for decoded templates *)
Theorem has_cycle_iff : forall j, well_named j -> (has_cycle j = true <-> ~ acyclic j).
Proof.
  intros j Hw. unfold has_cycle, topo_job. rewrite (build_eq j Hw). cbn [bind]. split.
  - intros H Ha. destruct (topo_valid_order j _ Hw (build_eq j Hw) Ha) as [l [Hl _]].
    rewrite Hl in H. discriminate.
  - intro Hna. rewrite (topo_cyclic_raises j _ Hw (build_eq j Hw) Hna). reflexivity.
Qed.

(* boolean test of the domain, for concrete examples *)
Lemma has_dup_false : forall l, has_dup l = false -> NoDup l.
Proof.
  induction l as [|x t IH]; simpl; intro H; [constructor|].
  apply orb_false_iff in H. destruct H as [H1 H2]. constructor; [apply mem_nIn; exact H1 | apply IH; exact H2].
Qed.

Lemma well_named_b : forall j, dup_step_names j = false -> unknown_dep j = false -> well_named j.
Proof.
  intros j H1 H2. split; [apply has_dup_false; exact H1|].
  intros n ds d Hin Hd. destruct (in_dec N.eq_dec d (names j)) as [Hi|Hi]; [exact Hi|]. exfalso.
  assert (Ht : unknown_dep j = true); [|congruence].
  unfold unknown_dep. apply existsb_exists. exists (n, ds). split; [exact Hin|].
  apply existsb_exists. exists d. split; [exact Hd|]. apply negb_true_iff. apply mem_nIn. exact Hi.
Qed.
