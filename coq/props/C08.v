(* props/C08.v — placeholder while the proofs are being closed: refutation witnesses of the
   pinned behaviours (kept as regression documentation). *)
From Coq Require Import List NArith ZArith.
Import ListNotations.
Require Import OJD.Base OJD.Lexer OJD.RangeExpr OJD.RangeExprSpec.
Local Open Scope Z_scope.

(* "1-10:2,12-20:2" *)
Definition w1 : list tok :=
  [TPosInt 1; THyphen; TPosInt 10; TColon; TPosInt 2; TComma; TPosInt 12; THyphen; TPosInt 20; TColon; TPosInt 2].

Theorem C08_pinned_merge_refuted :
  exists ts l l', spec_from_tokens ts = Some l /\
    option_map (fun e => elems e) (match parse_tokens true false ts with Ok e => Some e | _ => None end) = Some l' /\ l <> l'.
Proof. exists w1. eexists. eexists. split; [vm_compute; reflexivity|]. split; [vm_compute; reflexivity|]. discriminate. Qed.
Print Assumptions C08_pinned_merge_refuted.
