(* Extraction of the range-expression model (C08, C13).  ExtrOcamlBasic only. *)
From Coq Require Import Extraction ExtrOcamlBasic List NArith ZArith.
Require Import OJD.Base OJD.Lexer OJD.RangeExpr OJD.RangeExprSpec.
Extraction Language OCaml.
Extraction "Model.ml"
  exn_eqb ascii_ok ascii_class lex_for from_str parse_tokens mk_expr mk_range elems getitem
  elen expr_tokens from_list ranges
  spec_from_tokens range_kinds.
