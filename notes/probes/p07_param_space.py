# C07 probe: random combination trees vs a recursive reference expansion; len/getitem/histories.
import random, sys, itertools
from openjd.model import StepParameterSpaceIterator
from openjd.model._parse import parse_model
from openjd.model.v2023_09 import StepParameterSpace
rnd = random.Random(int(sys.argv[1]) if len(sys.argv) > 1 else 1)
def gen_tree(names, depth=0):
    """returns tree over exactly `names` (list): ('id',n) | ('prod',[..]) | ('assoc',[..]); parser-canonical"""
    if len(names) == 1: return ('id', names[0])
    kind = rnd.choice(['prod', 'assoc']) if depth < 4 else 'prod'
    k = rnd.randint(2, min(4, len(names)))
    cuts = sorted(rnd.sample(range(1, len(names)), k-1)); parts = [names[i:j] for i, j in zip([0]+cuts, cuts+[len(names)])]
    kids = [gen_tree(p, depth+1) for p in parts]
    if kind == 'prod':   # product children must not be products (flatten)
        flat = []
        for c in kids: flat.extend(c[1] if c[0] == 'prod' else [c])
        return ('prod', flat)
    return ('assoc', kids)
def text(t):
    if t[0] == 'id': return t[1]
    if t[0] == 'prod': return " * ".join(text(c) for c in t[1])
    return "(" + ", ".join(text(c) for c in t[1]) + ")"
def assign_lengths(t, want=None):
    """choose leaf lengths so that associations are balanced; returns dict name->len"""
    if t[0] == 'id': return {t[1]: want if want else rnd.randint(1, 3)}
    if t[0] == 'prod':
        if want is None:
            out = {}
            for c in t[1]: out.update(assign_lengths(c))
            return out
        # factor want across children
        out = {}; rem = want
        for i, c in enumerate(t[1]):
            if i == len(t[1])-1: f = rem
            else:
                divs = [d for d in range(1, rem+1) if rem % d == 0]; f = rnd.choice(divs)
            rem //= f; out.update(assign_lengths(c, f))
        return out
    n = want if want else rnd.choice([1, 2, 3, 4, 6])
    out = {}
    for c in t[1]: out.update(assign_lengths(c, n))
    return out
def denote(t, vals):
    if t[0] == 'id': return [{t[1]: v} for v in vals[t[1]]]
    if t[0] == 'prod':
        acc = [{}]
        for c in t[1]: acc = [dict(a, **b) for a in acc for b in denote(c, vals)]
        return acc
    ds = [denote(c, vals) for c in t[1]]
    assert len({len(d) for d in ds}) == 1
    return [dict(itertools.chain.from_iterable(d[i].items() for d in ds)) for i in range(len(ds[0]))]
def flat(ts): return {k: v.value for k, v in ts.items()}
bad = 0; cases = 0; phantom = 0
for _ in range(int(sys.argv[2]) if len(sys.argv) > 2 else 1500):
    n = rnd.randint(1, 8); names = [f"P{i}" for i in range(n)]; rnd.shuffle(names)
    use_comb = rnd.random() < .85
    t = gen_tree(names) if use_comb else (('prod', [('id', x) for x in names]) if n > 1 else ('id', names[0]))
    lens = assign_lengths(t)
    defs = {}; vals = {}
    for nm in names:
        L = lens[nm]
        if rnd.random() < .4:
            a = rnd.randint(-3, 3); defs[nm] = {"type": "INT", "range": f"{a}-{a+L-1}"}; vals[nm] = [str(a+i) for i in range(L)]
        else:
            vals[nm] = [f"{nm}v{i}" for i in range(L)]; defs[nm] = {"type": "STRING", "range": list(vals[nm])}
    obj = {"taskParameterDefinitions": {nm: defs[nm] for nm in (names if use_comb else [x[1] for x in (t[1] if t[0]=='prod' else [t])])}}
    if use_comb: obj["combination"] = text(t)
    sp = parse_model(model=StepParameterSpace, obj=obj)
    it = StepParameterSpaceIterator(space=sp); ref = denote(t, vals); cases += 1
    got = [flat(x) for x in it]
    if got != ref or len(it) != len(ref): bad += 1; print("ITER", text(t), lens); continue
    for i in range(-len(ref)-1, len(ref)+1):
        try: g = flat(it[i])
        except IndexError: g = "IE"
        w = ref[i] if -len(ref) <= i < len(ref) else "IE"
        if g != w: bad += 1; print("GETITEM", text(t), i); break
    # history: two interleaved iterators + extra next() after exhaustion
    i1, i2 = iter(it), iter(it); o1 = []; o2 = []
    sched = [rnd.choice([1, 2]) for _ in range(2*len(ref)+8)]
    for who in sched:
        itx, o = (i1, o1) if who == 1 else (i2, o2)
        try: o.append(flat(next(itx)))
        except StopIteration: o.append("STOP")
    for o in (o1, o2):
        k = min(len(o), len(ref))
        if o[:k] != ref[:k]: bad += 1; print("HISTORY-prefix", text(t))
        if any(x != "STOP" for x in o[len(ref):]): phantom += 1
print("cases", cases, "bad", bad, "spaces with phantom sets after exhaustion", phantom)
print("None space:", list(StepParameterSpaceIterator(space=None)), len(StepParameterSpaceIterator(space=None)))
