(* FormatStr.v — model of src/openjd/model/_format_strings/{_format_string,_parser,_expression,
   _nodes}.py and the part of _symbol_table.py that FormatString.resolve uses.
   Definitions only.  Strings are code-point lists; positions are [nat] (indices into the
   string, never numerals).  The lexer is the shared model Lexer.v. *)
From Coq Require Import List NArith Bool Arith.
Import ListNotations.
Require Import OJD.Base OJD.Lexer OJD.Generated.

(* opening = "{{", closing = "}}" *)
Definition lbrace : N := 123%N.
Definition rbrace : N := 125%N.
Definition dotc : N := 46%N.
Definition open2 : str := [lbrace; lbrace].
Definition close2 : str := [rbrace; rbrace].

(* ---- str.find(sub, start) ---- *)
Fixpoint is_prefix (p s : str) : bool :=
  match p, s with
  | [], _ => true
  | a :: p', b :: s' => N.eqb a b && is_prefix p' s'
  | _ :: _, [] => false
  end.

(* [t] is the suffix of the string that starts at absolute index [i] *)
Fixpoint find_from (sub t : str) (i : nat) : option nat :=
  if is_prefix sub t then Some i
  else match t with
       | [] => None
       | _ :: r => find_from sub r (S i)
       end.

(* s.find(sub, start), start >= 0: lowest index >= start where sub occurs; None is -1 *)
Definition find (sub s : str) (start : nat) : option nat :=
  if length s <? start then None else find_from sub (skipn start s) start.

(* s[a:b] for 0 <= a, 0 <= b (empty when b <= a) *)
Definition slice (s : str) (a b : nat) : str := firstn (b - a) (skipn a s).

(* ---- _parser.py on the token list ---- *)

(* ".".join(names) *)
Definition dot_join (names : list str) : str :=
  match names with
  | [] => []
  | n :: r => n ++ flat_map (fun w => dotc :: w) r
  end.

(* the while loop of Parser._match_name; [names_rev] is `names` reversed.
     lookahead(0) raises IndexError (caught: fine) or is not a DotToken  -> loop ends
     DotToken consumed, then next(): IndexError -> ExpressionError("Unexpected end of name")
                                     not a NameToken -> TokenError *)
Fixpoint match_rest (names_rev : list str) (ts : list tok) : outcome (list str * list tok) :=
  match ts with
  | TDot :: ts' =>
    match ts' with
    | [] => Raise ExpressionError
    | TName n :: ts'' => match_rest (n :: names_rev) ts''
    | _ :: _ => Raise TokenError
    end
  | _ => Ok (rev names_rev, ts)
  end.

(* Parser.parse after tokenising: _expression, then the at_end() test.  Returns
   FullNameNode.name *)
Definition parse_expr (ts : list tok) : outcome str :=
  match ts with
  | [] => Raise ExpressionError                       (* "Empty expression" *)
  | TName n :: r =>
    do (names, rest) <- match_rest [n] r;
    match rest with
    | [] => Ok (dot_join names)
    | _ :: _ => Raise TokenError                      (* not at_end() *)
    end
  | _ :: _ => Raise TokenError                        (* lookahead(0) is not a NameToken *)
  end.

Inductive item : Type :=
| ILit (l : str)
| IExpr (start stop : nat) (text : str) (name : str).
   (* ExpressionInfo(start_pos, end_pos, expression) with expression.expr = text and
      expression._expresion_tree = FullNameNode(name) *)

Record fstr : Type := mkF { orig : str; items : list item }.

Definition symtab : Type := list (str * str).

Fixpoint lookup (sigma : symtab) (name : str) : option str :=
  match sigma with
  | [] => None
  | (k, v) :: r => if str_eqb name k then Some v else lookup r name
  end.

Section Model.
  Variable classify : N -> cclass.

  (* InterpolationExpression(expr): TokenStream(expr, {NAME, DOT}) then Parser.parse *)
  Definition interp_expr (e : str) : outcome str :=
    do ts <- lex_for classify fs_token_kinds e;
    parse_expr ts.

  (* FormatString._preprocess.  One iteration of the while loop per unit of fuel.
     With bs = find("{{", braces_end), ee = find("}}", braces_end) and -1 written None, the
     code's tests, in the code's order, are
        bs == -1 and ee == -1          -> append the tail, break      (None, None)
        ee < bs                        -> raise  (Some _, None) and (Some b, Some e) with e < b
        bs == -1 and ee != -1          -> raise  (None, Some _)
     every raise is FormatStringError. *)
  Fixpoint scan (fuel : nat) (s : str) (braces_end : nat) : outcome (list item) :=
    match fuel with
    | O => Raise RuntimeError
    | S fuel' =>
      if length s <=? braces_end then Ok []
      else
        match find open2 s braces_end, find close2 s braces_end with
        | None, None => Ok [ILit (skipn braces_end s)]
        | Some _, None => Raise FormatStringError           (* -1 < bs: "Braces mismatch" *)
        | None, Some _ => Raise FormatStringError           (* "Missing opening braces" *)
        | Some bs, Some ee =>
          if ee <? bs then Raise FormatStringError          (* "Braces mismatch" *)
          else
            let lit := slice s braces_end bs in
            let expression_start := bs + length open2 in
            let braces_end' := ee + length close2 in
            let text := slice s expression_start ee in
            match interp_expr text with
            | Raise e =>
              (* except (ExpressionError, TokenError) -> FormatStringError *)
              if is_expression_error e then Raise FormatStringError else Raise e
            | Ok name =>
              do rest <- scan fuel' s braces_end';
              Ok (ILit lit :: IExpr bs braces_end' text name :: rest)
            end
        end
    end.

  (* FormatString(value) *)
  Definition mk (s : str) : outcome fstr :=
    do its <- scan (S (length s)) s 0;
    Ok (mkF s its).
End Model.

(* FormatString.expressions, observed as (FullNameNode.name, start_pos, end_pos) *)
Definition expressions (f : fstr) : list (str * nat * nat) :=
  flat_map (fun it => match it with IExpr a b _ n => [(n, a, b)] | ILit _ => [] end) (items f).

(* FullNameNode.evaluate: ValueError when the name is not in the table *)
Definition node_evaluate (sigma : symtab) (name : str) : outcome str :=
  match lookup sigma name with
  | Some v => Ok v
  | None => Raise ValueError
  end.

(* InterpolationExpression.evaluate: ValueError -> ExpressionError; the isinstance test on the
   result always passes for the value domain of the model (strings and numbers, already
   printed by str()) *)
Definition expr_evaluate (sigma : symtab) (name : str) : outcome str :=
  match node_evaluate sigma name with
  | Ok v => Ok v
  | Raise ValueError => Raise ExpressionError
  | Raise e => Raise e
  end.

(* FormatString.resolve: left to right, ExpressionError -> FormatStringError, "".join *)
Fixpoint resolve_items (sigma : symtab) (its : list item) : outcome str :=
  match its with
  | [] => Ok []
  | ILit l :: r => do t <- resolve_items sigma r; Ok (l ++ t)
  | IExpr _ _ _ name :: r =>
    match expr_evaluate sigma name with
    | Raise e => if is_expression_error e then Raise FormatStringError else Raise e
    | Ok v => do t <- resolve_items sigma r; Ok (v ++ t)
    end
  end.

Definition resolve (sigma : symtab) (f : fstr) : outcome str := resolve_items sigma (items f).

(* FullNameNode.validate_symbol_refs(symbols=...) *)
Definition node_validate (symbols : list str) (name : str) : outcome unit :=
  if mem_str name symbols then Ok tt else Raise ValueError.

(* the loop of _variable_reference_validation over f.expressions: the names for which
   validate_symbol_refs raised *)
Definition validate_refs (symbols : list str) (f : fstr) : list str :=
  flat_map (fun x => match x with
                     | (n, _, _) => match node_validate symbols n with
                                    | Ok _ => []
                                    | Raise _ => [n]
                                    end
                     end) (expressions f).
