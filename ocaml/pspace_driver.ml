(* pspace_driver.ml — serves the extracted parameter-space model (C07).

   request:  (run <pinned> <space> (<index> ...) (<op> ...))
     space  = none | (some (<param> ...) <comb>)      param = (<name> <ty> (<value> ...))
     comb   = none | (some <ctree>)                   ctree = (id <name>) | (prod <ctree> ...) | (assoc <ctree> ...)
     op     = (iter) | (next <i>) | (get <z>) | (len) | (reset <i>)
     names and values are lists of code points, ty is INT | FLOAT | STRING | PATH
   reply:    (raise <exn>)                            construction failed
           | (ok <len> (<env> ...) <end> (<item> ...) (<obs> ...) (<env> ...))
     len  = (ok z) | (raise exn);  end = exception that ended list(obj) | bound
     item = (ok <env>) | (raise exn);  last list = the spec oracle (denote) *)
open Sx
open Model
open Conv

let ty_of_sx = function
  | A "INT" -> TInt | A "FLOAT" -> TFloat | A "STRING" -> TString | A "PATH" -> TPath
  | _ -> failwith "ty"
let sx_of_ty = function TInt -> A "INT" | TFloat -> A "FLOAT" | TString -> A "STRING" | TPath -> A "PATH"

let param_of_sx = function
  | L [n; ty; vs] -> ((str_of_sx n, ty_of_sx ty), list_of_sx str_of_sx vs)
  | _ -> failwith "param"

let rec ctree_of_sx = function
  | L [A "id"; n] -> CId (str_of_sx n)
  | L (A "prod" :: cs) -> CProd (List.map ctree_of_sx cs)
  | L (A "assoc" :: cs) -> CAssoc (List.map ctree_of_sx cs)
  | _ -> failwith "ctree"

let space_of_sx = function
  | A "none" -> None
  | L [A "some"; ps; comb] -> Some (list_of_sx param_of_sx ps, opt_of_sx ctree_of_sx comb)
  | _ -> failwith "space"

let op_of_sx = function
  | L [A "iter"] -> OpIter
  | L [A "next"; i] -> OpNext (nat_of_sx i)
  | L [A "get"; z] -> OpGet (z_of_sx z)
  | L [A "len"] -> OpLen
  | L [A "reset"; i] -> OpReset (nat_of_sx i)
  | _ -> failwith "op"

let sx_of_env (e : env) : Sx.t =
  sx_of_list (fun ((n, (ty, v))) -> L [sx_of_str n; sx_of_ty ty; sx_of_str v]) e

let sx_of_obs = function
  | ObUnit -> A "unit"
  | ObEnv e -> L [A "env"; sx_of_env e]
  | ObLen z -> L [A "len"; sx_of_z z]
  | ObRaise e -> L [A "raise"; A (exn_name e)]
  | ObBad -> A "bad"

let handle (req : Sx.t) : Sx.t =
  match req with
  | L [A "run"; pinned; sp; idx; ops] ->
    let pinned = bool_of_sx pinned in
    (match sps_init (space_of_sx sp) with
     | Raise x -> L [A "raise"; A (exn_name x)]
     | Ok tp ->
       let len = top_len tp in
       let ((items, sg), complete) = drain pinned (nat_of_int 20000) (top_iter tp) in
       let fin = if not complete then A "bound" else (match sg with Some e -> A (exn_name e) | None -> A "none") in
       let gets = list_of_sx (fun i -> sx_of_outcome sx_of_env (top_getitem tp (z_of_sx i))) idx in
       let (_, obs) = run pinned (new_world tp) (list_of_sx op_of_sx ops) in
       let spec = match tp with TopList _ -> none_denote | TopNode t -> denote t in
       L [A "ok"; sx_of_outcome sx_of_z len; sx_of_list sx_of_env items; fin; L gets;
          sx_of_list sx_of_obs obs; sx_of_list sx_of_env spec])
  | _ -> failwith "unknown-request"

let () = serve handle
