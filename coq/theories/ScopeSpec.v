(* ScopeSpec.v — specification of C03, written from the property text on the DOCUMENT (no schema,
   no metadata): which '{{ name }}' references of a 2023-09 job / environment template are
   errors.  A reference at a format-string location is an error iff its name is not visible there:

     RawParam.<p>                      everywhere a format string is allowed
     Param.<p>        (p not PATH)     everywhere
     Param.<p>        (p PATH)         only inside environments and step scripts
     Session.WorkingDirectory / HasPathMappingRules / PathMappingRulesFile
                                       only inside environment scripts and step scripts
     Task.Param.<t>, Task.RawParam.<t>, Task.File.<f>
                                       only inside the script of the step that declares them
     Env.File.<f>                      only inside the script of the environment that declares it

   Format-string locations of the schema (everything else is not a reference site):
     job name; per step: task parameter ranges, host requirement names / values, script
     (onRun command/args, embedded file data), step environments; job environments;
     per environment: variables' values, script (onEnter/onExit command/args, embedded file data).
   Definitions only; the spec is executable and is extracted as the spec oracle. *)
From Coq Require Import List NArith ZArith Bool String.
Import ListNotations.
Require Import OJD.Base OJD.Json OJD.Schema OJD.ScopeWalk.
Local Open Scope string_scope.
Local Open Scope list_scope.

Section Spec.
  Variable refs : str -> option (list str).

  (* a format-string site *)
  Definition chk (vis : str -> bool) (l : loc) (v : json) : list werr :=
    match v with
    | JStr s => match refs s with
                | None => []
                | Some names => flat_map (fun n => if vis n then [] else [ERef l n]) names
                end
    | _ => []
    end.

  Definition key (s : string) : locitem := LKey (str_of_string s).

  Definition indexed {A} (l : list A) : list (nat * A) := combine (seq 0 (List.length l)) l.

  (* chk over every element of a list-valued field *)
  Definition chk_list (vis : str -> bool) (l : loc) (v : json) : list werr :=
    match v with
    | JArr items => List.concat (List.map (fun iv => chk vis (l ++ [LIdx (fst iv)]) (snd iv)) (indexed items))
    | _ => []
    end.

  Definition obj_list (v : json) : list json := match v with JArr items => items | _ => [] end.
  Definition is_obj (v : json) : bool := match v with JObj _ => true | _ => false end.

  (* the name a definition object declares: a non-empty string *)
  Definition decl_name (o : json) : option str :=
    match o with
    | JObj _ => match jget "name" o with JStr (c :: r) => Some (c :: r) | _ => None end
    | _ => None
    end.

  Definition type_is (o : json) (t : string) : bool :=
    match jget "type" o with JStr s => str_eqb s (str_of_string t) | _ => false end.

  Definition has_param_type (o : json) : bool :=
    type_is o "INT" || type_is o "FLOAT" || type_is o "STRING" || type_is o "PATH".

  (* names declared by the objects of a list, filtered *)
  Definition declared (ok : json -> bool) (v : json) : list str :=
    flat_map (fun o => if ok o then match decl_name o with Some n => [n] | None => [] end else [])
             (obj_list v).

  Definition named (prefix : string) (names : list str) (n : str) : bool :=
    existsb (fun p => str_eqb n (str_of_string prefix ++ p)) names.

  Definition session_const (n : str) : bool :=
    str_eqb n $"Session.WorkingDirectory" || str_eqb n $"Session.HasPathMappingRules"
    || str_eqb n $"Session.PathMappingRulesFile".

  (* ---- job parameters ---- *)
  Definition all_params (pdefs : json) : list str := declared has_param_type pdefs.
  Definition nonpath_params (pdefs : json) : list str :=
    declared (fun o => has_param_type o && negb (type_is o "PATH")) pdefs.
  Definition path_params (pdefs : json) : list str := declared (fun o => type_is o "PATH") pdefs.

  (* visible at TEMPLATE-scope sites *)
  Definition vis_template (pdefs : json) (n : str) : bool :=
    named "RawParam." (all_params pdefs) n || named "Param." (nonpath_params pdefs) n.
  (* visible inside environments and step scripts, before their own additions *)
  Definition vis_session (pdefs : json) (n : str) : bool :=
    vis_template pdefs n || named "Param." (path_params pdefs) n.

  (* ---- Action ---- *)
  Definition spec_action (vis : str -> bool) (l : loc) (a : json) : list werr :=
    if is_obj a then
      chk vis (l ++ [key "command"]) (jget "command" a)
      ++ chk_list vis (l ++ [key "args"]) (jget "args" a)
    else [].

  (* embedded files of a script: data *)
  Definition spec_files (vis : str -> bool) (l : loc) (files : json) : list werr :=
    match files with
    | JArr items =>
      List.concat (List.map (fun iv => if is_obj (snd iv)
                                       then chk vis (l ++ [LIdx (fst iv); key "data"]) (jget "data" (snd iv))
                                       else [])
                            (indexed items))
    | _ => []
    end.

  Definition file_names (files : json) : list str := declared (fun _ => true) files.

  (* ---- Environment (step-level, job-level, or the one of an environment template) ---- *)
  Definition spec_env_script (base : str -> bool) (l : loc) (s : json) : list werr :=
    if is_obj s then
      let vis := fun n => base n || session_const n || named "Env.File." (file_names (jget "embeddedFiles" s)) n in
      let acts := jget "actions" s in
      (if is_obj acts then
         spec_action vis (l ++ [key "actions"; key "onEnter"]) (jget "onEnter" acts)
         ++ spec_action vis (l ++ [key "actions"; key "onExit"]) (jget "onExit" acts)
       else [])
      ++ spec_files vis (l ++ [key "embeddedFiles"]) (jget "embeddedFiles" s)
    else [].

  Definition spec_env (base : str -> bool) (l : loc) (e : json) : list werr :=
    if is_obj e then
      spec_env_script base (l ++ [key "script"]) (jget "script" e)
      ++ match jget "variables" e with
         | JObj members =>
           List.concat (List.map (fun kv => chk base (l ++ [key "variables"; LKey (fst kv)]) (snd kv)) members)
         | _ => []
         end
    else [].

  Definition spec_env_list (base : str -> bool) (l : loc) (envs : json) : list werr :=
    match envs with
    | JArr items => List.concat (List.map (fun iv => spec_env base (l ++ [LIdx (fst iv)]) (snd iv)) (indexed items))
    | _ => []
    end.

  (* ---- task parameter ranges (TEMPLATE scope) ---- *)
  Definition spec_task_param (vis : str -> bool) (l : loc) (tp : json) : list werr :=
    if is_obj tp then
      let r := jget "range" tp in
      let lr := l ++ [key "range"] in
      if type_is tp "INT" then
        (* list of ints / format strings (all reported at the range itself), or one range string *)
        match r with
        | JArr items => flat_map (fun item => chk vis lr item) items
        | JStr _ => chk vis lr r
        | _ => []
        end
      else if type_is tp "FLOAT" || type_is tp "STRING" || type_is tp "PATH" then chk_list vis lr r
      else []
    else [].

  Definition spec_param_space (vis : str -> bool) (l : loc) (ps : json) : list werr :=
    if is_obj ps then
      match jget "taskParameterDefinitions" ps with
      | JArr items =>
        List.concat (List.map (fun iv => spec_task_param vis (l ++ [key "taskParameterDefinitions"; LIdx (fst iv)]) (snd iv))
                              (indexed items))
      | _ => []
      end
    else [].

  (* ---- host requirements (TEMPLATE scope) ---- *)
  Definition spec_host_req (vis : str -> bool) (l : loc) (h : json) : list werr :=
    if is_obj h then
      match jget "amounts" h with
      | JArr items =>
        List.concat (List.map (fun iv => if is_obj (snd iv)
                                         then chk vis (l ++ [key "amounts"; LIdx (fst iv); key "name"]) (jget "name" (snd iv))
                                         else [])
                              (indexed items))
      | _ => []
      end
      ++ match jget "attributes" h with
         | JArr items =>
           List.concat (List.map (fun iv =>
                           let a := snd iv in
                           let la := l ++ [key "attributes"; LIdx (fst iv)] in
                           if is_obj a then
                             chk vis (la ++ [key "name"]) (jget "name" a)
                             ++ chk_list vis (la ++ [key "anyOf"]) (jget "anyOf" a)
                             ++ chk_list vis (la ++ [key "allOf"]) (jget "allOf" a)
                           else [])
                         (indexed items))
         | _ => []
         end
    else [].

  (* ---- step ---- *)
  Definition task_param_names (ps : json) : list str :=
    if is_obj ps then declared has_param_type (jget "taskParameterDefinitions" ps) else [].

  Definition spec_step_script (base : str -> bool) (tparams : list str) (l : loc) (s : json) : list werr :=
    if is_obj s then
      let vis := fun n => base n || session_const n
                          || named "Task.Param." tparams n || named "Task.RawParam." tparams n
                          || named "Task.File." (file_names (jget "embeddedFiles" s)) n in
      let acts := jget "actions" s in
      (if is_obj acts then spec_action vis (l ++ [key "actions"; key "onRun"]) (jget "onRun" acts) else [])
      ++ spec_files vis (l ++ [key "embeddedFiles"]) (jget "embeddedFiles" s)
    else [].

  Definition spec_step (pdefs : json) (l : loc) (st : json) : list werr :=
    if is_obj st then
      spec_step_script (vis_session pdefs) (task_param_names (jget "parameterSpace" st)) (l ++ [key "script"]) (jget "script" st)
      ++ spec_env_list (vis_session pdefs) (l ++ [key "stepEnvironments"]) (jget "stepEnvironments" st)
      ++ spec_param_space (vis_template pdefs) (l ++ [key "parameterSpace"]) (jget "parameterSpace" st)
      ++ spec_host_req (vis_template pdefs) (l ++ [key "hostRequirements"]) (jget "hostRequirements" st)
    else [].

  (* ---- roots ---- *)
  Definition spec_job_template (j : json) : list werr :=
    let pdefs := jget "parameterDefinitions" j in
    chk (vis_template pdefs) [key "name"] (jget "name" j)
    ++ match jget "steps" j with
       | JArr items => List.concat (List.map (fun iv => spec_step pdefs [key "steps"; LIdx (fst iv)] (snd iv)) (indexed items))
       | _ => []
       end
    ++ spec_env_list (vis_session pdefs) [key "jobEnvironments"] (jget "jobEnvironments" j).

  Definition spec_env_template (j : json) : list werr :=
    let pdefs := jget "parameterDefinitions" j in
    spec_env (vis_session pdefs) [key "environment"] (jget "environment" j).
End Spec.
