(* ReblankProofs.v — lemmas behind props/C19xb.v: re-blanking the '{{ }}' spans of a format string
   (Reblank.v) changes neither acceptance, nor the referenced names, nor the reference check, nor
   the resolved text.  Route: FormatStrProofs.v identifies [mk] with the declarative decomposition
   [Decomp]; [reblank] maps a decomposition to a decomposition with the same literals and the same
   normalised names. *)
From Coq Require Import List NArith Bool Arith Lia.
Import ListNotations.
Require Import OJD.Base OJD.Lexer OJD.LexerProofs OJD.Generated OJD.FormatStr OJD.FormatStrSpec
               OJD.FormatStrProofs OJD.FsRefs OJD.Reblank.

(* ------------------------------------------------------------------ lists *)

Lemma app_eq_len : forall (A : Type) (l1 l2 a b : list A),
  length l1 = length l2 -> l1 ++ a = l2 ++ b -> l1 = l2 /\ a = b.
Proof.
  induction l1 as [|x l1 IH]; intros [|y l2] a b HL HE; simpl in HL; try discriminate HL.
  - split; [reflexivity|exact HE].
  - simpl in HE. injection HE as -> HE. injection HL as HL.
    destruct (IH l2 a b HL HE) as [-> ->]. split; reflexivity.
Qed.

(* the first occurrence of a doubled character determines the split *)
Lemma first_dbl_unique : forall (x : N) l1 r1 l2 r2,
  NoSub [x; x] (l1 ++ [x]) -> NoSub [x; x] (l2 ++ [x]) ->
  l1 ++ [x; x] ++ r1 = l2 ++ [x; x] ++ r2 -> l1 = l2 /\ r1 = r2.
Proof.
  intros x l1 r1 l2 r2 H1 H2 E.
  pose proof (find_from_first x l1 r1 0 H1) as F1.
  pose proof (find_from_first x l2 r2 0 H2) as F2.
  rewrite E in F1. rewrite F1 in F2. injection F2 as HL.
  destruct (app_eq_len _ l1 l2 _ _ HL E) as [-> E2]. split; [reflexivity|].
  simpl in E2. injection E2 as E2. exact E2.
Qed.

Lemma Forall2_same : forall (A : Type) (R : A -> A -> Prop), (forall a, R a a) ->
  forall l, Forall2 R l l.
Proof. intros A R HR l. induction l as [|a l IH]; constructor; auto. Qed.

(* ------------------------------------------------------------------ spans *)

Lemma no_rbrace_span_text : forall e, ~ In rbrace e -> span_text e.
Proof. intros e H. unfold span_text, close2. now apply NoSub_notin_snoc. Qed.

Lemma no_lbrace_lit_seg : forall l, ~ In lbrace l -> lit_seg l.
Proof. intros l H. unfold lit_seg, open2. now apply NoSub_notin_snoc. Qed.

(* decidable forms, for concrete strings *)
Lemma lit_seg_check : forall l, find_from open2 (l ++ [lbrace]) 0 = None -> lit_seg l.
Proof. intros l H. unfold lit_seg. exact (find_from_none lbrace _ 0 H). Qed.

Lemma span_text_check : forall e, find_from close2 (e ++ [rbrace]) 0 = None -> span_text e.
Proof. intros e H. unfold span_text. exact (find_from_none rbrace _ 0 H). Qed.

Section Main.
  Variable classify : N -> cclass.
  Hypothesis AOK : ascii_ok classify = true.

  Notation Dec := (Decomp classify).
  Notation itemsOf := (items_of classify).
  Notation rb := (reblank classify).
  Notation ssim := (seg_sim classify).

  Lemma DName_span_text : forall e, DName classify e -> span_text e.
  Proof. intros e D. apply no_rbrace_span_text. exact (proj2 (DName_no_brace classify AOK e D)). Qed.

  (* a decomposition of  l {{ e }} r  with the span where [lit_seg] / [span_text] put it starts
     with that span *)
  Lemma decomp_span_inv : forall l e r segs last,
    lit_seg l -> span_text e -> Dec (l ++ open2 ++ e ++ close2 ++ r) segs last ->
    exists segs0, segs = (l, e) :: segs0 /\ NoSub close2 l /\ DName classify e /\ Dec r segs0 last.
  Proof.
    intros l e r segs last HL HS D.
    remember (l ++ open2 ++ e ++ close2 ++ r) as t eqn:Et.
    destruct D as [l0 HO HC | l0 e0 rest segs0 last HC HO HD D].
    - exfalso. exact (HO l (e ++ close2 ++ r) Et).
    - destruct (first_dbl_unique lbrace l0 (e0 ++ close2 ++ rest) l (e ++ close2 ++ r) HO HL Et) as [-> E2].
      destruct (first_dbl_unique rbrace e0 rest e r (DName_span_text e0 HD) HS E2) as [-> ->].
      exists segs0. repeat split; assumption.
  Qed.

  Lemma interp_expr_cong : forall e e', lex classify e = lex classify e' ->
    interp_expr classify e = interp_expr classify e'.
  Proof. intros e e' H. unfold interp_expr. now rewrite (lex_for_cong classify fs_token_kinds e e' H). Qed.

  (* same tokens: a dotted name together, with the same normalised name *)
  Lemma DName_cong : forall e e', lex classify e = lex classify e' -> DName classify e ->
    DName classify e' /\ norm classify e = norm classify e'.
  Proof.
    intros e e' H D. pose proof (interp_complete classify e D) as I.
    rewrite (interp_expr_cong e e' H) in I. apply interp_iff in I. exact I.
  Qed.

  Lemma reblank_decomp : forall t t', rb t t' -> forall segs last, Dec t segs last ->
    exists segs', Dec t' segs' last /\ Forall2 ssim segs segs'.
  Proof.
    intros t t' R. induction R as [t | l e e' r r' HL HS HS' HX R IH]; intros segs last D.
    - exists segs. split; [exact D|]. apply Forall2_same. intros a. split; reflexivity.
    - destruct (decomp_span_inv l e r segs last HL HS D) as [segs0 [-> [HC [HD D0]]]].
      destruct (DName_cong e e' HX HD) as [HD' HN].
      destruct (IH segs0 last D0) as [segs0' [D0' F]].
      exists ((l, e') :: segs0'). split.
      + apply D_seg; assumption.
      + constructor; [split; [reflexivity|exact HN]|exact F].
  Qed.

  Lemma reblank_sym : forall t t', rb t t' -> rb t' t.
  Proof.
    intros t t' R. induction R as [t | l e e' r r' HL HS HS' HX R IH].
    - apply RB_same.
    - apply RB_span; auto.
  Qed.

  (* the split of a string at a span is determined by [lit_seg] and [span_text] *)
  Lemma span_split_unique : forall l1 e1 r1 l2 e2 r2,
    lit_seg l1 -> span_text e1 -> lit_seg l2 -> span_text e2 ->
    l1 ++ open2 ++ e1 ++ close2 ++ r1 = l2 ++ open2 ++ e2 ++ close2 ++ r2 ->
    l1 = l2 /\ e1 = e2 /\ r1 = r2.
  Proof.
    intros l1 e1 r1 l2 e2 r2 HL1 HS1 HL2 HS2 E.
    destruct (first_dbl_unique lbrace l1 (e1 ++ close2 ++ r1) l2 (e2 ++ close2 ++ r2) HL1 HL2 E) as [-> E2].
    destruct (first_dbl_unique rbrace e1 r1 e2 r2 HS1 HS2 E2) as [-> ->]. repeat split.
  Qed.

  Lemma reblank_trans : forall t1 t2, rb t1 t2 -> forall t3, rb t2 t3 -> rb t1 t3.
  Proof.
    intros t1 t2 R. induction R as [t | l e e' r r' HL HS HS' HX R IH]; intros t3 R2; [exact R2|].
    remember (l ++ open2 ++ e' ++ close2 ++ r') as t2 eqn:E2.
    destruct R2 as [t | l2 e2 e2' r2 r2' HL2 HS2 HS2' HX2 R2].
    - subst t. now apply RB_span.
    - destruct (span_split_unique _ _ _ _ _ _ HL2 HS2 HL HS' E2) as [-> [-> ->]].
      apply RB_span; auto. congruence.
  Qed.

  (* ---- what depends on the segments only through literals and normalised names ---- *)

  Lemma refs_sim : forall segs segs', Forall2 ssim segs segs' -> refs classify segs = refs classify segs'.
  Proof.
    intros segs segs' F. induction F as [|a b segs segs' [_ Hn] F IH]; [reflexivity|].
    cbn [refs map]. unfold refs in IH. now rewrite Hn, IH.
  Qed.

  Lemma spec_resolve_sim : forall sigma last segs segs', Forall2 ssim segs segs' ->
    spec_resolve classify sigma segs last = spec_resolve classify sigma segs' last.
  Proof.
    intros sigma last segs segs' F. induction F as [|[l e] [l' e'] segs segs' [Hl Hn] F IH]; [reflexivity|].
    cbn [fst snd] in Hl, Hn. subst l'. cbn [spec_resolve]. now rewrite Hn, IH.
  Qed.

  Lemma items_of_sim : forall last segs segs', Forall2 ssim segs segs' ->
    forall off off', Forall2 item_sim (itemsOf off segs last) (itemsOf off' segs' last).
  Proof.
    intros last segs segs' F. induction F as [|[l e] [l' e'] segs segs' [Hl Hn] F IH]; intros off off'.
    - cbn [items_of]. destruct last; repeat constructor.
    - cbn [fst snd] in Hl, Hn. subst l'. cbn [items_of]. rewrite Hn.
      constructor; [constructor|]. constructor; [constructor|]. apply IH.
  Qed.

  Lemma validate_refs_names : forall symbols f,
    validate_refs symbols f = flat_map (fun n => if mem_str n symbols then [] else [n]) (names f).
  Proof.
    intros symbols f. unfold validate_refs, names, node_validate.
    induction (expressions f) as [|[[n a] b] l IH]; [reflexivity|].
    cbn [flat_map map fst]. rewrite IH. destruct (mem_str n symbols); reflexivity.
  Qed.

  (* ---- the constructor on both sides ---- *)

  Lemma reblank_mk : forall s s', rb s s' -> forall f, mk classify s = Ok f ->
    exists segs segs' last, Dec s segs last /\ Dec s' segs' last /\ Forall2 ssim segs segs' /\
      f = mkF s (itemsOf 0 segs last) /\ mk classify s' = Ok (mkF s' (itemsOf 0 segs' last)).
  Proof.
    intros s s' R f H. apply (mk_value_iff classify AOK) in H as [segs [last [D ->]]].
    destruct (reblank_decomp s s' R segs last D) as [segs' [D' F]].
    exists segs, segs', last. repeat split; try assumption.
    apply (mk_value_iff classify AOK). eauto.
  Qed.

  Lemma reblank_raise : forall s s' e, rb s s' -> mk classify s = Raise e -> mk classify s' = Raise e.
  Proof.
    intros s s' e R H. destruct (mk classify s') as [f'|e'] eqn:H'.
    - destruct (reblank_mk s' s (reblank_sym _ _ R) f' H') as [sg [sg' [la [_ [_ [_ [_ H2]]]]]]]. congruence.
    - rewrite (mk_errors classify s e H), (mk_errors classify s' e' H'). reflexivity.
  Qed.

  Theorem reblank_accept : forall s s', rb s s' -> is_ok (mk classify s) = is_ok (mk classify s').
  Proof.
    intros s s' R. destruct (mk classify s) as [f|e] eqn:H.
    - destruct (reblank_mk s s' R f H) as [sg [sg' [la [_ [_ [_ [_ H2]]]]]]]. now rewrite H2.
    - now rewrite (reblank_raise s s' e R H).
  Qed.

  Theorem reblank_refs : forall s s', rb s s' -> fs_refs classify s = fs_refs classify s'.
  Proof.
    intros s s' R. unfold fs_refs. destruct (mk classify s) as [f|e] eqn:H.
    - destruct (reblank_mk s s' R f H) as [segs [segs' [last [_ [_ [F [-> H2]]]]]]]. rewrite H2.
      f_equal. change (names (mkF s (itemsOf 0 segs last)) = names (mkF s' (itemsOf 0 segs' last))).
      rewrite !names_items_of. now apply refs_sim.
    - now rewrite (reblank_raise s s' e R H).
  Qed.

  Theorem reblank_validate : forall s s', rb s s' -> forall f f' symbols,
    mk classify s = Ok f -> mk classify s' = Ok f' -> validate_refs symbols f = validate_refs symbols f'.
  Proof.
    intros s s' R f f' symbols H H'.
    destruct (reblank_mk s s' R f H) as [segs [segs' [last [_ [_ [F [-> H2]]]]]]].
    rewrite H2 in H'. injection H' as <-.
    rewrite !validate_refs_names, !names_items_of. now rewrite (refs_sim _ _ F).
  Qed.

  Theorem reblank_resolve : forall s s', rb s s' -> forall f f' sigma,
    mk classify s = Ok f -> mk classify s' = Ok f' -> resolve sigma f = resolve sigma f'.
  Proof.
    intros s s' R f f' sigma H H'.
    destruct (reblank_mk s s' R f H) as [segs [segs' [last [_ [_ [F [-> H2]]]]]]].
    rewrite H2 in H'. injection H' as <-.
    rewrite !(resolve_items_of classify). now rewrite (spec_resolve_sim sigma last _ _ F).
  Qed.

  (* the value itself: piece by piece the same literals and the same names *)
  Theorem reblank_items : forall s s', rb s s' -> forall f f',
    mk classify s = Ok f -> mk classify s' = Ok f' -> Forall2 item_sim (items f) (items f').
  Proof.
    intros s s' R f f' H H'.
    destruct (reblank_mk s s' R f H) as [segs [segs' [last [_ [_ [F [-> H2]]]]]]].
    rewrite H2 in H'. injection H' as <-. cbn [items]. now apply items_of_sim.
  Qed.

  Theorem reblank_fs : forall s s', rb s s' ->
    is_ok (mk classify s) = is_ok (mk classify s') /\
    fs_refs classify s = fs_refs classify s' /\
    (forall f f' symbols, mk classify s = Ok f -> mk classify s' = Ok f' ->
       validate_refs symbols f = validate_refs symbols f') /\
    (forall f f' sigma, mk classify s = Ok f -> mk classify s' = Ok f' ->
       resolve sigma f = resolve sigma f').
  Proof.
    intros s s' R. split; [now apply reblank_accept|]. split; [now apply reblank_refs|].
    split; intros; [eapply reblank_validate|eapply reblank_resolve]; eauto.
  Qed.

  (* ---- elementary changes of blanks ---- *)

  Lemma is_dot_punct : forall d, is_dot classify d = true -> is_punct classify d = true.
  Proof. intros d H. unfold is_punct. rewrite (isd_class classify d H). reflexivity. Qed.

  Lemma blank_step_lex : forall e e', blank_step classify e e' -> lex classify e = lex classify e'.
  Proof.
    intros e e' S. destruct S as [b e Hb | b e Hb | b d e1 e2 Hb Hd | b d e1 e2 Hb Hd
                                  | b b' e1 e2 Hb Hb' | b b' e1 e2 Hb Hb'].
    - apply lex_leading_blank. now apply isb_class.
    - apply lex_trailing_blank. now apply isb_class.
    - apply lex_blank_before_punct; [now apply isb_class|now apply is_dot_punct].
    - apply lex_blank_after_punct; [now apply isb_class|now apply is_dot_punct].
    - apply lex_blank_run; now apply isb_class.
    - apply lex_blank_kind; now apply isb_class.
  Qed.

  Lemma blank_step_in : forall x e e', is_blank classify x = false -> blank_step classify e e' ->
    (In x e <-> In x e').
  Proof.
    intros x e e' Hx S. destruct S as [b e Hb | b e Hb | b d e1 e2 Hb Hd | b d e1 e2 Hb Hd
                                       | b b' e1 e2 Hb Hb' | b b' e1 e2 Hb Hb'];
      rewrite ?in_app_iff; simpl; intuition (subst; congruence).
  Qed.

  Lemma blank_edits_lex : forall e e', blank_edits classify e e' -> lex classify e = lex classify e'.
  Proof.
    intros e e' E. induction E as [e | e1 e2 e3 S E IH | e1 e2 e3 S E IH].
    - reflexivity.
    - now rewrite (blank_step_lex _ _ S).
    - now rewrite <- (blank_step_lex _ _ S).
  Qed.

  Lemma blank_edits_in : forall x e e', is_blank classify x = false -> blank_edits classify e e' ->
    (In x e <-> In x e').
  Proof.
    intros x e e' Hx E. induction E as [e | e1 e2 e3 S E IH | e1 e2 e3 S E IH].
    - tauto.
    - rewrite (blank_step_in x _ _ Hx S). exact IH.
    - rewrite <- (blank_step_in x _ _ Hx S). exact IH.
  Qed.

  Lemma rbrace_not_blank : is_blank classify rbrace = false.
  Proof. unfold is_blank. now rewrite (proj2 (ascii_ok_braces classify AOK)). Qed.

  (* an expression text without '}' and any re-spelling of its blanks make a span pair *)
  Theorem blank_edits_span : forall e e', ~ In rbrace e -> blank_edits classify e e' ->
    span_text e /\ span_text e' /\ lex classify e = lex classify e'.
  Proof.
    intros e e' H E. split; [now apply no_rbrace_span_text|]. split.
    - apply no_rbrace_span_text. now rewrite <- (blank_edits_in rbrace e e' rbrace_not_blank E).
    - now apply blank_edits_lex.
  Qed.

  Theorem reblank_edit : forall l e e' r r', lit_seg l -> ~ In rbrace e ->
    blank_edits classify e e' -> rb r r' ->
    rb (l ++ open2 ++ e ++ close2 ++ r) (l ++ open2 ++ e' ++ close2 ++ r').
  Proof.
    intros l e e' r r' HL H E R. destruct (blank_edits_span e e' H E) as [HS [HS' HX]].
    now apply RB_span.
  Qed.
End Main.
