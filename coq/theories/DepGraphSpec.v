(* DepGraphSpec.v — specification of C15, written from the property text, not from the code. *)
From Coq Require Import List NArith Bool Arith.
Require Import OJD.Base OJD.DepGraph.
Import ListNotations.

Definition names (j : job) : list name := map fst j.

(* the declared dependencies of the step(s) named [n], in declared order *)
Definition deps_of (j : job) (n : name) : list name :=
  flat_map (fun s => if N.eqb (fst s) n then snd s else []) j.

(* [a] depends on [b] *)
Definition depends (j : job) (a b : name) : Prop := In b (deps_of j a).

(* a non-empty dependency path *)
Inductive dpath (j : job) : name -> name -> Prop :=
| dpath_one : forall a b, depends j a b -> dpath j a b
| dpath_cons : forall a b c, depends j a b -> dpath j b c -> dpath j a c.

Definition acyclic (j : job) : Prop := forall n, ~ dpath j n n.

(* every declared dependency edge (origin, dependent): steps in template order, each step's
   dependencies in declared order *)
Definition all_edges (j : job) : list edge :=
  flat_map (fun s => map (fun d => (d, fst s)) (snd s)) j.

(* the domain of the theorems: the Jobs on which the constructor does not raise KeyError and
   no dict key is overwritten *)
Definition closed (j : job) : Prop :=
  forall n ds d, In (n, ds) j -> In d ds -> In d (names j).
Definition well_named (j : job) : Prop := NoDup (names j) /\ closed j.

(* [d] occurs (strictly) before [n] in [l] *)
Definition before (d n : name) (l : list name) : Prop :=
  exists l1 l2, l = l1 ++ n :: l2 /\ In d l1.

Definition is_max (m : nat) (l : list nat) : Prop := In m l /\ forall x, In x l -> x <= m.

(* The documented order: steps in template order, each preceded by its not-yet-placed
   dependencies in template order.  [visit] places one step; an already placed step is left
   where it is.  The recursion is on explicit fuel; on an acyclic Job the fuel [length j] is
   never exhausted (DepGraphProofs.visit_fuel_irrelevant). *)
Fixpoint visit (j : job) (fuel : nat) (placed : list name) (n : name) : list name :=
  match fuel with
  | 0 => placed
  | S f =>
    if mem n placed then placed
    else fold_left (visit j f) (filter (fun m => mem m (deps_of j n)) (names j)) placed ++ [n]
  end.

Definition stable_order_fuel (j : job) (fuel : nat) : list name :=
  fold_left (visit j fuel) (names j) [].

Definition stable_order (j : job) : list name := stable_order_fuel j (length j).
