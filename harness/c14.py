"""C14 - Combination expressions: exact grammar, and size rules enforced on Jobs.

Correspondence between the real implementation (imported from /repo/src) and the extracted Coq
model Comb.v, on four observables:

  parse    CombinationExpressionParser().parse(s): structural dump of the node objects, the text
           of str(tree) with blanks removed, whether str(tree) parses back to the same tree - or
           the exception family (ExpressionError family vs other:<class>)
  tmpl     decode_job_template on a one-step skeleton whose step declares task parameters P and
           the combination string s: accept / reject (DecodeValidationError) / other:<class>
  dims     the same skeleton with ranges of chosen lengths, then create_job:
           job <len(StepParameterSpaceIterator)> / raise DecodeValidationError / other:<class>
  vtree    _validate_expr_tree(parse(s), lengths) directly (lengths may miss names, may be 0)
  charset  the live compiled regex and max_length of the CombinationExpr field type, on strings

All randomness comes from VERIF_SEED.
"""
import itertools
import json
import random
import sys
from pathlib import Path

sys.path.insert(0, str(Path(__file__).resolve().parent))
import core  # noqa: E402

from openjd.model import (  # noqa: E402
    DecodeValidationError,
    ParameterValue,
    ParameterValueType,
    StepParameterSpaceIterator,
    create_job,
    decode_job_template,
)
from openjd.model._errors import ExpressionError  # noqa: E402
from openjd.model._internal import CombinationExpressionParser  # noqa: E402
from openjd.model._internal._combination_expr import (  # noqa: E402
    AssociationNode,
    IdentifierNode,
    ProductNode,
)
from openjd.model._internal._param_space_dim_validation import _validate_expr_tree  # noqa: E402
from openjd.model.v2023_09 import StepParameterSpaceDefinition  # noqa: E402

# ---------------------------------------------------------------- alphabets
BLANKS_ASCII = [" ", "  ", "   "]
# NBSP, ideographic space, em space, NEL and FS are \s for Python's re; U+200B is not
BLANKS_ANY = [" ", "\t", "\n", "\u00a0", "\u3000", "  ", "\r\n", "\u2003", "\x1c", "\u0085"]
POOL3 = ["A", "Bb", "C_1"]
NAMES = ["A", "B", "C", "D", "Bb", "C_1", "_x", "p9", "Frame", "tile_X", "_", "a1_b2", "Z9z", "camera",
         "k_", "x__y", "Q", "R2", "__", "s_0"]
# e-acute, Arabic-Indic digit three (\d, \w), CJK, superscript two (\w but not \d), fullwidth A
UNI_NAMES = ["\u00e9", "a\u00e9\u0663", "\u540d\u524d", "_\u0663", "\uff21b", "x\u00e9_1", "\u00b2a"]
TOKS = ["ID", "*", ",", "(", ")"]
FOREIGN = ["\t", "\n", "\u00a0", "\u3000", "\u00e9", "-", ".", "\r\n", "\u0663"]
MUT_POOL = list("AB_1*(), ") + ["\t", "\n", "-", ".", ":", "1", "9", "+", "\u00a0", "\u0663", "\u00e9", "\u00b2",
                                "\u00d7", "\uff0a", "\uff08", "\u200b", "((", "))", ",,", "**", "()", "\u3000",
                                "{", "}", "{{", "}}", "{0}", "%", "%s", "\\", "$", "[", "]", "#", "'", "\""]

_FIELD = StepParameterSpaceDefinition.__fields__["combination"].type_
_REGEX = _FIELD.regex
_MAXLEN = _FIELD.max_length


# ---------------------------------------------------------------- trees
def gen_tree(rng, names):
    """A canonical tree whose leaves are `names`, left to right."""

    def split(ns, k):
        cuts = sorted(rng.sample(range(1, len(ns)), k - 1))
        return [ns[a:b] for a, b in zip([0] + cuts, cuts + [len(ns)])]

    def expr(ns):
        if len(ns) == 1:
            return ("I", ns[0])
        if rng.random() < 0.6:
            k = rng.randint(2, min(len(ns), 5))
            return ("P", [elem(p) for p in split(ns, k)])
        return elem(ns)

    def elem(ns):
        if len(ns) == 1:
            return ("I", ns[0])
        k = rng.randint(2, min(len(ns), 5))
        return ("A", [expr(p) for p in split(ns, k)])

    return expr(list(names))


def tree_tokens(t):
    if t[0] == "I":
        return [t[1]]
    if t[0] == "P":
        out = []
        for i, c in enumerate(t[1]):
            if i:
                out.append("*")
            out += tree_tokens(c)
        return out
    out = ["("]
    for i, c in enumerate(t[1]):
        if i:
            out.append(",")
        out += tree_tokens(c)
    return out + [")"]


def render(rng, toks, blanks, p=0.5):
    out = []
    prev_ident = False
    for tk in toks:
        ident = tk not in ("*", ",", "(", ")")
        if (ident and prev_ident) or rng.random() < p:
            out.append(rng.choice(blanks))
        out.append(tk)
        prev_ident = ident
    if rng.random() < 0.2:
        out.insert(0, rng.choice(blanks))
    if rng.random() < 0.2:
        out.append(rng.choice(blanks))
    return "".join(out)


def tree_has_assoc(t):
    return t[0] == "A" or (t[0] == "P" and any(tree_has_assoc(c) for c in t[1]))


def leaves(t):
    return [t[1]] if t[0] == "I" else [x for c in t[1] for x in leaves(c)]


def mutate(rng, s):
    cs = list(s)
    if not cs:
        return rng.choice(MUT_POOL)
    i = rng.randrange(len(cs))
    k = rng.random()
    if k < 0.25:
        del cs[i]
    elif k < 0.5:
        cs.insert(i, rng.choice(MUT_POOL))
    elif k < 0.65:
        cs[i] = rng.choice(MUT_POOL)
    elif k < 0.8:
        j = rng.randrange(len(cs))
        cs[i], cs[j] = cs[j], cs[i]
    else:
        cs.insert(i, cs[i])
    return "".join(cs)


def prime_factors(n):
    out, d = [], 2
    while n > 1:
        while n % d == 0:
            out.append(d)
            n //= d
        d += 1
    return out


def assign_lengths(rng, t, L, out):
    """Give every leaf a length such that every association below t is balanced and t has L values."""
    if t[0] == "I":
        out[t[1]] = L
    elif t[0] == "A":
        for c in t[1]:
            assign_lengths(rng, c, L, out)
    else:
        fs = [1] * len(t[1])
        for p in prime_factors(L):
            fs[rng.randrange(len(fs))] *= p
        for c, f in zip(t[1], fs):
            assign_lengths(rng, c, f, out)


# ---------------------------------------------------------------- implementation side
def dump(node):
    """Structural dump by walking the node objects (never repr)."""
    if isinstance(node, IdentifierNode):
        return ["I", core.cps(node.parameter)]
    if isinstance(node, ProductNode):
        return ["P"] + [dump(c) for c in node.children]
    if isinstance(node, AssociationNode):
        return ["A"] + [dump(c) for c in node.children]
    return ["?", type(node).__name__]


def fam(e):
    if isinstance(e, ExpressionError):
        return "ExpressionError"
    return "other:" + type(e).__name__


def model_fam(name):
    return "ExpressionError" if name in ("ExpressionError", "TokenError") else "other:" + name


TYPES = ["INT", "INTX", "INTP", "STRING", "FLOAT", "PATH"]


def range_text(n, variant):
    """a range expression with exactly n values (counted here, by construction), in one of several spellings"""
    if n < 4 or variant == 0:
        return f"1-{n}" if n > 1 else "1"
    if variant == 1:                       # stepped, written end off the grid
        return f"0-{3 * (n - 1) + 2}:3"
    if variant == 2:                       # two stepped pieces; the first one's written end is off its grid and the
        k = n // 2                         # second starts one step after that written end (NOT after the last value)
        a_end = 3 * (k - 1) + 2
        b0 = a_end + 3
        return f"0-{a_end}:3,{b0}-{b0 + 3 * (n - k - 1) + 1}:3"
    if variant == 3:                       # downwards
        return f"{n}-1:-1"
    return f"1,3-{n},2"                    # pieces out of order that merge into one


def skeleton(params, comb):
    """params: list of (name, kind, length).  Returns (template dict, job parameter values)."""
    defs, jp, jv = [], [], {}
    for i, (name, kind, n) in enumerate(params):
        if kind == "INT":
            d = {"name": name, "type": "INT", "range": list(range(1, n + 1))}
        elif kind == "INTX":
            d = {"name": name, "type": "INT", "range": range_text(n, (i + n) % 5)}
        elif kind == "INTP":
            d = {"name": name, "type": "INT", "range": "1-{{Param.L%d}}" % i}
            jp.append({"name": "L%d" % i, "type": "INT"})
            jv["L%d" % i] = ParameterValue(type=ParameterValueType.INT, value=str(n))
        elif kind == "FLOAT":
            d = {"name": name, "type": "FLOAT", "range": [k + 0.5 for k in range(n)]}
        else:
            d = {"name": name, "type": kind, "range": ["v%d" % k for k in range(n)]}
        defs.append(d)
    t = {
        "specificationVersion": "jobtemplate-2023-09",
        "name": "J",
        "steps": [{
            "name": "S",
            "script": {"actions": {"onRun": {"command": "e"}}},
            "parameterSpace": {"taskParameterDefinitions": defs, "combination": comb},
        }],
    }
    if jp:
        t["parameterDefinitions"] = jp
    return t, jv


def toks_text(toks):
    m = {"S": "*", "LP": "(", "RP": ")", "M": ",", "D": ".", "H": "-", "C": ":"}
    out = []
    for t in toks:
        if isinstance(t, list):
            out.append(core.uncps(t[1]) if t[0] == "N" else str(t[1]))
        else:
            out.append(m[t])
    return "".join(out)


CORPUS = [
    # historical: accepted before 5fdbd84 (cardinality comparison); '_' rejected before 4c6942e
    {"k": "tmpl", "params": ["A", "B"], "s": "A * C"},
    {"k": "tmpl", "params": ["A", "B"], "s": "C * A"},
    {"k": "tmpl", "params": ["A", "B"], "s": "(A, C)"},
    {"k": "tmpl", "params": ["A_1", "_b"], "s": "A_1 * _b"},
    {"k": "tmpl", "params": ["A", "B"], "s": "A * B"},
    {"k": "tmpl", "params": ["A", "B"], "s": "B*A"},
    {"k": "tmpl", "params": ["A", "B"], "s": "A * A * B"},
    {"k": "tmpl", "params": ["A", "B"], "s": "(A, A) * B"},
    {"k": "tmpl", "params": ["A", "B"], "s": "A"},
    {"k": "tmpl", "params": ["A"], "s": "A * B"},
    {"k": "tmpl", "params": ["A"], "s": "A * A"},
    {"k": "tmpl", "params": ["A"], "s": "A" + " " * 1279},
    {"k": "tmpl", "params": ["A"], "s": "A" + " " * 1280},
    {"k": "tmpl", "params": ["A"], "s": " " * 1279 + "A"},
    {"k": "tmpl", "params": ["A"], "s": " " * 1280 + "A"},
    {"k": "tmpl", "params": ["A"], "s": "A\t"},
    {"k": "tmpl", "params": ["A"], "s": "A\n"},
    {"k": "tmpl", "params": ["A"], "s": "A\u00a0"},
    {"k": "tmpl", "params": ["A", "B"], "s": "A\u3000*\u3000B"},
    {"k": "tmpl", "params": ["A"], "s": "\u00e9"},
    {"k": "tmpl", "params": ["A"], "s": " "},
    {"k": "tmpl", "params": ["A"], "s": "(A)"},
    {"k": "tmpl", "params": ["A", "B"], "s": "(A,B"},
    {"k": "tmpl", "params": ["A", "B"], "s": "A B"},
    {"k": "tmpl", "params": ["A", "B"], "s": "A * 1B"},
    {"k": "tmpl", "params": ["A", "B"], "s": "A - B"},
    {"k": "tmpl", "params": ["A", "B", "C"], "s": "(A, B * C)"},
    # documented test strings of test_combination_expr.py and neighbours
    {"k": "parse", "s": "A"}, {"k": "parse", "s": "A * B"}, {"k": "parse", "s": "(A, B)"},
    {"k": "parse", "s": "(A,B)*C"}, {"k": "parse", "s": "A * (B, C) * D"}, {"k": "parse", "s": "(A * B, C)"},
    {"k": "parse", "s": "((A, B), (C, D))"}, {"k": "parse", "s": "(A, (B, C) * D, E)"},
    {"k": "parse", "s": ""}, {"k": "parse", "s": " "}, {"k": "parse", "s": "()"}, {"k": "parse", "s": "(A)"},
    {"k": "parse", "s": "(A,)"}, {"k": "parse", "s": "(,A)"}, {"k": "parse", "s": "A *"}, {"k": "parse", "s": "* A"},
    {"k": "parse", "s": "A B"}, {"k": "parse", "s": "A,B"}, {"k": "parse", "s": "(A,B"}, {"k": "parse", "s": "A,B)"},
    {"k": "parse", "s": "(A,B))"}, {"k": "parse", "s": "((A,B)"}, {"k": "parse", "s": "A * * B"},
    {"k": "parse", "s": "A.B"}, {"k": "parse", "s": "A-B"}, {"k": "parse", "s": "1"}, {"k": "parse", "s": "A1 * _"},
    {"k": "parse", "s": "1A"}, {"k": "parse", "s": "\u00e9 * \u540d\u524d"}, {"k": "parse", "s": "a\u0663"},
    {"k": "parse", "s": "\u0663a"}, {"k": "parse", "s": "A\u00a0*\u3000B"}, {"k": "parse", "s": "A \uff0a B"},
    {"k": "parse", "s": "A\u200bB"}, {"k": "parse", "s": "\n(\tA\r\n,\x1cB )\u0085"},
    {"k": "parse", "s": "(" * 150 + "A" + ",A)" * 150},
    {"k": "dims", "params": [["A", "INT", 3], ["B", "STRING", 3]], "s": "(A, B)"},
    {"k": "dims", "params": [["A", "INT", 3], ["B", "STRING", 4]], "s": "(A, B)"},
    {"k": "dims", "params": [["A", "INTP", 6], ["B", "INTX", 2], ["C", "FLOAT", 3]], "s": "(A, B * C)"},
    {"k": "dims", "params": [["A", "INTP", 5], ["B", "INTX", 2], ["C", "FLOAT", 3]], "s": "(A, B * C)"},
    {"k": "dims", "params": [["A", "INT", 2], ["B", "PATH", 3]], "s": "A * B"},
    {"k": "dims", "params": [["A", "INT", 2], ["B", "PATH", 3]], "s": "A * C"},
    {"k": "vtree", "lens": [["A", 2]], "s": "A * C"},
    {"k": "vtree", "lens": [["A", 0], ["B", 0]], "s": "(A, B)"},
    {"k": "vtree", "lens": [["A", 2], ["B", 3], ["C", 6]], "s": "(A * B, C)"},
    {"k": "vtree", "lens": [["A", 2], ["B", 3], ["C", 5]], "s": "(A * B, C)"},
    # deep nesting: the recursive-descent parser exhausts Python's recursion limit
    # (KNOWN_FINDINGS predicate deep_nesting_recursion)
    {"k": "parse", "s": "(" * 1279 + "A"},
    {"k": "tmpl", "params": ["A"], "s": "(" * 1279 + "A"},
]


def _non_ascii(*groups):
    out = set()
    for g in groups:
        for x in g:
            out |= {ch for ch in x if ord(ch) > 127}
    return "".join(sorted(out))


# every non-ASCII character any generator may put into a string that reaches the lexer (their
# classes are read from Python's `re` and shipped to the driver with each batch)
EXTRA_CHARS = _non_ascii(BLANKS_ANY, UNI_NAMES, FOREIGN, MUT_POOL, [c["s"] for c in CORPUS])


class C14(core.PropBase):
    id = "C14"
    component = "comb"
    extract_file = "ExtractComb.v"
    chars = EXTRA_CHARS
    uses_table = True
    chunk_size = 400
    theorem_for_mismatch = ("C14_grammar / C14_print_parse / C14_template_accept / C14_dims / C14_create_job "
                            "(model = implementation correspondence)")
    assumptions = [
        "classes \\s \\w \\d of the characters used are read from Python's re on every run; theorems assume nothing about them (C14_template_accept holds for every classification)",
        "len(str) counts code points; CPython 3.12 and pydantic 1.10 as installed",
        "comb_max_len = 1280 is written in Comb.v (tools/regen.py does not export it yet); the live max_length and regex are exercised at the 1280/1281 boundary and on the charset sweep every run",
        "task parameter names handed to the template are distinct (hypothesis NoDup params of C14_template_accept)",
    ]

    # ------------------------------------------------------------ cases
    def corpus_cases(self):
        return [dict(c) for c in CORPUS]

    def sweep(self, lmax, lmax_tmpl):
        for L in range(0, lmax + 1):
            for ts in itertools.product(TOKS, repeat=L):
                k = 0
                parts = []
                used = []
                for t in ts:
                    if t == "ID":
                        nm = POOL3[k % 3]
                        k += 1
                        parts.append(nm)
                        if nm not in used:
                            used.append(nm)
                    else:
                        parts.append(t)
                s = " ".join(parts)
                yield {"k": "parse", "s": s}
                if L <= lmax_tmpl:
                    yield {"k": "tmpl", "params": used or ["A"], "s": s}

    def charset_cases(self, thorough):
        reps = ["A", "Z", "a", "z", "0", "9", "_", "*", "(", ")", ",", " ", "\t", "\n", "-", ".", "@", "[", "`", "{",
                "/", ":", "\u00e9", "\u00a0", "'", "+", "\x1f", "\x7f"]
        for cp in range(0, 0x300):
            yield {"k": "charset", "s": chr(cp)}
        for c in EXTRA_CHARS + "\u2028\uff3f\U0001d400":
            yield {"k": "charset", "s": c}
        yield {"k": "charset", "s": ""}
        for n in (2, 3) if thorough else (2,):
            for t in itertools.product(reps, repeat=n):
                yield {"k": "charset", "s": "".join(t)}
        for n in (1279, 1280, 1281, 2000):
            yield {"k": "charset", "s": "A" * n}
            yield {"k": "charset", "s": "A" * (n - 1) + "\n"}

    def rand_parse(self, rng):
        n = rng.choice([1, 2, 2, 3, 3, 4, 5, 6, 8, 10, 12, 16])
        pool = NAMES + (UNI_NAMES if rng.random() < 0.3 else [])
        names = [rng.choice(pool) for _ in range(n)]
        t = gen_tree(rng, names)
        blanks = BLANKS_ANY if rng.random() < 0.4 else BLANKS_ASCII
        return render(rng, tree_tokens(t), blanks, p=rng.choice([0.0, 0.3, 0.8]))

    def rand_tmpl(self, rng):
        big = rng.random() < 0.2
        npar = rng.randint(5, 16) if big else rng.randint(1, 4)
        params = rng.sample(NAMES, npar)
        ids = list(params)
        rng.shuffle(ids)
        k = rng.random()
        others = [n for n in NAMES if n not in params]
        if k < 0.35:
            pass                                              # exactly once each
        elif k < 0.47:
            ids[rng.randrange(len(ids))] = rng.choice(others)  # one unknown + one missing
        elif k < 0.57 and len(ids) > 1:
            del ids[rng.randrange(len(ids))]                  # missing
        elif k < 0.67:
            ids.insert(rng.randrange(len(ids) + 1), rng.choice(others))   # extra
        elif k < 0.82:
            ids.insert(rng.randrange(len(ids) + 1), rng.choice(ids))      # duplicate
        elif k < 0.88:
            ids = [rng.choice(params + others[:2]) for _ in range(rng.randint(1, 5))]
        s = render(rng, tree_tokens(gen_tree(rng, ids)), BLANKS_ASCII, p=rng.choice([0.0, 0.4, 0.9]))
        k2 = rng.random()
        if k2 < 0.10:
            s = mutate(rng, s)
        elif k2 < 0.16:
            i = rng.randrange(len(s) + 1)
            s = s[:i] + rng.choice(["\t", "\n", "\u00a0", "\u3000", "\u00e9", "-", ".", "\r\n", "\u0663"]) + s[i:]
        elif k2 < 0.26:
            target = rng.choice([1279, 1280, 1280, 1281, 1281, 1300])
            pad = max(0, target - len(s))
            where = rng.random()
            if where < 0.4:
                s = s + " " * pad
            elif where < 0.7:
                s = " " * pad + s
            else:
                i = s.find(" ")
                s = (s[:i] + " " * pad + s[i:]) if i >= 0 else s + " " * pad
        return {"k": "tmpl", "params": params, "s": s}

    def rand_long(self, rng):
        """16 parameters with 60-64 character names: expressions whose own text is near the limit."""
        params = []
        for i in range(16):
            ln = rng.randint(60, 64)
            params.append(("p%02d_" % i + "x" * 64)[:ln])
        ids = list(params)
        rng.shuffle(ids)
        s = render(rng, tree_tokens(gen_tree(rng, ids)), [" "], p=rng.choice([0.0, 1.0]))
        target = rng.choice([1278, 1279, 1280, 1281, 1282])
        if len(s) < target:
            s = s + " " * (target - len(s))
        return {"k": "tmpl", "params": params, "s": s}

    def rand_dims(self, rng):
        n = rng.choice([1, 2, 2, 3, 3, 4, 4, 5, 6, 8, 10, 12, 16])
        names = rng.sample(NAMES, n)
        t = gen_tree(rng, names)
        lens = {}
        if rng.random() < 0.75:
            assign_lengths(rng, t, rng.choice([1, 2, 3, 4, 6, 8, 12, 16, 24, 30, 36, 64, 210]), lens)
            k = rng.random()
            if k < 0.4:
                v = rng.choice(names)
                lens[v] = max(1, lens[v] + rng.choice([-1, 1]))           # off by one
            elif k < 0.5:
                a, b = rng.choice(names), rng.choice(names)
                lens[a], lens[b] = lens[b], lens[a]
        else:
            for v in names:
                lens[v] = rng.choice([1, 1, 2, 2, 3, 4, 6])
        params = []
        stretched = False
        for v in names:
            kind = rng.choice(TYPES)
            if kind in ("INTX", "INTP") and not stretched and rng.random() < 0.2 and lens[v] > 1:
                lens[v] *= rng.choice([10, 1000])          # one long range per case, only as an expression
                stretched = True
            params.append([v, kind, lens[v]])
        rng.shuffle(params)
        s = render(rng, tree_tokens(t), BLANKS_ASCII, p=0.4)
        return {"k": "dims", "params": params, "s": s, "assoc": tree_has_assoc(t)}

    def rand_seq(self, rng):
        """call SEQUENCES in one process: a space, then spaces with the same combination text and the same
        lengths position by position but the names declared in another order (so the name -> length map
        differs), then the first again.  Anything remembered between calls about a 'shape' shows up here."""
        first = self.rand_dims(rng)
        while len(first["params"]) < 2:
            first = self.rand_dims(rng)
        seq = [first]
        names = [p[0] for p in first["params"]]
        for _ in range(rng.randint(1, 3)):
            perm = names[:]
            rng.shuffle(perm)
            if rng.random() < 0.5:
                perm = perm[1:] + perm[:1]
            seq.append({"k": "dims", "s": first["s"], "assoc": first.get("assoc"),
                        "params": [[perm[i], p[1], p[2]] for i, p in enumerate(first["params"])]})
        seq.append(dict(first))
        return {"k": "seq", "seq": seq, "assoc": first.get("assoc")}

    def rand_vtree(self, rng):
        n = rng.choice([1, 2, 3, 4, 6, 9, 16])
        names = [rng.choice(NAMES[:10]) for _ in range(n)] if rng.random() < 0.3 else rng.sample(NAMES, n)
        t = gen_tree(rng, names)
        lens = {}
        assign_lengths(rng, t, rng.choice([0, 1, 2, 6, 12, 60]), lens)
        for v in list(lens):
            r = rng.random()
            if r < 0.08:
                del lens[v]                                               # KeyError
            elif r < 0.2:
                lens[v] = rng.choice([0, 1, 2, 3, 5, lens[v] + 1])
        s = render(rng, tree_tokens(t), BLANKS_ANY, p=0.3)
        if rng.random() < 0.1:
            s = mutate(rng, s)
        return {"k": "vtree", "lens": [[k, v] for k, v in lens.items()], "s": s, "assoc": tree_has_assoc(t)}

    def cases(self, tier, seed):
        rng = random.Random(seed * 7919 + 14)
        thorough = tier == "thorough"
        yield from self.charset_cases(thorough)
        yield from self.sweep(9 if thorough else 7, 7 if thorough else 6)
        for _ in range(80000 if thorough else 8000):
            yield {"k": "parse", "s": self.rand_parse(rng)}
        for _ in range(80000 if thorough else 8000):            # malformed stream
            s = self.rand_parse(rng)
            for _ in range(rng.randint(1, 3)):
                s = mutate(rng, s)
            yield {"k": "parse", "s": s}
        for _ in range(100000 if thorough else 9000):
            yield self.rand_tmpl(rng)
        for _ in range(4000 if thorough else 300):
            yield self.rand_long(rng)
        for _ in range(100000 if thorough else 8000):
            yield self.rand_dims(rng)
        for _ in range(60000 if thorough else 6000):
            yield self.rand_vtree(rng)
        for _ in range(20000 if thorough else 2500):
            yield self.rand_seq(rng)
        # two parties at once on spaces of their own (a balanced and an unbalanced one, mostly): deterministic pre-emption
        for _ in range(400 if thorough else 40):
            a, b = self.rand_dims(rng), self.rand_dims(rng)
            yield {"k": "seq", "seq": [a, b], "assoc": a.get("assoc") or b.get("assoc"), "preempt": True}

    def rule(self, tier):
        a, b = (9, 7) if tier == "thorough" else (7, 6)
        return (f"corpus; charset/length sweep of the live field regex (every code point < 0x300, pairs"
                f"{'/triples' if tier == 'thorough' else ''} over 28 boundary characters, lengths 1279-1281); "
                f"EVERY token string of length <= {a} over {{identifier,*,',',(,)}} (identifiers round-robin from {POOL3}) "
                f"through the parser, and of length <= {b} also through decode_job_template (exhaustive); random canonical "
                "trees of 1-16 leaves rendered with random (incl. unicode) blanks; char-level mutations; template verdicts "
                "for 1-16 declared parameters with exact / unknown+missing / missing / extra / duplicate identifiers, "
                "foreign characters, padding to 1279..1281 characters, 16 names of 60-64 characters; create_job on "
                "balanced-by-construction and perturbed range lengths (INT list, INT range expression, INT range "
                "expression over a job parameter, STRING, FLOAT, PATH); _validate_expr_tree with missing/zero lengths; call sequences in one process "
                "(a space, the same combination text and lengths-by-position with the names declared in another order, the first again). "
                "distinct = by case; non-trivial = expression with an operator or parenthesis (parse), any template "
                "verdict, tree with an association (dims/vtree), string of >= 2 characters (charset)")

    def exhaustive(self, tier):
        return False   # the token-string sweeps are complete, the other streams are sampled

    def samples(self, tier, seed):
        rng = random.Random(seed)
        out = [CORPUS[0], CORPUS[6]]
        out += [{"k": "parse", "s": self.rand_parse(rng)} for _ in range(3)]
        out += [self.rand_tmpl(rng) for _ in range(3)]
        out += [self.rand_dims(rng) for _ in range(3)]
        out += [self.rand_vtree(rng)]
        return [json.loads(json.dumps(c)) if len(c.get("s", "")) < 300 else {**c, "s": c["s"][:80] + f"...<{len(c['s'])} chars>"} for c in out]

    def nontrivial(self, case):
        k = case["k"]
        if k == "parse":
            return any(ch in case["s"] for ch in "*(),")
        if k == "charset":
            return len(case["s"]) >= 2
        if k == "seq":
            return True
        if k in ("dims", "vtree"):
            return case.get("assoc", "(" in case["s"])
        return True

    # ------------------------------------------------------------ implementation observables
    def impl(self, case):
        k = case["k"]
        try:
            if k == "parse":
                return self.impl_parse(case["s"])
            if k == "tmpl":
                t, _ = skeleton([(p, "INT", 2) for p in case["params"]], case["s"])
                return self.impl_decode(t)[0]
            if k == "dims":
                return self.impl_dims(case)
            if k == "seq" and case.get("preempt"):
                # two parties at once: B's whole call runs at the function entries of A's (core.run_preempted)
                a, b = case["seq"]
                want_b = self.impl(b)
                ra, odd, _ = core.run_preempted(lambda: self.impl(a), lambda: self.impl(b), want_b, max_points=150)
                return ["seq", [ra, want_b if odd is None else ["other-party-differs", odd[1]]]]
            if k == "seq":
                return ["seq", [self.impl(c) for c in case["seq"]]]
            if k == "vtree":
                return self.impl_vtree(case)
            if k == "charset":
                s = case["s"]
                return [bool(_REGEX.match(s)), len(s) <= _MAXLEN]
        except RecursionError:
            return ["other:RecursionError"]
        return ["?"]

    def impl_parse(self, s):
        try:
            t = CombinationExpressionParser().parse(s)
        except BaseException as e:  # noqa: BLE001
            return ["raise", fam(e)]
        d = dump(t)
        text = str(t)
        try:
            again = dump(CombinationExpressionParser().parse(text)) == d
        except BaseException:  # noqa: BLE001
            again = False
        return ["ok", d, text.replace(" ", ""), again]

    def impl_decode(self, template):
        try:
            jt = decode_job_template(template=template)
        except DecodeValidationError:
            return ["reject"], None
        except BaseException as e:  # noqa: BLE001
            return ["other:" + type(e).__name__], None
        return ["accept"], jt

    def impl_dims(self, case):
        template, jv = skeleton([tuple(p) for p in case["params"]], case["s"])
        verdict, jt = self.impl_decode(template)
        if jt is None:
            return ["template", verdict[0]]
        try:
            job = create_job(job_template=jt, job_parameter_values=jv)
        except DecodeValidationError:
            return ["raise", "DecodeValidationError"]
        except BaseException as e:  # noqa: BLE001
            return ["raise", "other:" + type(e).__name__]
        try:
            n = len(StepParameterSpaceIterator(space=job.steps[0].parameterSpace))
        except BaseException as e:  # noqa: BLE001
            return ["job", "len-raised:" + type(e).__name__]
        return ["job", n]

    def impl_vtree(self, case):
        try:
            t = CombinationExpressionParser().parse(case["s"])
        except BaseException as e:  # noqa: BLE001
            return ["raise", fam(e)]
        try:
            n = _validate_expr_tree(t, {k: v for k, v in case["lens"]})
        except BaseException as e:  # noqa: BLE001
            return ["raise", fam(e)]
        return ["ok", n]

    # ------------------------------------------------------------ model observables
    def requests(self, case):
        k = case["k"]
        if k == "seq":
            return [r for c in case["seq"] for r in self.requests(c)]
        s = core.cps(case["s"])
        if k == "parse":
            return [["parse", s]]
        if k == "tmpl":
            return [["template", False, [core.cps(p) for p in case["params"]], s]]
        if k == "dims":
            return [["template", False, [core.cps(p[0]) for p in case["params"]], s],
                    ["dims", [[core.cps(p[0]), p[2]] for p in case["params"]], s]]
        if k == "vtree":
            return [["dims", [[core.cps(n), v] for n, v in case["lens"]], s]]
        if k == "charset":
            return [["charset", s]]
        return []

    def model_obs(self, case, replies):
        k = case["k"]
        if k == "seq":
            out, at = [], 0
            for c in case["seq"]:
                n = len(self.requests(c))
                out.append(self.model_obs(c, replies[at:at + n]))
                at += n
            return ["seq", out]
        r = replies[0]
        if isinstance(r, list) and r and r[0] == "driver-error":
            return ["driver", r]
        if k == "parse":
            if r[0] == "raise":
                return ["raise", model_fam(r[1])]
            tree, toks, again = r[1]
            return ["ok", tree, toks_text(toks), again == "true"]
        if k == "tmpl":
            return ["accept"] if r == "true" else ["reject"]
        if k == "dims":
            if r != "true":
                return ["template", "reject"]
            d = replies[1]
            if d[0] == "raise":                       # cannot happen once the template is accepted
                return ["raise", "parse:" + d[1]]
            j = d[2]
            if j[0] == "ok":
                return ["job", j[1]]
            return ["raise", j[1] if j[1] == "DecodeValidationError" else "other:" + j[1]]
        if k == "vtree":
            if r[0] == "raise":
                return ["raise", model_fam(r[1])]
            o = r[1]
            if o[0] == "ok":
                return ["ok", o[1]]
            return ["raise", model_fam(o[1])]
        if k == "charset":
            return [r[0] == "true", r[1] == "true"]
        return ["?"]

    def classify_case(self, case, obs):
        k = case["k"]
        if k == "seq":
            return ["seq:" + ",".join(str(o[0]) for o in obs[1])]
        head = obs[0] if isinstance(obs[0], str) else str(obs[0])
        ks = [f"{k}:{head}" + (":" + str(obs[1]) if head in ("raise", "template") else "")]
        if k == "charset":
            ks = [f"charset:regex={obs[0]},len_ok={obs[1]}"]
        if k == "tmpl":
            ks.append(f"tmpl:params={min(len(case['params']), 16)}")
            if len(case["s"]) >= 1279:
                ks.append(f"tmpl:len={min(len(case['s']), 1282)}:{head}")
        if k == "dims" and head == "job":
            ks.append("dims:job:" + ("with-assoc" if case.get("assoc") else "product-only"))
        if k == "parse" and head == "ok":
            ks.append("parse:ok:roundtrip=" + str(obs[3]))
        return ks

    # ------------------------------------------------------------ reporting
    def spec_obs(self, case):
        """The spec oracle is the model (proved equal to the specification in CombProofs.v); for
        template verdicts the pinned (pre-5fdbd84) accounting is evaluated too, so that a report
        can say 'behaves like the pinned code'."""
        drv = core.Driver(self.component)
        reqs = self.requests(case)
        if case["k"] == "tmpl":
            reqs = reqs + [["template", True, [core.cps(p) for p in case["params"]], core.cps(case["s"])]]
        replies, _ = drv.ask(reqs, self.prelude())
        out = {"spec (= model, by C14_*)": self.model_obs(case, replies)}
        if case["k"] == "tmpl":
            out["pinned_comb_accounting instance accepts"] = replies[-1]
        return out

    def shrink(self, case, budget=300):
        # the recursion-limit finding sits on an environment-dependent threshold (stack depth at
        # the call site): report the corpus input as it is rather than a borderline one
        if case.get("s", "").count("(") > 300:
            return case
        return super().shrink(case, budget)

    def shrink_candidates(self, case):
        if case["k"] == "seq":
            seq = case["seq"]
            for i in range(len(seq)):
                if len(seq) > 1:
                    yield {**case, "seq": seq[:i] + seq[i + 1:]}
            return
        s = case.get("s", "")
        if len(s) > 400:
            step = max(1, len(s) // 8)
            for i in range(0, len(s), step):
                yield {**case, "s": s[:i] + s[i + step:]}
            return
        for i in range(len(s)):
            yield {**case, "s": s[:i] + s[i + 1:]}

    known_predicates = {
        # Parser.parse / decode_job_template raise RecursionError on deeply nested parentheses
        "deep_nesting_recursion": lambda m: "RecursionError" in json.dumps(m["impl"]) and m["case"].get("s", "").count("(") > 100,
    }


PROP = C14()

if __name__ == "__main__":
    sys.exit(core.main(PROP, sys.argv[1:]))
