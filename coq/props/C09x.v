(* props/C09x.v — C09 as a theorem about the WHOLE create_job pipeline.

   Model: theories/CreateJobFull.v, [create_job_full classify envs template vals : outcome mval]
          (decode -> definitions -> merge -> preprocess -> symbol table -> instantiate_model -> job-side
           coercion -> every node validated by its target class), the one function props/C06x.v is about.
   Predicates: Glue.conforms_job / Glue.conforms_task (INT = Python int() numeral, FLOAT = finite Decimal
          numeral, STRING / PATH task values at most 1024 characters), the predicates of props/C09.v.
   Readers (theories/Conform.v, written from the property text and the job-side schema):
     [job_parameters_of job]          (name, type, value) for every entry of Job.parameters;
     [task_values_of classify job]    (step, parameter, type, value) for every item of every range list and
                                      every str(i) a range expression enumerates, for every step;
     [job_wf classify job]            the readers' defaults are never used: Job.parameters is None or a dict of
                                      JobParameter with str type and value, every step has a str name and its
                                      parameterSpace is None or a StepParameterSpace whose definitions have a
                                      str type and either a list of str items (one of the three range-list
                                      classes) or a range string that IS a range expression.
   Proofs: theories/ConformTyped.v (decoded trees are well typed), ConformInst.v (shape of the instantiated
   and coerced Job), ConformNodes.v (nodes_ok => each node passed its class => the validators of
   props/C09.v hold of the very items the reader returns), ConformPrep.v (prep_full: RawParam.<n> was
   checked against the merged definition, which has the template's type), ConformProofs.v (composition).

   The environment templates are ARBITRARY in the main statements (no acceptance premise is needed: a Job is
   only returned when their definitions could be read and merged); the forms with [accepted_envs] of
   notes/TASK_p09.md follow and are stated too. *)
From Coq Require Import List NArith ZArith Bool String.
Import ListNotations.
Require Import OJD.Base OJD.Lexer OJD.Json OJD.Schema OJD.Generated OJD.Numerals OJD.FormatStr
               OJD.CreateJob OJD.Parse OJD.Validators OJD.Accept OJD.Export OJD.Glue
               OJD.CreateJobFull OJD.CreateJobFullProofs OJD.Conform OJD.ConformProofs.
Local Open Scope string_scope.
Local Open Scope list_scope.

(* ------------------------------------------------------------------ the theorems *)

(* every job parameter value of every returned Job conforms to the type the Job declares for it *)
Theorem C09_full_job_params : forall classify j t envs vals job,
  decode_job classify j = Ok t ->
  create_job_full classify envs t vals = Ok job ->
  forall name ty v, In (name, ty, v) (job_parameters_of job) -> conforms_job ty v = true.
Proof. exact full_job_params. Qed.
Print Assumptions C09_full_job_params.

(* every task parameter value (range-list item, or value enumerated by a range expression) of every step of
   every returned Job conforms to the type its definition declares *)
Theorem C09_full_task_params : forall classify j t envs vals job,
  decode_job classify j = Ok t ->
  create_job_full classify envs t vals = Ok job ->
  forall step p ty v, In (step, p, ty, v) (task_values_of classify job) -> conforms_task ty v = true.
Proof. exact full_task_params. Qed.
Print Assumptions C09_full_task_params.

(* the two lists above are ALL the values of the Job: nothing sits in a place or a representation the
   readers skip *)
Theorem C09_full_readers_total : forall classify j t envs vals job,
  decode_job classify j = Ok t ->
  create_job_full classify envs t vals = Ok job ->
  job_wf classify job = true.
Proof. exact full_job_wf. Qed.
Print Assumptions C09_full_readers_total.

(* the statements of notes/TASK_p09.md verbatim (accepted environment templates) *)
Theorem C09_full_job_params_envs : forall classify j t envs vals job,
  decode_job classify j = Ok t -> accepted_envs classify envs ->
  create_job_full classify envs t vals = Ok job ->
  forall name ty v, In (name, ty, v) (job_parameters_of job) -> conforms_job ty v = true.
Proof. intros classify j t envs vals job Hd _. exact (full_job_params classify j t envs vals job Hd). Qed.
Print Assumptions C09_full_job_params_envs.

Theorem C09_full_task_params_envs : forall classify j t envs vals job,
  decode_job classify j = Ok t -> accepted_envs classify envs ->
  create_job_full classify envs t vals = Ok job ->
  forall step p ty v, In (step, p, ty, v) (task_values_of classify job) -> conforms_task ty v = true.
Proof. intros classify j t envs vals job Hd _. exact (full_task_params classify j t envs vals job Hd). Qed.
Print Assumptions C09_full_task_params_envs.

(* from the raw documents (create_job_docs returns the exported Job; the statement is about the instance) *)
Theorem C09_full_docs : forall classify env_docs doc vals t envs job,
  decode_job classify doc = Ok t -> mapM (decode_env classify) env_docs = Ok envs ->
  create_job_full classify envs t vals = Ok job ->
  (forall name ty v, In (name, ty, v) (job_parameters_of job) -> conforms_job ty v = true) /\
  (forall step p ty v, In (step, p, ty, v) (task_values_of classify job) -> conforms_task ty v = true) /\
  job_wf classify job = true /\
  create_job_docs classify env_docs doc vals = Ok (Ok (export job)).
Proof.
  intros classify env_docs doc vals t envs job Hd He H.
  split; [exact (full_job_params classify doc t envs vals job Hd H)|].
  split; [exact (full_task_params classify doc t envs vals job Hd H)|].
  split; [exact (full_job_wf classify doc t envs vals job Hd H)|].
  unfold create_job_docs. rewrite Hd, He. cbn [bind]. rewrite H. reflexivity.
Qed.
Print Assumptions C09_full_docs.

(* ------------------------------------------------------------------ non-vacuity *)
Definition js (x : string) : json := JStr (str_of_string x).
Definition jo (l : list (string * json)) : json := JObj (map (fun kv => (str_of_string (fst kv), snd kv)) l).
Definition vs (l : list (string * string)) : list (str * str) := map (fun kv => ($(fst kv), $(snd kv))) l.
Definition tp (n t : string) (r : json) : json := jo [("name", js n); ("type", js t); ("range", r)].
Definition run : json := jo [("actions", jo [("onRun", jo [("command", js "c")])])].

(* job parameters of all four types (two defaulted); task parameters of all four types: an INT range
   EXPRESSION and INT / FLOAT / STRING / PATH range LISTS mixing literals (a number, a lenient numeral " 4 ",
   a Decimal) with references to job parameters; a second step without parameter space *)
Definition ydoc : json :=
  jo [("specificationVersion", js "jobtemplate-2023-09");
      ("name", js "J");
      ("parameterDefinitions",
       JArr [jo [("name", js "Frames"); ("type", js "INT"); ("default", JInt 7)];
             jo [("name", js "Scale"); ("type", js "FLOAT")];
             jo [("name", js "Tag"); ("type", js "STRING"); ("default", js "ab")];
             jo [("name", js "Out"); ("type", js "PATH")]]);
      ("steps",
       JArr [jo [("name", js "A");
                 ("parameterSpace",
                  jo [("taskParameterDefinitions",
                       JArr [tp "X" "INT" (js "1-{{Param.Frames}}:3");
                             tp "Y" "INT" (JArr [JInt 1; js "{{Param.Frames}}"; js " 4 "]);
                             tp "Z" "FLOAT" (JArr [JDec 15 (-1); js "{{Param.Scale}}"]);
                             tp "S" "STRING" (JArr [js "lit"; js "{{Param.Tag}}x"]);
                             tp "P" "PATH" (JArr [js "{{RawParam.Out}}"])]);
                      ("combination", js "(X,Y) * Z * S * P")]);
                 ("script", run)];
             jo [("name", js "B"); ("script", run)]])].

Definition yvals : list (str * str) := vs [("Scale", "2.50"); ("Out", "a/b")].

(* the hypotheses are met, and the readers read the Job: these are exactly the (name, type, value) triples of
   job.parameters and the distinct (step, name, type, value) of StepParameterSpaceIterator over job.steps that
   the REAL create_job returns for this template and these values (replayed with /repo; harness/c09.py reads
   the same places) *)
Example C09_full_nonvacuous :
  exists t job,
    decode_job ascii_class ydoc = Ok t /\
    create_job_full ascii_class [] t yvals = Ok job /\
    job_parameters_of job
    = [($"Frames", $"INT", $"7"); ($"Scale", $"FLOAT", $"2.50"); ($"Tag", $"STRING", $"ab"); ($"Out", $"PATH", $"a/b")] /\
    task_values_of ascii_class job
    = [($"A", $"X", $"INT", $"1"); ($"A", $"X", $"INT", $"4"); ($"A", $"X", $"INT", $"7");
       ($"A", $"Y", $"INT", $"1"); ($"A", $"Y", $"INT", $"7"); ($"A", $"Y", $"INT", $"4");
       ($"A", $"Z", $"FLOAT", $"1.5"); ($"A", $"Z", $"FLOAT", $"2.50");
       ($"A", $"S", $"STRING", $"lit"); ($"A", $"S", $"STRING", $"abx");
       ($"A", $"P", $"PATH", $"a/b")] /\
    job_wf ascii_class job = true.
Proof.
  eexists. eexists. split; [vm_compute; reflexivity|]. split; [vm_compute; reflexivity|].
  split; [vm_compute; reflexivity|]. split; vm_compute; reflexivity.
Qed.

(* the property's own counterexamples are refused by the pipeline (no Job, so nothing to conform): the
   historical one — range ['{{Param.S}}'] of an INT task parameter with S = "abc" —, its FLOAT analogue with
   "NaN", a STRING item that grows beyond 1024 characters by substitution, a non-numeral reaching a range
   expression, and a FLOAT job parameter given "Infinity";  the same templates with conforming values return
   a Job *)
Definition zdoc (pt tt : string) (r : json) : json :=
  jo [("specificationVersion", js "jobtemplate-2023-09"); ("name", js "n");
      ("parameterDefinitions", JArr [jo [("name", js "S"); ("type", js pt)]]);
      ("steps", JArr [jo [("name", js "s"); ("script", run);
                          ("parameterSpace", jo [("taskParameterDefinitions", JArr [tp "T" tt r])])]])].

Definition long (n : nat) : json := JStr (repeat 120%N n ++ $"{{Param.S}}").

Example C09_full_refusals_nonvacuous :
  create_job_docs ascii_class [] (zdoc "STRING" "INT" (JArr [js "{{Param.S}}"])) (vs [("S", "abc")]) = Ok (Raise DecodeValidationError) /\
  create_job_docs ascii_class [] (zdoc "STRING" "FLOAT" (JArr [js "{{Param.S}}"])) (vs [("S", "NaN")]) = Ok (Raise DecodeValidationError) /\
  create_job_docs ascii_class [] (zdoc "STRING" "STRING" (JArr [long 1020])) (vs [("S", "12345")]) = Ok (Raise DecodeValidationError) /\
  create_job_docs ascii_class [] (zdoc "STRING" "INT" (js "1-{{Param.S}}")) (vs [("S", "x")]) = Ok (Raise DecodeValidationError) /\
  create_job_docs ascii_class [] (zdoc "FLOAT" "INT" (JArr [JInt 1])) (vs [("S", "Infinity")]) = Ok (Raise DecodeValidationError) /\
  (forall d v, In (d, v) [(zdoc "STRING" "INT" (JArr [js "{{Param.S}}"]), " 5 ");
                          (zdoc "STRING" "FLOAT" (JArr [js "{{Param.S}}"]), "1e2");
                          (zdoc "STRING" "STRING" (JArr [long 1020]), "1234");
                          (zdoc "STRING" "INT" (js "1-{{Param.S}}"), "3");
                          (zdoc "FLOAT" "INT" (JArr [JInt 1]), "1.5")] ->
     exists o, create_job_docs ascii_class [] d (vs [("S", v)]) = Ok (Ok o)).
Proof.
  split; [vm_compute; reflexivity|]. split; [vm_compute; reflexivity|]. split; [vm_compute; reflexivity|].
  split; [vm_compute; reflexivity|]. split; [vm_compute; reflexivity|].
  intros d v [E|[E|[E|[E|[E|[]]]]]]; injection E as <- <-; eexists; vm_compute; reflexivity.
Qed.

(* the predicates do discriminate on the values involved *)
Example C09_full_predicates_nonvacuous :
  conforms_task $"INT" $"abc" = false /\ conforms_task $"INT" $" 5 " = true /\
  conforms_task $"FLOAT" $"NaN" = false /\ conforms_task $"FLOAT" $"1e2" = true /\
  conforms_job $"FLOAT" $"Infinity" = false /\ conforms_job $"FLOAT" $"1.5" = true /\
  conforms_task $"STRING" (repeat 120%N 1025) = false /\ conforms_task $"PATH" (repeat 120%N 1024) = true.
Proof. vm_compute. repeat split. Qed.
