"""Shared helpers of harness/c10.py and harness/c12.py (component `jobparams`).

* conversion of DECODED parameter definitions (the objects decode_*_template returns) to the
  wire form of the Coq record `pdef` (coq/theories/JobParams.v);
* the numeral domain of coq/theories/Numerals.v and its differential test against Python's
  own int() / decimal.Decimal();
* value pools.
"""
from __future__ import annotations

import json
import sys
from decimal import Decimal, InvalidOperation
from pathlib import Path
from os.path import normpath

sys.path.insert(0, str(Path(__file__).resolve().parent))
import core  # noqa: E402

from openjd.model import (  # noqa: E402
    DecodeValidationError,
    decode_environment_template,
    decode_job_template,
)

STEP = {"name": "S", "script": {"actions": {"onRun": {"command": "e"}}}}


def job_template(params):
    t = {"specificationVersion": "jobtemplate-2023-09", "name": "J", "steps": [STEP]}
    if params is not None:
        t["parameterDefinitions"] = params
    return decode_job_template(template=t)


def env_template(name, params):
    t = {"specificationVersion": "environment-2023-09", "environment": {"name": name, "variables": {"A": "b"}}}
    if params is not None:
        t["parameterDefinitions"] = params
    return decode_environment_template(template=t)


_cache: dict = {}


def decoded(kind, params, name="E"):
    """decode (cached per process); None when the decoder rejects the definitions"""
    key = kind + name + json.dumps(params, sort_keys=True, default=str)
    if key in _cache:
        return _cache[key]
    try:
        r = job_template(params) if kind == "job" else env_template(name, params)
    except DecodeValidationError:
        r = None
    if len(_cache) > 20000:
        _cache.clear()
    _cache[key] = r
    return r


# ---------------------------------------------------------------- wire conversion
def opt(x, f=lambda y: y):
    return "none" if x is None else ["some", f(x)]


def num_of(x):
    """int or finite Decimal -> [mantissa, exponent] (exact)"""
    if isinstance(x, bool):
        raise TypeError("bool bound")
    if isinstance(x, int):
        return [x, 0]
    if isinstance(x, Decimal):
        sign, digits, exp = x.as_tuple()
        if not isinstance(exp, int):
            raise ValueError("non-finite Decimal in a decoded definition")
        m = int("".join(map(str, digits)))
        return [-m if sign else m, exp]
    raise TypeError(type(x).__name__)


def def_sx(p):
    """decoded Job*ParameterDefinition -> wire form of `pdef`"""
    ty = p.type.value
    numeric = ty in ("INT", "FLOAT")
    ot = getattr(p, "objectType", None)
    df = getattr(p, "dataFlow", None)
    return [
        core.cps(p.name),
        ty,
        opt(p.minValue if numeric else None, num_of),
        opt(p.maxValue if numeric else None, num_of),
        opt(p.allowedValues if numeric else None, lambda l: [num_of(a) for a in l]),
        opt(p.allowedValues if not numeric else None, lambda l: [core.cps(a) for a in l]),
        opt(None if numeric else p.minLength),
        opt(None if numeric else p.maxLength),
        opt(p.default, lambda d: core.cps(str(d))),       # the text _collect_defaults computes
        opt(ot, lambda o: o.value),
        opt(df, lambda o: o.value),
    ]


def unbig(a):
    """reply atom 0 | b<bits> | -b<bits> -> int"""
    if isinstance(a, int):
        return a
    if a.startswith("-b"):
        return -int(a[2:], 2)
    if a.startswith("b"):
        return int(a[1:], 2)
    raise ValueError(a)


# ---------------------------------------------------------------- numeral domain (Numerals.v)
UNI_SPACE = [0x85, 0xA0, 0x1680] + list(range(0x2000, 0x200B)) + [0x2028, 0x2029, 0x202F, 0x205F, 0x3000]
INT_SPACE = [9, 10, 11, 12, 13, 32] + UNI_SPACE
DEC_SPACE = INT_SPACE + [28, 29, 30, 31]


def in_numeral_domain(s: str, max_exp_digits=9) -> bool:
    """the domain claimed in Numerals.v: no non-ASCII decimal digit, < 4300 digits, bounded
    exponent text"""
    if len(s) > 4000:
        return False
    for ch in s:
        if ord(ch) > 127 and ch.isdecimal():
            return False
    t = s.replace("_", "")
    for mark in ("e", "E"):
        if mark in t:
            tail = t.rsplit(mark, 1)[1].strip().lstrip("+-")
            if len(tail) > max_exp_digits:
                return False
    return True


def small_exponent(s: str, limit=3) -> bool:
    """additional restriction for strings whose VALUE is compared by the extracted model
    (10^|e| is computed with unary-free but algebraic integers): exponent text <= 3 digits"""
    return in_numeral_domain(s, limit)


def py_int(s):
    try:
        return ["some", int(s)]
    except ValueError:
        return "none"
    except BaseException as e:  # noqa: BLE001
        return ["exc", type(e).__name__]


def py_dec(s):
    try:
        d = Decimal(s)
    except InvalidOperation:
        return "none"
    except BaseException as e:  # noqa: BLE001
        return ["exc", type(e).__name__]
    if d.is_nan():
        return "nan"
    if d.is_infinite():
        return ["inf", d.is_signed()]
    return ["fin"] + num_of(d)


def model_int(reply):
    if reply == "none":
        return "none"
    return ["some", unbig(reply[1])]


def model_dec(reply):
    if reply in ("none", "nan"):
        return reply
    if reply[0] == "inf":
        return ["inf", reply[1] == "true"]
    if reply[0] == "fin":
        return ["fin", unbig(reply[1]), unbig(reply[2])]
    return ["driver", reply]


WS_POOL = [chr(c) for c in DEC_SPACE] + [" ", " ", "\t", "\n"]
JUNK = list("abcxyzEe+-._ ,/") + ["\x00", "\x7f", "é", "²", "−", "½", "Ⅷ", "٫", "0x", "0b", "0o", "j", "L", "%"]


def rand_digits(rng, lo=1, hi=6):
    n = rng.randint(lo, hi)
    if rng.random() < 0.03:
        n = rng.randint(30, 300)
    return "".join(rng.choice("0123456789") for _ in range(n))


def rand_group(rng):
    """digits with underscores, mostly well placed"""
    parts = [rand_digits(rng, 1, 4) for _ in range(rng.randint(1, 3))]
    k = rng.random()
    s = "_".join(parts) if k < 0.5 else "".join(parts)
    if k > 0.9:
        s = rng.choice(["_", "__"]) + s
    elif k > 0.8:
        s = s + rng.choice(["_", "__"])
    elif k > 0.7 and len(parts) > 1:
        s = parts[0] + "__" + "".join(parts[1:])
    return s


def rand_numeral(rng):
    """a string of the numeral domain, biased to (almost) well-formed int / Decimal syntax"""
    k = rng.random()
    sign = rng.choice(["", "", "", "+", "-", "+-", "--", "- "])
    if k < 0.30:
        body = rand_group(rng)
    elif k < 0.60:
        ip = rand_group(rng) if rng.random() < 0.85 else ""
        fp = rand_group(rng) if rng.random() < 0.85 else ""
        body = ip + rng.choice([".", ".", ".", "..", ""]) + fp
        if rng.random() < 0.5:
            ed = rand_digits(rng, 0 if rng.random() < 0.1 else 1, 3)
            if rng.random() < 0.1:
                ed = rand_digits(rng, 4, 9)
            body += rng.choice(["e", "E", "e", "E", "e_", "ee"]) + rng.choice(["", "", "+", "-", "+-", " "]) + ed
            if rng.random() < 0.05:
                body += rng.choice([".5", "e1", "x"])
    elif k < 0.75:
        w = rng.choice(["inf", "infinity", "nan", "snan", "Inf", "Infinity", "NaN", "sNaN", "INF", "iNfInItY", "infinit", "infinityy", "in", "na", "nann", "snann", "qnan", "s_nan", "n_an"])
        if rng.random() < 0.3:
            w = "".join(c.upper() if rng.random() < 0.5 else c.lower() for c in w)
        body = w + (rand_digits(rng, 1, 4) if rng.random() < 0.35 else "") + (rng.choice(["x", ".", "e1", " 1", "_"]) if rng.random() < 0.1 else "")
    elif k < 0.85:
        body = "".join(rng.choice(JUNK + list("0123456789")) for _ in range(rng.randint(0, 5)))
    else:
        body = rand_digits(rng, 1, 3)
        i = rng.randint(0, len(body))
        body = body[:i] + rng.choice(JUNK + WS_POOL) + body[i:]
    pre = "".join(rng.choice(WS_POOL) for _ in range(rng.choice([0, 0, 0, 1, 1, 2])))
    post = "".join(rng.choice(WS_POOL) for _ in range(rng.choice([0, 0, 0, 1, 1, 2])))
    s = pre + sign + body + post
    if rng.random() < 0.03:
        i = rng.randint(0, len(s))
        s = s[:i] + rng.choice(WS_POOL) + s[i:]
    return s


NUMERAL_CORPUS = [
    "", " ", "0", "-0", "+0", "00", "007", "1_0", "1__0", "_1", "1_", "_", " 5 ", "\x1f5", "\x855", "\xa05　", "+3", "+-3",
    "1e2", "1E+2", "1e-2", "abc", "1 2", ".5", "5.", ".", "e5", "1e", "1e+", "Inf", "-inf", "INFINITY", "infinit", "nan", "NaN12",
    "sNaN", "-snan007", "nanx", "1.5.2", "1e5.2", "0e0", "-0.0", "1e999999999", "\x007", "5\x00", "+.5e-1", "in f", "iNf", "1e+_5",
    "- 1", "−1", "²", "1²", "1_e_5", "N_aN", "0x1", "\t\n\x0b\x0c\r 7", "\x1c7", "7\x1c", "\x1c 7 \x1f", "1_000_000", "1.0_0", "1._5",
    "_.5", "1e1_0", "-_1", "+_1", "9" * 100, "-" + "9" * 300, "0." + "0" * 80 + "1", "1" + "0" * 60 + ".5", "nan_", "inf_", "_inf",
    "+nan", "-NaN", "+sNaN5", "infinity1", "inf1", "nan 1", "1e 5", "1 e5", "1e5 ", " 1e5", " 1 ", " -7 ",
]


# ---------------------------------------------------------------- PATH strings (restricted; C11 owns the rest)
def check_path_claim(v: str, as_default: bool):
    """the two concrete joins of JobParams.v (simple_path_in / simple_path_default) agree with
    pathlib on the PATH strings this harness uses; raises AssertionError otherwise"""
    if v == "":
        return
    if as_default:
        p = Path(v)
        if p.is_absolute():
            assert v.startswith("/"), v
        else:
            assert not v.startswith("/"), v
            q = Path(normpath(Path("/t") / p))
            assert q.is_relative_to(Path("/t")) and str(q) == "/t/" + v, v
    else:
        if Path(v).is_absolute():
            assert v.startswith("/"), v
        else:
            assert not v.startswith("/"), v
            assert str(Path("/c") / v) == "/c/" + v, v
