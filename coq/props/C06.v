(* props/C06.v — job creation fails only with documented errors, never for a missing variable.

   Models: JobParams.v / Merge.v ([preprocess], [merge], [preprocess_merged] = what
   preprocess_job_parameters does for one parameter name across environment templates + job
   template), CreateJob.v ([symtab_of] = the symbol table create_job builds, [inst] =
   instantiate_model), Export.v ([fs_resolve], [nodes_ok], [create_job_verdict]: Ok true = a Job,
   Ok false = DecodeValidationError, Raise e = e escapes), ScopeWalk.v / ScopeSpec.v (reference
   check; [vis_template] = names visible to creation-time format strings).
   Proofs: JobParamsProofs.v, MergeProofs.v, NoMissingVar.v, CreateExn.v, ParseOutcomes.v. *)
From Coq Require Import List NArith ZArith Bool String.
Import ListNotations.
Require Import OJD.Base OJD.Lexer OJD.Json OJD.Schema OJD.Generated OJD.Numerals OJD.FormatStr OJD.FormatStrProofs
               OJD.FsRefs OJD.CreateJob OJD.CreateJobProofs OJD.Parse OJD.Validators OJD.Accept OJD.Export
               OJD.JobParams OJD.JobParamsProofs OJD.Merge OJD.MergeSpec OJD.MergeProofs
               OJD.ScopeWalk OJD.ScopeSpec OJD.NoMissingVar OJD.CreateExn OJD.ParseOutcomes OJD.DecodeInv OJD.WellKeyed.
Local Open Scope string_scope.
Local Open Scope list_scope.

(* ------------------------------------------------------------------ preprocess_job_parameters *)

(* every failure of preprocessing with merged definitions is a ValueError: a refused merge
   (CompatibilityError) is translated, the value checks raise ValueError only.  [ds] = the
   definitions of one parameter (environment templates first, job template last), as decoded
   ([wf_default]: a numeric default is the text of a number of that type). *)
Theorem C06_preprocess_exn : forall dir_ok (path_in : str -> str) (path_default : str -> outcome str) ds vals e,
  ds <> [] -> Forall wf_default ds ->
  (forall t e', path_default t = Raise e' -> e' = ValueError) ->
  preprocess_merged dir_ok path_in path_default ds vals = Raise e -> e = ValueError.
Proof.
  intros dir_ok path_in path_default ds vals e Hne Hwf Hpd H. unfold preprocess_merged in H.
  destruct (merge false ds) as [m|e0] eqn:Em.
  - eapply preprocess_error; eassumption.
  - pose proof (merge_raise ds e0 Hne Hwf Em) as ->. injection H as <-. reflexivity.
Qed.
Print Assumptions C06_preprocess_exn.

(* without environment templates (C10_error restated) *)
Theorem C06_preprocess_exn_plain : forall (path_in : str -> str) (path_default : str -> outcome str) dir_ok defs vals e,
  (forall t e', path_default t = Raise e' -> e' = ValueError) ->
  preprocess false dir_ok path_in path_default defs vals = Raise e -> e = ValueError.
Proof. exact preprocess_error. Qed.
Print Assumptions C06_preprocess_exn_plain.

(* ------------------------------------------------------------------ never a missing variable *)

(* THE agreement between the scope at which creation-time fields are validated and the symbols
   create_job defines.  [covers pdefs vals]: the values handed to create_job (name, type, value)
   have the names of the declared job parameters, and the same names among the non-PATH ones:
     (forall x, In x (all_params pdefs) <-> In x (map v_name vals)) /\
     (forall x, In x (nonpath_params pdefs) <-> In x (map v_name (filter non-PATH vals))).
   Then a name is visible at a TEMPLATE-scope site iff create_job binds it. *)
Theorem C06_no_missing_var : forall pdefs vals, covers pdefs vals ->
  forall n, vis_template pdefs n = true <-> In n (map fst (symtab_of vals)).
Proof. exact vis_template_iff. Qed.
Print Assumptions C06_no_missing_var.

(* [covers] holds when vals has exactly the declared (name, type) pairs, in any order of values:
   that is what preprocess_job_parameters returns (C10_result: one entry per definition, typed as
   declared) *)
Theorem C06_covers_declared : forall pdefs vals, map fst vals = decl_pairs pdefs -> covers pdefs vals.
Proof. exact decl_pairs_covers. Qed.
Print Assumptions C06_covers_declared.

(* corollary chain, document side.  [template_sites j] = the values at the creation-time sites of
   the document: job name, every task parameter range (items or range string), every host
   requirement name and anyOf / allOf value.  If the document passes the pre-validation walk then
   every name referenced there is bound by create_job and resolving the string SUCCEEDS. *)
Theorem C06_sites_resolve : forall classify j vals,
  covers (jget "parameterDefinitions" j) vals ->
  prevalidate Generated.schema (fs_refs classify) "JobTemplate" j = [] ->
  forall s, In (JStr s) (template_sites j) ->
  forall names, fs_refs classify s = Some names ->
  (forall n, In n names -> In n (map fst (symtab_of vals))) /\
  (exists r, Export.fs_resolve classify (symtab_of vals) s = Ok r).
Proof. exact sites_bound. Qed.
Print Assumptions C06_sites_resolve.

(* the job name: every referenced name is bound; the only way resolve can fail is a string that is
   no format string at all (impossible for an accepted document: the field type checked it) *)
Theorem C06_name_resolves : forall classify j vals s,
  covers (jget "parameterDefinitions" j) vals ->
  prevalidate Generated.schema (fs_refs classify) "JobTemplate" j = [] ->
  jget "name" j = JStr s ->
  (forall f, mk classify s = Ok f -> forall n, In n (FormatStrProofs.names f) -> In n (map fst (symtab_of vals))) /\
  (forall e, Export.fs_resolve classify (symtab_of vals) s = Raise e ->
             e = FormatStringError /\ mk classify s = Raise FormatStringError).
Proof. exact name_bound. Qed.
Print Assumptions C06_name_resolves.

(* the premise "passes the walk" is what acceptance gives *)
Theorem C06_accepted_prevalidated : forall classify j t,
  decode_job classify j = Ok t -> prevalidate Generated.schema (fs_refs classify) "JobTemplate" j = [].
Proof. exact decode_job_prevalidated. Qed.
Print Assumptions C06_accepted_prevalidated.

(* the sites above are exactly the fields create_job resolves (resolve_fields of the live classes) *)
Theorem C06_resolve_fields :
  resolve_table Generated.schema =
  [("IntTaskParameterDefinition", ["range"]);
   ("FloatTaskParameterDefinition", ["range"]);
   ("StringTaskParameterDefinition", ["range"]);
   ("PathTaskParameterDefinition", ["range"]);
   ("AmountRequirementTemplate", ["name"]);
   ("AttributeRequirementTemplate", ["allOf"; "anyOf"; "name"]);
   ("JobTemplate", ["name"])].
Proof. exact resolve_table_ok. Qed.
Print Assumptions C06_resolve_fields.

(* ------------------------------------------------------------------ create_job *)

(* what can escape from the create_job model: never FormatStringError (caught: a validation
   error); only KeyError (symtab["RawParam.<n>"] of a job parameter definition without a value),
   TypeError / AttributeError (reshape key of a non-model / non-string key: the keyed classes are
   listed in C06_reshape_classes, their key field is the constr "name"), RuntimeError (outside the
   modelled domain).  A KeyError names a parameter definition of the template that has no value. *)
Theorem C06_create_exn : forall classify vals t e,
  create_job_verdict classify vals t = Raise e ->
  e <> FormatStringError /\
  (e = KeyError \/ e = TypeError \/ e = AttributeError \/ e = RuntimeError) /\
  (e = KeyError -> exists n, In n (adds_names Generated.schema t) /\ ~ In n (map v_name vals)).
Proof. exact create_job_verdict_raises. Qed.
Print Assumptions C06_create_exn.

(* instantiate_model alone, any schema and resolver that raises FormatStringError only *)
Theorem C06_inst_exn : forall SC resolve sigma,
  (forall s e, resolve sigma s = Raise e -> e = FormatStringError) ->
  forall fuel v e, inst SC resolve sigma fuel v = Raise e ->
  e = FormatStringError \/ e = KeyError \/ e = TypeError \/ e = AttributeError \/ e = RuntimeError.
Proof. exact inst_raises. Qed.
Print Assumptions C06_inst_exn.

Theorem C06_inst_keyerror : forall SC resolve sigma,
  (forall s e, resolve sigma s = Raise e -> e = FormatStringError) ->
  forall fuel v, inst SC resolve sigma fuel v = Raise KeyError ->
  exists n, In n (adds_names SC v) /\ st_lookup sigma ($"RawParam." ++ n) = None.
Proof. exact inst_keyerror. Qed.
Print Assumptions C06_inst_keyerror.

(* with a value for every job parameter definition of the template: no KeyError *)
Theorem C06_no_keyerror : forall SC resolve vals,
  (forall s e, resolve (symtab_of vals) s = Raise e -> e = FormatStringError) ->
  forall fuel v, (forall n, In n (adds_names SC v) -> In n (map v_name vals)) ->
  inst SC resolve (symtab_of vals) fuel v <> Raise KeyError.
Proof. exact inst_no_keyerror. Qed.
Print Assumptions C06_no_keyerror.

(* the resolver create_job uses meets the premise, for any class table *)
Theorem C06_resolve_exn : forall classify sigma s e,
  Export.fs_resolve classify sigma s = Raise e -> e = FormatStringError.
Proof. exact fs_resolve_only_fse. Qed.
Print Assumptions C06_resolve_exn.

(* target-model validation of the instantiated tree raises nothing but "outside the domain" *)
Theorem C06_nodes_exn : forall classify fuel v e, nodes_ok classify fuel v = Raise e -> e = RuntimeError.
Proof. exact nodes_ok_raises. Qed.
Print Assumptions C06_nodes_exn.

Theorem C06_adds_value_classes :
  adds_value_classes Generated.schema =
  ["JobStringParameterDefinition"; "JobPathParameterDefinition"; "JobIntParameterDefinition"; "JobFloatParameterDefinition"].
Proof. exact adds_value_classes_ok. Qed.
Print Assumptions C06_adds_value_classes.

Theorem C06_reshape_classes :
  reshape_table Generated.schema =
  [("StepParameterSpaceDefinition", [("taskParameterDefinitions", "name")]);
   ("JobTemplate", [("parameterDefinitions", "name")])].
Proof. exact reshape_table_ok. Qed.
Print Assumptions C06_reshape_classes.

(* ---- end to end, from acceptance ---- *)

(* the instance tree of an ACCEPTED job template, as far as create_job's failure modes need it:
   its job name is the document's name string (a well-formed format string), and its job parameter
   definitions (the nodes whose creation reads symtab["RawParam.<name>"]) are declared parameters
   of the document *)
Theorem C06_accepted_inv : forall classify j t, decode_job classify j = Ok t ->
  exists ms fields s,
    j = JObj ms /\ t = MModel "JobTemplate" fields /\
    jget "name" j = JStr s /\ mfield "name" fields = MFmt s /\ fs_ok classify s = true /\
    incl (adds_names Generated.schema t) (all_params (jget "parameterDefinitions" j)).
Proof. exact decode_job_inv. Qed.
Print Assumptions C06_accepted_inv.

(* accepted template + a value for every declared parameter: create_job never raises KeyError
   (the historical finding is reachable only with values that do NOT cover the declarations) *)
Theorem C06_accepted_no_keyerror : forall classify j t vals,
  decode_job classify j = Ok t -> covers (jget "parameterDefinitions" j) vals ->
  create_job_verdict classify vals t <> Raise KeyError.
Proof. exact accepted_no_keyerror. Qed.
Print Assumptions C06_accepted_no_keyerror.

(* accepted template: the job name held by the decoded model resolves under create_job's table *)
Theorem C06_accepted_name_resolves : forall classify j t vals,
  decode_job classify j = Ok t -> covers (jget "parameterDefinitions" j) vals ->
  exists fields s r, t = MModel "JobTemplate" fields /\ mfield "name" fields = MFmt s /\
                     jget "name" j = JStr s /\ Export.fs_resolve classify (symtab_of vals) s = Ok r.
Proof. exact accepted_name_resolves. Qed.
Print Assumptions C06_accepted_name_resolves.

(* accepted template: instantiate_model raises nothing but FormatStringError (neither KeyError nor
   TypeError / AttributeError of a reshape key, and its fuel suffices) *)
Theorem C06_accepted_inst_exn : forall classify j t vals e,
  decode_job classify j = Ok t -> covers (jget "parameterDefinitions" j) vals ->
  inst Generated.schema (Export.fs_resolve classify) (symtab_of vals) (S (mval_depth t)) t = Raise e ->
  e = FormatStringError.
Proof. exact accepted_inst_raises. Qed.
Print Assumptions C06_accepted_inst_exn.

(* C06_create_exn for accepted templates: the verdict is "a Job" / "DecodeValidationError", or the
   model declares the case outside its domain (RuntimeError from the job-side re-validation of a
   node: the harness does not judge such cases with the model).  No Python exception family
   (KeyError, TypeError, AttributeError, FormatStringError) can escape. *)
Theorem C06_accepted_create_exn : forall classify j t vals e,
  decode_job classify j = Ok t -> covers (jget "parameterDefinitions" j) vals ->
  create_job_verdict classify vals t = Raise e -> e = RuntimeError.
Proof. exact accepted_create_exn. Qed.
Print Assumptions C06_accepted_create_exn.

(* the invariant behind it: every decoded tree is well keyed (items of reshaped lists have a
   string key field; job parameter definitions have a plain-string name), because the live schema
   passes the check [schema_keyed] *)
Theorem C06_accepted_well_keyed : forall classify j t, decode_job classify j = Ok t -> wk Generated.schema t.
Proof. exact accepted_wk. Qed.
Print Assumptions C06_accepted_well_keyed.

Theorem C06_inst_fuel : forall SC resolve sigma,
  (forall s e, resolve sigma s = Raise e -> e = FormatStringError) ->
  forall fuel v, mval_depth v < fuel -> inst SC resolve sigma fuel v <> Raise RuntimeError.
Proof. exact inst_fuel_enough. Qed.
Print Assumptions C06_inst_fuel.

(* NOT proved here (kept as the full statements; covered by the correspondence check c06.py):
     C06_create_exn_full : decode_job classify j = Ok t -> covers (jget "parameterDefinitions" j) vals ->
       exists b, create_job_verdict classify vals t = Ok b          (nothing at all escapes);
     C06_job_usable : create_job_verdict ... = Ok true -> iteration / graph construction succeed.
   Proved of the first: everything except that the job-side re-validation [nodes_ok] never returns
   RuntimeError (C06_accepted_create_exn).  Missing for that: the fuel S (S (S (mval_depth t))) of
   nodes_ok suffices (depth of the instantiated tree <= depth of t) and parse_any on the EXPORT of an
   instantiated node stays inside the modelled pydantic domain (e.g. no float field receives a
   string) — a per-target-class fact about Export.to_object.
   For the steps' ranges and host requirements the document-side statement C06_sites_resolve is
   proved; its transfer to the decoded tree (as done for the name in C06_accepted_name_resolves)
   needs the inversion of parse_cls through StepTemplate -> StepParameterSpaceDefinition ->
   *TaskParameterDefinition / HostRequirementsTemplate. *)

(* ------------------------------------------------------------------ non-vacuity *)
Definition js (x : string) : json := JStr (str_of_string x).
Definition jo (l : list (string * json)) : json := JObj (map (fun kv => (str_of_string (fst kv), snd kv)) l).

Definition tdoc (job_name range_item : string) : json :=
  jo [("specificationVersion", js "jobtemplate-2023-09");
      ("name", js job_name);
      ("parameterDefinitions",
       JArr [jo [("name", js "Frames"); ("type", js "INT")];
             jo [("name", js "Out"); ("type", js "PATH")]]);
      ("steps",
       JArr [jo [("name", js "A");
                 ("parameterSpace",
                  jo [("taskParameterDefinitions",
                       JArr [jo [("name", js "X"); ("type", js "STRING"); ("range", JArr [js range_item])]])]);
                 ("hostRequirements",
                  jo [("attributes", JArr [jo [("name", js "attr.custom.tag"); ("anyOf", JArr [js "v{{RawParam.Frames}}"])]])]);
                 ("script", jo [("actions", jo [("onRun", jo [("command", js "{{Param.Out}}")])])])]])].

Definition tvals : list (str * str * str) :=
  [($"Frames", $"INT", $"10"); ($"Out", $"PATH", $"/tmp/o")].

Example C06_covers_nonvacuous :
  map fst tvals = decl_pairs (jget "parameterDefinitions" (tdoc "J" "x")) /\
  map fst (symtab_of tvals) = [$"Param.Frames"; $"RawParam.Frames"; $"RawParam.Out"].
Proof. vm_compute. split; reflexivity. Qed.

(* accepted, walk passes, three kinds of sites present, everything resolves *)
Example C06_sites_nonvacuous :
  let j := tdoc "Job {{Param.Frames}} {{RawParam.Out}}" "f{{RawParam.Frames}}" in
  is_ok (decode_job ascii_class j) = true /\
  prevalidate Generated.schema (fs_refs ascii_class) "JobTemplate" j = [] /\
  template_sites j = [js "Job {{Param.Frames}} {{RawParam.Out}}"; js "f{{RawParam.Frames}}";
                      js "attr.custom.tag"; js "v{{RawParam.Frames}}"] /\
  Export.fs_resolve ascii_class (symtab_of tvals) $"Job {{Param.Frames}} {{RawParam.Out}}" = Ok $"Job 10 /tmp/o".
Proof. vm_compute. repeat split. Qed.

(* a PATH parameter's Param.<n> at a creation-time site is NOT bound by create_job, and the walk
   rejects it there: both sides of the iff are false together *)
Example C06_path_param_nonvacuous :
  vis_template (jget "parameterDefinitions" (tdoc "J" "x")) $"Param.Out" = false /\
  ~ In $"Param.Out" (map fst (symtab_of tvals)) /\
  prevalidate Generated.schema (fs_refs ascii_class) "JobTemplate" (tdoc "{{Param.Out}}" "x")
  = [ERef [LKey $"name"] $"Param.Out"].
Proof.
  split; [vm_compute; reflexivity|]. split; [|vm_compute; reflexivity].
  vm_compute. intros H. repeat (destruct H as [H|H]; [discriminate H|]). exact H.
Qed.

(* create_job on the decoded template: a Job with all values; KeyError exactly when a declared
   parameter has no value (the historical finding: reachable only by calling create_job without
   preprocess_job_parameters) *)
Example C06_create_nonvacuous :
  exists t, decode_job ascii_class (tdoc "Job {{Param.Frames}}" "f{{RawParam.Frames}}") = Ok t /\
    create_job_verdict ascii_class tvals t = Ok true /\
    create_job_verdict ascii_class [($"Frames", $"INT", $"10")] t = Raise KeyError /\
    adds_names Generated.schema t = [$"Frames"; $"Out"].
Proof. eexists. split; [vm_compute; reflexivity|]. vm_compute. repeat split. Qed.

Example C06_accepted_nonvacuous :
  let j := tdoc "Job {{Param.Frames}} {{RawParam.Out}}" "f{{RawParam.Frames}}" in
  is_ok (decode_job ascii_class j) = true /\ covers (jget "parameterDefinitions" j) tvals.
Proof.
  split; [vm_compute; reflexivity|]. apply decl_pairs_covers. vm_compute. reflexivity.
Qed.

Definition nP : str := [80%N].
Definition d_al (z : Z) : pdef := mkDef nP INT None None (Some [mkNum z 0]) None None None None None None.

Example C06_preprocess_nonvacuous :
  [d_al 1; d_al 2] <> [] /\ Forall wf_default [d_al 1; d_al 2] /\
  preprocess_merged true simple_path_in simple_path_default [d_al 1; d_al 2] [(nP, [49%N])] = Raise ValueError /\
  preprocess_merged true simple_path_in simple_path_default [d_al 1; d_al 1] [(nP, [50%N])] = Raise ValueError /\
  is_ok (preprocess_merged true simple_path_in simple_path_default [d_al 1; d_al 1] [(nP, [49%N])]) = true.
Proof.
  split; [discriminate|]. split.
  - assert (W : forall z, wf_default (d_al z)) by (intros z _ t E; discriminate E).
    constructor; [apply W|]. constructor; [apply W|]. constructor.
  - vm_compute. repeat split.
Qed.
