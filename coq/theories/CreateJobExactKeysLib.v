(* CreateJobExactKeysLib.v — tools for the key-distinctness / null-freeness half of C05_exact:

     1. [str_nodupb] is [NoDup]; keys of a filtered / rewritten member list;
     2. [good]: a document all of whose objects have pairwise distinct keys and no null member;
     3. objects written with [opt] (CreateJobSpec) are the non-null members of an explicit member list;
     4. [strip_nulls] / [same] produce good documents from documents with distinct keys. *)
From Coq Require Import List NArith ZArith Bool String Lia.
Import ListNotations.
Require Import OJD.Base OJD.Json OJD.CreateJob OJD.CreateJobProofs OJD.CreateJobSpec OJD.JsonEquiv.
Local Open Scope string_scope.
Local Open Scope list_scope.

(* ------------------------------------------------------------------ 1. lists of keys *)
Lemma mem_str_In : forall x l, mem_str x l = true <-> In x l.
Proof.
  induction l as [|y r IH]; cbn [mem_str In]; [split; [discriminate|intros []]|].
  rewrite orb_true_iff, IH, je_str_eqb_eq.
  split; intros [H|H]; [left; congruence|right; exact H|left; congruence|right; exact H].
Qed.

Lemma NoDup_str_nodupb : forall l, NoDup l -> str_nodupb l = true.
Proof.
  induction l as [|x r IH]; intros H; [reflexivity|]. inversion H as [|a l Hn Hd]; subst.
  cbn [str_nodupb]. rewrite (IH Hd), andb_true_r. apply negb_true_iff.
  destruct (mem_str x r) eqn:E; [|reflexivity]. apply mem_str_In in E. contradiction.
Qed.

(* a member list rewritten member by member, each member kept (under the same key) or dropped *)
Section KeptKeys.
  Variables A B : Type.
  Variable key : A -> str.
  Variable key' : B -> str.
  Variable f : A -> list B.
  Hypothesis Hf : forall a, f a = [] \/ exists b, f a = [b] /\ key' b = key a.

  Lemma kept_keys_in : forall l k, In k (map key' (flat_map f l)) -> In k (map key l).
  Proof.
    induction l as [|a r IH]; intros k H; [destruct H|].
    cbn [flat_map] in H. rewrite map_app in H. apply in_app_or in H. cbn [map]. destruct H as [H|H].
    - destruct (Hf a) as [E|[b [E Ek]]]; rewrite E in H; [destruct H|].
      destruct H as [H|[]]. left. rewrite <- Ek. exact H.
    - right. exact (IH k H).
  Qed.

  Lemma kept_keys_NoDup : forall l, NoDup (map key l) -> NoDup (map key' (flat_map f l)).
  Proof.
    induction l as [|a r IH]; intros H; [constructor|].
    cbn [map] in H. inversion H as [|x l Hn Hd]; subst. cbn [flat_map]. rewrite map_app.
    destruct (Hf a) as [E|[b [E Ek]]]; rewrite E; cbn [map app]; [exact (IH Hd)|].
    constructor; [|exact (IH Hd)]. rewrite Ek. intros Hin. apply Hn. exact (kept_keys_in r _ Hin).
  Qed.
End KeptKeys.

(* ------------------------------------------------------------------ 2. good documents *)
Definition good (j : json) : Prop := distinct_keys j = true /\ no_null_members j = true.

Definition scalarj (j : json) : bool := match j with JArr _ | JObj _ => false | _ => true end.

Lemma good_scalar : forall j, scalarj j = true -> good j.
Proof. intros j H. destruct j; try discriminate H; split; reflexivity. Qed.

Lemma good_arr : forall l, (forall x, In x l -> good x) -> good (JArr l).
Proof.
  intros l H. split; cbn [distinct_keys no_null_members]; rewrite forallb_forall; intros x Hx; apply (H x Hx).
Qed.

Lemma good_arr_inv : forall l x, good (JArr l) -> In x l -> good x.
Proof.
  intros l x [H1 H2] Hx. cbn [distinct_keys no_null_members] in H1, H2. rewrite forallb_forall in H1, H2.
  split; [exact (H1 x Hx)|exact (H2 x Hx)].
Qed.

Lemma dk_members : forall ms, distinct_keys (JObj ms) = true ->
  NoDup (map fst ms) /\ forall k v, In (k, v) ms -> distinct_keys v = true.
Proof.
  intros ms H. cbn [distinct_keys] in H. apply andb_true_iff in H. destruct H as [H1 H2]. split.
  - apply str_nodupb_NoDup. exact H1.
  - intros k v Hin. rewrite forallb_forall in H2. exact (H2 (k, v) Hin).
Qed.

Lemma dk_jget : forall k j, distinct_keys j = true -> distinct_keys (jget k j) = true.
Proof.
  intros k j H. destruct j as [| | | | | |ms]; try reflexivity. cbn [jget].
  destruct (assoc (str_of_string k) ms) as [v|] eqn:E; [|reflexivity].
  apply assoc_some_in in E. exact (proj2 (dk_members ms H) _ _ E).
Qed.

Lemma dk_item : forall l it, distinct_keys (JArr l) = true -> In it l -> distinct_keys it = true.
Proof. intros l it H Hin. cbn [distinct_keys] in H. rewrite forallb_forall in H. exact (H it Hin). Qed.

(* ------------------------------------------------------------------ 3. non-null members of a member list *)
Notation dnm := (drop_null_members (fun x : json => x)).

Lemma dnm_step : forall k v, (fun kv : str * json => match snd kv with JNull => [] | x => [(fst kv, x)] end) (k, v)
                             = match v with JNull => [] | _ => [(k, v)] end.
Proof. intros k v. cbn [snd fst]. destruct v; reflexivity. Qed.

Lemma dnm_kept : forall kv : str * json,
  match snd kv with JNull => [] | x => [(fst kv, x)] end = [] \/
  exists b : str * json, match snd kv with JNull => [] | x => [(fst kv, x)] end = [b] /\ fst b = fst kv.
Proof. intros [k v]. cbn [snd fst]. destruct v; [left; reflexivity|right; eexists; split; reflexivity ..]. Qed.

Lemma in_dnm : forall full kv, In kv (dnm full) -> In kv full /\ snd kv <> JNull.
Proof.
  intros full kv H. unfold drop_null_members in H. apply in_flat_map in H. destruct H as [[k v] [Hin H]].
  cbn [snd fst] in H. destruct v; [destruct H|..]; destruct H as [<-|[]]; (split; [exact Hin|discriminate]).
Qed.

Theorem good_dnm : forall full,
  NoDup (map fst full) -> (forall k v, In (k, v) full -> v <> JNull -> good v) -> good (JObj (dnm full)).
Proof.
  intros full Hnd Hv.
  assert (K : forall kv, In kv (dnm full) -> snd kv <> JNull /\ good (snd kv)).
  { intros [k v] Hkv. apply in_dnm in Hkv. destruct Hkv as [Hin Hn]. split; [exact Hn|exact (Hv k v Hin Hn)]. }
  split.
  - cbn [distinct_keys]. apply andb_true_iff. split.
    + apply NoDup_str_nodupb. unfold drop_null_members.
      apply (kept_keys_NoDup _ _ fst fst); [exact dnm_kept|exact Hnd].
    + rewrite forallb_forall. intros kv Hkv. exact (proj1 (proj2 (K kv Hkv))).
  - cbn [no_null_members]. rewrite forallb_forall. intros kv Hkv. destruct (K kv Hkv) as [Hn [_ Hg]].
    rewrite Hg. destruct (snd kv); try reflexivity. contradiction.
Qed.

(* [ms] is the list of the non-null members of [full] *)
Definition dn_of (ms full : list (str * json)) : Prop := ms = dnm full.

Lemma dn_nil : dn_of [] [].
Proof. reflexivity. Qed.

Lemma dn_opt_last : forall key v, dn_of (opt key v) [(str_of_string key, v)].
Proof. intros key v. unfold dn_of, opt, drop_null_members. cbn [flat_map snd fst]. destruct v; reflexivity. Qed.

Lemma dn_opt : forall key v a b, dn_of a b -> dn_of (opt key v ++ a) ((str_of_string key, v) :: b).
Proof.
  intros key v a b H. unfold dn_of in *. subst a. unfold opt, drop_null_members. cbn [flat_map snd fst].
  destruct v; reflexivity.
Qed.

Lemma dn_cons : forall k v a b, v <> JNull -> dn_of a b -> dn_of ((k, v) :: a) ((k, v) :: b).
Proof.
  intros k v a b Hn H. unfold dn_of in *. subst a. unfold drop_null_members. cbn [flat_map snd fst].
  destruct v; try reflexivity. contradiction.
Qed.

Lemma good_dn : forall ms full, dn_of ms full ->
  NoDup (map fst full) -> (forall k v, In (k, v) full -> v <> JNull -> good v) -> good (JObj ms).
Proof. intros ms full -> Hnd Hv. exact (good_dnm full Hnd Hv). Qed.

(* ------------------------------------------------------------------ 4. explicit nulls are absent members *)
Lemma json_depth_pos : forall j, 1 <= json_depth j.
Proof. intros j. destruct j; cbn [json_depth]; lia. Qed.

Lemma json_item_depth : forall l x, In x l -> json_depth x < json_depth (JArr l).
Proof. intros l x H. apply (depth_le_max _ json_depth) in H. cbn [json_depth]. lia. Qed.

Lemma json_member_depth : forall (ms : list (str * json)) kv, In kv ms -> json_depth (snd kv) < json_depth (JObj ms).
Proof. intros ms kv H. apply (depth_le_max _ (fun kv : str * json => json_depth (snd kv))) in H. cbn [json_depth]. lia. Qed.

Lemma strip_kept : forall f (kv : str * json),
  match snd kv with JNull => [] | x => [(fst kv, strip_nulls f x)] end = [] \/
  exists b : str * json, match snd kv with JNull => [] | x => [(fst kv, strip_nulls f x)] end = [b] /\ fst b = fst kv.
Proof. intros f [k v]. cbn [snd fst]. destruct v; [left; reflexivity|right; eexists; split; reflexivity ..]. Qed.

Lemma in_strip_members : forall f ms kv,
  In kv (flat_map (fun kv : str * json => match snd kv with JNull => [] | x => [(fst kv, strip_nulls f x)] end) ms) ->
  exists v, In (fst kv, v) ms /\ v <> JNull /\ snd kv = strip_nulls f v.
Proof.
  intros f ms kv H. apply in_flat_map in H. destruct H as [[k v] [Hin H]]. cbn [snd fst] in H.
  destruct v; [destruct H|..]; destruct H as [<-|[]]; cbn [fst snd]; eexists; (split; [exact Hin|split; [discriminate|reflexivity]]).
Qed.

Lemma dk_strip : forall f x, distinct_keys x = true -> distinct_keys (strip_nulls f x) = true.
Proof.
  induction f as [|f IH]; intros x H; [exact H|].
  destruct x as [| | | | |l|ms]; cbn [strip_nulls]; try exact H.
  - cbn [distinct_keys] in *. rewrite forallb_forall in *. intros y Hy. apply in_map_iff in Hy.
    destruct Hy as [x [<- Hx]]. apply IH, H, Hx.
  - destruct (dk_members ms H) as [Hnd Hv]. cbn [distinct_keys]. apply andb_true_iff. split.
    + apply NoDup_str_nodupb. apply (kept_keys_NoDup _ _ fst fst); [exact (strip_kept f)|exact Hnd].
    + rewrite forallb_forall. intros kv Hkv. apply in_strip_members in Hkv. destruct Hkv as [v [Hin [_ ->]]].
      apply IH. exact (Hv _ _ Hin).
Qed.

Lemma nnm_strip : forall f x, json_depth x <= f -> no_null_members (strip_nulls f x) = true.
Proof.
  induction f as [|f IH]; intros x H; [pose proof (json_depth_pos x); lia|].
  destruct x as [| | | | |l|ms]; cbn [strip_nulls]; try reflexivity.
  - cbn [no_null_members]. rewrite forallb_forall. intros y Hy. apply in_map_iff in Hy.
    destruct Hy as [x [<- Hx]]. apply IH. pose proof (json_item_depth l x Hx). lia.
  - cbn [no_null_members]. rewrite forallb_forall. intros kv Hkv. apply in_strip_members in Hkv.
    destruct Hkv as [v [Hin [Hn ->]]]. pose proof (json_member_depth ms _ Hin) as Hd. cbn [snd] in Hd.
    rewrite IH by lia. rewrite andb_true_r. apply negb_true_iff.
    assert (Hs : strip_nulls f v <> JNull) by (destruct f; [exact Hn|destruct v; cbn [strip_nulls]; try discriminate; contradiction]).
    destruct (strip_nulls f v); try reflexivity. contradiction.
Qed.

Theorem good_same : forall x, distinct_keys x = true -> good (same x).
Proof. intros x H. unfold same. split; [apply dk_strip; exact H|apply nnm_strip; lia]. Qed.

Lemma same_nn : forall x, x <> JNull -> same x <> JNull.
Proof.
  intros x H. unfold same. destruct (json_depth x); [exact H|]. destruct x; cbn [strip_nulls]; try discriminate. contradiction.
Qed.
