(* RenameStepsJob.v — C19, renaming of steps and environments, second half: create_job.

     decode_job classify j = Ok t ->
     create_job_full classify envs (mrename_job rho_s rho_e t) vals
       = omap (mrename_job rho_s rho_e) (create_job_full classify envs t vals)

   "the Job created from the renamed template is the renamed Job; the same exception otherwise", and from
   the raw documents (decode, create, export):

     create_job_docs classify env_docs (rename_steps_envs rho_s rho_e doc) vals
       = omap (omap (rename_steps_envs rho_s rho_e)) (create_job_docs classify env_docs doc vals)

   ([rename_steps_envs] renames the exported Job document as well: a Job has the same members
   steps[i].name / dependencies / stepEnvironments and jobEnvironments.)

   Structure: (A) what a decoded job template looks like, with class tags and field lists ([T_job]), read
   off the parser; (B) instantiate_model ([CreateJob.inst]) class by class; (C) the job-side coercion
   [coerce_job]; (D) [to_object]; (E) the re-validation of every node of the created tree ([Export.nodes_ok])
   through the structural lemmas of RenameStepsProofs.v for the target classes Step / Job / Environment /
   StepDependency with [Export.pre_full] as pre validator; (F) the composition. *)
From Coq Require Import List NArith ZArith Bool String Lia.
Import ListNotations.
Require Import OJD.Base OJD.Lexer OJD.Json OJD.Schema OJD.Generated OJD.Charsets OJD.FormatStr OJD.FsRefs
               OJD.CreateJob OJD.CreateJobProofs OJD.Parse OJD.Validators OJD.Accept OJD.AcceptMono OJD.Export
               OJD.CreateJobFull OJD.GlueLib OJD.RenameProofs OJD.DecodeInv OJD.RenameSteps OJD.RenameStepsProofs.
Local Open Scope string_scope.
Local Open Scope list_scope.

(* ------------------------------------------------------------------ generic facts about the model-side renaming *)
Lemma omap_omap : forall (A B C : Type) (g : A -> B) (h : B -> C) o, omap h (omap g o) = omap (fun a => h (g a)) o.
Proof. intros A B C g h o. destruct o; reflexivity. Qed.

Lemma mdepth_mren_str : forall rho x, mval_depth (mren_str rho x) = mval_depth x.
Proof. intros rho x. destruct x; reflexivity. Qed.

Lemma mdepth_on_mlist : forall G v, (forall x, mval_depth (G x) = mval_depth x) ->
  mval_depth (on_mlist G v) = mval_depth v.
Proof.
  intros G v H. destruct v as [ | | | | | | |l| |]; try reflexivity.
  cbn [on_mlist mval_depth]. f_equal. induction l as [|x r IH]; [reflexivity|].
  cbn [map fold_right]. rewrite H, IH. reflexivity.
Qed.

Lemma mdepth_on_fields : forall g m, (forall k x, mval_depth (g k x) = mval_depth x) ->
  mval_depth (on_fields g m) = mval_depth m.
Proof.
  intros g m H. destruct m as [ | | | | | | | | |c fs]; try reflexivity.
  cbn [on_fields mval_depth]. f_equal. unfold mapf. induction fs as [|[k x] r IH]; [reflexivity|].
  cbn [map fold_right fst snd]. rewrite H, IH. reflexivity.
Qed.

Lemma mdepth_mdispatch : forall tbl k x,
  Forall (fun ng => forall y, mval_depth (snd ng y) = mval_depth y) tbl ->
  mval_depth (mdispatch tbl k x) = mval_depth x.
Proof.
  intros tbl k x H. induction H as [|[n g] r Hg _ IH]; [reflexivity|].
  cbn [mdispatch]. destruct (String.eqb k n); [apply Hg|exact IH].
Qed.

(* ---- coerce_job commutes with the renaming, whatever the tree *)
Lemma coerce_mren_str : forall rho f x, coerce_job f (mren_str rho x) = mren_str rho (coerce_job f x).
Proof. intros rho f x. destruct f; [reflexivity|]. destruct x; reflexivity. Qed.

Lemma coerce_on_mlist : forall G, (forall f x, coerce_job f (G x) = G (coerce_job f x)) ->
  forall f v, coerce_job f (on_mlist G v) = on_mlist G (coerce_job f v).
Proof.
  intros G H f v. destruct f; [reflexivity|]. destruct v as [ | | | | | | |l| |]; try reflexivity.
  cbn [on_mlist coerce_job]. f_equal. rewrite !map_map. apply map_ext. intros x. apply H.
Qed.

Lemma coerce_on_fields : forall g, (forall x, g "range" x = x) ->
  (forall k f x, coerce_job f (g k x) = g k (coerce_job f x)) ->
  forall f m, coerce_job f (on_fields g m) = on_fields g (coerce_job f m).
Proof.
  intros g Hr H f m. destruct f; [reflexivity|]. destruct m as [ | | | | | | | | |c fs]; try reflexivity.
  cbn [on_fields coerce_job]. f_equal. unfold mapf. rewrite !map_map. apply map_ext. intros [k x]. cbn [fst snd].
  destruct (String.eqb k "range") eqn:E.
  - apply String.eqb_eq in E. subst k. rewrite Hr.
    destruct x; cbn [fst snd]; rewrite ?Hr; reflexivity.
  - cbn [fst snd]. rewrite H. reflexivity.
Qed.

Lemma coerce_mdispatch : forall tbl,
  Forall (fun ng => forall f y, coerce_job f (snd ng y) = snd ng (coerce_job f y)) tbl ->
  forall k f x, coerce_job f (mdispatch tbl k x) = mdispatch tbl k (coerce_job f x).
Proof.
  intros tbl H k f x. induction H as [|[n g] r Hg _ IH]; [reflexivity|].
  cbn [mdispatch]. destruct (String.eqb k n); [apply Hg|exact IH].
Qed.

(* ---- to_object *)
Definition emitf (SC : schema_t) (c : string) (F : nat) (fv : string * mval) : list (str * json) :=
  match snd fv with
  | MNone => []
  | x => [(str_of_string (alias_of SC c (fst fv)), to_object SC F x)]
  end.

Lemma to_object_model_S : forall SC F c fs, to_object SC (S F) (MModel c fs) = JObj (flat_map (emitf SC c F) fs).
Proof. reflexivity. Qed.

Lemma emitf_eq : forall SC c F k x,
  emitf SC c F (k, x) = if is_none x then [] else [(str_of_string (alias_of SC c k), to_object SC F x)].
Proof. intros SC c F k x. destruct x; reflexivity. Qed.

Lemma to_object_on_fields : forall SC F c (g : string -> mval -> mval) (h : str -> json -> json) fs,
  (forall k x, In (k, x) fs ->
     is_none (g k x) = is_none x /\
     to_object SC F (g k x) = h (str_of_string (alias_of SC c k)) (to_object SC F x)) ->
  to_object SC (S F) (MModel c (mapf g fs)) = on_obj h (to_object SC (S F) (MModel c fs)).
Proof.
  intros SC F c g h fs H. rewrite !to_object_model_S. cbn [on_obj]. f_equal.
  induction fs as [|[k x] r IH]; [reflexivity|].
  cbn [mapf map flat_map fst snd]. rewrite !emitf_eq.
  destruct (H k x (or_introl eq_refl)) as [Hn Ht]. rewrite Hn, Ht, map_app.
  fold (mapf g r). rewrite IH by (intros k' x' Hin; apply H; right; exact Hin).
  destruct (is_none x); reflexivity.
Qed.

Lemma to_object_on_mlist : forall SC (G : mval -> mval) (jr : json -> json) v,
  (forall F x, In x (mitems v) -> to_object SC F (G x) = jr (to_object SC F x)) ->
  forall F, to_object SC F (on_mlist G v) = on_arr jr (to_object SC F v).
Proof.
  intros SC G jr v H F. destruct F as [|F]; [destruct v; reflexivity|].
  destruct v as [ | | | | | | |l| |]; try reflexivity.
  cbn [on_mlist to_object on_arr]. f_equal. rewrite !map_map. apply map_ext_in. intros x Hx. apply H. exact Hx.
Qed.

Lemma to_object_mstr : forall SC rho F s, to_object SC F (MStr (rho s)) = ren_str rho (to_object SC F (MStr s)).
Proof. intros SC rho F s. destruct F; reflexivity. Qed.

Lemma is_none_on_mlist : forall G v, is_none (on_mlist G v) = is_none v.
Proof. intros G v. destruct v; reflexivity. Qed.

(* ------------------------------------------------------------------ (A) decoded templates, with tags *)
Definition T_dep (m : mval) : Prop := exists s, m = MModel "StepDependency" [("dependsOn", MStr s)].

Definition T_env (m : mval) : Prop :=
  exists s sc v d, m = MModel "Environment" [("name", MStr s); ("script", sc); ("variables", v); ("description", d)].

Definition step_fields (n d sc se ps hr dp : mval) : list (string * mval) :=
  [("name", n); ("description", d); ("script", sc); ("stepEnvironments", se);
   ("parameterSpace", ps); ("hostRequirements", hr); ("dependencies", dp)].

Definition T_step (m : mval) : Prop :=
  exists s d sc se ps hr dp, m = MModel "StepTemplate" (step_fields (MStr s) d sc se ps hr dp) /\
    Forall T_env (mitems se) /\ Forall T_dep (mitems dp).

Definition T_job (t : mval) : Prop :=
  exists sv nm st d pd je ss,
    t = MModel "JobTemplate" [("specificationVersion", sv); ("name", nm); ("steps", st); ("description", d);
                              ("parameterDefinitions", pd); ("jobEnvironments", je); ("schemaStr", ss)] /\
    Forall T_step (mitems st) /\ Forall T_env (mitems je).

(* the created tree *)
Definition J_step (m : mval) : Prop :=
  exists s d sc se ps hr dp, m = MModel "Step" (step_fields (MStr s) d sc se ps hr dp) /\
    Forall T_env (mitems se) /\ Forall T_dep (mitems dp).

Definition J_job (m : mval) : Prop :=
  exists nm st d p je,
    m = MModel "Job" [("name", nm); ("steps", st); ("description", d); ("parameters", p); ("jobEnvironments", je)] /\
    Forall J_step (mitems st) /\ Forall T_env (mitems je).

(* the fields of an instance, one by one *)
Lemma fields_F2 : forall pkf ms fls fs, mapM (parse_field pkf ms) fls = Ok fs ->
  Forall2 (fun fl kv => fst kv = f_name fl /\ parse_value pkf fl (field_raw ms fl) = Ok (snd kv)) fls fs.
Proof.
  intros pkf ms fls. induction fls as [|a r IH]; intros fs H.
  - injection H as <-. constructor.
  - destruct (mapM_cons_ok _ _ _ _ _ _ H) as [y [ys [Ha [Hr ->]]]].
    unfold parse_field in Ha.
    destruct (parse_value pkf a (field_raw ms a)) as [x|e] eqn:Ex; cbn [bind] in Ha; [|discriminate Ha].
    injection Ha as <-. constructor; [split; [reflexivity|exact Ex]|exact (IH ys Hr)].
Qed.

Ltac f2_inv H :=
  repeat match type of H with
         | Forall2 _ (_ :: _) ?fs =>
           let kv := fresh "kv" in let r := fresh "r" in let Hk := fresh "Hk" in let Hv := fresh "Hv" in
           let H' := fresh "H" in
           inversion H as [|? kv ? r [Hk Hv] H']; subst; clear H; rename H' into H;
           destruct kv as [? ?]; cbn [fst snd f_name] in Hk, Hv; subst
         | Forall2 _ [] ?fs => inversion H; subst; clear H
         end.

Section Shapes.
  Variable classify : N -> cclass.
  Notation SCH := Generated.schema.
  Notation pk := (parse_kind SCH classify pre_hook (post_hook classify)).
  Notation pc := (parse_cls SCH classify pre_hook (post_hook classify)).

  Lemma pk_model_tshape : forall c (P : mval -> Prop),
    (forall f v m, pc f c v = Ok m -> P m) -> forall f y m, pk f (KModel c) y = Ok m -> P m.
  Proof.
    intros c P H f y m Hy. destruct f as [|f']; [discriminate Hy|]. rewrite parse_kind_S in Hy. exact (H f' y m Hy).
  Qed.

  Lemma tshape_dep : forall f v m, pc f "StepDependency" v = Ok m -> T_dep m.
  Proof.
    intros f v m H. destruct f as [|f']; [discriminate H|].
    destruct (pc_ok_inv _ _ _ _ _ _ _ _ _ lk_dep H) as [ms [fs [-> [-> Hm]]]].
    apply fields_F2 in Hm. unfold c_dep, c_fields in Hm. f2_inv Hm.
    match goal with Hx : parse_value _ (mkField "dependsOn" _ _ _ _) _ = Ok _ |- _ =>
      destruct (pv_name_shape _ _ _ _ _ _ _ _ _ Hx) as [s [-> _]] end.
    exists s. reflexivity.
  Qed.

  Lemma tshape_env : forall f v m, pc f "Environment" v = Ok m -> T_env m.
  Proof.
    intros f v m H. destruct f as [|f']; [discriminate H|].
    destruct (pc_ok_inv _ _ _ _ _ _ _ _ _ lk_env H) as [ms [fs [-> [-> Hm]]]].
    apply fields_F2 in Hm. unfold c_env, c_fields in Hm. f2_inv Hm.
    match goal with Hx : parse_value _ (mkField "name" _ _ _ _) _ = Ok _ |- _ =>
      destruct (pv_name_shape _ _ _ _ _ _ _ _ _ Hx) as [s [-> _]] end.
    do 4 eexists. reflexivity.
  Qed.

  Lemma tshape_step : forall f v m, pc f "StepTemplate" v = Ok m -> T_step m.
  Proof.
    intros f v m H. destruct f as [|f']; [discriminate H|].
    destruct (pc_ok_inv _ _ _ _ _ _ _ _ _ lk_step H) as [ms [fs [-> [-> Hm]]]].
    apply fields_F2 in Hm. unfold c_step, c_fields in Hm. f2_inv Hm.
    match goal with Hx : parse_value _ (mkField "name" _ _ _ _) _ = Ok _ |- _ =>
      destruct (pv_name_shape _ _ _ _ _ _ _ _ _ Hx) as [s [-> _]] end.
    exists s. do 6 eexists. split; [reflexivity|]. split.
    - match goal with Hx : parse_value _ (mkField "stepEnvironments" _ _ _ _) _ = Ok _ |- _ =>
        apply (pv_list_shape _ _ _ _ _ _ _ Hx eq_refl) end.
      intros item_j item_m _. apply pk_model_tshape. exact tshape_env.
    - match goal with Hx : parse_value _ (mkField "dependencies" _ _ _ _) _ = Ok _ |- _ =>
        apply (pv_list_shape _ _ _ _ _ _ _ Hx eq_refl) end.
      intros item_j item_m _. apply pk_model_tshape. exact tshape_dep.
  Qed.

  Lemma tshape_job : forall f v m, pc f "JobTemplate" v = Ok m -> T_job m.
  Proof.
    intros f v m H. destruct f as [|f']; [discriminate H|].
    destruct (pc_ok_inv _ _ _ _ _ _ _ _ _ lk_job H) as [ms [fs [-> [-> Hm]]]].
    apply fields_F2 in Hm. unfold c_job, c_fields in Hm. f2_inv Hm.
    do 7 eexists. split; [reflexivity|]. split.
    - match goal with Hx : parse_value _ (mkField "steps" _ _ _ _) _ = Ok _ |- _ =>
        apply (pv_list_shape _ _ _ _ _ _ _ Hx eq_refl) end.
      intros item_j item_m _. apply pk_model_tshape. exact tshape_step.
    - match goal with Hx : parse_value _ (mkField "jobEnvironments" _ _ _ _) _ = Ok _ |- _ =>
        apply (pv_list_shape _ _ _ _ _ _ _ Hx eq_refl) end.
      intros item_j item_m _. apply pk_model_tshape. exact tshape_env.
  Qed.

  Theorem decode_job_tshape : forall j t, decode_job classify j = Ok t -> T_job t.
  Proof.
    intros j t H. unfold decode_job in H. destruct j as [| | | | | |ms]; try discriminate H.
    destruct (version_ok job_template_versions (JObj ms)); [|discriminate H].
    exact (tshape_job _ _ _ H).
  Qed.
End Shapes.

(* ------------------------------------------------------------------ (B) instantiate_model *)
Lemma jcm_dep : jcm_of Generated.schema "StepDependency" = jcm_trivial. Proof. reflexivity. Qed.
Lemma jcm_env : jcm_of Generated.schema "Environment" = jcm_trivial. Proof. reflexivity. Qed.
Lemma jcm_step : jcm_of Generated.schema "StepTemplate" = jcm_StepTemplate. Proof. reflexivity. Qed.
Lemma jcm_job : jcm_of Generated.schema "JobTemplate" = jcm_JobTemplate. Proof. reflexivity. Qed.

Section Inst.
  Variable resolve : symtab -> str -> outcome str.
  Variable sigma : symtab.
  Variables rho_s rho_e : str -> str.
  Notation SCH := Generated.schema.
  Notation R := (inst SCH resolve sigma).
  Notation IV f := (inst_val resolve sigma (inst SCH resolve sigma f)).
  Notation IM f := (inst_model resolve sigma (inst SCH resolve sigma f)).
  Notation II f := (inst_item resolve sigma (inst SCH resolve sigma f)).
  Notation mr_dep := (mr_dep rho_s).
  Notation mr_env := (mr_env rho_e).
  Notation mr_step := (mr_step rho_s rho_e).
  Notation mrename_job := (mrename_job rho_s rho_e).

  Lemma gen_Dep : forall f x,
    IM f jcm_trivial "StepDependency" [("dependsOn", x)]
    = do x' <- IV f jcm_trivial "dependsOn" x; Ok (MModel "StepDependency" [("dependsOn", x')]).
  Proof. intros. unfold jcm_trivial. shape_unfold. shape_cases. Qed.

  Lemma gen_Env : forall f n sc v d,
    IM f jcm_trivial "Environment" [("name", n); ("script", sc); ("variables", v); ("description", d)]
    = do n' <- IV f jcm_trivial "name" n;
      do sc' <- IV f jcm_trivial "script" sc;
      do v' <- IV f jcm_trivial "variables" v;
      do d' <- IV f jcm_trivial "description" d;
      Ok (MModel "Environment" [("name", n'); ("script", sc'); ("variables", v'); ("description", d')]).
  Proof. intros. unfold jcm_trivial. shape_unfold. shape_cases. Qed.

  (* the result of instantiating a model is a model *)
  Lemma inst_model_is_model : forall f c fs y, R f (MModel c fs) = Ok y -> exists c' fs', y = MModel c' fs'.
  Proof.
    intros f c fs y H. destruct f as [|f]; [discriminate H|]. rewrite inst_S in H. unfold inst_model in H.
    destruct (mapM _ fs) as [l|e]; cbn [bind] in H; [|discriminate H].
    destruct (add_value _ _ _ _) as [l'|e]; cbn [bind] in H; [|discriminate H].
    injection H as <-. eexists. eexists. reflexivity.
  Qed.

  Lemma inst_val_str : forall f j fn s, IV f j fn (MStr s) = Ok (MStr s).
  Proof. reflexivity. Qed.

  (* a list-valued field that is not reshaped *)
  Lemma inst_val_list_ren : forall f j fn (G : mval -> mval) v,
    lookup_s fn (j_reshape j) = None ->
    (forall x, In x (mitems v) -> II f j fn (G x) = omap G (II f j fn x)) ->
    IV f j fn (on_mlist G v) = omap (on_mlist G) (IV f j fn v).
  Proof.
    intros f j fn G v Hr H. destruct v as [ | | | | | |s|l|l|c fs]; try reflexivity.
    - cbn [on_mlist inst_val inst_item]. destruct (mem_s fn (j_resolve j)); [|reflexivity].
      destruct (resolve sigma s); reflexivity.
    - cbn [on_mlist inst_val]. rewrite Hr.
      rewrite (mapM_map_omap _ _ (II f j fn) (II f j fn) G G l H).
      destruct (mapM (II f j fn) l); reflexivity.
    - cbn [on_mlist inst_val]. destruct (mapM _ l); reflexivity.
    - cbn [on_mlist inst_val inst_item]. destruct (R f (MModel c fs)) as [y|e] eqn:E; [|reflexivity].
      destruct (inst_model_is_model _ _ _ _ E) as [c' [fs' ->]]. reflexivity.
  Qed.

  Lemma inst_val_list_shape : forall f j fn v v' (P Q : mval -> Prop),
    lookup_s fn (j_reshape j) = None -> Forall P (mitems v) ->
    (forall x y, P x -> II f j fn x = Ok y -> Q y) ->
    IV f j fn v = Ok v' -> Forall Q (mitems v').
  Proof.
    intros f j fn v v' P Q Hr HP HQ H. destruct v as [ | | | | | |s|l|l|c fs];
      try (injection H as <-; constructor).
    - cbn [inst_val inst_item] in H. destruct (mem_s fn (j_resolve j)); [|injection H as <-; constructor].
      destruct (resolve sigma s); cbn [bind] in H; [injection H as <-; constructor|discriminate H].
    - cbn [inst_val] in H. rewrite Hr in H.
      destruct (mapM (II f j fn) l) as [l'|e] eqn:Em; cbn [bind] in H; [|discriminate H].
      injection H as <-. cbn [mitems] in *. apply Forall_forall. intros y Hy.
      destruct (mapM_ok_in _ _ _ _ _ Em y Hy) as [x [Hx Hxy]].
      rewrite Forall_forall in HP. exact (HQ x y (HP x Hx) Hxy).
    - cbn [inst_val] in H. destruct (mapM _ l); cbn [bind] in H; [injection H as <-; constructor|discriminate H].
    - cbn [inst_val inst_item] in H. destruct (inst_model_is_model _ _ _ _ H) as [c' [fs' ->]]. constructor.
  Qed.

  (* ---- StepDependency *)
  Lemma mr_dep_shape : forall s,
    mr_dep (MModel "StepDependency" [("dependsOn", MStr s)]) = MModel "StepDependency" [("dependsOn", MStr (rho_s s))].
  Proof. reflexivity. Qed.

  Lemma inst_dep : forall f m, T_dep m -> R f (mr_dep m) = omap mr_dep (R f m).
  Proof.
    intros f m [s ->]. destruct f as [|f]; [reflexivity|].
    rewrite mr_dep_shape, !inst_S, jcm_dep, !gen_Dep, !inst_val_str. reflexivity.
  Qed.

  Lemma inst_dep_shape : forall f m y, T_dep m -> R f m = Ok y -> T_dep y.
  Proof.
    intros f m y [s ->] H. destruct f as [|f]; [discriminate H|].
    rewrite inst_S, jcm_dep, gen_Dep, inst_val_str in H. injection H as <-. exists s. reflexivity.
  Qed.

  (* ---- Environment *)
  Lemma mr_env_shape : forall s sc v d,
    mr_env (MModel "Environment" [("name", MStr s); ("script", sc); ("variables", v); ("description", d)])
    = MModel "Environment" [("name", MStr (rho_e s)); ("script", sc); ("variables", v); ("description", d)].
  Proof. reflexivity. Qed.

  Lemma inst_env : forall f m, T_env m -> R f (mr_env m) = omap mr_env (R f m).
  Proof.
    intros f m [s [sc [v [d ->]]]]. destruct f as [|f]; [reflexivity|].
    rewrite mr_env_shape, !inst_S, jcm_env, !gen_Env, !inst_val_str. cbn [bind].
    destruct (IV f jcm_trivial "script" sc); cbn [bind omap]; [|reflexivity].
    destruct (IV f jcm_trivial "variables" v); cbn [bind omap]; [|reflexivity].
    destruct (IV f jcm_trivial "description" d); reflexivity.
  Qed.

  Lemma inst_env_shape : forall f m y, T_env m -> R f m = Ok y -> T_env y.
  Proof.
    intros f m y [s [sc [v [d ->]]]] H. destruct f as [|f]; [discriminate H|].
    rewrite inst_S, jcm_env, gen_Env, inst_val_str in H. cbn [bind] in H.
    destruct (IV f jcm_trivial "script" sc); cbn [bind] in H; [|discriminate H].
    destruct (IV f jcm_trivial "variables" v); cbn [bind] in H; [|discriminate H].
    destruct (IV f jcm_trivial "description" d); cbn [bind] in H; [|discriminate H].
    injection H as <-. do 4 eexists. reflexivity.
  Qed.

  Lemma item_env : forall f j fn x, T_env x -> II f j fn (mr_env x) = omap mr_env (II f j fn x).
  Proof. intros f j fn x Hx. pose proof (inst_env f x Hx) as E. destruct Hx as [s [sc [v [d ->]]]]. exact E. Qed.

  Lemma item_dep : forall f j fn x, T_dep x -> II f j fn (mr_dep x) = omap mr_dep (II f j fn x).
  Proof. intros f j fn x Hx. pose proof (inst_dep f x Hx) as E. destruct Hx as [s ->]. exact E. Qed.

  Lemma item_env_shape : forall f j fn x y, T_env x -> II f j fn x = Ok y -> T_env y.
  Proof. intros f j fn x y Hx H. apply (inst_env_shape f x y Hx). destruct Hx as [s [sc [v [d ->]]]]. exact H. Qed.

  Lemma item_dep_shape : forall f j fn x y, T_dep x -> II f j fn x = Ok y -> T_dep y.
  Proof. intros f j fn x y Hx H. apply (inst_dep_shape f x y Hx). destruct Hx as [s ->]. exact H. Qed.

  (* ---- StepTemplate -> Step *)
  Lemma mr_step_shape : forall c s d sc se ps hr dp,
    mr_step (MModel c (step_fields (MStr s) d sc se ps hr dp))
    = MModel c (step_fields (MStr (rho_s s)) d sc (on_mlist mr_env se) ps hr (on_mlist mr_dep dp)).
  Proof. reflexivity. Qed.

  Lemma inst_step : forall f m, T_step m -> R f (mr_step m) = omap mr_step (R f m).
  Proof.
    intros f m [s [d [sc [se [ps [hr [dp [-> [Hse Hdp]]]]]]]]]. destruct f as [|f]; [reflexivity|].
    rewrite mr_step_shape, !inst_S, jcm_step. unfold step_fields. rewrite !gen_StepTemplate, !inst_val_str. cbn [bind].
    rewrite (inst_val_list_ren f jcm_StepTemplate "stepEnvironments" mr_env se eq_refl)
      by (intros x Hx; apply item_env; rewrite Forall_forall in Hse; exact (Hse x Hx)).
    rewrite (inst_val_list_ren f jcm_StepTemplate "dependencies" mr_dep dp eq_refl)
      by (intros x Hx; apply item_dep; rewrite Forall_forall in Hdp; exact (Hdp x Hx)).
    destruct (IV f jcm_StepTemplate "description" d); cbn [bind omap]; [|reflexivity].
    destruct (IV f jcm_StepTemplate "script" sc); cbn [bind omap]; [|reflexivity].
    destruct (IV f jcm_StepTemplate "stepEnvironments" se); cbn [bind omap]; [|reflexivity].
    destruct (IV f jcm_StepTemplate "parameterSpace" ps); cbn [bind omap]; [|reflexivity].
    destruct (IV f jcm_StepTemplate "hostRequirements" hr); cbn [bind omap]; [|reflexivity].
    destruct (IV f jcm_StepTemplate "dependencies" dp); reflexivity.
  Qed.

  Lemma inst_step_shape : forall f m y, T_step m -> R f m = Ok y -> J_step y.
  Proof.
    intros f m y [s [d [sc [se [ps [hr [dp [-> [Hse Hdp]]]]]]]]] H. destruct f as [|f]; [discriminate H|].
    rewrite inst_S, jcm_step in H. unfold step_fields in H. rewrite gen_StepTemplate, inst_val_str in H. cbn [bind] in H.
    destruct (IV f jcm_StepTemplate "description" d); cbn [bind] in H; [|discriminate H].
    destruct (IV f jcm_StepTemplate "script" sc); cbn [bind] in H; [|discriminate H].
    destruct (IV f jcm_StepTemplate "stepEnvironments" se) as [se'|e] eqn:Ese; cbn [bind] in H; [|discriminate H].
    destruct (IV f jcm_StepTemplate "parameterSpace" ps); cbn [bind] in H; [|discriminate H].
    destruct (IV f jcm_StepTemplate "hostRequirements" hr); cbn [bind] in H; [|discriminate H].
    destruct (IV f jcm_StepTemplate "dependencies" dp) as [dp'|e] eqn:Edp; cbn [bind] in H; [|discriminate H].
    injection H as <-. exists s. do 6 eexists. split; [reflexivity|]. split.
    - apply (inst_val_list_shape f jcm_StepTemplate "stepEnvironments" se se' T_env T_env eq_refl Hse); [|exact Ese].
      intros x y0 Hx Hy. exact (item_env_shape _ _ _ _ _ Hx Hy).
    - apply (inst_val_list_shape f jcm_StepTemplate "dependencies" dp dp' T_dep T_dep eq_refl Hdp); [|exact Edp].
      intros x y0 Hx Hy. exact (item_dep_shape _ _ _ _ _ Hx Hy).
  Qed.

  Lemma item_step : forall f j fn x, T_step x -> II f j fn (mr_step x) = omap mr_step (II f j fn x).
  Proof.
    intros f j fn x Hx. pose proof (inst_step f x Hx) as E.
    destruct Hx as [s [d [sc [se [ps [hr [dp [-> _]]]]]]]]. exact E.
  Qed.

  Lemma item_step_shape : forall f j fn x y, T_step x -> II f j fn x = Ok y -> J_step y.
  Proof.
    intros f j fn x y Hx H. apply (inst_step_shape f x y Hx).
    destruct Hx as [s [d [sc [se [ps [hr [dp [-> _]]]]]]]]. exact H.
  Qed.

  (* ---- JobTemplate -> Job *)
  Lemma mrename_job_shape : forall sv nm st d pd je ss,
    mrename_job (MModel "JobTemplate" [("specificationVersion", sv); ("name", nm); ("steps", st); ("description", d);
                                       ("parameterDefinitions", pd); ("jobEnvironments", je); ("schemaStr", ss)])
    = MModel "JobTemplate" [("specificationVersion", sv); ("name", nm); ("steps", on_mlist mr_step st); ("description", d);
                            ("parameterDefinitions", pd); ("jobEnvironments", on_mlist mr_env je); ("schemaStr", ss)].
  Proof. reflexivity. Qed.

  Theorem inst_job : forall f t, T_job t -> R f (mrename_job t) = omap mrename_job (R f t).
  Proof.
    intros f t [sv [nm [st [d [pd [je [ss [-> [Hst Hje]]]]]]]]]. destruct f as [|f]; [reflexivity|].
    rewrite mrename_job_shape, !inst_S, jcm_job, !gen_JobTemplate.
    rewrite (inst_val_list_ren f jcm_JobTemplate "steps" mr_step st eq_refl)
      by (intros x Hx; apply item_step; rewrite Forall_forall in Hst; exact (Hst x Hx)).
    rewrite (inst_val_list_ren f jcm_JobTemplate "jobEnvironments" mr_env je eq_refl)
      by (intros x Hx; apply item_env; rewrite Forall_forall in Hje; exact (Hje x Hx)).
    destruct (IV f jcm_JobTemplate "name" nm); cbn [bind omap]; [|reflexivity].
    destruct (IV f jcm_JobTemplate "steps" st); cbn [bind omap]; [|reflexivity].
    destruct (IV f jcm_JobTemplate "description" d); cbn [bind omap]; [|reflexivity].
    destruct (IV f jcm_JobTemplate "parameterDefinitions" pd); cbn [bind omap]; [|reflexivity].
    destruct (IV f jcm_JobTemplate "jobEnvironments" je); reflexivity.
  Qed.

  Theorem inst_job_shape : forall f t y, T_job t -> R f t = Ok y -> J_job y.
  Proof.
    intros f t y [sv [nm [st [d [pd [je [ss [-> [Hst Hje]]]]]]]]] H. destruct f as [|f]; [discriminate H|].
    rewrite inst_S, jcm_job, gen_JobTemplate in H.
    destruct (IV f jcm_JobTemplate "name" nm); cbn [bind] in H; [|discriminate H].
    destruct (IV f jcm_JobTemplate "steps" st) as [st'|e] eqn:Est; cbn [bind] in H; [|discriminate H].
    destruct (IV f jcm_JobTemplate "description" d); cbn [bind] in H; [|discriminate H].
    destruct (IV f jcm_JobTemplate "parameterDefinitions" pd); cbn [bind] in H; [|discriminate H].
    destruct (IV f jcm_JobTemplate "jobEnvironments" je) as [je'|e] eqn:Eje; cbn [bind] in H; [|discriminate H].
    injection H as <-. do 5 eexists. split; [reflexivity|]. split.
    - apply (inst_val_list_shape f jcm_JobTemplate "steps" st st' T_step J_step eq_refl Hst); [|exact Est].
      intros x y0 Hx Hy. exact (item_step_shape _ _ _ _ _ Hx Hy).
    - apply (inst_val_list_shape f jcm_JobTemplate "jobEnvironments" je je' T_env T_env eq_refl Hje); [|exact Eje].
      intros x y0 Hx Hy. exact (item_env_shape _ _ _ _ _ Hx Hy).
  Qed.
End Inst.

(* ------------------------------------------------------------------ (C) the job-side coercion *)
Section Coerce.
  Variables rho_s rho_e : str -> str.
  Notation mr_dep := (mr_dep rho_s).
  Notation mr_env := (mr_env rho_e).
  Notation mr_step := (mr_step rho_s rho_e).
  Notation mrename_job := (mrename_job rho_s rho_e).

  Lemma coerce_mr_dep : forall f x, coerce_job f (mr_dep x) = mr_dep (coerce_job f x).
  Proof.
    intros f x. apply coerce_on_fields; [reflexivity|]. apply coerce_mdispatch.
    constructor; [intros f' y; apply coerce_mren_str|constructor].
  Qed.

  Lemma coerce_mr_env : forall f x, coerce_job f (mr_env x) = mr_env (coerce_job f x).
  Proof.
    intros f x. apply coerce_on_fields; [reflexivity|]. apply coerce_mdispatch.
    constructor; [intros f' y; apply coerce_mren_str|constructor].
  Qed.

  Lemma coerce_mr_step : forall f x, coerce_job f (mr_step x) = mr_step (coerce_job f x).
  Proof.
    intros f x. apply coerce_on_fields; [reflexivity|]. apply coerce_mdispatch.
    constructor; [intros f' y; apply coerce_mren_str|].
    constructor; [intros f' y; apply coerce_on_mlist; exact coerce_mr_dep|].
    constructor; [intros f' y; apply coerce_on_mlist; exact coerce_mr_env|constructor].
  Qed.

  Theorem coerce_mrename_job : forall f x, coerce_job f (mrename_job x) = mrename_job (coerce_job f x).
  Proof.
    intros f x. apply coerce_on_fields; [reflexivity|]. apply coerce_mdispatch.
    constructor; [intros f' y; apply coerce_on_mlist; exact coerce_mr_step|].
    constructor; [intros f' y; apply coerce_on_mlist; exact coerce_mr_env|constructor].
  Qed.

  (* ... and keeps the shapes *)
  Lemma coerce_mstr : forall f s, coerce_job f (MStr s) = MStr s.
  Proof. intros f s. destruct f; reflexivity. Qed.

  Lemma mitems_coerce : forall (P : mval -> Prop) f v, Forall P (mitems v) ->
    (forall f' x, P x -> P (coerce_job f' x)) -> Forall P (mitems (coerce_job f v)).
  Proof.
    intros P f v H HP. destruct f as [|f]; [exact H|].
    destruct v as [ | | | | | | |l| |]; try constructor.
    cbn [coerce_job mitems] in *. apply Forall_forall. intros y Hy. apply in_map_iff in Hy.
    destruct Hy as [x [<- Hx]]. rewrite Forall_forall in H. exact (HP f x (H x Hx)).
  Qed.

  Lemma coerce_T_dep : forall f x, T_dep x -> T_dep (coerce_job f x).
  Proof.
    intros f x [s ->]. destruct f as [|f]; [exists s; reflexivity|].
    exists s. cbn [coerce_job map fst snd String.eqb Ascii.eqb Bool.eqb]. rewrite coerce_mstr. reflexivity.
  Qed.

  Lemma coerce_T_env : forall f x, T_env x -> T_env (coerce_job f x).
  Proof.
    intros f x [s [sc [v [d ->]]]]. destruct f as [|f]; [do 4 eexists; reflexivity|].
    exists s. cbn [coerce_job map fst snd String.eqb Ascii.eqb Bool.eqb]. rewrite coerce_mstr.
    do 3 eexists. reflexivity.
  Qed.

  Lemma coerce_J_step : forall f x, J_step x -> J_step (coerce_job f x).
  Proof.
    intros f x [s [d [sc [se [ps [hr [dp [-> [Hse Hdp]]]]]]]]].
    destruct f as [|f]; [exists s; do 6 eexists; split; [reflexivity|split; assumption]|].
    exists s. unfold step_fields. cbn [coerce_job map fst snd String.eqb Ascii.eqb Bool.eqb]. rewrite coerce_mstr.
    do 6 eexists. split; [reflexivity|]. split.
    - apply mitems_coerce; [exact Hse|]. intros f' y Hy. apply coerce_T_env. exact Hy.
    - apply mitems_coerce; [exact Hdp|]. intros f' y Hy. apply coerce_T_dep. exact Hy.
  Qed.

  Theorem coerce_J_job : forall f x, J_job x -> J_job (coerce_job f x).
  Proof.
    intros f x [nm [st [d [p [je [-> [Hst Hje]]]]]]].
    destruct f as [|f]; [do 5 eexists; split; [reflexivity|split; assumption]|].
    cbn [coerce_job map fst snd String.eqb Ascii.eqb Bool.eqb].
    do 5 eexists. split; [reflexivity|]. split.
    - apply mitems_coerce; [exact Hst|]. intros f' y Hy. apply coerce_J_step. exact Hy.
    - apply mitems_coerce; [exact Hje|]. intros f' y Hy. apply coerce_T_env. exact Hy.
  Qed.
End Coerce.

(* ------------------------------------------------------------------ (D) to_object *)
Section ToObject.
  Variables rho_s rho_e : str -> str.
  Notation SCH := Generated.schema.
  Notation mr_dep := (mr_dep rho_s).
  Notation mr_env := (mr_env rho_e).
  Notation mr_step := (mr_step rho_s rho_e).
  Notation mrename_job := (mrename_job rho_s rho_e).
  Notation rs_dep := (rs_dep rho_s).
  Notation rs_env := (rs_env rho_e).
  Notation rs_step := (rs_step rho_s rho_e).

  Ltac field_cases Hin :=
    cbn [In] in Hin;
    repeat (destruct Hin as [Hin|Hin]; [injection Hin as <- <-|]); [..|contradiction].

  Lemma TO_dep : forall m, T_dep m -> forall F, to_object SCH F (mr_dep m) = rs_dep (to_object SCH F m).
  Proof.
    intros m [s ->] F. destruct F as [|F]; [reflexivity|].
    apply (to_object_on_fields SCH F "StepDependency" (mr_dep_g rho_s) (rs_dep_h rho_s)).
    intros k x Hin. field_cases Hin.
    split; [reflexivity|]. exact (to_object_mstr SCH rho_s F s).
  Qed.

  Lemma TO_env : forall m, T_env m -> forall F, to_object SCH F (mr_env m) = rs_env (to_object SCH F m).
  Proof.
    intros m [s [sc [v [d ->]]]] F. destruct F as [|F]; [reflexivity|].
    apply (to_object_on_fields SCH F "Environment" (mr_env_g rho_e) (rs_env_h rho_e)).
    intros k x Hin. field_cases Hin.
    - split; [reflexivity|]. exact (to_object_mstr SCH rho_e F s).
    - split; reflexivity.
    - split; reflexivity.
    - split; reflexivity.
  Qed.

  Lemma TO_step : forall m, J_step m -> forall F, to_object SCH F (mr_step m) = rs_step (to_object SCH F m).
  Proof.
    intros m [s [d [sc [se [ps [hr [dp [-> [Hse Hdp]]]]]]]]] F. destruct F as [|F]; [reflexivity|].
    apply (to_object_on_fields SCH F "Step" (mr_step_g rho_s rho_e) (rs_step_h rho_s rho_e)).
    intros k x Hin. unfold step_fields in Hin. field_cases Hin.
    - split; [reflexivity|]. exact (to_object_mstr SCH rho_s F s).
    - split; reflexivity.
    - split; reflexivity.
    - split; [apply is_none_on_mlist|].
      apply (to_object_on_mlist SCH mr_env rs_env). intros F' y Hy. apply TO_env.
      rewrite Forall_forall in Hse. exact (Hse y Hy).
    - split; reflexivity.
    - split; reflexivity.
    - split; [apply is_none_on_mlist|].
      apply (to_object_on_mlist SCH mr_dep rs_dep). intros F' y Hy. apply TO_dep.
      rewrite Forall_forall in Hdp. exact (Hdp y Hy).
  Qed.

  Theorem TO_job : forall m, J_job m -> forall F,
    to_object SCH F (mrename_job m) = rename_steps_envs rho_s rho_e (to_object SCH F m).
  Proof.
    intros m [nm [st [d [p [je [-> [Hst Hje]]]]]]] F. destruct F as [|F]; [reflexivity|].
    apply (to_object_on_fields SCH F "Job" (mr_job_g rho_s rho_e) (rs_job_h rho_s rho_e)).
    intros k x Hin. field_cases Hin.
    - split; reflexivity.
    - split; [apply is_none_on_mlist|].
      apply (to_object_on_mlist SCH mr_step rs_step). intros F' y Hy. apply TO_step.
      rewrite Forall_forall in Hst. exact (Hst y Hy).
    - split; reflexivity.
    - split; reflexivity.
    - split; [apply is_none_on_mlist|].
      apply (to_object_on_mlist SCH mr_env rs_env). intros F' y Hy. apply TO_env.
      rewrite Forall_forall in Hje. exact (Hje y Hy).
  Qed.

  (* depth of the renamed instances *)
  Lemma mdepth_mr_dep : forall x, mval_depth (mr_dep x) = mval_depth x.
  Proof.
    intros x. apply mdepth_on_fields. intros k y. apply mdepth_mdispatch.
    constructor; [intros z; apply mdepth_mren_str|constructor].
  Qed.

  Lemma mdepth_mr_env : forall x, mval_depth (mr_env x) = mval_depth x.
  Proof.
    intros x. apply mdepth_on_fields. intros k y. apply mdepth_mdispatch.
    constructor; [intros z; apply mdepth_mren_str|constructor].
  Qed.

  Lemma mdepth_mr_step : forall x, mval_depth (mr_step x) = mval_depth x.
  Proof.
    intros x. apply mdepth_on_fields. intros k y. apply mdepth_mdispatch.
    constructor; [intros z; apply mdepth_mren_str|].
    constructor; [intros z; apply mdepth_on_mlist; exact mdepth_mr_dep|].
    constructor; [intros z; apply mdepth_on_mlist; exact mdepth_mr_env|constructor].
  Qed.

  Theorem mdepth_mrename_job : forall x, mval_depth (mrename_job x) = mval_depth x.
  Proof.
    intros x. apply mdepth_on_fields. intros k y. apply mdepth_mdispatch.
    constructor; [intros z; apply mdepth_on_mlist; exact mdepth_mr_step|].
    constructor; [intros z; apply mdepth_on_mlist; exact mdepth_mr_env|constructor].
  Qed.

  (* the exported documents *)
  Lemma export_dep : forall m, T_dep m -> export (mr_dep m) = rs_dep (export m).
  Proof. intros m H. unfold export. rewrite mdepth_mr_dep. apply TO_dep. exact H. Qed.
  Lemma export_env : forall m, T_env m -> export (mr_env m) = rs_env (export m).
  Proof. intros m H. unfold export. rewrite mdepth_mr_env. apply TO_env. exact H. Qed.
  Lemma export_step : forall m, J_step m -> export (mr_step m) = rs_step (export m).
  Proof. intros m H. unfold export. rewrite mdepth_mr_step. apply TO_step. exact H. Qed.
  Theorem export_job : forall m, J_job m -> export (mrename_job m) = rename_steps_envs rho_s rho_e (export m).
  Proof. intros m H. unfold export. rewrite mdepth_mrename_job. apply TO_job. exact H. Qed.
End ToObject.

(* ------------------------------------------------------------------ (E) re-validation of the created tree *)
Section Nodes.
  Variable classify : N -> cclass.
  Variables rho_s rho_e : str -> str.
  Hypothesis fine_s : forall n, name_fine (rho_s n) = name_fine n.
  Hypothesis fine_e : forall n, name_fine (rho_e n) = name_fine n.
  Notation SCH := Generated.schema.
  Notation mr_dep := (mr_dep rho_s).
  Notation mr_env := (mr_env rho_e).
  Notation mr_step := (mr_step rho_s rho_e).
  Notation mrename_job := (mrename_job rho_s rho_e).
  Notation rs_dep := (rs_dep rho_s).
  Notation rs_env := (rs_env rho_e).
  Notation rs_step := (rs_step rho_s rho_e).
  Notation nodes := (nodes_ok classify).

  Definition all_ok (f : nat) (l : list mval) : outcome bool :=
    fold_left (fun (acc : outcome bool) x => do a <- acc; if a then nodes f x else Ok false) l (Ok true).

  Definition verdict (o : outcome mval) : outcome bool :=
    match o with
    | Ok _ => Ok true
    | Raise ValueError => Ok false
    | Raise e => Raise e
    end.

  Lemma nodes_ok_S : forall f v,
    nodes (S f) v =
    match v with
    | MList l => all_ok f l
    | MDict l => all_ok f (map snd l)
    | MModel c fs =>
      do below <- all_ok f (map snd fs);
      if below then verdict (parse_any classify c (export v)) else Ok false
    | _ => Ok true
    end.
  Proof. intros f v. destruct v; reflexivity. Qed.

  Lemma verdict_omap : forall g o, verdict (omap g o) = verdict o.
  Proof. intros g o. destruct o; reflexivity. Qed.

  Lemma fold_ok_ext : forall f (G : mval -> mval) l acc,
    (forall x, In x l -> nodes f (G x) = nodes f x) ->
    fold_left (fun (a : outcome bool) x => do b <- a; if b then nodes f x else Ok false) (map G l) acc
    = fold_left (fun (a : outcome bool) x => do b <- a; if b then nodes f x else Ok false) l acc.
  Proof.
    intros f G l. induction l as [|x r IH]; intros acc H; [reflexivity|].
    cbn [map fold_left]. rewrite (H x (or_introl eq_refl)). apply IH. intros y Hy. apply H. right. exact Hy.
  Qed.

  Lemma all_ok_map : forall f (G : mval -> mval) l,
    (forall x, In x l -> nodes f (G x) = nodes f x) -> all_ok f (map G l) = all_ok f l.
  Proof. intros f G l H. unfold all_ok. apply fold_ok_ext. exact H. Qed.

  Lemma all_ok_fields : forall f (g : string -> mval -> mval) fs,
    (forall k x, In (k, x) fs -> nodes f (g k x) = nodes f x) ->
    all_ok f (map snd (mapf g fs)) = all_ok f (map snd fs).
  Proof.
    intros f g fs H. unfold all_ok. generalize (Ok true : outcome bool) as acc.
    induction fs as [|[k x] r IH]; intros acc; [reflexivity|].
    cbn [mapf map fold_left fst snd]. rewrite (H k x (or_introl eq_refl)).
    apply IH. intros k' x' Hin. apply H. right. exact Hin.
  Qed.

  Lemma nodes_mstr : forall f s s', nodes f (MStr s) = nodes f (MStr s').
  Proof. intros f s s'. destruct f; reflexivity. Qed.

  Lemma nodes_on_mlist : forall (G : mval -> mval) v,
    (forall f x, In x (mitems v) -> nodes f (G x) = nodes f x) ->
    forall f, nodes f (on_mlist G v) = nodes f v.
  Proof.
    intros G v H f. destruct v as [ | | | | | | |l| |]; try reflexivity.
    destruct f as [|f]; [reflexivity|]. cbn [on_mlist]. rewrite !nodes_ok_S. apply all_ok_map. intros x Hx. apply H. exact Hx.
  Qed.

  (* the pre validators of the re-validation agree with those of decoding on the classes concerned *)
  Lemma pre_full_live : forall fuel c raw, In c live_classes -> pre_full classify fuel c raw = pre_hook c raw.
  Proof.
    intros fuel c raw Hin. unfold live_classes in Hin. cbn [In] in Hin. unfold pre_full.
    repeat (destruct Hin as [<-|Hin]; [apply andb_true_r|]). contradiction.
  Qed.

  Lemma parse_any_dep : forall J, parse_any classify "StepDependency" (rs_dep J)
                                  = omap mr_dep (parse_any classify "StepDependency" J).
  Proof.
    intros J. unfold parse_any. cbv zeta. unfold parse_fuel. rewrite (depth_rs_dep rho_s).
    apply (pc_dep classify rho_s fine_s). intros c raw Hc. apply pre_full_live. exact Hc.
  Qed.

  Lemma parse_any_env : forall J, parse_any classify "Environment" (rs_env J)
                                  = omap mr_env (parse_any classify "Environment" J).
  Proof.
    intros J. unfold parse_any. cbv zeta. unfold parse_fuel. rewrite (depth_rs_env rho_e).
    apply (pc_env classify rho_e fine_e). intros c raw Hc. apply pre_full_live. exact Hc.
  Qed.

  Lemma parse_any_step : forall J, parse_any classify "Step" (rs_step J) = omap mr_step (parse_any classify "Step" J).
  Proof.
    intros J. unfold parse_any. cbv zeta. unfold parse_fuel. rewrite (depth_rs_step rho_s rho_e).
    apply (pc_jstep classify rho_s rho_e fine_s fine_e). intros c raw Hc. apply pre_full_live. exact Hc.
  Qed.

  Lemma parse_any_job : forall J, parse_any classify "Job" (rename_steps_envs rho_s rho_e J)
                                  = omap mrename_job (parse_any classify "Job" J).
  Proof.
    intros J. unfold parse_any. cbv zeta. unfold parse_fuel. rewrite (depth_rename_steps_envs rho_s rho_e).
    apply (pc_jjob classify rho_s rho_e fine_s fine_e). intros c raw Hc. apply pre_full_live. exact Hc.
  Qed.

  Ltac field_cases Hin :=
    cbn [In] in Hin;
    repeat (destruct Hin as [Hin|Hin]; [injection Hin as <- <-|]); [..|contradiction].

  Lemma N_dep : forall m, T_dep m -> forall f, nodes f (mr_dep m) = nodes f m.
  Proof.
    intros m Hm f. destruct f as [|f]; [reflexivity|]. pose proof (export_dep rho_s m Hm) as Ex.
    destruct Hm as [s ->]. rewrite !nodes_ok_S.
    change (RenameSteps.mr_dep rho_s (MModel "StepDependency" [("dependsOn", MStr s)]))
      with (MModel "StepDependency" (mapf (mr_dep_g rho_s) [("dependsOn", MStr s)])) in *.
    rewrite Ex, parse_any_dep, verdict_omap.
    rewrite (all_ok_fields f (mr_dep_g rho_s)); [reflexivity|].
    intros k x Hin. field_cases Hin. apply nodes_mstr.
  Qed.

  Lemma N_env : forall m, T_env m -> forall f, nodes f (mr_env m) = nodes f m.
  Proof.
    intros m Hm f. destruct f as [|f]; [reflexivity|]. pose proof (export_env rho_e m Hm) as Ex.
    destruct Hm as [s [sc [v [d ->]]]]. rewrite !nodes_ok_S.
    change (RenameSteps.mr_env rho_e (MModel "Environment" ?fs)) with (MModel "Environment" (mapf (mr_env_g rho_e) fs)) in *.
    rewrite Ex, parse_any_env, verdict_omap.
    rewrite (all_ok_fields f (mr_env_g rho_e)); [reflexivity|].
    intros k x Hin. field_cases Hin; try reflexivity. apply nodes_mstr.
  Qed.

  Lemma N_step : forall m, J_step m -> forall f, nodes f (mr_step m) = nodes f m.
  Proof.
    intros m Hm f. destruct f as [|f]; [reflexivity|]. pose proof (export_step rho_s rho_e m Hm) as Ex.
    destruct Hm as [s [d [sc [se [ps [hr [dp [-> [Hse Hdp]]]]]]]]]. rewrite !nodes_ok_S.
    change (RenameSteps.mr_step rho_s rho_e (MModel "Step" ?fs)) with (MModel "Step" (mapf (mr_step_g rho_s rho_e) fs)) in *.
    rewrite Ex, parse_any_step, verdict_omap.
    rewrite (all_ok_fields f (mr_step_g rho_s rho_e)); [reflexivity|].
    intros k x Hin. unfold step_fields in Hin. field_cases Hin; try reflexivity.
    - apply nodes_mstr.
    - apply (nodes_on_mlist mr_env). intros f' y Hy. apply N_env. rewrite Forall_forall in Hse. exact (Hse y Hy).
    - apply (nodes_on_mlist mr_dep). intros f' y Hy. apply N_dep. rewrite Forall_forall in Hdp. exact (Hdp y Hy).
  Qed.

  Theorem N_job : forall m, J_job m -> forall f, nodes f (mrename_job m) = nodes f m.
  Proof.
    intros m Hm f. destruct f as [|f]; [reflexivity|]. pose proof (export_job rho_s rho_e m Hm) as Ex.
    destruct Hm as [nm [st [d [p [je [-> [Hst Hje]]]]]]]. rewrite !nodes_ok_S.
    change (RenameSteps.mrename_job rho_s rho_e (MModel "Job" ?fs)) with (MModel "Job" (mapf (mr_job_g rho_s rho_e) fs)) in *.
    rewrite Ex, parse_any_job, verdict_omap.
    rewrite (all_ok_fields f (mr_job_g rho_s rho_e)); [reflexivity|].
    intros k x Hin. field_cases Hin; try reflexivity.
    - apply (nodes_on_mlist mr_step). intros f' y Hy. apply N_step. rewrite Forall_forall in Hst. exact (Hst y Hy).
    - apply (nodes_on_mlist mr_env). intros f' y Hy. apply N_env. rewrite Forall_forall in Hje. exact (Hje y Hy).
  Qed.

  (* ---------------------------------------------------------------- (F) create_job *)
  Lemma defs_of_template_ren : forall t, defs_of_template (mrename_job t) = defs_of_template t.
  Proof.
    intros t. destruct t as [ | | | | | | | | |c fs]; try reflexivity.
    cbn [RenameSteps.mrename_job on_fields defs_of_template].
    change (mfield "parameterDefinitions" (mapf (mr_job_g rho_s rho_e) fs))
      with (fget "parameterDefinitions" (mapf (mr_job_g rho_s rho_e) fs)).
    rewrite fget_mapf by reflexivity. reflexivity.
  Qed.

  Lemma prep_full_ren : forall envs t vals, prep_full envs (mrename_job t) vals = prep_full envs t vals.
  Proof. intros envs t vals. unfold prep_full. rewrite defs_of_template_ren. reflexivity. Qed.

  Theorem create_job_full_shaped : forall envs t vals, T_job t ->
    create_job_full classify envs (mrename_job t) vals = omap mrename_job (create_job_full classify envs t vals).
  Proof.
    intros envs t vals Ht. unfold create_job_full. rewrite prep_full_ren.
    destruct (prep_full envs t vals) as [pvals|e]; cbn [bind omap]; [|reflexivity].
    rewrite (mdepth_mrename_job rho_s rho_e), (inst_job _ _ rho_s rho_e _ t Ht).
    destruct (inst SCH (fs_resolve classify) (symtab_of pvals) (S (mval_depth t)) t) as [job|e] eqn:Ei; cbn [omap].
    - pose proof (inst_job_shape _ _ _ _ _ Ht Ei) as Hj.
      rewrite (coerce_mrename_job rho_s rho_e).
      rewrite (N_job _ (coerce_J_job _ _ Hj)).
      destruct (nodes (S (S (S (mval_depth t)))) (coerce_job (S (mval_depth t)) job)) as [[|]|e]; reflexivity.
    - destruct e; reflexivity.
  Qed.

  Theorem create_job_full_rs : forall j envs t vals, decode_job classify j = Ok t ->
    create_job_full classify envs (mrename_job t) vals = omap mrename_job (create_job_full classify envs t vals).
  Proof. intros j envs t vals H. apply create_job_full_shaped. exact (decode_job_tshape classify j t H). Qed.

  (* the Job that leaves create_job has the shape of a Job *)
  Lemma create_job_full_J : forall envs t vals job, T_job t -> create_job_full classify envs t vals = Ok job -> J_job job.
  Proof.
    intros envs t vals job Ht H. unfold create_job_full in H.
    destruct (prep_full envs t vals) as [pvals|e]; cbn [bind] in H; [|discriminate H].
    destruct (inst SCH (fs_resolve classify) (symtab_of pvals) (S (mval_depth t)) t) as [jb|e] eqn:Ei;
      [|destruct e; discriminate H].
    destruct (nodes _ _) as [[|]|e]; try discriminate H. injection H as <-.
    exact (coerce_J_job (S (mval_depth t)) jb (inst_job_shape _ _ _ _ _ Ht Ei)).
  Qed.
End Nodes.

(* ------------------------------------------------------------------ from the raw documents *)
Section Docs.
  Variable classify : N -> cclass.
  Variables rho_s rho_e : str -> str.
  Hypothesis fine_s : forall n, name_fine (rho_s n) = name_fine n.
  Hypothesis fine_e : forall n, name_fine (rho_e n) = name_fine n.

  Theorem create_job_docs_rs_on : forall env_docs doc vals,
    InjOn rho_s (jstrings doc) -> InjOn rho_e (jstrings doc) ->
    create_job_docs classify env_docs (rename_steps_envs rho_s rho_e doc) vals
    = omap (omap (rename_steps_envs rho_s rho_e)) (create_job_docs classify env_docs doc vals).
  Proof.
    intros env_docs doc vals Is Ie. unfold create_job_docs.
    rewrite (decode_job_rs_on classify rho_s rho_e fine_s fine_e doc Is Ie).
    destruct (decode_job classify doc) as [t|e] eqn:Ed; cbn [omap bind]; [|reflexivity].
    destruct (mapM (decode_env classify) env_docs) as [envs|e]; cbn [omap bind]; [|reflexivity].
    pose proof (decode_job_tshape classify doc t Ed) as Ht.
    rewrite (create_job_full_shaped classify rho_s rho_e fine_s fine_e envs t vals Ht).
    destruct (create_job_full classify envs t vals) as [job|e] eqn:Ec; cbn [omap]; [|reflexivity].
    rewrite (export_job rho_s rho_e job (create_job_full_J classify envs t vals job Ht Ec)). reflexivity.
  Qed.

  Theorem create_job_docs_rs : forall env_docs doc vals,
    (forall a b, rho_s a = rho_s b -> a = b) -> (forall a b, rho_e a = rho_e b -> a = b) ->
    create_job_docs classify env_docs (rename_steps_envs rho_s rho_e doc) vals
    = omap (omap (rename_steps_envs rho_s rho_e)) (create_job_docs classify env_docs doc vals).
  Proof. intros env_docs doc vals Hs He. apply create_job_docs_rs_on; apply InjOn_all; assumption. Qed.
End Docs.

(* the names of the environments of the environment TEMPLATES handed to create_job play no role at all *)
Lemma defs_of_template_envt : forall rho e, defs_of_template (mrename_env_template rho e) = defs_of_template e.
Proof.
  intros rho e. destruct e as [ | | | | | | | | |c fs]; try reflexivity.
  cbn [mrename_env_template on_fields defs_of_template].
  change (mfield "parameterDefinitions" (mapf (mr_envt_g rho) fs)) with (fget "parameterDefinitions" (mapf (mr_envt_g rho) fs)).
  rewrite fget_mapf by reflexivity. reflexivity.
Qed.

Theorem create_job_full_envt : forall classify rho envs t vals,
  create_job_full classify (map (mrename_env_template rho) envs) t vals = create_job_full classify envs t vals.
Proof.
  intros classify rho envs t vals. unfold create_job_full, prep_full.
  assert (E : mapM defs_of_template (map (mrename_env_template rho) envs) = mapM defs_of_template envs).
  { induction envs as [|e r IH]; [reflexivity|]. cbn [map mapM]. rewrite defs_of_template_envt, IH. reflexivity. }
  rewrite E. reflexivity.
Qed.
