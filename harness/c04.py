"""C04 — decoding is total: a model or DecodeValidationError, input left untouched."""
import copy
import datetime
import itertools
import json
import random
import yaml
import sys
from pathlib import Path

sys.path.insert(0, str(Path(__file__).resolve().parent))
import core  # noqa: E402
import gen_template as G  # noqa: E402
import mutate as M  # noqa: E402

from openjd.model import (  # noqa: E402
    DecodeValidationError, DocumentType, decode_environment_template, decode_job_template, document_string_to_object,
)

_SRC_CHARS = "".join(sorted({c for p in (G.__file__, M.__file__) for c in Path(p).read_text() if ord(c) > 127}))

# the 12 junk values of DESIGN.md §4 C04 plus YAML-only values (non-string keys, dates, bytes, non-finite floats)
JUNK = [None, True, 0, -1, 1.5, "", "x", [], [None], {}, {"x": 1}, {1: 2}]
YAML_ONLY = [{None: 1}, {True: "x"}, {1.5: []}, datetime.date(2001, 12, 14), datetime.datetime(2001, 12, 14, 21, 59, 43), b"bytes", float("inf"), float("nan"),
             {"a": {2: 3}}, [{1: 2}], 2 ** 70, -(2 ** 70), "\x00", "{{", "}}", "{{a}}", "{{ Param.X }}", [[[]]], {"name": None}, [1, None, [2], 2.5, "3", True],
             {"a", "b"}, frozenset(["x"]), {1, 2}, set(),
             10 ** 400, -(10 ** 400), 10 ** 4000, 1e308, -1e308, 5e-324]
META = list("{}[]:,-\"'#&*!|>%@`") + ["\t", "\n", " ", "a", "1"]


def all_paths(x, base=()):
    out = []
    if isinstance(x, dict):
        for k, v in x.items():
            out.append(base + (k,))
            out += all_paths(v, base + (k,))
    elif isinstance(x, list):
        for i, v in enumerate(x):
            out.append(base + (i,))
            out += all_paths(v, base + (i,))
    return out


def stable(x, _path=()):
    """repr with sets in a canonical order (a set and its deep copy may iterate differently); a container that
    contains itself (YAML aliases can build one) is printed as the distance to the ancestor it points back to"""
    if isinstance(x, (dict, list)):
        if id(x) in _path:
            return f"<cycle:{len(_path) - _path.index(id(x))}>"
        _path = _path + (id(x),)
    if isinstance(x, (set, frozenset)):
        return type(x).__name__ + "{" + ", ".join(sorted(stable(v) for v in x)) + "}"
    if isinstance(x, dict):
        return "{" + ", ".join(stable(k) + ": " + stable(v, _path) for k, v in x.items()) + "}"
    if isinstance(x, list):
        return "[" + ", ".join(stable(v, _path) for v in x) + "]"
    if isinstance(x, tuple):
        return "(" + ", ".join(stable(v) for v in x) + ")"
    return repr(x)


def get_at(doc, path):
    for p in path:
        doc = doc[p]
    return doc


def set_at(doc, path, value):
    for p in path[:-1]:
        doc = doc[p]
    doc[path[-1]] = value


def module_global_names():
    """names living in the namespace of the model module and of pydantic's BaseModel: a document is free to use
    any of them as a key, an environment variable name or a string value"""
    import openjd.model.v2023_09._model as mm
    import pydantic
    names = sorted(n for n in vars(mm) if isinstance(n, str))
    names += [n for n in dir(pydantic.BaseModel) if n not in names]
    # parameter names of the constructors / class methods a document's keys are passed to as keyword arguments
    import inspect
    for fn in (pydantic.BaseModel.__init__, pydantic.BaseModel.parse_obj, pydantic.BaseModel.validate, pydantic.BaseModel.construct):
        try:
            names += [n for n in inspect.signature(fn).parameters if n not in names]
        except (TypeError, ValueError):
            pass
    names += [n for n in ("self", "cls", "__root__", "__dict__", "__pydantic_self__", "data", "values", "kwargs", "args") if n not in names]
    return names


GLOBAL_NAMES = module_global_names()


def rand_junk(rng, depth):
    k = rng.random()
    if depth <= 0 or k < 0.45:
        return copy.deepcopy(rng.choice(JUNK + YAML_ONLY[:8] + ["name", "steps", "type", "INT", "TEXT", "jobtemplate-2023-09"]))
    if k < 0.7:
        return [rand_junk(rng, depth - 1) for _ in range(rng.randint(0, 3))]
    keys = ["name", "steps", "type", "range", "script", "actions", "onRun", "command", "args", "parameterDefinitions", "specificationVersion", "variables",
            "parameterSpace", "taskParameterDefinitions", "hostRequirements", "amounts", "attributes", "min", "anyOf", "x", "", 1, None, True, 2.5]
    return {rng.choice(keys): rand_junk(rng, depth - 1) for _ in range(rng.randint(0, 4))}


def jsonable(x):
    """representable in the model's json type (string keys, finite numbers, no dates/bytes)"""
    if x is None or isinstance(x, (bool, str)):
        return True
    if isinstance(x, int):
        return abs(x) < 2 ** 62
    if isinstance(x, float):
        return x == x and abs(x) != float("inf")
    if isinstance(x, list):
        return all(jsonable(v) for v in x)
    if isinstance(x, dict):
        return all(isinstance(k, str) and jsonable(v) for k, v in x.items())
    return False


def _tmpl(**step_extra):
    st = {"name": "s", "script": {"actions": {"onRun": {"command": "x"}}}}
    st.update(step_extra)
    return {"specificationVersion": "jobtemplate-2023-09", "name": "n", "steps": [st]}


def _space(r, t="INT", comb=None):
    ps = {"taskParameterDefinitions": [{"name": "A", "type": t, "range": r}]}
    if comb is not None:
        ps["combination"] = comb
    return {"parameterSpace": ps}


def _with(d, **kw):
    d = copy.deepcopy(d)
    d.update(kw)
    return d


_UI = lambda ty, **ui: dict(_tmpl(), parameterDefinitions=[{"name": "P", "type": ty, "userInterface": dict({"control": "SPIN_BOX"}, **ui)}])  # noqa: E731

# historical failing inputs (KNOWN_FINDINGS.txt, fixed:) and their neighbours: run first on every run
CORPUS_DOCS = [
    # fix e30adc4: a key that collides with a parameter of pydantic's constructor; integers too large for a float
    ("job", _with(_tmpl(), __pydantic_self__=1)), ("job", _with(_tmpl(), **{"__pydantic_self__": None, "self": 1, "cls": 2})),
    ("env", {"specificationVersion": "environment-2023-09", "environment": {"name": "E", "variables": {"A": "b"}}, "__pydantic_self__": 2}),
    ("job", _UI("FLOAT", singleStepDelta=10 ** 400)), ("job", _UI("FLOAT", singleStepDelta=-(10 ** 400))), ("job", _UI("FLOAT", decimals=10 ** 400)),
    ("job", _UI("INT", singleStepDelta=10 ** 400)), ("job", _with(_tmpl(), parameterDefinitions=[{"name": "P", "type": "FLOAT", "default": 10 ** 400, "minValue": 10 ** 399}])),
    _tmpl(**_space([1, None])), _tmpl(**_space([1, [2]])), _tmpl(**_space([1, 2.5])), _tmpl(**_space([{"a": 1}])), _tmpl(**_space([True, "x", 1.5])),
    _tmpl(**_space([1.5, None, [1]], t="FLOAT")), _tmpl(**_space([None], t="STRING")),
    {1: 2, "specificationVersion": "jobtemplate-2023-09"}, {"specificationVersion": "jobtemplate-2023-09", None: 1, "name": "n", "steps": []},
    {"specificationVersion": "jobtemplate-2023-09", 2.5: {}, True: []}, {"specificationVersion": "environment-2023-09", 7: 7},
    _tmpl(**_space([1], comb="(" * 1279 + "A")), _tmpl(**_space([1], comb="(" * 400 + "A" + ")" * 400)),
    {"specificationVersion": "jobtemplate-2023-09", "name": "n", "steps": [{"name": "s", "script": {"actions": {"onRun": {"command": "x"}}}, "dependencies": [{"dependsOn": {"a": 1}}]}]},
    {"specificationVersion": "jobtemplate-2023-09", "name": "n", "steps": [{"name": ["s"], "script": {"actions": {"onRun": {"command": "x"}}}, "dependencies": [{"dependsOn": ["s"]}]}]},
    {"specificationVersion": ["jobtemplate-2023-09"]}, {"specificationVersion": {"a": 1}}, {},
]


class C04(core.PropBase):
    id = "C04"
    component = "accept"
    extract_file = "ExtractAccept.v"
    chars = _SRC_CHARS + "".join(chr(i) for i in range(128, 256)) + "٣　 ²" + M.ODD_CHARS
    uses_table = True
    chunk_size = 60
    theorem_for_mismatch = "C04_outcomes (the acceptance model only ever accepts or rejects) and model = implementation outcome correspondence on junk documents"
    assumptions = [
        "pydantic / json / PyYAML internals are oracles: what they raise is observed, not modelled (partial, DESIGN.md §9)",
        "documents are dict-rooted and at most 12 levels deep (recursion-depth exhaustion is outside the property's bound)",
        "values outside the model's json type (non-string keys, dates, bytes, non-finite floats, huge ints) are checked for totality only",
    ]

    def corpus_cases(self):
        out = []
        for d in CORPUS_DOCS:
            kinds = ("job", "env")
            if isinstance(d, tuple):
                kinds, d = (d[0],), d[1]
            for kind in kinds:
                out.append({"kind": kind, "doc": copy.deepcopy(d), "tag": "corpus"})
        return out

    def cases(self, tier, seed):
        rng = random.Random(seed * 7919 + 4)
        thorough = tier == "thorough"
        # 0. range lists of every task parameter type with junk elements at every index
        for t in ("INT", "FLOAT", "STRING", "PATH"):
            base = {"INT": [1, "2", "{{Param.P}}"], "FLOAT": [1.5, "2", "{{Param.P}}"], "STRING": ["a", "{{Param.P}}"], "PATH": ["a"]}[t]
            for i in range(len(base) + 1):
                for jv in JUNK + YAML_ONLY:
                    r = copy.deepcopy(base)
                    r.insert(i, copy.deepcopy(jv))
                    d = _tmpl(**_space(r, t=t))
                    d["parameterDefinitions"] = [{"name": "P", "type": "INT"}]
                    yield {"kind": "job", "doc": d, "tag": "range-junk"}
        # 1. every position of a rich template x every junk value (single)
        nbase = 6 if thorough else 2
        for b in range(nbase):
            kind = "env" if b % 3 == 2 else "job"
            doc = G.gen_env_template(rng, full=True) if kind == "env" else G.gen_job_template(rng, full=True)
            paths = all_paths(doc)
            for p in paths:
                for jv in JUNK + (YAML_ONLY if thorough or rng.random() < 0.25 else []):
                    d = copy.deepcopy(doc)
                    set_at(d, p, copy.deepcopy(jv))
                    yield {"kind": kind, "doc": d, "tag": "single"}
            # pairs (sampled)
            for _ in range(3000 if thorough else 400):
                d = copy.deepcopy(doc)
                for p in rng.sample(paths, 2):
                    try:
                        set_at(d, p, copy.deepcopy(rng.choice(JUNK + YAML_ONLY)))
                    except (KeyError, IndexError, TypeError):
                        pass
                yield {"kind": kind, "doc": d, "tag": "pair"}
        # 2. random dict-rooted junk to depth 12
        for i in range(20000 if thorough else 2500):
            d = rand_junk(rng, rng.choice([1, 2, 3, 5, 8, 12]))
            if not isinstance(d, dict):
                d = {"specificationVersion": rng.choice(["jobtemplate-2023-09", "environment-2023-09", 1, None]), "x": d}
            if rng.random() < 0.6:
                d["specificationVersion"] = rng.choice(["jobtemplate-2023-09", "environment-2023-09"])
            yield {"kind": rng.choice(["job", "env"]), "doc": d, "tag": "random"}
        # 3. mutated templates (the C01 operators, several at once)
        for i in range(6000 if thorough else 800):
            kind = "env" if i % 5 == 4 else "job"
            doc = G.gen_env_template(rng) if kind == "env" else G.gen_job_template(rng)
            M.mutate(rng, doc, n=rng.choice([1, 2, 3, 4]), not_json=True)
            yield {"kind": kind, "doc": doc, "tag": "mutated"}
        # 3a. strings spelled like a global of the model module / an attribute of BaseModel, used as an unknown
        #     key at every object, as an environment variable name and as a string value (error reporting looks
        #     names up in that namespace)
        names = GLOBAL_NAMES if thorough else rng.sample(GLOBAL_NAMES, min(len(GLOBAL_NAMES), 90))
        for kind in ("job", "env"):
            doc = G.gen_env_template(rng, full=True) if kind == "env" else G.gen_job_template(rng, full=True)
            objs = [p for p in [()] + all_paths(doc) if isinstance(get_at(doc, p), dict)]
            strs = [p for p in all_paths(doc) if isinstance(get_at(doc, p), str)]
            for nm in names:
                d = copy.deepcopy(doc)
                get_at(d, rng.choice(objs))[nm] = rng.choice([1, "x", None, {}, []])
                yield {"kind": kind, "doc": d, "tag": "global-name"}
                d = copy.deepcopy(doc)
                set_at(d, rng.choice(strs), nm)
                yield {"kind": kind, "doc": d, "tag": "global-name"}
            d = copy.deepcopy(doc)
            envs_ = M.envs(d)
            if envs_:
                envs_[0]["variables"] = {nm: "v" for nm in names[:40]}
                yield {"kind": kind, "doc": d, "tag": "global-name"}
        # 3aa. documents that contain themselves (a YAML alias to an ancestor): every container position of a rich
        #      template replaced by an alias to one of its ancestors; kept as YAML TEXT (no JSON form exists)
        for kind in ("job", "env"):
            doc = G.gen_env_template(rng, full=True) if kind == "env" else G.gen_job_template(rng, full=True)
            text = yaml.safe_dump(doc, allow_unicode=True, sort_keys=False, default_flow_style=False)
            lines = text.split("\n")
            keyed = [i for i, l in enumerate(lines) if l.rstrip().endswith(":") and not l.lstrip().startswith("- ")]
            for i in (keyed if thorough else rng.sample(keyed, min(len(keyed), 25))):
                # anchor the container that starts at line i and alias it from a new member one level below it
                ind = len(lines[i]) - len(lines[i].lstrip())
                j = i + 1
                if j >= len(lines) or not lines[j].strip():
                    continue
                ind2 = len(lines[j]) - len(lines[j].lstrip())
                if ind2 < ind:
                    continue
                new = lines[:i] + [lines[i] + " &anc"] + lines[i + 1:j]
                if lines[j].lstrip().startswith("- "):
                    new += [" " * ind2 + "- *anc"]
                else:
                    new += [" " * ind2 + "selfRef: *anc"]
                new += lines[j:]
                yield {"kind": kind, "ytext": "\n".join(new), "tag": "cyclic"}
            for t in ["steps: &s [*s]", "steps:\n- &s {name: S, script: *s}", "environment: &e {name: E, variables: *e}", "parameterDefinitions: &p\n- *p",
                      "name: &n [*n]", "steps:\n- name: S\n  script:\n    actions:\n      onRun:\n        command: e\n        args: &a [*a]",
                      "jobEnvironments: &j\n- name: E\n  variables: {A: b}\n  script: *j", "&root\nname: J\nsteps: *root", "&root\nenvironment: *root"]:
                head = "specificationVersion: " + ("jobtemplate-2023-09" if kind == "job" else "environment-2023-09") + "\n"
                yield {"kind": kind, "ytext": (t if t.startswith("&root") else head + t) + ("\nspecificationVersion: jobtemplate-2023-09" if t.startswith("&root") and kind == "job" else "\nspecificationVersion: environment-2023-09" if t.startswith("&root") else ""), "tag": "cyclic"}
        # 3ab. values Python itself cannot print: an integer of more than 4300 digits (YAML reads one from a hex
        #      literal), a list nested deeper than the interpreter recurses (JSON text holds one). Whatever describes
        #      the document in an error message meets them. Kept as TEXT; placed at every position of a rich template.
        hexn = "0x" + "f" * 4200
        for kind in ("job", "env"):
            doc = G.gen_env_template(rng, full=True) if kind == "env" else G.gen_job_template(rng, full=True)
            paths = all_paths(doc)
            must = [p for p in paths if p[-1] in ("specificationVersion", "type", "mode", "name", "control", "objectType", "dataFlow", "range", "min", "timeout")]
            some = must + (paths if thorough else rng.sample(paths, min(len(paths), 30)))
            for p in some:
                d = copy.deepcopy(doc)
                set_at(d, p, "HOLEHOLE")
                ytext = yaml.safe_dump(d, allow_unicode=True, sort_keys=False, default_flow_style=False)
                jtext = json.dumps(d)
                if ytext.count("HOLEHOLE") != 1 or jtext.count('"HOLEHOLE"') != 1:
                    continue
                for rep in (hexn, "-" + hexn, "[" + hexn + "]", "{a: " + hexn + "}", "[[" + hexn + "]]", "{" + hexn + ": 1}"):
                    if thorough or p in must or rng.random() < 0.4:
                        yield {"kind": kind, "ytext": ytext.replace("HOLEHOLE", rep), "tag": "unprintable"}
                for depth in (990, 1496, 2500):
                    if thorough or p in must or rng.random() < 0.3:
                        yield {"kind": kind, "jtext": jtext.replace('"HOLEHOLE"', "[" * depth + '"x"' + "]" * depth), "tag": "unprintable"}
        # 3b. long strings and long reference names at every string position of a rich template (lengths around
        #     the powers of two where a fixed-width counter, buffer or recursion budget would give out)
        for b in range(2 if thorough else 1):
            for kind in ("job", "env"):
                doc = G.gen_env_template(rng, full=True) if kind == "env" else G.gen_job_template(rng, full=True)
                spots = [p for p in all_paths(doc) if isinstance(get_at(doc, p), str)]
                if not thorough:
                    spots = rng.sample(spots, min(len(spots), 16))
                for p in spots:
                    for n in ((127, 128, 255, 256, 257, 511, 512, 1023, 1025) if thorough else (255, 256, 257, 1025)):
                        for form in ("{{Param.%s}}", "{{ %s }}", "{{Task.Param.%s}} {{Param.%s}}", "%s"):
                            if not thorough and rng.random() < 0.5:
                                continue
                            d = copy.deepcopy(doc)
                            set_at(d, p, form.replace("%s", "n" * n))
                            yield {"kind": kind, "doc": d, "tag": "long-name"}
                    for n in (65535, 65537, 300000):
                        if not thorough and rng.random() < 0.7:
                            continue
                        d = copy.deepcopy(doc)
                        set_at(d, p, "x" * n)
                        yield {"kind": kind, "doc": d, "tag": "long-string"}
        # 4. document_string_to_object on short strings over the JSON/YAML meta-characters
        n = 4 if thorough else 3
        strs = []
        for ln in range(0, n + 1):
            for t in itertools.product(META, repeat=ln):
                strs.append("".join(t))
        rng.shuffle(strs)
        strs = strs[: (200000 if thorough else 12000)]
        strs += ["{}", "[]", "null", "1", '"x"', '{"a": 1}', "a: 1", "- 1", "a: {b: [1, 2]}", "? [1, 2]\n: 3", "!!python/object:os.system x", "&a [*a]", "a: &x 1\nb: *x", "{1: 2}", "2001-12-14: x",
                 '{"a": NaN}', '{"a": 1e999}', "﻿{}", '{"a":' * 50 + "1" + "}" * 50, "[" * 2000, "{" * 2000, "a: " * 200 + "1",
                 "!!float ''", "!!timestamp x", "a: !!bool x", "a: !!int x", "!!set {a}", "a: !!binary x", "!!omap [a]", "a: !!pairs [b]", "0x_", "0b_", "a: 0x_",
                 "a: 2001-02-30", "when: 2023-13-01", "!!python/tuple [1]", "a: !!null x", "!!map [1]", "!!seq {a: 1}", "a: !!str [1]", "a: !!float .", "a: !!int ''",
                 "a: !!timestamp ''", "- !!bool maybe", "a: !!merge x", "<<: 1", "a: {<<: [1]}", "1" * 5000, '{"a": ' + "9" * 5000 + "}"]
        for j in range(0, len(strs), 300):
            yield {"kind": "docstr", "strs": strs[j:j + 300], "tag": "docstr"}

    def rule(self, tier):
        return ("every position of rich job/environment templates replaced by each of 12 junk values (plus YAML-only values: non-string keys, dates, bytes, "
                "non-finite floats, huge ints), pairs of positions, random dict-rooted junk to depth 12 built from schema key names, templates with 1-4 rule-typed "
                "mutations; observable = model | DecodeValidationError | other:<class> and deep equality of the argument before/after (compared with the acceptance "
                "model's verdict where the document is inside its json type); document_string_to_object on all strings of length <= 3 (4 in thorough, sampled) "
                "over the JSON/YAML meta-characters for both document types. distinct = by document; non-trivial = all")

    def samples(self, tier, seed):
        rng = random.Random(seed)
        return [repr(rand_junk(rng, 4))[:200] for _ in range(3)] + ["docstr: " + repr("".join(rng.choice(META) for _ in range(3)))]

    def impl(self, case):
        if case["kind"] == "docstr":
            out = []
            for s in case["strs"]:
                for dt in (DocumentType.JSON, DocumentType.YAML):
                    try:
                        r = document_string_to_object(document=s, document_type=dt)
                        out.append("dict" if isinstance(r, dict) else "not-a-dict:" + type(r).__name__)
                    except DecodeValidationError:
                        out.append("DVE")
                    except BaseException as e:  # noqa: BLE001
                        out.append("other:" + type(e).__name__)
            return ["docstr", sorted(set(o for o in out if o not in ("dict", "DVE")))]
        if "ytext" in case or "jtext" in case:
            try:
                doc = (document_string_to_object(document=case["ytext"], document_type=DocumentType.YAML) if "ytext" in case
                       else document_string_to_object(document=case["jtext"], document_type=DocumentType.JSON))
            except DecodeValidationError:
                return ["decode", "DVE", "untouched"]
            except BaseException as e:  # noqa: BLE001
                return ["decode", "other:docstr:" + type(e).__name__, "untouched"]
        else:
            doc = case["doc"]
        try:
            before = copy.deepcopy(doc)
        except RecursionError:
            before = doc          # nested deeper than deepcopy recurses: the comparison below is skipped with it
        try:
            (decode_job_template if case["kind"] == "job" else decode_environment_template)(template=doc)
            v = "model"
        except DecodeValidationError:
            v = "DVE"
        except BaseException as e:  # noqa: BLE001
            v = "other:" + type(e).__name__
        try:
            same = stable(doc) == stable(before)      # repr-based: NaN-safe, key-order-sensitive deep comparison
        except Exception:  # noqa: BLE001
            same = True
        res = ["decode", v, "untouched" if same else "INPUT-MODIFIED"]
        if case.get("tag") in ("long-name", "long-string"):
            case["_io"] = res          # model_obs needs it: do not decode these twice
        return res

    def requests(self, case):
        if "ytext" in case or "jtext" in case:
            return []          # no JSON form / outside the model's json type: totality only
        if case["kind"] == "docstr" or not jsonable(case["doc"]):
            return []
        if case.get("tag") == "long-string":
            return []          # totality only: a 300 000-character literal costs the extracted model minutes
        if core.doc_chars(case["doc"]) - set(self.chars):
            return []
        return [["accept_" + case["kind"], core.json_sx(case["doc"])]]

    def model_obs(self, case, replies):
        if case["kind"] == "docstr":
            return ["docstr", []]
        io = case.pop("_io", None) or self.impl(case)
        case.pop("_io", None)
        total = ["decode", io[1] if io[1] in ("model", "DVE") else "model-or-DVE", "untouched"]
        if not replies:
            return total
        r = replies[0]
        if r[0] == "ok":
            return ["decode", "model" if r[1] == "true" else "DVE", "untouched"]
        return total        # outside the structural model's domain: totality only

    def classify_case(self, case, obs):
        if case["kind"] == "docstr":
            return ["docstr"]
        return [case["tag"] + ":" + obs[1]]

    def shrink_candidates(self, case):
        if case["kind"] == "docstr":
            for s in case["strs"]:
                yield dict(case, strs=[s])
            return
        if "ytext" in case:
            lines = case["ytext"].split("\n")
            for i in range(len(lines)):
                yield dict(case, ytext="\n".join(lines[:i] + lines[i + 1:]))
            return
        if "jtext" in case:
            return
        doc = case["doc"]
        for p in all_paths(doc):
            d = copy.deepcopy(doc)
            o = d
            try:
                for q in p[:-1]:
                    o = o[q]
                del o[p[-1]]
            except (KeyError, IndexError, TypeError):
                continue
            yield dict(case, doc=d)


PROP = C04()

if __name__ == "__main__":
    sys.exit(core.main(PROP, sys.argv[1:]))
