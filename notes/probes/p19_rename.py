# C19 probe (renaming): consistent, injective, length-preserving renaming of parameters, steps, environments, files.
import copy, json, re, random
from pathlib import Path
from openjd.model import decode_job_template, preprocess_job_parameters, create_job, DecodeValidationError
from openjd.model._parse import model_to_object
src = open("/verif/notes/probes/p05_p17_p19_job.py").read().split("FS = re.compile")[0]
ns = {}; exec(src, ns)
doc = ns["template"]()
text = json.dumps(doc).replace('"name": "f"', '"name": "ef1"').replace("Env.File.f}}", "Env.File.ef1}}")
NAMES = ["Ps", "Pi", "Pf", "Pp", "JE1", "SE1", "Ti", "Tr", "Tf", "Ts", "Tp", "S1", "S2", "ef1", "tf1"]
def fresh(n, rnd):
    return "".join(rnd.choice("QWXZ9kq") if i else rnd.choice("QWXZkq") for i in range(len(n)))
def rename(t, rho):
    return re.sub(r"\b(" + "|".join(map(re.escape, rho)) + r")\b", lambda m: rho[m.group(1)], t)
def outcome(t, vals):
    d = json.loads(t)
    try: jt = decode_job_template(template=d)
    except DecodeValidationError as e: return ("rejected", len(str(e).split("\n")))
    pv = preprocess_job_parameters(job_template=jt, job_parameter_values=vals, job_template_dir=Path("/t"), current_working_dir=Path("/c"))
    return ("job", json.dumps(model_to_object(model=create_job(job_template=jt, job_parameter_values=pv)), sort_keys=True, default=lambda o: getattr(o, "value", str(o))))
rnd = random.Random(4); bad = 0; n = 0
variants = [text,
            text.replace("{{Task.Param.Ti}}", "{{Task.Param.U}} {{Param.Pp}}"),         # invalid: unknown + PATH at... (step script: Pp visible) -> 1 error
            text.replace('"dependsOn": "S1"', '"dependsOn": "S2"'),                      # self dependency
            text.replace('"(Ti, Tf, Ts, Tp) * Tr"', '"(Ti, Tf, Ts, Tp) * Ti"')]          # duplicate/missing id
for t in variants:
    base = outcome(t, {"Ps": "ab"})
    for _ in range(40):
        while True:
            rho = {nm: fresh(nm, rnd) for nm in NAMES}
            if len(set(rho.values())) == len(NAMES) and not (set(rho.values()) & set(NAMES)): break
        n += 1
        got = outcome(rename(t, rho), {rho["Ps"]: "ab"})
        if got[0] != base[0]: bad += 1; print("VERDICT CHANGED", rho, base[0], got[0]); continue
        if base[0] == "job":
            if json.loads(got[1]) != json.loads(rename(base[1], rho)): bad += 1; print("JOB DIFFERS under renaming")
        elif got[1] != base[1]: bad += 1; print("ERROR COUNT CHANGED", base[1], got[1])
print("renamings", n, "bad", bad, [outcome(t, {"Ps": "ab"})[0] for t in variants])
