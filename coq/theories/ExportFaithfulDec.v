(* ExportFaithfulDec.v — C17 "faithful": [jequiv] (ExportFaithful.v) is decidable.  [jequivb] (defined there) is the
   function [equiv] of harness/c17.py transcribed (mappings by key set with null members left out, lists
   pointwise, scalars by value / numeric reading / str(bool)); it is extracted (extract/ExtractFaithful.v) and
   can be run by the harness.

     jequivb_sound      jequivb a b = true -> jequiv a b                              (all documents)
     jequivb_complete   jequiv a b -> jequivb a b = true    when the member names of a and b are distinct at
                        every level ([keys_ok]: what a parsed JSON / YAML mapping is)
     jequivb_false      jequivb a b = false -> ~ jequiv a b                           (same side condition)
   Without distinct member names the relation reads a mapping through its FIRST member of a name and says
   nothing about later ones; the function looks at every member. *)
From Coq Require Import List NArith ZArith Bool String Lia.
Import ListNotations.
Require Import OJD.Base OJD.Json OJD.Numerals OJD.Validators OJD.DeepKeyOrder
               OJD.ExportFaithful OJD.ExportFaithfulNum.
Local Open Scope list_scope.

(* ------------------------------------------------------------------ scalars *)

Lemma str_eqb_eq' : forall a b, str_eqb a b = true -> a = b.
Proof.
  induction a as [|x a IH]; intros [|y b] H; try discriminate; [reflexivity|].
  cbn [str_eqb] in H. apply andb_true_iff in H. destruct H as [H1 H2].
  apply N.eqb_eq in H1. subst y. f_equal. apply IH. exact H2.
Qed.

Lemma str_eqb_refl' : forall a, str_eqb a a = true.
Proof. induction a as [|x a IH]; [reflexivity|]. cbn [str_eqb]. rewrite N.eqb_refl. exact IH. Qed.

Lemma num_equivb_true : forall a b, num_equivb a b = true ->
  exists x y, as_num a = Some x /\ as_num b = Some y /\ num_eqb x y = true.
Proof.
  intros a b H. unfold num_equivb in H. destruct (as_num a) as [x|]; [|discriminate].
  destruct (as_num b) as [y|]; [|discriminate]. exists x, y. repeat split. exact H.
Qed.

Lemma num_equivb_intro : forall a b x y,
  as_num a = Some x -> as_num b = Some y -> num_eqb x y = true -> num_equivb a b = true.
Proof. intros a b x y Ha Hb H. unfold num_equivb. rewrite Ha, Hb. exact H. Qed.

Lemma je_of_num : forall a b, num_equivb a b = true -> bool_vs_str a b = false -> jequiv a b.
Proof.
  intros a b H Hb. destruct (num_equivb_true _ _ H) as [x [y [Ha [Hy Hxy]]]]. eapply JE_num; eassumption.
Qed.

Lemma scalar_equivb_sound : forall a b, scalar_equivb a b = true -> jequiv a b.
Proof.
  intros a b H.
  destruct a as [|x|z|m e|s|l|ms]; destruct b as [|y|z'|m' e'|t|l'|ms']; cbn [scalar_equivb] in H;
    try (apply je_of_num; [exact H|reflexivity]).
  - apply JE_null.
  - apply str_eqb_eq' in H. subst t. apply JE_bool_str.
  - apply str_eqb_eq' in H. subst s. apply JE_str_bool.
  - apply orb_true_iff in H. destruct H as [H|H].
    + apply str_eqb_eq' in H. subst t. apply JE_str.
    + apply je_of_num; [exact H|reflexivity].
Qed.

Definition is_container (j : json) : bool := match j with JArr _ | JObj _ => true | _ => false end.

Lemma scalar_equivb_complete : forall a b, is_container a = false -> jequiv a b -> scalar_equivb a b = true.
Proof.
  intros a b Hc H.
  inversion H as [|x|s|x|x|a0 b0 p q Ha Hb Hpq Hbs E1 E2|l l' HF|ms ms' H1 H2]; subst; try discriminate Hc.
  - reflexivity.
  - cbn [scalar_equivb]. eapply num_equivb_intro; [reflexivity|reflexivity|apply num_eqb_refl].
  - cbn [scalar_equivb]. rewrite str_eqb_refl'. reflexivity.
  - cbn [scalar_equivb]. apply str_eqb_refl'.
  - cbn [scalar_equivb]. apply str_eqb_refl'.
  - pose proof (num_equivb_intro _ _ _ _ Ha Hb Hpq) as Hn.
    destruct a as [|x|z|m e|s|l|ms]; destruct b as [|y|z'|m' e'|t|l'|ms']; cbn [scalar_equivb];
      try exact Hn; try discriminate Hbs; try discriminate Ha; try discriminate Hb.
    rewrite Hn. apply orb_true_r.
Qed.

(* ------------------------------------------------------------------ lookups *)

Lemma jlook_some_inv : forall k ms v, jlook k ms = Some v -> assoc k ms = Some v /\ is_null v = false.
Proof.
  intros k ms v H. unfold jlook in H. destruct (assoc k ms) as [w|]; [|discriminate].
  destruct w; inversion H; subst; split; reflexivity.
Qed.

Lemma jlook_of_assoc : forall k ms v, assoc k ms = Some v -> is_null v = false -> jlook k ms = Some v.
Proof. intros k ms v H Hn. unfold jlook. rewrite H. destruct v; try reflexivity. discriminate Hn. Qed.

Lemma assoc_in_key' : forall (A : Type) k (l : list (str * A)) v, assoc k l = Some v -> In (k, v) l.
Proof.
  induction l as [|[k' v'] r IH]; intros v H; [discriminate|].
  cbn [assoc] in H. destruct (str_eqb k k') eqn:E.
  - inversion H. subst v'. apply str_eqb_eq' in E. subst k'. left. reflexivity.
  - right. apply IH. exact H.
Qed.

Lemma assoc_of_in : forall (A : Type) k (l : list (str * A)) v,
  NoDup (map fst l) -> In (k, v) l -> assoc k l = Some v.
Proof.
  induction l as [|[k' v'] r IH]; intros v Hnd Hin; [destruct Hin|].
  cbn [map fst] in Hnd. inversion Hnd as [|x xs Hnotin Hnd']. subst x xs.
  cbn [assoc]. destruct Hin as [Hin|Hin].
  - inversion Hin. subst k' v'. rewrite str_eqb_refl'. reflexivity.
  - destruct (str_eqb k k') eqn:E.
    + apply str_eqb_eq' in E. subst k'. exfalso. apply Hnotin.
      apply (in_map fst) in Hin. exact Hin.
    + apply IH; assumption.
Qed.

(* ------------------------------------------------------------------ soundness *)

Theorem jequivb_sound : forall a b, jequivb a b = true -> jequiv a b.
Proof.
  intros a. induction a as [|x|z|m e|s|l IH|ms IH] using json_ind2; intros b H;
    try (apply scalar_equivb_sound; exact H).
  - (* lists *)
    destruct b as [| | | | |l'|]; try (apply scalar_equivb_sound; exact H).
    cbn [jequivb] in H. apply JE_arr. revert l' H.
    induction IH as [|x l Hx _ IHl]; intros l' H.
    + destruct l'; [constructor|discriminate H].
    + destruct l' as [|y l']; [discriminate H|]. cbn [all2b] in H. apply andb_true_iff in H.
      destruct H as [H1 H2]. constructor; [apply Hx; exact H1|apply IHl; exact H2].
  - (* mappings *)
    destruct b as [| | | | | |ms']; try (apply scalar_equivb_sound; exact H).
    cbn [jequivb] in H. apply andb_true_iff in H. destruct H as [Hb Ha].
    rewrite forallb_forall in Hb, Ha. rewrite Forall_forall in IH.
    apply JE_obj.
    + intros k. split; intros Hk.
      * destruct (jlook k ms') as [v'|] eqn:E'; [|reflexivity]. exfalso.
        destruct (jlook_some_inv _ _ _ E') as [Ea' Hn']. apply assoc_in_key' in Ea'.
        specialize (Hb _ Ea'). cbn [fst snd] in Hb. rewrite Hn' in Hb. cbn [orb] in Hb.
        unfold live in Hb. rewrite Hk in Hb. discriminate Hb.
      * destruct (jlook k ms) as [v|] eqn:E; [|reflexivity]. exfalso.
        destruct (jlook_some_inv _ _ _ E) as [Ea Hn]. apply assoc_in_key' in Ea.
        specialize (Ha _ Ea). cbn [fst snd] in Ha. rewrite Hn in Ha. cbn [orb] in Ha.
        rewrite Hk in Ha. discriminate Ha.
    + intros k v v' Hv Hv'.
      destruct (jlook_some_inv _ _ _ Hv) as [Ea Hn]. apply assoc_in_key' in Ea.
      pose proof (Ha _ Ea) as Hkv. cbn [fst snd] in Hkv. rewrite Hn in Hkv. cbn [orb] in Hkv.
      rewrite Hv' in Hkv. apply (IH _ Ea). exact Hkv.
Qed.

(* ------------------------------------------------------------------ completeness *)

Lemma keys_ok_obj : forall ms, keys_ok (JObj ms) = true ->
  NoDup (map fst ms) /\ forall kv, In kv ms -> keys_ok (snd kv) = true.
Proof.
  intros ms H. cbn [keys_ok] in H. apply andb_true_iff in H. destruct H as [H1 H2].
  split; [apply nodupb_NoDup; exact H1|]. rewrite forallb_forall in H2. exact H2.
Qed.

Theorem jequivb_complete : forall a b,
  keys_ok a = true -> keys_ok b = true -> jequiv a b -> jequivb a b = true.
Proof.
  intros a. induction a as [|x|z|m e|s|l IH|ms IH] using json_ind2; intros b Ka Kb H;
    try (apply scalar_equivb_complete; [reflexivity|exact H]).
  - (* lists *)
    inversion H as [| | | | |a0 b0 p q Ha Hb Hpq Hbs E1 E2|l0 l' HF|]; subst; [discriminate Ha|].
    cbn [jequivb]. cbn [keys_ok] in Ka, Kb. clear H. revert Ka Kb.
    induction HF as [|x y l l' Hxy HF IHF]; intros Ka Kb; [reflexivity|].
    cbn [forallb] in Ka, Kb. apply andb_true_iff in Ka. apply andb_true_iff in Kb.
    destruct Ka as [Kx Kl]. destruct Kb as [Ky Kl'].
    inversion IH as [|x0 l0 Hx Hl]. subst x0 l0.
    cbn [all2b]. rewrite (Hx y Kx Ky Hxy). cbn [andb]. apply IHF; assumption.
  - (* mappings *)
    inversion H as [| | | | |a0 b0 p q Ha Hb Hpq Hbs E1 E2| |ms0 ms' H1 H2]; subst; [discriminate Ha|].
    destruct (keys_ok_obj _ Ka) as [Nd Kv]. destruct (keys_ok_obj _ Kb) as [Nd' Kv'].
    rewrite Forall_forall in IH.
    cbn [jequivb]. apply andb_true_iff. split; rewrite forallb_forall.
    + intros [k v'] Hin. cbn [fst snd]. destruct (is_null v') eqn:En; [reflexivity|]. cbn [orb].
      pose proof (jlook_of_assoc _ _ _ (assoc_of_in _ _ _ _ Nd' Hin) En) as Hl'.
      unfold live. destruct (jlook k ms) as [v|] eqn:El; [reflexivity|].
      apply H1 in El. rewrite El in Hl'. discriminate Hl'.
    + intros [k v] Hin. cbn [fst snd]. destruct (is_null v) eqn:En; [reflexivity|]. cbn [orb].
      pose proof (jlook_of_assoc _ _ _ (assoc_of_in _ _ _ _ Nd Hin) En) as Hl.
      destruct (jlook k ms') as [v'|] eqn:El'.
      * apply (IH _ Hin); [apply (Kv _ Hin)| |apply (H2 k); assumption].
        destruct (jlook_some_inv _ _ _ El') as [Ea' _]. apply assoc_in_key' in Ea'. apply (Kv' _ Ea').
      * apply H1 in El'. rewrite El' in Hl. discriminate Hl.
Qed.

Corollary jequivb_false : forall a b,
  keys_ok a = true -> keys_ok b = true -> jequivb a b = false -> ~ jequiv a b.
Proof.
  intros a b Ka Kb H Hj. rewrite (jequivb_complete _ _ Ka Kb Hj) in H. discriminate H.
Qed.

Corollary jequivb_iff : forall a b,
  keys_ok a = true -> keys_ok b = true -> (jequivb a b = true <-> jequiv a b).
Proof. intros a b Ka Kb. split; [apply jequivb_sound|apply jequivb_complete; assumption]. Qed.
