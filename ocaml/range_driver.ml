(* range_driver.ml — serves the extracted range-expression model (C08, C13). *)
open Sx
open Model
open Conv

let table : (int, cclass) Hashtbl.t = Hashtbl.create 64

let class_of_name = function
  | "space" -> CSpace | "namestart" -> CNameStart | "digit" -> CDigit | "udigit" -> CUDigit
  | "dot" -> CDot | "star" -> CStar | "lparen" -> CLParen | "rparen" -> CRParen
  | "comma" -> CComma | "hyphen" -> CHyphen | "colon" -> CColon | "other" -> COther
  | s -> failwith ("class " ^ s)

let classify (c : n) : cclass =
  let i = match c with N0 -> 0 | Npos p -> (match int_of_pos p with Some v -> v | None -> -1) in
  match Hashtbl.find_opt table i with
  | Some cl -> cl
  | None -> if i >= 0 && i < 128 then ascii_class c else COther

let sx_of_tok = function
  | TName s -> L [A "N"; sx_of_str s]
  | TDot -> A "D" | TStar -> A "S" | TLParen -> A "LP" | TRParen -> A "RP" | TComma -> A "M"
  | TPosInt v -> L [A "P"; sx_of_n v]
  | THyphen -> A "H" | TColon -> A "C"

let int_of_z = function
  | Z0 -> 0
  | Zpos p -> (match int_of_pos p with Some v -> v | None -> failwith "len too big")
  | Zneg p -> (match int_of_pos p with Some v -> - v | None -> failwith "len too big")

(* index list of a request: an explicit list, or the atom `auto` = -len-2 .. len+1 *)
let idx_of_sx (e : iexpr) = function
  | A "auto" -> let n = int_of_z (elen e) in List.init (2 * n + 4) (fun k -> z_of_int (k - n - 2))
  | x -> list_of_sx z_of_sx x

let describe pm (e : iexpr) (idx : z list) : Sx.t =
  let toks = expr_tokens e in
  let re = match parse_tokens pm false toks with
    | Ok e' -> L [A "ok"; sx_of_list sx_of_z (elems e')]
    | Raise x -> L [A "raise"; A (exn_name x)] in
  L [ sx_of_list sx_of_z (elems e);
      sx_of_z (elen e);
      sx_of_list (fun i -> sx_of_outcome sx_of_z (getitem e i)) idx;
      sx_of_list sx_of_tok toks;
      re ]

let handle (req : Sx.t) : Sx.t =
  match req with
  | L (A "table" :: entries) ->
    Hashtbl.reset table;
    List.iter (function L [A cp; A cl] -> Hashtbl.replace table (int_of_string cp) (class_of_name cl) | _ -> failwith "table") entries;
    L [A "table-ok"; sx_of_bool (ascii_ok classify)]
  | L [A "from_str"; pm; pt; s; idx] ->
    let pm = bool_of_sx pm and pt = bool_of_sx pt in
    (match from_str pm pt classify (str_of_sx s) with
     | Ok e -> L [A "ok"; describe pm e (idx_of_sx e idx)]
     | Raise x -> L [A "raise"; A (exn_name x)])
  | L [A "from_list"; pm; pf; vs; idx] ->
    let pm = bool_of_sx pm and pf = bool_of_sx pf in
    (match from_list pm pf (list_of_sx z_of_sx vs) with
     | Ok e -> L [A "ok"; describe pm e (idx_of_sx e idx)]
     | Raise x -> L [A "raise"; A (exn_name x)])
  | L [A "spec"; s] ->
    (match lex_for classify range_kinds (str_of_sx s) with
     | Raise x -> L [A "raise"; A (exn_name x)]
     | Ok ts -> (match spec_from_tokens ts with
                 | None -> A "none"
                 | Some l -> L [A "some"; sx_of_list sx_of_z l]))
  | _ -> failwith "unknown-request"

let () = serve handle
