(* PreprocessFullSpec.v — vocabulary of props/C10x.v: the statements of C10 / C11 / C12 read on the whole call
   preprocess_job_parameters(job_template=, job_parameter_values=, job_template_dir=, current_working_dir=,
                             allow_job_template_dir_walk_up=, environment_templates=)
   ("sat", "final", "no_extra", "no_missing", "path_defaults_ok", "all_sat" are JobParamsSpec's; "contained",
   "spec_supplied", "spec_server" PathsSpec's; "last_given_default" MergeSpec's). *)
From Coq Require Import List NArith ZArith Bool.
Import ListNotations.
Require Import OJD.Base OJD.Lexer OJD.Json OJD.Numerals OJD.CreateJob OJD.Accept OJD.JobParams OJD.JobParamsSpec OJD.Merge OJD.MergeSpec
               OJD.Paths OJD.PathsSpec OJD.PreprocessFull.

(* the documents are accepted by decode_job_template / decode_environment_template (the function is reached) *)
Definition accepted (classify : N -> cclass) (env_docs : list json) (doc : json) : Prop :=
  exists t envs, decode_job classify doc = Ok t /\ mapM (decode_env classify) env_docs = Ok envs.

(* the definitions named [k] among the source definitions (environment templates in order, job template last) *)
Definition group_of (k : str) (srcs : list pdef) : list pdef := filter (fun d => str_eqb (pname d) k) srcs.

(* [defs] are the merged definitions of the sources [srcs]: one per distinct name, each one the merge of ALL
   source definitions of its name, and no name is lost *)
Definition merged_from (srcs defs : list pdef) : Prop :=
  NoDup (map pname defs) /\
  (forall m, In m defs -> merge false (group_of (pname m) srcs) = Ok m) /\
  (forall d, In d srcs -> In (pname d) (map pname defs)).

(* "the template directory must be absolute" — unless walk-up is allowed or there is no definition at all *)
Definition dir_rule_ok (dir : str) (walkup : bool) (defs : list pdef) : Prop :=
  defs = [] \/ walkup = true \/ is_absolute dir = true.

(* the two PATH joins of a call *)
Definition path_in_of (m : pmode) (cwd : str) : str -> str := path_supplied (eff_cwd m cwd).
Definition path_default_of (m : pmode) (template_dir : str) (walk_up : bool) : str -> outcome str :=
  default_body (eff_dir m template_dir) (eff_walk m walk_up).
