(* UsableSpace.v — a job-side parameter space of the right shape, all of whose nodes are accepted by
   their own classes, is usable:  [space_shape] + [node_accepted] for every subnode  ==>  [usable_space].

   Ingredients: UsableParse.v (what acceptance of the StepParameterSpace node and of the range-expression
   nodes says), C13 (a parsed range expression has elen = number of values >= 1), C14 (a parsed
   combination is canonical; the accounting check = a permutation of the declared names), UsableTree.v
   (the constructor returns a C07-valid tree) and C07 (a valid tree iterates). *)
From Coq Require Import List NArith ZArith Bool String Lia Permutation.
Import ListNotations.
Require Import OJD.Base OJD.Lexer OJD.Json OJD.Schema OJD.Generated OJD.NumPrint OJD.CreateJob OJD.Validators
               OJD.RangeExpr OJD.RangeExprProofs OJD.Comb OJD.CombSpec OJD.CombProofs
               OJD.ParamSpace OJD.ParamSpaceSpec OJD.ParamSpaceProofs
               OJD.UsableGlue OJD.UsableSpec OJD.UsableTree OJD.UsableShape OJD.UsableParse.
Local Open Scope string_scope.
Local Open Scope list_scope.

Lemma mk_expr_elen_pos : forall rs e, mk_expr false rs = Ok e -> (0 < elen e)%Z.
Proof.
  intros rs e H. unfold mk_expr in H. destruct (sort_ranges rs) as [|f r]; [discriminate H|].
  destruct (merge_loop false [f] r) as [m|x]; cbn [bind] in H; [|discriminate H].
  destruct (last (cum_lengths 0 m) 0 <=? 0)%Z eqn:E; [discriminate H|].
  destruct (no_overlap m); [|discriminate H]. injection H as <-. cbn [elen]. lia.
Qed.

Lemma mapM_Forall2_ex : forall (A B : Type) (f : A -> outcome B) (R : A -> B -> Prop) l,
  (forall x, In x l -> exists y, f x = Ok y /\ R x y) ->
  exists ys, mapM f l = Ok ys /\ Forall2 R l ys.
Proof.
  intros A B f R. induction l as [|a l IH]; intros H.
  - exists []. split; [reflexivity|constructor].
  - destruct (H a (or_introl eq_refl)) as [y [Hy Ry]].
    destruct (IH (fun x Hx => H x (or_intror Hx))) as [ys [Hys HF]].
    exists (y :: ys). split; [cbn [mapM]; rewrite Hy; cbn [bind]; rewrite Hys; reflexivity|constructor; assumption].
Qed.

Section Space.
  Variable classify : N -> cclass.

  Lemma read_items_mstr : forall l, Forall is_mstr l -> read_items l = Ok (map mstr l).
  Proof.
    intros l H. unfold read_items. induction H as [|x l [s ->] _ IH]; [reflexivity|].
    cbn [mapM bind map mstr]. rewrite IH. reflexivity.
  Qed.

  (* a range string that the validator accepts: the glue expands it to elen >= 1 printed values *)
  Lemma read_range_expr : forall rs, range_expr_ok classify rs = true ->
    exists e, RangeExpr.from_str false false classify rs = Ok e /\ (elen e <? 2 ^ 63)%Z = true /\
              read_range classify (MStr rs) = Ok (map print_Z (elems e)) /\
              elems e <> [] /\ Z.to_N (elen e) = N.of_nat (List.length (map print_Z (elems e))).
  Proof.
    intros rs H. unfold range_expr_ok in H.
    destruct (RangeExpr.from_str false false classify rs) as [e|x] eqn:Ef; [|discriminate H].
    exists e. split; [reflexivity|]. split; [exact H|]. cbn [read_range]. rewrite Ef. cbn [bind]. rewrite H.
    split; [reflexivity|].
    assert (HI : IsExpr e).
    { unfold RangeExpr.from_str in Ef. destruct (lex_for classify range_kinds rs) as [ts|x]; cbn [bind] in Ef; [|discriminate Ef].
      exact (parse_tokens_IsExpr ts e Ef). }
    pose proof (RangeExprProofs.len_correct e HI) as Hlen.
    assert (Hpos : (0 < elen e)%Z) by (destruct HI as [rs0 [_ Hm]]; exact (mk_expr_elen_pos rs0 e Hm)).
    split.
    - intros E. rewrite E in Hlen. cbn [List.length] in Hlen. lia.
    - rewrite map_length, Hlen. lia.
  Qed.

  (* one entry of taskParameterDefinitions *)
  Definition param_rel (kv : str * mval) (p : param) : Prop :=
    pname p = fst kv /\ snd p <> [] /\ sps_entry classify kv = [(fst kv, N.of_nat (List.length (snd p)))].

  Lemma read_param_ok : forall kv,
    def_shape is_mstr (snd kv) -> node_accepted classify (snd kv) ->
    exists p, read_param classify kv = Ok p /\ param_rel kv p.
  Proof.
    intros [k d] Hd Ha. cbn [snd] in Hd, Ha. destruct Hd as [ty rs Hty|c ty items Hc Hty Hne Hit].
    - apply expr_def_node in Ha. destruct (read_range_expr rs Ha) as [e [Ef [Hlt [Hr [Hne Hl]]]]].
      destruct (pty_of_str ty) as [pt|] eqn:Ept; [|contradiction].
      exists (k, pt, map print_Z (elems e)). split.
      + unfold read_param. cbn [snd fst mfield lookup_s String.eqb Ascii.eqb Bool.eqb]. rewrite Ept, Hr. reflexivity.
      + unfold param_rel, pname. cbn [fst snd]. split; [reflexivity|]. split.
        * intros E. apply map_eq_nil in E. exact (Hne E).
        * unfold sps_entry. cbn [fget mfield lookup_s model_fields snd fst String.eqb Ascii.eqb Bool.eqb].
          rewrite Ef, Hlt, Hl. reflexivity.
    - destruct (pty_of_str ty) as [pt|] eqn:Ept; [|contradiction].
      exists (k, pt, map mstr items). split.
      + unfold read_param. cbn [snd fst mfield lookup_s String.eqb Ascii.eqb Bool.eqb]. rewrite Ept.
        cbn [read_range]. rewrite (read_items_mstr items Hit). reflexivity.
      + unfold param_rel, pname. cbn [fst snd]. split; [reflexivity|]. split.
        * intros E. apply map_eq_nil in E. exact (Hne E).
        * unfold sps_entry. cbn [fget mfield lookup_s model_fields snd fst String.eqb Ascii.eqb Bool.eqb].
          rewrite map_length. reflexivity.
  Qed.

  Lemma params_of_rel : forall kys ps, Forall2 param_rel kys ps ->
    map pname ps = map fst kys /\
    (forall p, In p ps -> snd p <> []) /\
    Forall2 (fun a p => fst a = pname p /\ snd a = N.of_nat (List.length (snd p))) (flat_map (sps_entry classify) kys) ps.
  Proof.
    intros kys ps H. induction H as [|kv p kys ps [Hn [Hne He]] _ [IH1 [IH2 IH3]]].
    - split; [reflexivity|]. split; [intros p []|constructor].
    - split; [cbn [map]; rewrite Hn, IH1; reflexivity|]. split.
      + intros q [<-|Hq]; [exact Hne|exact (IH2 q Hq)].
      + cbn [flat_map]. rewrite He. cbn [app]. constructor; [|exact IH3]. cbn [fst snd]. split; [symmetry; exact Hn|reflexivity].
  Qed.

  Theorem shape_usable : forall psn,
    space_shape classify is_mstr psn ->
    (forall w, subnode psn w -> node_accepted classify w) ->
    usable_space classify psn.
  Proof.
    intros psn [kys [cb [-> [Hne [Hnd [HD Hcb]]]]]] Hacc.
    set (psn := MModel "StepParameterSpace" [("taskParameterDefinitions", MDict kys); ("combination", cb)]) in *.
    (* the definitions *)
    destruct (mapM_Forall2_ex _ _ (read_param classify) param_rel kys) as [ps [Hps HF]].
    { intros kv Hkv. rewrite Forall_forall in HD. apply read_param_ok; [exact (HD kv Hkv)|].
      apply Hacc. unfold psn.
      apply (Sub_model _ _ ("taskParameterDefinitions", MDict kys)); [left; reflexivity|].
      cbn [snd]. apply (Sub_dict _ kv); [exact Hkv|apply Sub_refl]. }
    destruct (params_of_rel kys ps HF) as [Hnames [Hvals Hal]].
    assert (Hpne : ps <> []).
    { intros ->. inversion HF. subst kys. apply Hne. reflexivity. }
    assert (Hpnd : NoDup (map pname ps)) by (rewrite Hnames; exact Hnd).
    (* the combination *)
    assert (Hcomb : exists comb : option Comb.ctree,
               read_comb classify cb = Ok (option_map conv comb) /\
               forall c, comb = Some c ->
                 Canonical c /\ Permutation (collect_ids c) (map pname ps) /\
                 exists n, dims (lookup_len (flat_map (sps_entry classify) kys)) c = Ok n).
    { destruct Hcb as [Ecb|[s [ct [Ecb [Hparse Hacct]]]]].
      - exists None. rewrite Ecb. split; [reflexivity|]. intros c E. discriminate E.
      - exists (Some ct). rewrite Ecb. cbn [read_comb]. rewrite Hparse. split; [reflexivity|].
        intros c E. injection E as <-.
        assert (Hp : exists ts, Comb.parse ts = Ok ct).
        { unfold Comb.parse_str in Hparse. destruct (lex_for classify comb_kinds s) as [ts|x]; cbn [bind] in Hparse; [|discriminate Hparse].
          exists ts. exact Hparse. }
        destruct Hp as [ts Hts]. split; [exact (proj1 (parse_print_parse ts ct Hts))|]. split.
        + rewrite Hnames. apply (accounting_permutation (map fst kys) (collect_ids ct) Hnd). exact Hacct.
        + assert (Ha : node_accepted classify psn) by (apply Hacc; apply Sub_refl).
          unfold psn in Ha. rewrite Ecb in Ha. destruct (space_node classify kys s HD Ha) as [n Hn].
          unfold dims_str in Hn. rewrite Hparse in Hn. cbn [bind] in Hn. exists n. exact Hn. }
    destruct Hcomb as [comb [Hrc Hc]].
    destruct (space_built ps comb (flat_map (sps_entry classify) kys) Hpne Hpnd Hvals Hal Hc) as [t [Hinit Hv]].
    exists (Some (ps, option_map conv comb)), (TopNode t). split.
    - unfold psn. cbn [read_space mfield lookup_s String.eqb Ascii.eqb Bool.eqb]. rewrite Hps. cbn [bind].
      rewrite Hrc. reflexivity.
    - split; [exact Hinit|]. split; [exact Hv|]. apply ok_iterates. exact Hv.
  Qed.

  (* a step without a parameter space *)
  Theorem none_usable : usable_space classify MNone.
  Proof.
    exists None, (TopList none_denote). split; [reflexivity|]. split; [reflexivity|]. split; [reflexivity|].
    apply ok_iterates. reflexivity.
  Qed.
End Space.
