(* props/C03.v — placeholder while the per-class proofs are being closed. *)
From Coq Require Import List NArith ZArith String.
Import ListNotations.
Require Import OJD.Base OJD.Json OJD.Schema OJD.Generated OJD.ScopeWalk OJD.ScopeSpec.
Local Open Scope string_scope.

(* fields whose kind is not a format string / model / union contribute no reference site *)
Theorem C03_nonfs_partial : forall refs fuel k v sc p syms l,
  match k with KFormat _ _ _ _ | KModel _ | KDisc _ _ | KUnion _ => False | _ => True end ->
  vsingle Generated.schema refs (S fuel) k v sc p syms l = [].
Proof. intros refs fuel k v sc p syms l H. destruct k; simpl in *; try reflexivity; contradiction. Qed.
Print Assumptions C03_nonfs_partial.
