(* props/C18.v — API calls are pure: no cross-talk across histories.

   Models: Glue.v ([resolve_slots] = FormatString.resolve WITH the scratch slots
   ExpressionInfo.resolved_value that live inside the shared template; [resolve_history] = a
   sequence of resolve() calls with different symbol tables on ONE shared format string),
   FormatStr.v ([resolve] = the slot-free function), ParamSpace.v (iterator worlds, _len memo),
   Generated.v (class configuration).  Proofs: GlueProofs.v, ParamSpaceProofs.v.
   Every other API function of the property (decode, preprocess, create_job, model_to_object,
   graph) is a Gallina FUNCTION of its arguments in its model (Accept.v, JobParams.v, CreateJob.v,
   Export.v, DepGraph.v): "result depends only on the arguments" is their type; the only shared
   mutable state that exists in the implementation is modelled here.  Threads: see DESIGN.md §9. *)
From Coq Require Import List NArith ZArith Bool String.
Import ListNotations.
Require Import OJD.Base OJD.Lexer OJD.Json OJD.Schema OJD.Generated OJD.FormatStr OJD.Glue OJD.GlueProofs
               OJD.ParamSpace OJD.ParamSpaceSpec OJD.ParamSpaceProofs.
Local Open Scope string_scope.

(* one resolve() call: whatever the slots held before (values of an earlier job, or nothing), the
   result is the slot-free resolve, and the template keeps one slot per expression *)
Theorem C18_resolve_slots : forall sigma its slots,
  List.length slots = n_iexpr its ->
  snd (resolve_slots sigma its slots) = resolve_items sigma its /\
  List.length (fst (resolve_slots sigma its slots)) = List.length slots.
Proof. exact resolve_slots_spec. Qed.
Print Assumptions C18_resolve_slots.

(* [n_iexpr (items f)] is the number of ExpressionInfo records of f *)
Theorem C18_slot_count : forall f, n_exprs f = n_iexpr (items f).
Proof. exact n_exprs_items. Qed.
Print Assumptions C18_slot_count.

(* any history of calls on a shared format string, starting from any slot contents: each call
   returns what it returns in isolation *)
Theorem C18_resolve_history : forall f sigmas slots,
  List.length slots = n_exprs f ->
  resolve_history f slots sigmas = map (fun s => resolve s f) sigmas.
Proof. exact resolve_history_spec. Qed.
Print Assumptions C18_resolve_history.

(* after a successful call every slot holds the value of THIS call (write-then-read inside one
   call; nothing of an earlier call survives) *)
Theorem C18_slots_overwritten : forall sigma its slots r,
  List.length slots = n_iexpr its ->
  snd (resolve_slots sigma its slots) = Ok r ->
  fst (resolve_slots sigma its slots)
  = flat_map (fun it => match it with
                        | IExpr _ _ _ n => [match expr_evaluate sigma n with Ok v => Some v | Raise _ => None end]
                        | ILit _ => []
                        end) its.
Proof. exact resolve_slots_ok_written. Qed.
Print Assumptions C18_slots_overwritten.

(* every model class is frozen and forbids extra attributes (as configured in the live classes;
   that pydantic then rejects assignment is library behaviour, checked by the harness) *)
Theorem C18_all_frozen :
  forallb (fun nc => c_frozen (snd nc) && c_extra_forbid (snd nc)) Generated.schema = true.
Proof. exact all_frozen. Qed.
Print Assumptions C18_all_frozen.

(* iterators of one StepParameterSpaceIterator object do not interact: dropping from a history all
   calls addressed to OTHER iterators leaves the observations of iterator i unchanged (C07) *)
Theorem C18_iter_histories : forall p tp i h,
  obs_kept p i (new_world tp) h
  = snd (run p (new_world tp) (filter (fun o => negb (addressed_other i o)) h)).
Proof. exact histories_independent. Qed.
Print Assumptions C18_iter_histories.

(* len(obj) and obj[z] answer after ANY history as on a fresh object *)
Theorem C18_len_get_history_free : forall p tp h w bs,
  run p (new_world tp) h = (w, bs) ->
  snd (exec p w OpLen) = match top_len tp with Ok v => ObLen v | Raise x => ObRaise x end /\
  forall z, snd (exec p w (OpGet z)) = match top_getitem tp z with Ok e => ObEnv e | Raise x => ObRaise x end.
Proof. exact len_get_history_free. Qed.
Print Assumptions C18_len_get_history_free.

(* the _len memo of the iterator tree is transparent: it only ever holds what node_len computes *)
Theorem C18_cache_transparent : forall t c, cache_ok t c ->
  match cached_len c t with
  | Ok (v, c') => node_len t = Ok v /\ cache_ok t c'
  | Raise x => node_len t = Raise x
  end.
Proof. exact cache_transparent. Qed.
Print Assumptions C18_cache_transparent.

(* ------------------------------------------------------------------ non-vacuity *)
Local Open Scope N_scope.
(* "x{{ a . b }}y{{c}}" *)
Definition ex_s : str := [120; 123;123; 32;97;32;46;32;98;32; 125;125; 121; 123;123;99;125;125].
Definition sig_a : symtab := [([97;46;98], [65]); ([99], [67])].
Definition sig_b : symtab := [([97;46;98], [66;66]); ([99], [68])].
Definition sig_bad : symtab := [([99], [68])].

(* hypotheses met: two slots for two expressions, dirty initial contents, a failing call in the
   middle of the history *)
Example C18_history_nonvacuous :
  exists f, mk ascii_class ex_s = Ok f /\ n_exprs f = 2%nat /\
    resolve_history f [Some [90;90]; None] [sig_a; sig_bad; sig_b; sig_a]
    = [Ok [120;65;121;67]; Raise FormatStringError; Ok [120;66;66;121;68]; Ok [120;65;121;67]].
Proof. eexists. split; [vm_compute; reflexivity|]. split; vm_compute; reflexivity. Qed.

Example C18_slots_nonvacuous :
  exists f, mk ascii_class ex_s = Ok f /\
    resolve_slots sig_b (items f) [Some [90;90]; Some [89]] = ([Some [66;66]; Some [68]], Ok [120;66;66;121;68]).
Proof. eexists. split; vm_compute; reflexivity. Qed.

(* the length hypothesis is necessary: with a slot missing the model signals RuntimeError *)
Example C18_slots_length_needed :
  exists f, mk ascii_class ex_s = Ok f /\ snd (resolve_slots sig_b (items f) [None]) = Raise RuntimeError.
Proof. eexists. split; vm_compute; reflexivity. Qed.
