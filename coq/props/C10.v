(* props/C10.v — job parameter preprocessing applies the definitions exactly.
   Model: theories/JobParams.v (preprocess, check_constraints); specification:
   theories/JobParamsSpec.v (sat, final, no_extra, no_missing, path_defaults_ok, all_sat).
   [preprocess pinned dir_ok path_in path_default defs vals]: the theorems are about the code
   of today ([pinned] = false) called with an absolute job_template_dir ([dir_ok] = true), for
   ANY PATH join functions (C11 owns them). *)
From Coq Require Import List NArith ZArith Bool.
Import ListNotations.
Require Import OJD.Base OJD.Numerals OJD.NumeralsSpec OJD.NumeralsProofs OJD.JobParams OJD.JobParamsSpec OJD.JobParamsProofs.
Local Open Scope Z_scope.

(* success <-> no undefined name supplied /\ every parameter without default supplied /\
   (PATH defaults joinable, C11) /\ every final value satisfies its definition *)
Theorem C10_iff : forall (path_in : str -> str) (path_default : str -> outcome str) defs vals,
  Forall wf_def defs -> NoDup (map pname defs) ->
  ((exists r, preprocess false true path_in path_default defs vals = Ok r) <->
   no_extra defs vals /\ no_missing defs vals /\ path_defaults_ok path_default defs vals /\
   all_sat path_in path_default defs vals).
Proof. exact preprocess_iff. Qed.
Print Assumptions C10_iff.

(* on success: exactly one entry per defined parameter, in definition order, typed as
   declared, carrying the parameter's final value *)
Theorem C10_result : forall (path_in : str -> str) (path_default : str -> outcome str) defs vals r,
  Forall wf_def defs -> NoDup (map pname defs) ->
  preprocess false true path_in path_default defs vals = Ok r ->
  Forall2 (fun d (e : entry) => fst e = pname d /\ fst (snd e) = ptyp d /\
                                final path_in path_default vals d (snd (snd e))) defs r.
Proof. exact preprocess_result. Qed.
Print Assumptions C10_result.

(* supplied values win over defaults and are returned as given (PATH joining aside) *)
Theorem C10_supplied_verbatim : forall (path_in : str -> str) (path_default : str -> outcome str) defs vals r d v,
  Forall wf_def defs -> NoDup (map pname defs) ->
  preprocess false true path_in path_default defs vals = Ok r -> In d defs ->
  is_path d = false -> lookup (pname d) vals = Some v ->
  lookup (pname d) r = Some (ptyp d, v).
Proof. exact preprocess_supplied. Qed.
Print Assumptions C10_supplied_verbatim.

(* ... and the default (as the text str(default)) is the value of an unsupplied parameter *)
Theorem C10_default_otherwise : forall (path_in : str -> str) (path_default : str -> outcome str) defs vals r d t,
  Forall wf_def defs -> NoDup (map pname defs) ->
  preprocess false true path_in path_default defs vals = Ok r -> In d defs ->
  is_path d = false -> lookup (pname d) vals = None -> pdefault d = Some t ->
  lookup (pname d) r = Some (ptyp d, t).
Proof. exact preprocess_defaulted. Qed.
Print Assumptions C10_default_otherwise.

(* every failure is a ValueError (no premise on the definitions; either kind of template dir) *)
Theorem C10_error : forall (path_in : str -> str) (path_default : str -> outcome str) dir_ok defs vals e,
  (forall t e', path_default t = Raise e' -> e' = ValueError) ->
  preprocess false dir_ok path_in path_default defs vals = Raise e -> e = ValueError.
Proof. exact preprocess_error. Qed.
Print Assumptions C10_error.

(* the per-value core: a check passes exactly on the values that satisfy the definition *)
Theorem C10_check_iff : forall d v, wf_def d -> (check_constraints false d v = Ok tt <-> sat d v).
Proof. exact check_constraints_iff. Qed.
Print Assumptions C10_check_iff.

(* ---------- the historical defect (fixed by 5aa47df), kept as regression documentation:
   with the truthiness tests, minValue 0 admits -5 ---------- *)
Definition nP : str := [80%N].
Definition d_min0 : pdef := mkDef nP INT (Some (mkNum 0 0)) None None None None None None None None.
Definition s_m5 : str := [45%N; 53%N].     (* "-5" *)

Theorem C10_pinned_truthiness_refuted :
  exists d v r, wf_def d /\
    preprocess true true simple_path_in simple_path_default [d] [(pname d, v)] = Ok r /\ ~ sat d v.
Proof.
  exists d_min0, s_m5, [(nP, (INT, s_m5))]. split; [|split].
  - repeat split; discriminate.
  - vm_compute. reflexivity.
  - intro H. apply C10_check_iff in H; [|repeat split; discriminate]. vm_compute in H. discriminate.
Qed.
Print Assumptions C10_pinned_truthiness_refuted.

(* ---------- non-vacuity ---------- *)
Definition nQ : str := [81%N].
Definition d_str : pdef := mkDef nQ STRING None None None (Some [[97%N]; [97%N; 98%N]]) (Some 1) (Some 3) (Some [97%N]) None None.
Definition d_flt : pdef := mkDef nP FLOAT (Some (mkNum 0 0)) (Some (mkNum 25 (-1))) None None None None None None None.
Definition s_1e0 : str := [49%N; 101%N; 48%N].   (* "1e0" *)

(* the hypotheses of C10_iff / C10_result are met by a two-parameter set on which the call succeeds *)
Example C10_iff_nonvacuous :
  Forall wf_def [d_flt; d_str] /\ NoDup (map pname [d_flt; d_str]) /\
  preprocess false true simple_path_in simple_path_default [d_flt; d_str] [(nP, s_1e0)]
  = Ok [(nP, (FLOAT, s_1e0)); (nQ, (STRING, [97%N]))].
Proof.
  split; [|split].
  - repeat constructor; discriminate.
  - repeat constructor; cbn; intuition discriminate.
  - vm_compute. reflexivity.
Qed.

(* ... and by one on which it fails (value below minValue 0), with ValueError *)
Example C10_error_nonvacuous :
  preprocess false true simple_path_in simple_path_default [d_flt; d_str] [(nP, s_m5)] = Raise ValueError
  /\ (forall t e', simple_path_default t = Raise e' -> e' = ValueError).
Proof.
  split; [vm_compute; reflexivity|].
  intros t e'. unfold simple_path_default. destruct (starts_with_slash t); intro H; [injection H as <-; reflexivity|discriminate].
Qed.

Example C10_check_nonvacuous : wf_def d_flt /\ sat d_flt s_1e0 /\ ~ sat d_flt s_m5.
Proof.
  assert (W : wf_def d_flt) by (repeat split; discriminate).
  split; [exact W|]. split.
  - apply C10_check_iff; [exact W|]. vm_compute. reflexivity.
  - intro H. apply C10_check_iff in H; [|exact W]. vm_compute in H. discriminate.
Qed.
