(* CreateJob.v — generic model of src/openjd/model/_internal/_create_job.py (instantiate_model and
   its helpers), of the symbol table create_job builds, and of model_to_object on the result.
   It interprets the creation metadata of a [schema_t] value (Generated.schema).  Definitions only.

   Input: the decoded template as the implementation holds it (the harness serialises the
   pydantic objects: class name + field values), so C05 starts exactly where the property
   starts: "for every accepted job template".  Target-class validation (can the Job be built?)
   is not part of this file: C05 speaks about the Jobs that are returned; failures are C06. *)
From Coq Require Import List NArith ZArith Bool String.
Import ListNotations.
Require Import OJD.Base OJD.Json OJD.Schema OJD.NumPrint.
Local Open Scope string_scope.
Local Open Scope list_scope.

(* values held by model instances *)
Inductive mval : Type :=
| MNone
| MBool (b : bool)
| MInt (z : Z)
| MDec (m e : Z)                 (* decimal.Decimal, finite *)
| MFloat (m e : Z)               (* Python float (PositiveFloat fields), finite: m * 10^e *)
| MStr (s : str)                 (* plain str / constr / Enum value *)
| MFmt (s : str)                 (* FormatString instance (any subclass) *)
| MList (l : list mval)
| MDict (l : list (str * mval))
| MModel (cls : string) (fields : list (string * mval)).   (* fields in declaration order, by attribute name *)

Definition symtab : Type := list (str * str).

Fixpoint st_lookup (sigma : symtab) (name : str) : option str :=
  match sigma with
  | [] => None
  | (k, v) :: r => if str_eqb name k then Some v else st_lookup r name
  end.

(* create_job: Param.<n> for non-PATH parameters, RawParam.<n> for all.  [vals] = the
   preprocessed values (name, type, value) in order. *)
Definition symtab_of (vals : list (str * str * str)) : symtab :=
  flat_map (fun nv => match nv with
                      | (n, t, v) =>
                        (if str_eqb t $"PATH" then [] else [($"Param." ++ n, v)])
                        ++ [($"RawParam." ++ n, v)]
                      end) vals.

Definition mfield (name : string) (fields : list (string * mval)) : mval :=
  match lookup_s name fields with Some v => v | None => MNone end.

Section Instantiate.
  Variable SC : schema_t.
  (* FormatString.resolve on the original string: Ok text | Raise FormatStringError *)
  Variable resolve : symtab -> str -> outcome str.
  Variable sigma : symtab.

  Definition jcm_of (c : string) : jcm :=
    match lookup_cls SC c with Some k => c_jcm k | None => jcm_trivial end.

  (* getattr(item, key_field) for reshape: a string-valued field *)
  Definition key_of (v : mval) (key_field : string) : outcome str :=
    match v with
    | MModel _ fs => match mfield key_field fs with
                     | MStr s | MFmt s => Ok s
                     | _ => Raise TypeError
                     end
    | _ => Raise AttributeError
    end.

  (* dict assignment result[key] = v : replace in place or append *)
  Fixpoint dict_set (d : list (str * mval)) (k : str) (v : mval) : list (str * mval) :=
    match d with
    | [] => [(k, v)]
    | (k', v') :: r => if str_eqb k k' then (k, v) :: r else (k', v') :: dict_set r k v
    end.

  Fixpoint inst (fuel : nat) (v : mval) : outcome mval :=
    match fuel with
    | O => Raise RuntimeError
    | S f =>
      match v with
      | MModel c fields =>
        let j := jcm_of c in
        (* _instantiate_noncollection_value *)
        let noncoll (field_name : string) (x : mval) : outcome mval :=
          match x with
          | MModel _ _ => inst f x
          | MFmt s => if mem_s field_name (j_resolve j)
                      then do r <- resolve sigma s; Ok (MStr r)
                      else Ok x
          | _ => Ok x
          end in
        let one (fv : string * mval) : outcome (list (string * mval)) :=
          let (fname, x) := fv in
          if mem_s fname (j_exclude j) then Ok []
          else
            let target := match lookup_s fname (j_rename j) with Some t => t | None => fname end in
            do y <-
               match x with
               | MList items =>
                 match lookup_s fname (j_reshape j) with
                 | Some key_field =>
                   do d <- fold_left (fun (acc : outcome (list (str * mval))) item =>
                                        do a <- acc;
                                        do k <- key_of item key_field;
                                        do y <- noncoll fname item;
                                        Ok (dict_set a k y)) items (Ok []);
                   Ok (MDict d)
                 | None => do l <- mapM (noncoll fname) items; Ok (MList l)
                 end
               | MDict members =>
                 (* the dictionary key is passed as the field name: a value is resolved only if the
                    KEY is listed in resolve_fields *)
                 do l <- mapM (fun kv => do y <- match snd kv with
                                                 | MModel _ _ => inst f (snd kv)
                                                 | MFmt s => if existsb (fun r => str_eqb (str_of_string r) (fst kv)) (j_resolve j)
                                                             then do r <- resolve sigma s; Ok (MStr r)
                                                             else Ok (snd kv)
                                                 | _ => Ok (snd kv)
                                                 end; Ok (fst kv, y)) members;
                 Ok (MDict l)
               | _ => noncoll fname x
               end;
            Ok [(target, y)] in
        do fs <- mapM one fields;
        let fs := List.concat fs in
        do fs' <-
           (if j_adds_value j then
              match mfield "name" fields with
              | MStr n =>
                match st_lookup sigma ($"RawParam." ++ n) with
                | Some v => Ok (fs ++ [("value", MStr v)])
                | None => Raise KeyError
                end
              | _ => Raise AttributeError
              end
            else Ok fs);
        let target_cls :=
          match j_create_as j with
          | CreateSelf => c
          | CreateModel t => t
          | CreateIntRange expr_cls list_cls =>
            match mfield "range" fields with MFmt _ => expr_cls | _ => list_cls end
          end in
        Ok (MModel target_cls fs')
      | _ => Ok v
      end
    end.
End Instantiate.


Fixpoint mval_depth (v : mval) : nat :=
  match v with
  | MList l => S (fold_right (fun x acc => Nat.max (mval_depth x) acc) O l)
  | MDict l => S (fold_right (fun x acc => Nat.max (mval_depth (snd x)) acc) O l)
  | MModel _ fs => S (fold_right (fun x acc => Nat.max (mval_depth (snd x)) acc) O fs)
  | _ => 1
  end.

(* ---------------- job-side coercions of the target classes that change representation ------
   RangeList*TaskParameterDefinition.range : list[constr(lax)] turns int / Decimal items into
   their str(); everything else is stored as given. *)
Definition coerce_range_item (v : mval) : mval :=
  match v with
  | MInt z => MStr (print_Z z)
  | MDec m e => MStr (print_dec m e)
  | _ => v
  end.

(* ---------------- model_to_object (model.dict(by_alias) + the export walk) ------------------ *)
Section Print.
  Variable SC : schema_t.

  Definition alias_of (c : string) (fname : string) : string :=
    match lookup_cls SC c with
    | Some k =>
      match find (fun fl => String.eqb (f_name fl) fname) (c_fields k) with
      | Some fl => f_alias fl
      | None => fname
      end
    | None => fname
    end.

  Fixpoint to_object (fuel : nat) (v : mval) : json :=
    match fuel with
    | O => JNull
    | S f =>
      match v with
      | MNone => JNull
      | MBool b => JBool b
      | MInt z => JInt z
      | MDec m e => JStr (print_dec m e)
      | MFloat m e => JDec m e
      | MStr s | MFmt s => JStr s
      | MList l => JArr (map (to_object f) l)
      | MDict l => JObj (flat_map (fun kv => match snd kv with
                                             | MNone => []
                                             | x => [(fst kv, to_object f x)]
                                             end) l)
      | MModel c fs =>
        JObj (flat_map (fun fv => match snd fv with
                                  | MNone => []
                                  | x => [(str_of_string (alias_of c (fst fv)), to_object f x)]
                                  end) fs)
      end
    end.
End Print.

(* apply the range-list coercion wherever a job-side range list sits *)
Fixpoint coerce_job (fuel : nat) (v : mval) : mval :=
  match fuel with
  | O => v
  | S f =>
    match v with
    | MModel c fs =>
      MModel c (map (fun fv =>
                       if String.eqb (fst fv) "range"
                       then match snd fv with
                            | MList items => (fst fv, MList (map coerce_range_item items))
                            | x => (fst fv, x)
                            end
                       else (fst fv, coerce_job f (snd fv))) fs)
    | MList l => MList (map (coerce_job f) l)
    | MDict l => MDict (map (fun kv => (fst kv, coerce_job f (snd kv))) l)
    | _ => v
    end
  end.

Definition create_job_object (SC : schema_t) (resolve : symtab -> str -> outcome str)
           (vals : list (str * str * str)) (template : mval) : outcome json :=
  let fuel := S (mval_depth template) in
  do job <- inst SC resolve (symtab_of vals) fuel template;
  Ok (to_object SC (S (S fuel)) (coerce_job fuel job)).
