(* GlueProofs.v — lemmas behind props/C18.v (purity of resolve with scratch slots) and
   props/C09.v (declared types of parameter values).  No new model: everything is about Glue.v,
   FormatStr.v, JobParams.v, Validators.v, Parse.v as they are. *)
From Coq Require Import List NArith ZArith Bool String Lia.
Import ListNotations.
Require Import OJD.Base OJD.Lexer OJD.Json OJD.Schema OJD.Generated OJD.Charsets OJD.Numerals OJD.NumPrint
               OJD.NumRoundtrip OJD.FormatStr OJD.CreateJob OJD.Parse OJD.Validators OJD.JobParams
               OJD.JobParamsSpec OJD.RangeExpr OJD.Glue OJD.GlueLib OJD.AcceptMono.
Local Open Scope list_scope.

(* ================================================================== C18 *)

(* number of expression records (= scratch slots) of an item list *)
Fixpoint n_iexpr (its : list item) : nat :=
  match its with
  | [] => O
  | ILit _ :: r => n_iexpr r
  | IExpr _ _ _ _ :: r => S (n_iexpr r)
  end.

Lemma n_exprs_items : forall f, n_exprs f = n_iexpr (items f).
Proof.
  intros f. unfold n_exprs, expressions. induction (items f) as [|it r IH]; [reflexivity|].
  destruct it as [l|a b t n]; simpl; [exact IH|]. f_equal. exact IH.
Qed.

(* resolve() with slots: the result is the slot-free [resolve_items]; the slot list keeps its length *)
Lemma resolve_slots_spec : forall sigma its slots,
  List.length slots = n_iexpr its ->
  snd (resolve_slots sigma its slots) = resolve_items sigma its /\
  List.length (fst (resolve_slots sigma its slots)) = List.length slots.
Proof.
  intros sigma its. induction its as [|it r IH]; intros slots Hlen.
  - simpl. split; reflexivity.
  - destruct it as [l|a b t name].
    + simpl in Hlen. destruct (IH slots Hlen) as [IH1 IH2].
      cbn [resolve_slots resolve_items].
      destruct (resolve_slots sigma r slots) as [s' res] eqn:E. cbn [fst snd] in *.
      split; [|exact IH2]. rewrite <- IH1. destruct res; reflexivity.
    + simpl in Hlen. destruct slots as [|old rest]; [discriminate Hlen|].
      simpl in Hlen. injection Hlen as Hlen.
      destruct (IH rest Hlen) as [IH1 IH2].
      cbn [resolve_slots resolve_items].
      destruct (expr_evaluate sigma name) as [v|e] eqn:Ev.
      * destruct (resolve_slots sigma r rest) as [s' res] eqn:E. cbn [fst snd] in *.
        split; [|simpl; f_equal; exact IH2]. rewrite <- IH1. destruct res; reflexivity.
      * cbn [fst snd]. split; reflexivity.
Qed.

Lemma resolve_history_spec : forall f sigmas slots,
  List.length slots = n_exprs f ->
  resolve_history f slots sigmas = map (fun s => resolve s f) sigmas.
Proof.
  intros f sigmas. induction sigmas as [|s r IH]; intros slots Hlen; [reflexivity|].
  cbn [resolve_history map].
  rewrite n_exprs_items in Hlen.
  destruct (resolve_slots_spec s (items f) slots Hlen) as [H1 H2].
  destruct (resolve_slots s (items f) slots) as [slots' res] eqn:E. cbn [fst snd] in *.
  f_equal; [exact H1|]. apply IH. rewrite H2. rewrite n_exprs_items. exact Hlen.
Qed.

(* the slots after a call hold, for every expression evaluated, the value of THAT call: nothing of
   an earlier call survives in a slot that was written *)
Lemma resolve_slots_ok_written : forall sigma its slots r,
  List.length slots = n_iexpr its ->
  snd (resolve_slots sigma its slots) = Ok r ->
  fst (resolve_slots sigma its slots)
  = flat_map (fun it => match it with
                        | IExpr _ _ _ n => [match expr_evaluate sigma n with Ok v => Some v | Raise _ => None end]
                        | ILit _ => []
                        end) its.
Proof.
  intros sigma its. induction its as [|it rr IH]; intros slots r Hlen Hok.
  - simpl in *. destruct slots; [reflexivity|discriminate Hlen].
  - destruct it as [l|a b t name].
    + simpl in Hlen. cbn [resolve_slots] in *. cbn [flat_map app].
      destruct (resolve_slots sigma rr slots) as [s' res] eqn:E. cbn [fst snd] in *.
      destruct res as [t'|e]; [|discriminate Hok].
      specialize (IH slots t' Hlen). rewrite E in IH. cbn [fst snd] in IH. apply IH. reflexivity.
    + simpl in Hlen. destruct slots as [|old rest]; [discriminate Hlen|].
      simpl in Hlen. injection Hlen as Hlen.
      cbn [resolve_slots] in *. cbn [flat_map app].
      destruct (expr_evaluate sigma name) as [v|e] eqn:Ev.
      * destruct (resolve_slots sigma rr rest) as [s' res] eqn:E. cbn [fst snd] in *.
        destruct res as [t'|e]; [|discriminate Hok].
        specialize (IH rest t' Hlen). rewrite E in IH. cbn [fst snd] in IH.
        simpl. f_equal. apply IH. reflexivity.
      * cbn [snd] in Hok. destruct (is_expression_error e); discriminate Hok.
Qed.

Lemma all_frozen : forallb (fun nc => c_frozen (snd nc) && c_extra_forbid (snd nc)) Generated.schema = true.
Proof. vm_compute. reflexivity. Qed.

(* resolve never raises anything but FormatStringError (no premise on the class table) *)
Lemma resolve_items_errors : forall sigma its e, resolve_items sigma its = Raise e -> e = FormatStringError.
Proof.
  intros sigma its. induction its as [|it r IH]; intros e H; [discriminate H|].
  destruct it as [l|a b t name]; cbn [resolve_items] in H.
  - destruct (resolve_items sigma r) as [t'|e'] eqn:E; cbn [bind] in H; [discriminate H|].
    injection H as <-. apply IH. reflexivity.
  - unfold expr_evaluate, node_evaluate in H.
    destruct (FormatStr.lookup sigma name) as [v|].
    + destruct (resolve_items sigma r) as [t'|e'] eqn:E; cbn [bind] in H; [discriminate H|].
      injection H as <-. apply IH. reflexivity.
    + cbn in H. injection H as <-. reflexivity.
Qed.

(* ================================================================== C09 *)
Local Open Scope string_scope.

Definition ptype_text (t : ptype) : str :=
  match t with
  | STRING => $"STRING" | PATH => $"PATH" | INT => $"INT" | FLOAT => $"FLOAT"
  end.

(* _check_constraints passing implies the declared type (no premise on the definition) *)
Lemma check_conforms_job : forall d v,
  check_constraints false d v = Ok tt -> conforms_job (ptype_text (ptyp d)) v = true.
Proof.
  intros d v H. unfold check_constraints in H. unfold conforms_job.
  destruct (ptyp d); cbn [ptype_text].
  - reflexivity.
  - reflexivity.
  - change (str_eqb $"INT" $"INT") with true. cbv iota.
    unfold is_int_numeral. unfold check_int in H. destruct (parse_int v); [reflexivity|discriminate H].
  - change (str_eqb $"FLOAT" $"INT") with false. change (str_eqb $"FLOAT" $"FLOAT") with true. cbv iota.
    unfold is_finite_decimal. unfold check_float in H.
    destruct (parse_dec v) as [[m e|b|]|]; try discriminate H. reflexivity.
Qed.

(* the same from the declarative side (C10's [sat]) *)
Lemma sat_conforms_job : forall d v, sat d v -> conforms_job (ptype_text (ptyp d)) v = true.
Proof.
  intros d v H. unfold sat in H. unfold conforms_job.
  destruct (ptyp d); cbn [ptype_text]; try reflexivity.
  - change (str_eqb $"INT" $"INT") with true. cbv iota. destruct H as [z [Hz _]].
    unfold is_int_numeral. rewrite Hz. reflexivity.
  - change (str_eqb $"FLOAT" $"INT") with false. change (str_eqb $"FLOAT" $"FLOAT") with true. cbv iota.
    destruct H as [m [e [Hz _]]]. unfold is_finite_decimal. rewrite Hz. reflexivity.
Qed.

(* job-side range lists: the validators of the INT / FLOAT target classes *)
Lemma post_int_range_list : forall classify raw fs,
  post_hook classify "IntRangeListTaskParameterDefinition" raw fs = true ->
  forall it, In it (mitems (fget "range" fs)) -> conforms_task $"INT" (mstr it) = true.
Proof.
  intros classify raw fs H it Hin.
  change (post_hook classify "IntRangeListTaskParameterDefinition" raw fs)
    with (forallb (fun it => match parse_int (mstr it) with Some _ => true | None => false end)
                  (mitems (fget "range" fs))) in H.
  rewrite forallb_forall in H. specialize (H it Hin).
  unfold conforms_task. change (str_eqb $"INT" $"INT") with true. cbv iota. exact H.
Qed.

Lemma post_float_range_list : forall classify raw fs,
  post_hook classify "FloatRangeListTaskParameterDefinition" raw fs = true ->
  forall it, In it (mitems (fget "range" fs)) -> conforms_task $"FLOAT" (mstr it) = true.
Proof.
  intros classify raw fs H it Hin.
  change (post_hook classify "FloatRangeListTaskParameterDefinition" raw fs)
    with (forallb (fun it => match parse_dec (mstr it) with Some (Fin _ _) => true | _ => false end)
                  (mitems (fget "range" fs))) in H.
  rewrite forallb_forall in H. specialize (H it Hin).
  unfold conforms_task. change (str_eqb $"FLOAT" $"INT") with false.
  change (str_eqb $"FLOAT" $"FLOAT") with true. cbv iota. exact H.
Qed.

(* the structural kind of RangeListTaskParameterDefinition.range (STRING / PATH targets), read off
   the live schema *)
Definition range_item_kind : kind := KStr false (Some 0%N) (Some 1024%N) CS_any.

Lemma range_list_kind :
  match lookup_cls Generated.schema "RangeListTaskParameterDefinition" with
  | Some c => map (fun fl => (f_name fl, f_shape fl, f_kind fl)) (c_fields c)
  | None => []
  end
  = [("type", Single, KEnum ["INT"; "FLOAT"; "STRING"; "PATH"]);
     ("range", ListOf None None, range_item_kind)].
Proof. vm_compute. reflexivity. Qed.

Lemma check_str_len : forall lo cs s m,
  check_str lo (Some 1024%N) cs s = Ok m -> m = MStr s /\ (N.of_nat (List.length s) <= 1024)%N.
Proof.
  intros lo cs s m H. unfold check_str in H.
  destruct (len_ok lo (Some 1024%N) s && cs_ok cs s) eqn:E; [|discriminate H].
  injection H as <-. split; [reflexivity|].
  apply andb_true_iff in E. destruct E as [E _]. unfold len_ok in E.
  apply andb_true_iff in E. destruct E as [_ E]. apply N.leb_le in E. exact E.
Qed.

Lemma range_item_len : forall SC classify pre post fuel raw m,
  parse_kind SC classify pre post fuel range_item_kind raw = Ok m ->
  exists t, m = MStr t /\ conforms_task $"STRING" t = true /\ conforms_task $"PATH" t = true.
Proof.
  intros SC classify pre post fuel raw m H.
  destruct fuel as [|f]; [discriminate H|].
  rewrite parse_kind_S in H. unfold range_item_kind in H. cbn [parse_scalar] in H.
  assert (K : forall t, (N.of_nat (List.length t) <= 1024)%N ->
              conforms_task $"STRING" t = true /\ conforms_task $"PATH" t = true).
  { intros t Ht. unfold conforms_task.
    change (str_eqb $"STRING" $"INT") with false. change (str_eqb $"STRING" $"FLOAT") with false.
    change (str_eqb $"PATH" $"INT") with false. change (str_eqb $"PATH" $"FLOAT") with false.
    cbv iota. apply N.leb_le in Ht. split; exact Ht. }
  destruct raw as [|b|z|dm de|s|l|ms]; try discriminate H.
  - apply check_str_len in H. destruct H as [-> Hl]. eexists. split; [reflexivity|]. apply K. exact Hl.
  - apply check_str_len in H. destruct H as [-> Hl]. eexists. split; [reflexivity|]. apply K. exact Hl.
  - apply check_str_len in H. destruct H as [-> Hl]. eexists. split; [reflexivity|]. apply K. exact Hl.
Qed.

(* range expressions: the enumerated values are str(int) *)
Lemma print_Z_int_numeral : forall z, is_int_numeral (print_Z z) = true.
Proof. intros z. unfold is_int_numeral. rewrite parse_int_print_Z. reflexivity. Qed.

Lemma print_dec_finite : forall m e, is_finite_decimal (print_dec m e) = true.
Proof. intros m e. unfold is_finite_decimal. rewrite parse_dec_print_dec. reflexivity. Qed.

(* [str(v) for v in IntRangeExpr]: what RangeExpressionIdentifierNode hands to the iterator *)
Definition range_values (e : iexpr) : list str := map print_Z (elems e).

Lemma range_values_conform : forall e v, In v (range_values e) ->
  (exists z, In z (elems e) /\ v = print_Z z) /\ conforms_task $"INT" v = true.
Proof.
  intros e v H. unfold range_values in H. apply in_map_iff in H. destruct H as [z [<- Hz]].
  split; [exists z; split; [exact Hz|reflexivity]|].
  unfold conforms_task. change (str_eqb $"INT" $"INT") with true. cbv iota. apply print_Z_int_numeral.
Qed.

(* the job-side coercion of literal range items (int -> str(int), Decimal -> str(Decimal)) *)
Lemma coerce_item_conforms :
  (forall z, conforms_task $"INT" (mstr (coerce_range_item (MInt z))) = true) /\
  (forall m e, conforms_task $"FLOAT" (mstr (coerce_range_item (MDec m e))) = true).
Proof.
  split.
  - intros z. cbn [coerce_range_item mstr]. unfold conforms_task.
    change (str_eqb $"INT" $"INT") with true. cbv iota. apply print_Z_int_numeral.
  - intros m e. cbn [coerce_range_item mstr]. unfold conforms_task.
    change (str_eqb $"FLOAT" $"INT") with false. change (str_eqb $"FLOAT" $"FLOAT") with true.
    cbv iota. apply print_dec_finite.
Qed.
