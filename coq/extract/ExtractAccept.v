(* Extraction of the template acceptance model (C01, C02, C19). ExtrOcamlBasic only. *)
From Coq Require Import Extraction ExtrOcamlBasic List NArith ZArith String.
Require Import OJD.Base OJD.Lexer OJD.Json OJD.Schema OJD.Generated OJD.Charsets OJD.CreateJob OJD.Parse OJD.Validators OJD.Accept OJD.AcceptSpec.
Extraction Language OCaml.
Definition accept_job (classify : N -> cclass) (j : json) : outcome bool :=
  match decode_job classify j with Ok _ => Ok true | Raise ValueError => Ok false | Raise e => Raise e end.
Definition accept_env (classify : N -> cclass) (j : json) : outcome bool :=
  match decode_env classify j with Ok _ => Ok true | Raise ValueError => Ok false | Raise e => Raise e end.
Definition accept_job_spec (classify : N -> cclass) (j : json) : outcome bool :=
  match spec_decode_job classify j with Ok _ => Ok true | Raise ValueError => Ok false | Raise e => Raise e end.
Definition accept_env_spec (classify : N -> cclass) (j : json) : outcome bool :=
  match spec_decode_env classify j with Ok _ => Ok true | Raise ValueError => Ok false | Raise e => Raise e end.
Extraction "Model.ml" exn_eqb ascii_ok ascii_class accept_job accept_env accept_job_spec accept_env_spec cs_ok sumZ.
