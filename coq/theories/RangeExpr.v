(* RangeExpr.v — model of src/openjd/model/_range_expr.py (IntRange, IntRangeExpr, Parser).
   Definitions only.  Each defective behaviour of the pinned tree is kept behind a boolean
   ([pinned_*]); the property theorems are about the instances with every flag [false],
   which mirror the repaired code. *)
From Coq Require Import List NArith ZArith Bool.
Import ListNotations.
Require Import OJD.Base OJD.Lexer OJD.Generated.
Local Open Scope Z_scope.

Record irange : Type := mkR { rstart : Z; rend : Z; rstep : Z }.

(* len(range(start, stop, step)) as CPython computes it *)
Definition py_range_len (start stop step : Z) : Z :=
  if 0 <? step then (if start <? stop then (stop - start - 1) / step + 1 else 0)
  else if step <? 0 then (if stop <? start then (start - stop - 1) / (- step) + 1 else 0)
  else 0.

(* IntRange.__init__: inclusive end => offset +-1 *)
Definition range_len (r : irange) : Z :=
  let offset := if 0 <? rstep r then 1 else if rstep r <? 0 then -1 else 0 in
  py_range_len (rstart r) (rend r + offset) (rstep r).

Definition range_nth (r : irange) (i : Z) : Z := rstart r + i * rstep r.

(* iteration over the Python range object: start, start+step, ... (len values).  Written with an
   accumulator so that the extracted code is linear in the length (Z.of_nat on a unary index
   would make it quadratic); RangeExprProofs.range_elems_nth: the i-th value is range_nth r i. *)
Fixpoint prog_from (a s : Z) (n : nat) : list Z :=
  match n with
  | O => []
  | S m => a :: prog_from (a + s) s m
  end.

Definition range_elems (r : irange) : list Z :=
  prog_from (rstart r) (rstep r) (Z.to_nat (range_len r)).

Definition range_last (r : irange) : Z := range_nth r (range_len r - 1).

(* IntRange._validate *)
Definition mk_range (a b s : Z) : outcome irange :=
  let r := mkR a b s in
  if s =? 0 then Raise ValueError
  else if (a <? b) && (s <? 0) then Raise ValueError
  else if (b <? a) && (0 <? s) then Raise ValueError
  else if range_len r <=? 0 then Raise ValueError
  else Ok r.

(* total order (start, end, step) used by sorted() via IntRange.__lt__ *)
Definition range_leb (x y : irange) : bool :=
  if rstart x <? rstart y then true
  else if rstart y <? rstart x then false
  else if rend x <? rend y then true
  else if rend y <? rend x then false
  else rstep x <=? rstep y.

Fixpoint insert_range (x : irange) (l : list irange) : list irange :=
  match l with
  | [] => [x]
  | y :: ys => if range_leb x y then x :: l else y :: insert_range x ys
  end.

Definition sort_ranges (l : list irange) : list irange := fold_right insert_range [] l.

Record iexpr : Type := mkE { ranges : list irange; cum : list Z; elen : Z }.

(* `except ValueError as e: raise ExpressionError(...)`: only ValueError is caught; any other
   exception propagates unchanged. *)
Definition value_to_expression (e : exn) : exn :=
  match e with ValueError => ExpressionError | _ => e end.

Section Pinned.
  (* pinned_merge: the merge test uses the written end (defect #1);
     pinned_try:   IntRange(a, b, 1) built outside the try in Parser._range (defect #2);
     pinned_from_list: `end` is not reset with `start` in from_list (defect #3). *)
  Variables (pinned_merge pinned_try pinned_from_list : bool).

  Definition merge_test (prev next : irange) : bool :=
    (rstep prev =? rstep next) &&
    ((if pinned_merge then rend prev else range_last prev) + rstep next =? rstart next).

  (* the loop over sorted_ranges[1:]; [acc_rev] is self._ranges reversed *)
  Fixpoint merge_loop (acc_rev : list irange) (l : list irange) : outcome (list irange) :=
    match l with
    | [] => Ok (rev acc_rev)
    | r :: rs =>
      match acc_rev with
      | [] => merge_loop [r] rs
      | p :: acc' =>
        if merge_test p r
        then do m <- mk_range (rstart p) (rend r) (rstep r); merge_loop (m :: acc') rs
        else merge_loop (r :: acc_rev) rs
      end
    end.

  Fixpoint cum_lengths (acc : Z) (l : list irange) : list Z :=
    match l with
    | [] => []
    | r :: rs => let acc' := acc + range_len r in acc' :: cum_lengths acc' rs
    end.

  Definition span_lo (r : irange) : Z := Z.min (rstart r) (rend r).
  Definition span_hi (r : irange) : Z := Z.max (rstart r) (rend r).

  (* IntRangeExpr._validate: adjacent overlap test *)
  Fixpoint no_overlap (l : list irange) : bool :=
    match l with
    | p :: ((n :: _) as tl) => (span_hi p <? span_lo n) && no_overlap tl
    | _ => true
    end.

  Definition mk_expr (rs : list irange) : outcome iexpr :=
    match sort_ranges rs with
    | [] => Raise IndexError                      (* sorted_ranges[0] *)
    | first :: rest =>
      do merged <- merge_loop [first] rest;
      let c := cum_lengths 0 merged in
      let n := last c 0 in
      if n <=? 0 then Raise ValueError
      else if no_overlap merged then Ok (mkE merged c n)
      else Raise ValueError
    end.

  (* ---- Parser (token level) ---- *)

  Definition parse_integer (ts : list tok) : outcome (Z * list tok) :=
    match ts with
    | THyphen :: TPosInt n :: r => Ok (- Z.of_N n, r)
    | TPosInt n :: r => Ok (Z.of_N n, r)
    | _ => Raise ExpressionError
    end.

  Definition at_end_or_comma (ts : list tok) : bool :=
    match ts with [] => true | TComma :: _ => true | _ => false end.

  (* Parser._range *)
  Definition parse_range (ts : list tok) : outcome (irange * list tok) :=
    do (a, r1) <- parse_integer ts;
    if at_end_or_comma r1 then
      do rg <- mk_range a a 1; Ok (rg, r1)
    else
      match r1 with
      | THyphen :: r2 =>
        do (b, r3) <- parse_integer r2;
        if at_end_or_comma r3 then
          match mk_range a b 1 with
          | Ok rg => Ok (rg, r3)
          | Raise e => Raise (if pinned_try then e else value_to_expression e)
          end
        else
          match r3 with
          | TColon :: r4 =>
            do (s, r5) <- parse_integer r4;
            match mk_range a b s with
            | Ok rg => Ok (rg, r5)
            | Raise e => Raise (value_to_expression e)
            end
          | _ => Raise ExpressionError
          end
      | _ => Raise ExpressionError
      end.

  (* Parser._expression: range (',' range)* ; fuel = number of tokens + 1 *)
  Fixpoint parse_ranges (fuel : nat) (ts : list tok) : outcome (list irange) :=
    match fuel with
    | O => Raise RuntimeError
    | S f =>
      do (rg, rest) <- parse_range ts;
      match rest with
      | [] => Ok [rg]
      | TComma :: rest' => do rgs <- parse_ranges f rest'; Ok (rg :: rgs)
      | _ => Raise ExpressionError
      end
    end.

  Definition parse_tokens (ts : list tok) : outcome iexpr :=
    match ts with
    | [] => Raise ExpressionError                 (* "Empty expression" *)
    | _ =>
      do rs <- parse_ranges (S (length ts)) ts;
      match mk_expr rs with
      | Ok e => Ok e
      | Raise e => Raise (value_to_expression e)  (* except ValueError -> ExpressionError *)
      end
    end.

  (* supported token kinds: read from the live _tokenmap by the translator *)
  Definition range_kinds : list tokkind := Generated.range_token_kinds.

  Definition from_str (classify : N -> cclass) (s : str) : outcome iexpr :=
    do ts <- lex_for classify range_kinds s;
    parse_tokens ts.

  (* ---- container behaviour (C13) ---- *)

  Definition elems (e : iexpr) : list Z := concat (map range_elems (ranges e)).

  (* bisect.bisect (= bisect_right) on a sorted list *)
  Fixpoint bisect_right (l : list Z) (x : Z) : nat :=
    match l with
    | [] => O
    | y :: ys => if x <? y then O else S (bisect_right ys x)
    end.

  Definition getitem (e : iexpr) (i : Z) : outcome Z :=
    let i' := if i <? 0 then elen e + i else i in
    if (0 <=? i') && (i' <? elen e) then
      let k := bisect_right (cum e) i' in
      match k with
      | O => match nth_error (ranges e) 0 with
             | Some r => if i' <? range_len r then Ok (range_nth r i') else Raise IndexError
             | None => Raise IndexError
             end
      | S k' =>
        let base := nth k' (cum e) 0 in
        match nth_error (ranges e) k with
        | Some r => let j := i' - base in
                    if j <? range_len r then Ok (range_nth r j) else Raise IndexError
        | None => Raise IndexError
        end
      end
    else Raise IndexError.

  (* IntRange.__str__ / IntRangeExpr.__str__ at token level *)
  Definition int_tokens (z : Z) : list tok :=
    if z <? 0 then [THyphen; TPosInt (Z.to_N (- z))] else [TPosInt (Z.to_N z)].

  Definition range_tokens (r : irange) : list tok :=
    if range_len r =? 1 then int_tokens (rstart r)
    else if rstep r =? 1 then int_tokens (rstart r) ++ [THyphen] ++ int_tokens (rend r)
    else int_tokens (rstart r) ++ [THyphen] ++ int_tokens (rend r) ++ [TColon] ++ int_tokens (rstep r).

  Fixpoint expr_tokens_of (l : list irange) : list tok :=
    match l with
    | [] => []
    | [r] => range_tokens r
    | r :: rs => range_tokens r ++ [TComma] ++ expr_tokens_of rs
    end.

  Definition expr_tokens (e : iexpr) : list tok := expr_tokens_of (ranges e).

  (* ---- from_list ---- *)

  Fixpoint insert_Z (x : Z) (l : list Z) : list Z :=
    match l with
    | [] => [x]
    | y :: ys => if x <? y then x :: l else if x =? y then l else y :: insert_Z x ys
    end.
  (* sorted({...}) *)
  Definition sort_dedup (l : list Z) : list Z := fold_right insert_Z [] l.

  (* loop state of from_list: start, end (None = unbound local), step (None) *)
  Fixpoint from_list_loop (start : Z) (end_ : option Z) (step : option Z)
           (acc_rev : list irange) (vs : list Z) : outcome (list irange) :=
    match vs with
    | [] =>
      match end_ with
      | None => Raise UnboundLocalError
      | Some e =>
        let s := match step with Some s => if s =? 0 then 1 else s | None => 1 end in
        do r <- mk_range start e s; Ok (rev (r :: acc_rev))
      end
    | v :: vs' =>
      match step with
      | None => from_list_loop start (Some v) (Some (v - start)) acc_rev vs'
      | Some s =>
        match end_ with
        | None => Raise UnboundLocalError
        | Some e =>
          if v - e =? s then from_list_loop start (Some v) step acc_rev vs'
          else
            do r <- mk_range start e s;
            from_list_loop v (if pinned_from_list then end_ else Some v) None (r :: acc_rev) vs'
        end
      end
    end.

  Definition from_list (vs : list Z) : outcome iexpr :=
    match vs with
    | [] => mk_expr []
    | [v] => do r <- mk_range v v 1; mk_expr [r]
    | _ =>
      match sort_dedup vs with
      | [] => Raise IndexError
      | s0 :: rest =>
        do rs <- from_list_loop s0 (if pinned_from_list then None else Some s0) None [] rest;
        mk_expr rs
      end
    end.
End Pinned.

(* ---- the objects the C13 theorems quantify over (flag-off = repaired code) ---- *)
(* an IntRange object: whatever the validating constructor returns *)
Definition IsRange (r : irange) : Prop := mk_range (rstart r) (rend r) (rstep r) = Ok r.
(* an IntRangeExpr object: built by IntRangeExpr.__init__ from a list of IntRange objects
   (from_str and from_list both end in this constructor) *)
Definition IsExpr (e : iexpr) : Prop := exists rs, Forall IsRange rs /\ mk_expr false rs = Ok e.
