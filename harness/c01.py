"""C01 / C02 — validation soundness and completeness: verdict of decode_* vs the acceptance model.

One harness serves both properties (c02.py re-exports it with id C02): every case compares the
implementation's verdict with the model's; a document the implementation accepts and the model
rejects is a C01 (soundness) alarm, the converse a C02 (completeness) alarm."""
import random
import sys
from pathlib import Path

sys.path.insert(0, str(Path(__file__).resolve().parent))
import core  # noqa: E402
import gen_template as G  # noqa: E402
import mutate as M  # noqa: E402

from openjd.model import decode_job_template, decode_environment_template, DecodeValidationError  # noqa: E402

_SRC_CHARS = "".join(sorted({c for p in (G.__file__, M.__file__) for c in Path(p).read_text() if ord(c) > 127}))

# charset sweep: probe strings per charset, checked against the live constr / FormatString types
PROBE_CHARS = ["\x00", "\x1f", " ", "~", "\x7f", "\x80", "\x9f", "\xa0", "@", "A", "Z", "[", "`", "a", "z", "{", "/", "0", "9", ":", "_", "-", "\t", "\n", "\r",
               "*", ".", "(", ")", ",", "\\", "?", "]", "#", "%", "&", "}", "<", ">", "$", "!", "'", '"', "|", "=", "é", "+"]


def charset_targets():
    from openjd.model.v2023_09 import _model as m
    import re
    return {
        "identifier": lambda s: re.match(m._identifier_regex, s) is not None,
        "standard": lambda s: re.match(m._standard_string_regex, s) is not None,
        "nocc_star": lambda s: re.match(m.ArgString._regex, s) is not None,
        "description": lambda s: m.Description.regex.match(s) is not None,
        "filefilter": lambda s: re.match(m._file_dialog_filter_pattern_regex, s) is not None,
        "combination": lambda s: m.CombinationExpr.regex.match(s) is not None,
    }


class C01(core.PropBase):
    id = "C01"
    side = __import__("os").environ.get("VERIF_SIDE", "sound")        # which disagreements this property owns
    component = "accept"
    extract_file = "ExtractAccept.v"
    chars = _SRC_CHARS + "".join(chr(i) for i in range(128, 256)) + "٣　 ²" + M.ODD_CHARS
    uses_table = True
    chunk_size = 50
    theorem_for_mismatch = "C01_table / validator iffs; model = implementation verdict correspondence"
    assumptions = [
        "pydantic 1.10 structural behaviour is the Gallina re-implementation Parse.v (validated here, not verified); inputs outside its domain "
        "(str(float), float(str)) are skipped and counted",
        "numbers: ints |z| < 2^53 and decimals as Decimal(str(float)); numeral strings in the domain of Numerals.v",
        "graphlib cycle detection is modelled by DepGraph.has_cycle (proved <-> not acyclic)",
    ]

    def gen_case(self, rng, i, tier):
        kind = "env" if i % 5 == 4 else "job"
        doc = G.gen_env_template(rng, full=rng.random() < 0.3) if kind == "env" else G.gen_job_template(rng, full=rng.random() < 0.25)
        k = i % 10
        if k == 0:
            return {"kind": kind, "doc": doc, "ops": []}
        n = 1 if k < 7 else rng.choice([2, 3])
        ops = M.mutate(rng, doc, n=n, not_json=True)
        return {"kind": kind, "doc": doc, "ops": [list(o) for o in ops]}

    def cases(self, tier, seed):
        rng = random.Random(seed * 7919 + (1 if self.id == "C01" else 2))
        n = 60000 if tier == "thorough" else 6000
        # charset sweep first (one case = one charset x one batch of strings)
        for cs in ("identifier", "standard", "nocc_star", "description", "filefilter", "combination"):
            strs = [""] + PROBE_CHARS + [a + b for a in PROBE_CHARS for b in PROBE_CHARS]
            strs += ["*." + a for a in PROBE_CHARS] + ["*.x" + a for a in PROBE_CHARS] + ["*.*", "*", "*.", "**", "*.*.*", "a" + "\n"]
            if tier == "thorough":
                strs += [a + b + c for a in PROBE_CHARS[::3] for b in PROBE_CHARS[::2] for c in PROBE_CHARS[::3]]
            for j in range(0, len(strs), 600):
                yield {"kind": "charset", "cs": cs, "strs": strs[j:j + 600]}
        for i in range(n):
            yield self.gen_case(rng, i, tier)

    def rule(self, tier):
        return ("generated job (80%) / environment (20%) templates: 10% unmutated (valid by construction), 60% one rule-typed mutation, 30% two or three "
                f"({len(M.OPS)} operators: required keys, unknown keys, explicit nulls, type confusion, length / charset / list-size / numeric boundaries on and "
                "beyond the limit, uniqueness, dependencies incl. cycles, parameter constraints and UI compatibility, ranges, combination expressions, host "
                "requirements incl. explicit nulls and capability names, versions, malformed format strings); plus an exhaustive charset sweep of strings of "
                "length <= 2 (3 in thorough) over boundary characters for each fixed regex. distinct = by document; non-trivial = mutated document")

    def samples(self, tier, seed):
        rng = random.Random(seed)
        out = []
        for i in range(1, 6):
            c = self.gen_case(rng, i, tier)
            out.append({"ops": c["ops"], "kind": c["kind"]})
        return out

    def nontrivial(self, case):
        return case["kind"] == "charset" or bool(case.get("ops"))

    def impl(self, case):
        if case["kind"] == "charset":
            f = charset_targets()[case["cs"]]
            return ["charset", [bool(f(s)) for s in case["strs"]]]
        doc = G.deep(case["doc"])
        try:
            (decode_job_template if case["kind"] == "job" else decode_environment_template)(template=doc)
            v = "accept"
        except DecodeValidationError:
            v = "reject"
        except BaseException as e:  # noqa: BLE001
            v = "raise:" + type(e).__name__
        if doc != case["doc"]:
            v += "+input-mutated"
        return ["verdict", v]

    def requests(self, case):
        if case["kind"] == "charset":
            return [["cs_ok", case["cs"], core.cps(s)] for s in case["strs"]]
        missing = core.doc_chars(case["doc"]) - set(self.chars)
        if missing:
            raise RuntimeError(f"characters not in the class table: {missing!r}")
        try:
            j = core.json_sx(case["doc"])
        except ValueError:
            return []
        return [["accept_" + case["kind"], j], ["accept_" + case["kind"] + "_spec", j]]

    @staticmethod
    def _verdict(r):
        if r[0] == "ok":
            return "accept" if r[1] == "true" else "reject"
        if r[0] == "raise" and r[1] == "RuntimeError":
            return "skip"
        return "model:" + str(r)

    def model_obs(self, case, replies):
        """["verdict", v] where v is the verdict of the acceptance model on the schema read from the live
        classes; when the spec oracle (same model on the frozen 2023-09 table) disagrees with it, the
        schema has changed meaning and the oracle's verdict is what the property demands: the case is then
        reported as ["verdict", oracle, "schema-changed: model-on-live-schema says <v>"]."""
        if case["kind"] == "charset":
            return ["charset", [r == "true" for r in replies]]
        if not replies:
            if M.has_set(case["doc"]):
                return ["verdict", "reject"]      # a set is no array and no object: nothing the schema allows
            return ["skip", "not-json"]
        g, sp = self._verdict(replies[0]), self._verdict(replies[1])
        if g == "skip" or sp == "skip":
            return ["skip", "outside-model-domain"]
        if g.startswith("model:") or sp.startswith("model:"):
            return ["model", g, sp]
        if g != sp:
            return ["verdict", sp, "schema-changed: the model on the live schema says " + g]
        return ["verdict", g]

    def run_chunk(self, chunk):
        res = super().run_chunk(chunk)
        # a case the model cannot judge is not a disagreement; and each property owns one direction
        keep = []
        for m in res.get("mismatches", []):
            mo, io = m["model"], m["impl"]
            if mo[0] == "skip":
                res["stats"]["skipped:" + mo[1]] = res["stats"].get("skipped:" + mo[1], 0) + 1
                continue
            if mo[0] == "verdict" and io[0] == "verdict" and not io[1].startswith("raise"):
                if io[1].split("+")[0] == mo[1] and "input-mutated" not in io[1]:
                    continue       # implementation agrees with what the property demands
                if self.side == "sound" and not (io[1].startswith("accept") and mo[1] == "reject"):
                    if "input-mutated" not in io[1]:
                        continue
                if self.side == "complete" and not (io[1].startswith("reject") and mo[1] == "accept"):
                    # "starting from such a document the verdict flips to rejection when ... a rule is broken":
                    # a mutant of a well-formed document that breaks a rule and is still accepted is C02's too
                    if not (m["case"].get("ops") and io[1].startswith("accept") and mo[1] == "reject"):
                        continue
            if io[0] == "verdict" and io[1].startswith("raise") and self.side == "complete":
                continue     # totality is C04's business; C01 reports it too (an escaped exception is not a rejection)
            keep.append(m)
        res["mismatches"] = keep
        return res

    def classify_case(self, case, obs):
        if case["kind"] == "charset":
            return ["charset:" + case["cs"]]
        ks = [obs[1].split("+")[0], case["kind"]]
        for o in case.get("ops") or []:
            ks.append("op:" + o[0] + ":" + obs[1].split("+")[0])
            ks.append("rule:" + o[1])
        if not case.get("ops"):
            ks.append("unmutated:" + obs[1])
        return ks

    def still_fails(self, case):
        drv = core.Driver(self.component)
        replies, _ = drv.ask(self.requests(case), self.prelude())
        i, m = self.impl(case), self.model_obs(case, replies)
        return m[0] == "verdict" and i[0] == "verdict" and i[1].split("+")[0] != m[1]

    def shrink_candidates(self, case):
        if case["kind"] == "charset":
            for s in case["strs"]:
                yield dict(case, strs=[s])
            return
        doc = case["doc"]

        def paths(x, base=()):
            out = []
            if isinstance(x, dict):
                for k, v in x.items():
                    out.append(base + (k,))
                    out += paths(v, base + (k,))
            elif isinstance(x, list):
                for i, v in enumerate(x):
                    out.append(base + (i,))
                    out += paths(v, base + (i,))
            return out

        for p in paths(doc):
            d = G.deep(doc)
            o = d
            for q in p[:-1]:
                o = o[q]
            try:
                del o[p[-1]]
            except (KeyError, IndexError, TypeError):
                continue
            yield dict(case, doc=d)
        # shorten long strings
        for p in paths(doc):
            o = doc
            for q in p:
                o = o[q]
            if isinstance(o, str) and len(o) > 8:
                for new in (o[: len(o) // 2], o[:8]):
                    d = G.deep(doc)
                    t = d
                    for q in p[:-1]:
                        t = t[q]
                    t[p[-1]] = new
                    yield dict(case, doc=d)


PROP = C01()

if __name__ == "__main__":
    sys.exit(core.main(PROP, sys.argv[1:]))
